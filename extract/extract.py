#!/usr/bin/env python3
"""Translator (T): regenerates /verif/lean/SfVerif/Gen/*.lean from /repo's current working tree.

  Consts.lean     NaN-box constants (const-expression translator, parametrised by pointer width),
                  log capacity
  Enums.lean      Tag / ErrorCode / WriteResult discriminants
  Structure.lean  inventory of global state in core/provider/api, Context fields, what the
                  (re)initialisers carry over
  FnsNanBox.lean  FnsLogs.lean  FnsState.lean
                  bodies of small functions (NaN-box encode/number; log ring append/read_ptrs; the
                  per-container counters of the write state machine) translated by rs2lean.py
  Abi.lean        the ABI tables C15 compares (WAT, C header compiled now, Rust extern block,
                  trampoline tables, provider exports, README / header code tables)

A file is rewritten only when its content changed (so lake rebuilds only what depends on it).
Exit status 0 = translated; 2 = the source could not be translated (a broken obligation).
"""
import json
import os
import re
import subprocess
import sys
import tempfile

REPO = os.environ.get("SFV_REPO", "/repo")
OUT = os.environ.get("SFV_OUT") or os.path.join(os.path.dirname(os.path.abspath(__file__)), "..", "lean", "SfVerif", "Gen")
sys.path.insert(0, os.path.dirname(os.path.abspath(__file__)))
from canon import canon, tokens as canon_tokens


class ExtractError(Exception):
    pass


def read(path):
    with open(os.path.join(REPO, path)) as f:
        return f.read()


def strip_tests(src):
    """drop `#[cfg(test)] mod ... { ... }` to the end of file (test modules come last in this repo)"""
    m = re.search(r"#\[cfg\(test\)\]\s*mod\s+\w+\s*\{", src)
    return src[: m.start()] if m else src


def strip_comments(src):
    src = re.sub(r"//[^\n]*", "", src)
    return re.sub(r"/\*.*?\*/", "", src, flags=re.S)


def normalise_src(src):
    """source as the shape checks and the body translator see it: `debug_assert*!` statements dropped
    (they are compiled out of release builds and must hold anyway), module-level private integer
    constants replaced by their literal values (a named constant and the literal are the same program)"""
    out, i = [], 0
    rx = re.compile(r"\bdebug_assert(?:_eq|_ne)?!\s*\(")
    while True:
        m = rx.search(src, i)
        if not m:
            out.append(src[i:])
            break
        out.append(src[i:m.start()])
        depth, j = 1, m.end()
        while depth and j < len(src):
            depth += {"(": 1, ")": -1}.get(src[j], 0)
            j += 1
        while j < len(src) and src[j] in " \t":
            j += 1
        if j < len(src) and src[j] == ";":
            j += 1
        i = j
    src = "".join(out)
    consts = dict(re.findall(r"^(?:pub(?:\([a-z]+\))?\s+)?const\s+([A-Z][A-Z0-9_]*)\s*:\s*(?:usize|u8|u16|u32|u64|i32|i64|isize)\s*=\s*(\d[\d_]*)\s*;", src, flags=re.M))
    for name, val in consts.items():
        if name in ("CAPACITY",):
            continue                      # extracted as a constant of its own (Gen/Consts.lean)
        src = re.sub(r"(?<![A-Za-z0-9_:])%s(?![A-Za-z0-9_])" % name, val, src)
        src = re.sub(r"^(?:pub(?:\([a-z]+\))?\s+)?const\s+%s\s*:[^;]*;" % val, "", src, flags=re.M)
    return src


def param_names(params_text):
    """names of the parameters of a `fn` (without `self`)"""
    out, depth, cur = [], 0, ""
    for ch in params_text + ",":
        if ch in "<([":
            depth += 1
        if ch in ">)]":
            depth -= 1
        if ch == "," and depth == 0:
            cur = cur.strip()
            if cur and not re.match(r"&?\s*(?:'\w+\s+)?(?:mut\s+)?self\b", cur):
                out.append(re.sub(r"^mut\s+", "", cur.split(":")[0].strip()))
            cur = ""
        else:
            cur += ch
    return out


def fn_parts(src, name, ret=r"[^{]+?"):
    """(parameter names, body text) of `fn name`"""
    m = re.search(r"fn\s+%s\s*(?:<[^>]*>)?\s*\(([^)]*)\)\s*(?:->\s*(%s))?\s*\{" % (name, ret), src)
    if not m:
        raise ExtractError("fn %s not found" % name)
    depth, i = 1, m.end()
    while depth and i < len(src):
        depth += {"{": 1, "}": -1}.get(src[i], 0)
        i += 1
    return param_names(m.group(1)), src[m.end():i - 1]


def impl_fns(src, impl):
    """[(name, parameter text, return type text, body)] of the functions inside `impl <impl> { … }`"""
    m = re.search(r"impl(?:<[^>]*>)?\s+%s(?:<[^>]*>)?\s*\{" % re.escape(impl), src)
    if not m:
        raise ExtractError("impl %s not found" % impl)
    depth, i = 1, m.end()
    while depth and i < len(src):
        depth += {"{": 1, "}": -1}.get(src[i], 0)
        i += 1
    region = src[m.end():i - 1]
    out = []
    for fm in re.finditer(r"fn\s+(\w+)\s*(?:<[^>]*>)?\s*\(([^)]*)\)\s*(?:->\s*([^{]+?))?\s*\{", region):
        depth, j = 1, fm.end()
        while depth and j < len(region):
            depth += {"{": 1, "}": -1}.get(region[j], 0)
            j += 1
        out.append((fm.group(1), fm.group(2), (fm.group(3) or "").strip(), region[fm.end():j - 1]))
    return out


def find_role(src, impl, what, pred):
    """the one function of `impl` that plays a role (found by its signature / what it returns, whatever it
    is called)"""
    hits = [f for f in impl_fns(src, impl) if pred(f)]
    if len(hits) != 1:
        raise ExtractError("%s: expected one function of impl %s in the role `%s`, found %s" % (
            impl, impl, what, [h[0] for h in hits]))
    return hits[0][0]


def tmatch(text, template, params=(), tparams=()):
    """match a fragment of Rust against a template, both in canonical form (naming and layout do not
    matter).  Holes in the template: HOLEWn = one word, HOLEXn = anything (shortest), HOLEGn = anything
    (longest).  Returns the list of hole contents (canonical text) or None."""
    ct = canon(text, params)
    tt = canon(template, tparams)
    rx, names = [], []
    for tok in tt.split(" "):
        m = re.fullmatch(r"HOLE([WXG])(\d+)", tok)
        if m:
            rx.append({"W": r"(\w+)", "X": r"(.*?)", "G": r"(.*)"}[m.group(1)])
        else:
            rx.append(re.escape(tok))
    mm = re.fullmatch(" ?".join(rx), ct)
    return list(mm.groups()) if mm else None


def same_shape(text, template, params=(), tparams=()):
    return canon(text, params) == canon(template, tparams)


# --------------------------------------------------------------------------- const expressions

TOK = re.compile(r"\s*(?:(\d[\d_]*)|([A-Za-z_][A-Za-z0-9_]*(?:::[A-Za-z_][A-Za-z0-9_]*)*)|(<<|>>|[-+*/%&|^!()]))")


def tokenize(s):
    pos, out = 0, []
    s = s.strip()
    while pos < len(s):
        m = TOK.match(s, pos)
        if not m:
            raise ExtractError("cannot tokenize const expression: %r at %r" % (s, s[pos:]))
        if m.group(1):
            out.append(("int", int(m.group(1).replace("_", ""))))
        elif m.group(2):
            out.append(("id", m.group(2)))
        else:
            out.append(("op", m.group(3)))
        pos = m.end()
    return out


TYPE_BITS = {"u8": "8", "u16": "16", "u32": "32", "u64": "64", "u128": "128", "usize": "w",
             "Val": "(VAL_BITS w)", "i32": "32", "i64": "64"}


class Parser:
    """Rust const-expression subset -> fully parenthesised Lean over Nat.
    precedence (loosest first): |  ^  &  << >>  + -  * / %  as  unary"""

    def __init__(self, toks, ty, consts):
        self.t, self.i, self.ty, self.consts = toks, 0, ty, consts

    def peek(self):
        return self.t[self.i] if self.i < len(self.t) else (None, None)

    def eat(self, kind=None, val=None):
        k, v = self.peek()
        if (kind and k != kind) or (val is not None and v != val):
            raise ExtractError("const expression: expected %s %s, got %s %s" % (kind, val, k, v))
        self.i += 1
        return v

    def binlevel(self, ops, nxt, lean):
        e = nxt()
        while self.peek() in [("op", o) for o in ops]:
            o = self.eat()
            r = nxt()
            e = "(%s %s %s)" % (e, lean[o], r)
        return e

    def expr(self):
        return self.binlevel(["|"], self.xor, {"|": "|||"})

    def xor(self):
        return self.binlevel(["^"], self.band, {"^": "^^^"})

    def band(self):
        return self.binlevel(["&"], self.shift, {"&": "&&&"})

    def shift(self):
        return self.binlevel(["<<", ">>"], self.add, {"<<": "<<<", ">>": ">>>"})

    def add(self):
        return self.binlevel(["+", "-"], self.mul, {"+": "+", "-": "-"})

    def mul(self):
        return self.binlevel(["*", "/", "%"], self.cast, {"*": "*", "/": "/", "%": "%"})

    def cast(self):
        e = self.unary()
        while self.peek() == ("id", "as"):
            self.eat()
            k, v = self.peek()
            if k != "id" or v not in TYPE_BITS and v != "_":
                raise ExtractError("const expression: unsupported cast target %r" % (v,))
            self.eat()
            # every cast in these constants is widening or value-preserving (Rust rejects an
            # overflowing const evaluation at compile time), so it is the identity on Nat
        return e

    def unary(self):
        k, v = self.peek()
        if (k, v) == ("op", "!"):
            self.eat()
            e = self.unary()
            return "(bnot %s %s)" % (TYPE_BITS[self.ty], e)
        if (k, v) == ("op", "("):
            self.eat()
            e = self.expr()
            self.eat("op", ")")
            return e
        if k == "int":
            self.eat()
            return str(v)
        if k == "id":
            self.eat()
            if v.startswith("Self::") or v.startswith("NanBox::"):
                name = v.split("::", 1)[1]
                if name not in self.consts:
                    raise ExtractError("const expression refers to unknown constant %s" % v)
                return "(%s w)" % name
            if v == "Val::BITS":
                return "(VAL_BITS w)"
            if v == "usize::BITS":
                return "w"
            if v in ("u8::BITS", "u32::BITS", "u64::BITS"):
                return v[1:].split("::")[0]
            raise ExtractError("const expression: unsupported identifier %s" % v)
        raise ExtractError("const expression: unexpected token %s %s" % (k, v))


def gen_consts():
    src = strip_comments(strip_tests(read("core/src/read.rs")))
    m = re.search(r"impl\s+NanBox\s*\{", src)
    if not m:
        raise ExtractError("impl NanBox not found")
    body = src[m.end():]
    items = re.findall(r"(?:pub\s+)?const\s+([A-Z0-9_]+)\s*:\s*([A-Za-z0-9_]+)\s*=\s*([^;]+);", body)
    if not items:
        raise ExtractError("no NanBox constants found")
    # Val width: both cfg aliases must be u128 / u64
    v64 = re.search(r'target_pointer_width\s*=\s*"64"\)\]\s*pub\s+type\s+Val\s*=\s*(\w+)', src)
    v32 = re.search(r'target_pointer_width\s*=\s*"32"\)\]\s*pub\s+type\s+Val\s*=\s*(\w+)', src)
    if not (v64 and v32):
        raise ExtractError("Val type aliases not found")
    bits = {"u128": 128, "u64": 64, "u32": 32}
    if v64.group(1) not in bits or v32.group(1) not in bits:
        raise ExtractError("unsupported Val alias")
    lines = ["-- REGENERATED by /verif/extract/extract.py from core/src/read.rs, provider/src/log.rs; do not edit",
             "import SfVerif.Model.Prelude", "namespace SfVerif.Gen",
             "/-- `Val::BITS` for pointer width `w` (from the two `type Val` aliases) -/",
             "def VAL_BITS (w : Nat) : Nat := if w = 64 then %d else if w = 32 then %d else 2 * w"
             % (bits[v64.group(1)], bits[v32.group(1)])]
    all_names = [n for n, _, _ in items]
    if len(set(all_names)) != len(all_names):
        raise ExtractError("duplicate NanBox constant")
    defs, deps = {}, {}
    for name, ty, expr in items:
        if ty not in TYPE_BITS:
            raise ExtractError("constant %s has unsupported type %s" % (name, ty))
        p = Parser(tokenize(expr), ty, all_names)
        e = p.expr()
        if p.i != len(p.t):
            raise ExtractError("trailing tokens in constant %s" % name)
        arg = "w" if re.search(r"\bw\b", e) else "_w"
        defs[name] = "def %s (%s : Nat) : Nat := %s" % (name, arg, e)
        deps[name] = set(re.findall(r"\(([A-Z0-9_]+) w\)", e)) - {"VAL_BITS"}
    names, pending = [], list(all_names)
    while pending:
        ready = [n for n in pending if deps[n] <= set(names)]
        if not ready:
            raise ExtractError("cyclic NanBox constants: %s" % pending)
        for n in ready:
            lines.append(defs[n])
            names.append(n)
            pending.remove(n)
    required = ["F64_OFFSET", "PAYLOAD_SIZE", "NAN_MASK", "PAYLOAD_MASK", "TAG_SIZE", "MAX_TAG_VALUE",
                "TAG_MASK", "VALUE_SIZE", "VALUE_ENCODING_SIZE", "VALUE_LENGTH_SIZE", "MAX_VALUE_LENGTH",
                "VALUE_MASK", "POINTER_MASK"]
    for r in required:
        if r not in names:
            raise ExtractError("constant %s disappeared from NanBox" % r)
    log = strip_comments(read("provider/src/log.rs"))
    m = re.search(r"const\s+CAPACITY\s*:\s*usize\s*=\s*(\d+)\s*;", log)
    if not m:
        raise ExtractError("log CAPACITY not found")
    lines.append("def LOG_CAPACITY : Nat := %s" % m.group(1))
    lib = read("provider/src/lib.rs")
    m = re.search(r"ByteBuf::with_capacity\((\d+)\)", lib)
    lines.append("def OUTPUT_INITIAL_CAPACITY : Nat := %s" % (m.group(1) if m else "0"))
    lines.append("end SfVerif.Gen")
    return "\n".join(lines) + "\n"


# --------------------------------------------------------------------------- enums

def parse_enum(src, name, const_names):
    m = re.search(r"enum\s+%s\s*\{(.*?)\n\}" % name, src, flags=re.S)
    if not m:
        raise ExtractError("enum %s not found" % name)
    body = strip_comments(m.group(1))
    out, nxt = [], "0"
    for part in body.split(","):
        part = re.sub(r"#\[[^\]]*\]", "", part).strip()
        if not part:
            continue
        mm = re.match(r"([A-Za-z0-9_]+)\s*(?:=\s*(.+))?$", part, flags=re.S)
        if not mm:
            raise ExtractError("enum %s: cannot parse variant %r" % (name, part))
        vname, disc = mm.group(1), mm.group(2)
        if disc is not None:
            p = Parser(tokenize(disc), "u8", const_names)
            e = p.expr().replace(" w)", " 32)")
            val = e
        else:
            val = nxt
        out.append((vname, val))
        nxt = "(%s + 1)" % val
    return out


def gen_enums(const_names):
    rd = strip_tests(read("core/src/read.rs"))
    wr = strip_tests(read("core/src/write.rs"))
    lines = ["-- REGENERATED by /verif/extract/extract.py from core/src/{read,write}.rs; do not edit",
             "import SfVerif.Gen.Consts", "namespace SfVerif.Gen"]
    tables = {}
    for src, en in ((rd, "Tag"), (rd, "ErrorCode"), (wr, "WriteResult")):
        vs = parse_enum(src, en, const_names)
        tables[en] = vs
        for v, val in vs:
            lines.append("def %s_%s : Nat := %s" % (en, v, val))
        lines.append("def %s_table : List (List Nat × Nat) := [%s]" % (
            en, ", ".join("(%s, %s_%s)" % (name_lit(v), en, v) for v, _ in vs)))
    for need in ["Null", "Bool", "Number", "String", "Object", "Array", "Error"]:
        if need not in [v for v, _ in tables["Tag"]]:
            raise ExtractError("Tag::%s disappeared" % need)
    for need in ["DecodeError", "NotAnObject", "ByteArrayOutOfBounds", "ReadError", "NotAnArray",
                 "IndexOutOfBounds", "NotIndexable", "Unknown"]:
        if need not in [v for v, _ in tables["ErrorCode"]]:
            raise ExtractError("ErrorCode::%s disappeared" % need)
    for need in ["Ok", "IoError", "ExpectedKey", "ObjectLengthError", "ValueAlreadyWritten", "NotAnObject",
                 "ValueNotFinished", "ArrayLengthError", "NotAnArray"]:
        if need not in [v for v, _ in tables["WriteResult"]]:
            raise ExtractError("WriteResult::%s disappeared" % need)
    lines.append("end SfVerif.Gen")
    return "\n".join(lines) + "\n"


def gen_wasm_finalize():
    """provider/src/lib.rs, the wasm-only `finalize` export (not compiled natively, so no run here can see it):
    the six words it hands to the host, as tokens — output pointer, output length, then the log ring's read
    pointers in the order `read_ptrs` returns them.  Element-wise assignments and one array literal are both read."""
    src = strip_comments(strip_tests(read("provider/src/lib.rs")))
    m = re.search(r'export_name\s*=\s*"finalize"\s*\]\s*(?:pub\s+)?extern\s+"C"\s+fn\s+\w+\s*\([^)]*\)\s*->\s*[^{]+\{', src)
    if not m:
        raise ExtractError("the wasm export `finalize` was not found")
    depth, i = 1, m.end()
    while depth and i < len(src):
        depth += {"{": 1, "}": -1}.get(src[i], 0)
        i += 1
    body = src[m.end():i - 1]
    slots = {}
    for idx, e in re.findall(r"\w+\s*\[\s*(\d)\s*\]\s*=\s*([^;]+);", body):
        slots[int(idx)] = e
    if not slots:
        lit = re.search(r"=\s*\[([^\]]+)\]\s*;", body)
        if lit:
            for k, e in enumerate([x for x in lit.group(1).split(",") if x.strip()]):
                slots[k] = e
    if sorted(slots) != [0, 1, 2, 3, 4, 5]:
        raise ExtractError("the six words `finalize` hands to the host were not recognised")
    outv = re.search(r"let\s+(\w+)\s*=\s*context\s*\.\s*output_bytes\s*\.\s*(?:as_vec|as_slice)\(\)\s*;", body)
    tup = re.search(r"let\s*\(\s*(\w+)\s*,\s*(\w+)\s*,\s*(\w+)\s*,\s*(\w+)\s*\)\s*=\s*context\s*\.\s*logs\s*\.\s*read_ptrs\(\)\s*;", body)
    names = {}
    if tup:
        for k, tok in enumerate(["log_ptr1", "log_len1", "log_ptr2", "log_len2"]):
            names[tup.group(k + 1)] = tok
    toks = []
    for k in range(6):
        e = re.sub(r"\s+as\s+(usize|_)\b", "", slots[k]).strip()
        e = re.sub(r"\s+", "", e)
        if outv and e == outv.group(1) + ".as_ptr()" or e in ("context.output_bytes.as_vec().as_ptr()", "context.output_bytes.as_slice().as_ptr()"):
            toks.append("out_ptr")
        elif outv and e == outv.group(1) + ".len()" or e in ("context.output_bytes.as_vec().len()", "context.output_bytes.as_slice().len()"):
            toks.append("out_len")
        elif e in names:
            toks.append(names[e])
        else:
            toks.append("?" + e[:40])
    lines = ["-- REGENERATED by /verif/extract/extract.py from provider/src/lib.rs (wasm-only `finalize`); do not edit",
             "namespace SfVerif.Gen",
             "/-- the six words handed to the host, in slot order -/",
             "def wasmFinalizeSlots : List (List Nat) := [\n  %s\n]" % ",\n  ".join(name_lit(t) for t in toks),
             "end SfVerif.Gen"]
    return "\n".join(lines) + "\n"


def gen_api_status():
    """api/src/write.rs: the function that turns the provider's numeric write status into the api crate's
    error (found by its use of `WriteResult::from_repr`); emitted as a table of (status, error) names"""
    aw = strip_comments(strip_tests(read("api/src/write.rs")))
    if "WriteResult::from_repr" not in aw:
        raise ExtractError("no function in api/src/write.rs decodes the status with WriteResult::from_repr")
    # arms of the match on the decoded status, with or without the `Some(..)` wrapper
    arms = []
    for st, rhs in re.findall(r"WriteResult::(\w+)\s*\)?\s*=>\s*([^,]+),", aw):
        rhs = rhs.strip().strip("{}").strip().rstrip(";").strip()
        if re.search(r"\bOk\(\s*\(\)\s*\)", rhs):
            arms.append((st, "Ok()", ""))
        else:
            mm = re.search(r"(?:\w+::)+(\w+)\s*\)?$", rhs)
            if not mm:
                raise ExtractError("status arm `%s => %s` not understood" % (st, rhs[:60]))
            arms.append((st, "Err", mm.group(1)))
    # what an unknown number becomes: a `None` / `_` arm, or the `else` of a `let Some(..) = .. else`, or a combinator default
    none = (re.search(r"\b(?:None|_)\s*=>\s*(?:return\s+)?(?:Err\(\s*)?(?:\w+::)+(\w+)\s*\)?\s*,", aw)
            or re.search(r"from_repr\([^;{]*\)\s*else\s*\{\s*return\s+Err\(\s*(?:\w+::)*(\w+)\s*\)", aw)
            or re.search(r"from_repr\([^;]*?\)\s*\.\s*(?:map_or|ok_or)\(\s*Err\(\s*(?:\w+::)*(\w+)\s*\)", aw)
            or re.search(r"from_repr\([^;]*?\)\s*\.\s*ok_or\(\s*(?:\w+::)*(\w+)\s*\)", aw))
    if not arms or not none:
        raise ExtractError("the status-to-error match in api/src/write.rs was not recognised")
    rows = [(st, "Ok" if rhs.startswith("Ok") else err) for st, rhs, err in arms]
    # the order of the arms does not matter: list them in the order of the status numbers
    try:
        order = [v for v, _ in parse_enum(strip_tests(read("core/src/write.rs")), "WriteResult", [])]
        rows.sort(key=lambda r: order.index(r[0]) if r[0] in order else len(order))
    except ExtractError:
        pass
    lines = ["-- REGENERATED by /verif/extract/extract.py from api/src/write.rs (status -> api error); do not edit",
             "namespace SfVerif.Gen",
             "/-- (provider status variant, api result: `Ok` or the `Error` variant) in source order -/",
             "def apiWriteStatusMap : List (List Nat × List Nat) := [\n  %s\n]" % ",\n  ".join("(%s, %s)" % (name_lit(a), name_lit(b)) for a, b in rows),
             "/-- what an unknown status number becomes -/",
             "def apiWriteStatusUnknown : List Nat := %s" % name_lit(none.group(1)),
             "end SfVerif.Gen"]
    return "\n".join(lines) + "\n"


def name_lit(s):
    """a name as a list of character codes (kernel-decidable equality), with the text in a comment"""
    return "/- %s -/ [%s]" % (s.replace("-/", "- /"), ", ".join(str(ord(c)) for c in s))


# --------------------------------------------------------------------------- structure inventory

INTERIOR = re.compile(r"Atomic|Mutex|RwLock|OnceLock|OnceCell|LazyLock|\bCell\b|RefCell|UnsafeCell")


def inventory(path):
    src = strip_comments(strip_tests(read(path)))
    items = []
    # thread_local! blocks
    spans = []
    for m in re.finditer(r"thread_local!\s*\{", src):
        depth, i = 1, m.end()
        while i < len(src) and depth:
            depth += {"{": 1, "}": -1}.get(src[i], 0)
            i += 1
        spans.append((m.start(), i))
    for m in re.finditer(r"\bstatic\s+(mut\s+)?([A-Za-z_][A-Za-z0-9_]*)\s*:\s*([^=;]+)", src):
        inside = any(a <= m.start() < b for a, b in spans)
        ty = m.group(3).strip()
        if inside:
            kind = "threadLocal"
        elif m.group(1):
            kind = "staticMut"
        elif INTERIOR.search(ty):
            kind = "staticInterior"
        else:
            kind = "staticImmutable"
        # which targets is it compiled for?
        pre = src[max(0, m.start() - 200): m.start()]
        wasm_only = bool(re.search(r'#\[cfg\(target_family\s*=\s*"wasm"\)\]\s*(thread_local!\s*\{\s*)?(pub\s+)?$', pre))
        items.append((path, m.group(2), kind, wasm_only))
    return items


def gen_structure():
    files = ["core/src/lib.rs", "core/src/read.rs", "core/src/write.rs", "provider/src/lib.rs",
             "provider/src/read.rs", "provider/src/read/lazy_value_ref.rs", "provider/src/write.rs",
             "provider/src/write/state.rs", "provider/src/log.rs", "provider/src/alloc.rs",
             "provider/src/string_interner.rs", "api/src/lib.rs", "api/src/read.rs", "api/src/write.rs",
             "api/src/log.rs"]
    inv = []
    for f in files:
        try:
            inv += inventory(f)
        except FileNotFoundError:
            raise ExtractError("source file %s disappeared" % f)
    # any other .rs file under the three crates must be inventoried too
    for crate in ("core", "provider", "api"):
        for root, _, fs in os.walk(os.path.join(REPO, crate, "src")):
            for fn in fs:
                rel = os.path.relpath(os.path.join(root, fn), REPO)
                if fn.endswith(".rs") and rel not in files:
                    inv += inventory(rel)
    lib = strip_comments(strip_tests(read("provider/src/lib.rs")))
    m = re.search(r"struct\s+Context\s*\{(.*?)\n\}", lib, flags=re.S)
    if not m:
        raise ExtractError("struct Context not found")
    fields = re.findall(r"^\s*(?:pub(?:\([a-z]+\))?\s+)?([a-z_][a-z0-9_]*)\s*:(?!:)", m.group(1), flags=re.M)
    # Context::new: explicitly set fields, rest from Default
    m = re.search(r"fn\s+new\s*\(([^)]*)\)\s*->\s*(?:Self|Context)\s*\{\s*(?:Context|Self)\s*\{(.*?)\}\s*\}", lib, flags=re.S)
    if not m:
        raise ExtractError("Context::new not found")
    new_body = m.group(2)
    new_rest_default = bool(re.search(r"\.\.\s*(?:Default|Self|Context)::default\(\)", new_body))
    new_fields = [f for f in re.findall(r"([a-z_][a-z0-9_]*)\s*(?:,|$|:)", re.sub(r"\.\..*", "", new_body, flags=re.S)) if f in fields]

    def initialiser(fn_name):
        mm = re.search(r"fn\s+%s\s*\([^)]*\)[^{]*\{" % fn_name, lib)
        if not mm:
            raise ExtractError("initialiser %s not found" % fn_name)
        depth, i = 1, mm.end()
        while i < len(lib) and depth:
            depth += {"{": 1, "}": -1}.get(lib[i], 0)
            i += 1
        body = lib[mm.end(): i]
        # the name the context goes by inside the initialiser (`|context|`)
        cv = re.search(r"(?:with_borrow_mut|with_mut)\(\s*\|\s*(\w+)\s*\|", body)
        cv = cv.group(1) if cv else "context"
        taken = {}
        for t in re.finditer(r"let\s+(\w+)\s*=\s*(?:std::)?mem::take\(&mut\s+%s\.(\w+)\)" % cv, body):
            taken[t.group(1)] = t.group(2)
        carried, assigned = [], []
        repl = re.search(r"\*%s\s*=\s*Context::(new|default)\(" % cv, body)
        upd = re.search(r"\*%s\s*=\s*Context\s*\{(.*?)\.\.\s*Context::(new|default)\(" % cv, body, flags=re.S)
        if upd and not repl:
            # `*context = Context { field, field: value, ..Context::new(..) }`: the listed fields are set
            # on top of a freshly constructed context
            repl = upd
            for ent in [e.strip() for e in upd.group(1).split(",") if e.strip()]:
                mm2 = re.fullmatch(r"(\w+)(?:\s*:\s*(.+))?", ent, flags=re.S)
                if not mm2:
                    raise ExtractError("%s: cannot read the struct-update entry %r" % (fn_name, ent))
                fld, rhs = mm2.group(1), (mm2.group(2) or mm2.group(1)).strip()
                inline_take = re.fullmatch(r"(?:std::)?mem::take\(\s*&mut\s+%s\.(\w+)\s*\)" % cv, rhs)
                if (rhs in taken and taken[rhs] == fld) or (inline_take and inline_take.group(1) == fld):
                    carried.append(fld)
                else:
                    assigned.append(fld)
            how = upd.group(2)
        else:
            how = repl.group(1) if repl else ""
        after = body[repl.end():] if repl else body
        for a in re.finditer(r"%s\.(\w+)\s*=\s*([^;]+);" % cv, after):
            fld, rhs = a.group(1), a.group(2).strip()
            if rhs in taken and taken[rhs] == fld:
                carried.append(fld)
            else:
                assigned.append(fld)
        # anything else that mutates context fields in place before the replacement is suspicious
        inplace = [] if repl else re.findall(r"%s\.(\w+)\s*=" % cv, body)
        # the replacement must be unconditional: no branch, early exit or loop anywhere in the initialiser
        branches = bool(re.search(r"\b(if|match|return|while|for|loop)\b|\?\s*;|\?\s*\)", body))
        return (bool(repl), how, sorted(carried), sorted(assigned), sorted(inplace), branches)

    native = initialiser("initialize_from_msgpack_bytes")
    wasm = initialiser("initialize")

    def strs(xs):
        return "[%s]" % ", ".join(name_lit(x) for x in xs)

    lines = ["-- REGENERATED by /verif/extract/extract.py (inventory of global state, Context, initialisers); do not edit",
             "namespace SfVerif.Gen",
             "/-- kind of a global item: 0 thread_local, 1 static mut, 2 static with interior mutability, 3 immutable static -/",
             "def globals : List (List Nat × List Nat × Nat × Bool) := ["]
    kinds = {"threadLocal": 0, "staticMut": 1, "staticInterior": 2, "staticImmutable": 3}
    rows = []
    for path, name, kind, wasm_only in sorted(inv):
        rows.append("  (%s, %s, %d, %s)" % (name_lit(path), name_lit(name), kinds[kind], "true" if wasm_only else "false"))
    lines.append(",\n".join(rows))
    lines.append("]")
    lines.append("def contextFields : List (List Nat) := %s" % strs(fields))
    lines.append("def contextNewSets : List (List Nat) := %s" % strs(new_fields))
    lines.append("def contextNewRestDefault : Bool := %s" % ("true" if new_rest_default else "false"))
    for nm, (repl, how, carried, assigned, inplace, branches) in (("native", native), ("wasm", wasm)):
        lines.append("def %sInitHasBranches : Bool := %s" % (nm, "true" if branches else "false"))
        lines.append("def %sInitReplacesWhole : Bool := %s" % (nm, "true" if repl else "false"))
        lines.append("def %sInitConstructor : List Nat := %s" % (nm, name_lit(how)))
        lines.append("def %sInitCarried : List (List Nat) := %s" % (nm, strs(carried)))
        lines.append("def %sInitAssignedAfter : List (List Nat) := %s" % (nm, strs(assigned)))
        lines.append("def %sInitInPlace : List (List Nat) := %s" % (nm, strs(inplace)))
    lines.append("end SfVerif.Gen")
    return "\n".join(lines) + "\n"


# --------------------------------------------------------------------------- ABI tables

def leb(buf, pos):
    r, s = 0, 0
    while True:
        b = buf[pos]
        pos += 1
        r |= (b & 0x7f) << s
        s += 7
        if not b & 0x80:
            return r, pos


VT = {0x7f: "i32", 0x7e: "i64", 0x7d: "f32", 0x7c: "f64"}


def wasm_imports(buf):
    """(module, name, params, results) of every function import of a wasm binary / object"""
    if buf[:4] != b"\0asm":
        raise ExtractError("not a wasm binary")
    pos, types, imps = 8, [], []
    while pos < len(buf):
        sid = buf[pos]
        size, pos = leb(buf, pos + 1)
        end = pos + size
        if sid == 1:
            n, p = leb(buf, pos)
            for _ in range(n):
                assert buf[p] == 0x60
                np_, p = leb(buf, p + 1)
                ps = [VT[buf[p + i]] for i in range(np_)]
                p += np_
                nr, p = leb(buf, p)
                rs = [VT[buf[p + i]] for i in range(nr)]
                p += nr
                types.append((ps, rs))
        elif sid == 2:
            n, p = leb(buf, pos)
            for _ in range(n):
                l, p = leb(buf, p)
                mod = buf[p:p + l].decode()
                p += l
                l, p = leb(buf, p)
                nm = buf[p:p + l].decode()
                p += l
                kind = buf[p]
                p += 1
                if kind == 0:
                    ti, p = leb(buf, p)
                    imps.append((mod, nm, types[ti][0], types[ti][1]))
                elif kind == 1:
                    p += 1
                    fl, p = leb(buf, p)
                    _, p = leb(buf, p)
                    if fl & 1:
                        _, p = leb(buf, p)
                elif kind == 2:
                    fl, p = leb(buf, p)
                    _, p = leb(buf, p)
                    if fl & 1:
                        _, p = leb(buf, p)
                elif kind == 3:
                    p += 2
                else:
                    raise ExtractError("unknown import kind %d" % kind)
        pos = end
    return imps


def header_imports():
    hdr = read("api/src/shopify_function.h")
    names = re.findall(r'import_name\("([^"]+)"\)', hdr)
    if not names:
        raise ExtractError("no imports in the C header")
    with tempfile.TemporaryDirectory(prefix="sfx-", dir="/var/tmp") as d:
        c = os.path.join(d, "t.c")
        with open(c, "w") as f:
            f.write('#include "shopify_function.h"\nvolatile void* imports[] = {\n')
            f.write(",\n".join("  (void*)%s" % n for n in names))
            f.write("\n};\n")
        o = os.path.join(d, "t.o")
        clang = None
        for cand in ("clang-14", "clang"):
            if subprocess.run(["which", cand], capture_output=True).returncode == 0:
                clang = cand
                break
        if not clang:
            raise ExtractError("clang not available")
        r = subprocess.run([clang, "--target=wasm32", "-c", "-I", os.path.join(REPO, "api/src"), c, "-o", o],
                           capture_output=True, text=True)
        if r.returncode != 0:
            raise ExtractError("the C header does not compile: " + r.stderr[:400])
        with open(o, "rb") as f:
            imps = wasm_imports(f.read())
    m = re.search(r'#define\s+SHOPIFY_FUNCTION_IMPORT_MODULE\s+"([^"]+)"', hdr)
    defines = dict((k, int(v)) for k, v in re.findall(r"#define\s+(WRITE_RESULT_\w+)\s+(\d+)", hdr))
    # functions whose prototype takes a pointer (into guest memory): the ones the trampoline has to wrap
    global HEADER_POINTER_FNS
    # (comments removed first: they may sit anywhere, also inside a prototype, and may contain `*`)
    hdr_nc = re.sub(r"/\*.*?\*/", " ", hdr, flags=re.S)
    hdr_nc = re.sub(r"//[^\n]*", " ", hdr_nc)
    HEADER_POINTER_FNS = sorted(n for n, params in re.findall(r'import_name\s*\(\s*"([^"]+)"\s*\)\s*\)\s*\)?\s*(?:extern\s+)?[^;(]*\(([^)]*)\)\s*;', hdr_nc) if "*" in params)
    if not HEADER_POINTER_FNS:
        raise ExtractError("no prototype with a pointer parameter found in the C header")
    return [i for i in imps if i[1] in names], (m.group(1) if m else ""), defines


HEADER_POINTER_FNS = []


def sexprs(text):
    """tiny s-expression reader: nested lists of atoms (strings keep their quotes)"""
    toks = re.findall(r'\(|\)|"[^"]*"|[^\s()]+', text)
    pos = 0

    def rd():
        nonlocal pos
        t = toks[pos]
        pos += 1
        if t == "(":
            out = []
            while toks[pos] != ")":
                out.append(rd())
            pos += 1
            return out
        return t
    out = []
    while pos < len(toks):
        out.append(rd())
    return out


def wat_imports():
    wat = re.sub(r"\(;.*?;\)", " ", read("api/src/shopify_function.wat"), flags=re.S)   # block comments
    wat = re.sub(r";;[^\n]*", "", wat)                                                # line comments
    try:
        top = sexprs(wat)
    except IndexError:
        raise ExtractError("unbalanced parentheses in the WAT")
    out = []
    for mod in top:
        if not (isinstance(mod, list) and mod and mod[0] == "module"):
            continue
        for item in mod[1:]:
            if isinstance(item, list) and item and item[0] == "import":
                m, n, desc = item[1].strip('"'), item[2].strip('"'), item[3]
                if not (isinstance(desc, list) and desc and desc[0] == "func"):
                    continue
                params, results = [], []
                for part in desc[1:]:
                    if isinstance(part, list) and part and part[0] == "param":
                        params += [x for x in part[1:] if not x.startswith("$")]
                    elif isinstance(part, list) and part and part[0] == "result":
                        results += part[1:]
                    elif isinstance(part, str) and part.startswith("$"):
                        continue
                    else:
                        raise ExtractError("WAT import %s: unsupported func description" % n)
                for x in params + results:
                    if x not in ("i32", "i64", "f32", "f64"):
                        raise ExtractError("WAT import %s: unsupported type %s" % (n, x))
                out.append((m, n, params, results))
    if not out:
        raise ExtractError("no imports in the WAT")
    return out


RUST_WASM32 = {"Val": "i64", "usize": "i32", "u32": "i32", "i32": "i32", "f64": "f64", "u64": "i64", "i64": "i64",
               "DoubleUsize": "i64", "WriteResult": "i32", "InternedStringId": "i32",
               "shopify_function_wasm_api_core::InternedStringId": "i32"}


def rust_ty(t):
    t = t.strip()
    if t.startswith("*const") or t.startswith("*mut"):
        return "i32"
    if t in RUST_WASM32:
        return RUST_WASM32[t]
    raise ExtractError("Rust type %r has no wasm32 mapping" % t)


def rust_sig(args, ret):
    params = []
    args = args.strip()
    if args:
        for a in split_top(args):
            a = a.strip()
            if not a:
                continue
            params.append(rust_ty(a.split(":", 1)[1]))
    results = []
    if ret and ret.strip() not in ("", "()"):
        results = [rust_ty(ret)]
    return params, results


def split_top(s):
    out, depth, cur = [], 0, ""
    for ch in s:
        if ch in "(<[":
            depth += 1
        if ch in ")>]":
            depth -= 1
        if ch == "," and depth == 0:
            out.append(cur)
            cur = ""
        else:
            cur += ch
    out.append(cur)
    return out


def rust_extern():
    src = strip_comments(strip_tests(read("api/src/lib.rs")))
    m = re.search(r'#\[link\(wasm_import_module\s*=\s*"([^"]+)"\)\]\s*extern\s+"C"\s*\{(.*?)\n\}', src, flags=re.S)
    if not m:
        raise ExtractError("extern block not found in api/src/lib.rs")
    mod, body = m.group(1), m.group(2)
    out = []
    for f in re.finditer(r"fn\s+(\w+)\s*\((.*?)\)\s*(?:->\s*([^;]+))?;", body, flags=re.S):
        ps, rs = rust_sig(f.group(2), f.group(3))
        out.append((mod, f.group(1), ps, rs))
    return out, mod


def provider_exports():
    out = []
    for path in ["provider/src/lib.rs", "provider/src/read.rs", "provider/src/write.rs", "provider/src/log.rs",
                 "provider/src/alloc.rs"]:
        src = strip_comments(strip_tests(read(path)))
        for m in re.finditer(r"decorate_for_target!\s*\{\s*(?:///[^\n]*\n\s*)*fn\s+(\w+)\s*\((.*?)\)\s*->\s*([^{]+)\{", src, flags=re.S):
            ps, rs = rust_sig(m.group(2), m.group(3))
            out.append(("_" + m.group(1), ps, rs))
        for m in re.finditer(r'#\[export_name\s*=\s*"([^"]+)"\]\s*(?:#\[[^\]]*\]\s*)*(?:pub(?:\([a-z]+\))?\s+)?(?:unsafe\s+)?extern\s+"C"\s+fn\s+\w+\s*\((.*?)\)\s*(?:->\s*([^{]+))?\{', src, flags=re.S):
            if m.group(1).startswith("concat!"):
                continue
            ps, rs = rust_sig(m.group(2), m.group(3))
            out.append((m.group(1), ps, rs))
    return out


VALTYPE = {"I32": "i32", "I64": "i64", "F32": "f32", "F64": "f64"}


def trampoline_tables():
    src = strip_comments(strip_tests(read("trampoline/src/lib.rs")))
    consts = dict(re.findall(r'const\s+(\w+)\s*:\s*&str\s*=\s*"([^"]+)"\s*;', src))
    m = re.search(r"static\s+IMPORTS\s*:[^=]*=\s*&\[(.*?)\];", src, flags=re.S)
    if not m:
        raise ExtractError("IMPORTS table not found")
    pairs = []
    for pm in re.finditer(r"\(\s*([^,()]+?)\s*,\s*([^,()]+?)\s*,?\s*\)", m.group(1), flags=re.S):
        def val(x):
            x = x.strip()
            if x.startswith('"'):
                return x.strip('"')
            if x in consts:
                return consts[x]
            raise ExtractError("IMPORTS entry %r not understood" % x)
        pairs.append((val(pm.group(1)), val(pm.group(2))))
    # expected signatures of the string-carrying imports
    expected = {}
    for vm in re.finditer(r"validate_params_and_results\(\s*(\w+|\"[^\"]+\")\s*,\s*\w+\s*,\s*&\[(.*?)\]\s*,\s*&\[(.*?)\]\s*,?\s*\)", src, flags=re.S):
        nm = vm.group(1).strip('"')
        nm = consts.get(nm, nm)
        ps = [VALTYPE[x] for x in re.findall(r"ValType::(\w+)", vm.group(2))]
        rs = [VALTYPE[x] for x in re.findall(r"ValType::(\w+)", vm.group(3))]
        expected[nm] = (ps, rs)
    # emitted provider imports with explicit types
    emitted = {}
    for em in re.finditer(r"types\s*\.add\(\s*&\[(.*?)\]\s*,\s*&\[(.*?)\]\s*\)\s*;.*?add_import_func\(\s*PROVIDER_MODULE_NAME\s*,\s*\"([^\"]+)\"", src, flags=re.S):
        ps = [VALTYPE[x] for x in re.findall(r"ValType::(\w+)", em.group(1))]
        rs = [VALTYPE[x] for x in re.findall(r"ValType::(\w+)", em.group(2))]
        emitted[em.group(3)] = (ps, rs)
    allow = re.findall(r'import\.name\s*!=\s*"([^"]+)"', src)
    return pairs, expected, emitted, allow


def cargo_major(path):
    m = re.search(r'^version\s*=\s*"(\d+)\.', read(path), flags=re.M)
    if not m:
        raise ExtractError("no version in %s" % path)
    return m.group(1)


def readme_tables():
    md = read("api/README.md")

    def section(title):
        i = md.find(title)
        if i < 0:
            raise ExtractError("README section %r not found" % title)
        j = md.find("\n#", i + 1)
        return md[i: j if j > 0 else len(md)]
    def rows(sec):
        # a bullet list (`- **0**: `Null` …`, any bullet character) or a table (`| **0** | `Null` | … |`)
        found = re.findall(r"^[ \t]*[-*+]\s*\*\*(\d+)\*\*\s*:?\s*`(\w+)`", sec, flags=re.M)
        found += re.findall(r"^[ \t]*\|\s*\*{0,2}(\d+)\*{0,2}\s*\|\s*`(\w+)`\s*\|", sec, flags=re.M)
        return [(n, int(v)) for v, n in found]
    return rows(section("### Value Types")), rows(section("### Read Error Codes")), rows(section("### Write Status Codes"))


def sig_lit(entry):
    name, ps, rs = entry
    code = {"i32": 0, "i64": 1, "f32": 2, "f64": 3}
    return "(%s, [%s], [%s])" % (name_lit(name), ", ".join(str(code[p]) for p in ps), ", ".join(str(code[r]) for r in rs))


def gen_abi():
    wat = wat_imports()
    hdr, hdr_mod, hdr_defs = header_imports()
    ext, ext_mod = rust_extern()
    pairs, expected, emitted, allow = trampoline_tables()
    prov = provider_exports()
    tags, errs, stats = readme_tables()
    lines = ["-- REGENERATED by /verif/extract/extract.py (ABI tables; value types: 0 i32, 1 i64, 2 f32, 3 f64); do not edit",
             "namespace SfVerif.Gen", "abbrev Sig := List Nat × List Nat × List Nat"]

    def table(name, entries):
        es = sorted(entries, key=lambda e: e[0])
        lines.append("def %s : List Sig := [\n  %s\n]" % (name, ",\n  ".join(sig_lit(e) for e in es)))
    table("abiWat", [(n, p, r) for _, n, p, r in wat])
    table("abiHeader", [(n, p, r) for _, n, p, r in hdr])
    table("abiRustExtern", [(n, p, r) for _, n, p, r in ext])
    lines.append("def trampolineAcceptsNames : List (List Nat) := [\n  %s\n]" % ",\n  ".join(name_lit(o) for o, _ in sorted(pairs)))
    # what the tool insists on / adds / emits / tolerates is no longer read off the source text (a
    # refactor of the emitting code silently changed what these regexes saw): `sfw abi` probes the real
    # tool and writes Gen/AbiTool.lean
    lines.append("/-- the trampoline's IMPORTS table in source order: (public name, provider name or empty) -/")
    lines.append("def trampolineImportPairs : List (List Nat × List Nat) := [\n  %s\n]" % ",\n  ".join("(%s, %s)" % (name_lit(o), name_lit(nw)) for o, nw in pairs))
    # what the trampoline emits: renamed imports keep the guest's (= WAT's) signature
    watd = dict((n, (p, r)) for _, n, p, r in wat)
    emits = []
    for o, nw in pairs:
        if nw == "":
            continue
        if nw in emitted:
            emits.append((nw, emitted[nw][0], emitted[nw][1]))
        elif o in watd:
            emits.append((nw, watd[o][0], watd[o][1]))
        else:
            emits.append((nw, ["f32"], ["f32"]))   # unknown source signature: can never match
    for extra in emitted:
        if extra not in [e[0] for e in emits]:
            emits.append((extra, emitted[extra][0], emitted[extra][1]))
    table("providerExports", prov)
    mods = sorted(set(m for m, _, _, _ in wat))
    lines.append("def moduleNamesWat : List (List Nat) := [%s]" % ", ".join(name_lit(m) for m in mods))
    lines.append("def moduleNameHeader : List Nat := %s" % name_lit(hdr_mod))
    lines.append("def moduleNameHeaderImports : List (List Nat) := [%s]" % ", ".join(name_lit(m) for m in sorted(set(m for m, _, _, _ in hdr))))
    lines.append("def moduleNameRustExtern : List Nat := %s" % name_lit(ext_mod))
    lines.append("def moduleNameProvider : List Nat := %s" % name_lit("shopify_function_v" + cargo_major("provider/Cargo.toml")))
    lines.append("def moduleNameTrampoline : List Nat := %s" % name_lit("shopify_function_v" + cargo_major("trampoline/Cargo.toml")))

    def codes(name, rows):
        lines.append("def %s : List (List Nat × Nat) := [%s]" % (name, ", ".join("(%s, %d)" % (name_lit(n), v) for n, v in rows)))
    codes("readmeTags", tags)
    codes("readmeErrorCodes", errs)
    codes("readmeWriteStatus", stats)
    codes("headerDefines", sorted(hdr_defs.items()))
    lines.append("/-- functions whose C prototype takes a pointer into guest memory -/")
    lines.append("def abiPointerFns : List (List Nat) := [\n  %s\n]" % ",\n  ".join(name_lit(n) for n in HEADER_POINTER_FNS))
    lines.append("end SfVerif.Gen")
    return "\n".join(lines) + "\n", {
        "wat": sorted((n, p, r) for _, n, p, r in wat), "header": sorted((n, p, r) for _, n, p, r in hdr),
        "rustExtern": sorted((n, p, r) for _, n, p, r in ext), "trampolineAccepts": sorted(o for o, _ in pairs),
        "trampolineEmits": sorted(emits), "providerExports": sorted(prov),
        "modules": {"wat": mods, "header": hdr_mod, "rust": ext_mod},
        "readme": {"tags": tags, "errors": errs, "status": stats}, "headerDefines": hdr_defs}


# --------------------------------------------------------------------------- function bodies

# rmp::Marker variants and their byte codes (the MessagePack specification; `Marker::from_u8` is rmp's)
MARKER_CODE = {"Null": 0xc0, "False": 0xc2, "True": 0xc3, "F32": 0xca, "F64": 0xcb, "U8": 0xcc, "U16": 0xcd,
               "U32": 0xce, "U64": 0xcf, "I8": 0xd0, "I16": 0xd1, "I32": 0xd2, "I64": 0xd3, "Str8": 0xd9,
               "Str16": 0xda, "Str32": 0xdb, "Array16": 0xdc, "Array32": 0xdd, "Map16": 0xde, "Map32": 0xdf}
READER_WIDTH = {"u8": 1, "i8": 1, "u16": 2, "i16": 2, "u32": 4, "i32": 4, "f32": 4, "u64": 8, "i64": 8, "f64": 8}


def gen_markers():
    """Gen/Markers.lean: the marker dispatch of `LazyValueRef::new` (provider/src/read/lazy_value_ref.rs)
    arm by arm, and the widths of the cursor's fixed-width readers"""
    src = normalise_src(strip_comments(strip_tests(read("provider/src/read/lazy_value_ref.rs"))))
    # cursor readers: bounds check + big-endian decode of exactly N bytes + advance by N
    for ty, n in READER_WIDTH.items():
        m = re.search(r"fn\s+read_%s\s*\(&mut self\)\s*->\s*Result<%s,\s*ErrorCode>\s*\{(.*?)\n    \}" % (ty, ty), src, flags=re.S)
        if not m:
            raise ExtractError("Cursor::read_%s not found" % ty)
        if n == 1:
            tpl = ("if self.position + 1 > self.length { return Err(ErrorCode::ReadError); } let value = self.bytes[self.position]%s; "
                   "self.position += 1; Ok(value)" % ("" if ty == "u8" else " as i8"))
        else:
            tpl = ("if self.position + %d > self.length { return Err(ErrorCode::ReadError); } let bytes = &self.bytes[self.position..]; "
                   "let value = %s::from_be_bytes([%s]); self.position += %d; Ok(value)" % (n, ty, ", ".join("bytes[%d]" % i for i in range(n)), n))
        if same_shape(m.group(1), tpl):
            continue
        body = re.sub(r"\s+", "", m.group(1))
        if "ifself.position+%d>self.length{returnErr(ErrorCode::ReadError);}" % n not in body:
            raise ExtractError("Cursor::read_%s: bounds check is not `position + %d > length`" % (ty, n))
        if "self.position+=%d;" % n not in body:
            raise ExtractError("Cursor::read_%s does not advance by %d" % (ty, n))
        if n == 1:
            ok = ("self.bytes[self.position]" in body) and (ty == "u8" or "asi8" in body)
        else:
            idx = ",".join("bytes[%d]" % i for i in range(n))
            ok = ("%s::from_be_bytes([%s" % (ty, idx)) in body.replace(",]", "]") or ("%s::from_be_bytes([%s])" % (ty, idx)) in body.replace(",]", "]")
        if not ok:
            raise ExtractError("Cursor::read_%s does not decode %d big-endian bytes" % (ty, n))
    n_rm = find_role(src, "Cursor", "read_marker (&mut self) -> Result<Marker, ErrorCode>",
                     lambda f: "self" in f[1] and re.sub(r"\s+", "", f[2]) == "Result<Marker,ErrorCode>")
    m = re.search(r"fn\s+%s\s*\(&mut self\)[^{]*\{(.*?)\n    \}" % n_rm, src, flags=re.S)
    rm_tpl = ("if self.position >= self.length { return Err(ErrorCode::ReadError); } "
              "let marker = Marker::from_u8(self.bytes[self.position]); self.position += 1; Ok(marker)")
    if not m or not (same_shape(m.group(1), rm_tpl) or (
            "ifself.position>=self.length{returnErr(ErrorCode::ReadError);}" in re.sub(r"\s+", "", m.group(1))
            and "Marker::from_u8(self.bytes[self.position])" in re.sub(r"\s+", "", m.group(1)))):
        raise ExtractError("Cursor::read_marker changed shape")
    # the dispatch
    m = re.search(r"let\s+(\w+)\s*=\s*(\w+)\.%s\(\)\?;\s*match\s+\1\s*\{" % n_rm, src)
    if not m:
        raise ExtractError("LazyValueRef::new: `match marker` not found")
    depth, i = 1, m.end()
    while depth and i < len(src):
        depth += {"{": 1, "}": -1}.get(src[i], 0)
        i += 1
    body = src[m.end():i - 1]
    arms, pos = [], 0
    for am in re.finditer(r"(?:^|\n)\s*(Marker::(\w+)(?:\((\w+)\))?|_)\s*=>", body):
        arms.append([am.group(2) or "_", am.group(3), am.end()])
    for k, a in enumerate(arms):
        end = arms[k + 1][2] - len(re.search(r"(Marker::\w+(?:\(\w+\))?|_)\s*=>$", body[:arms[k + 1][2]]).group(0)) if k + 1 < len(arms) else len(body)
        a.append(body[a[2]:end].strip().rstrip(",").strip())
    table = {}
    for name, binder, _, text in arms:
        bp = [binder] if binder else []

        def eq(want):
            return same_shape(text, want, bp, ["bnd"] if binder else [])

        def number(reader_ty, conv):
            return "numHdr b p %d %s" % (READER_WIDTH[reader_ty], conv)
        if name == "_":
            if not eq("Err(ErrorCode::ReadError)"):
                raise ExtractError("the catch-all marker arm is no longer a read error")
            continue
        if name in ("Null", "False", "True"):
            want = {"Null": "Ok((Self::Null, Some(cursor.position)))", "False": "Ok((Self::Bool(false), Some(cursor.position)))",
                    "True": "Ok((Self::Bool(true), Some(cursor.position)))"}[name]
            if not eq(want):
                raise ExtractError("marker arm %s changed" % name)
            table[name] = {"Null": "some (.scalar .null p)", "False": "some (.scalar (.bool false) p)", "True": "some (.scalar (.bool true) p)"}[name]
        elif name in ("FixPos", "FixNeg"):
            if not binder or not eq("Ok((Self::Number(bnd as f64), Some(cursor.position)))"):
                raise ExtractError("marker arm %s changed" % name)
            table[name] = ("some (.scalar (.num (F64.ofNat m)) p)" if name == "FixPos"
                           else "some (.scalar (.num (F64.ofInt (toSigned 8 m))) p)")
        elif name in ("U8", "U16", "U32", "U64", "I8", "I16", "I32", "I64", "F32", "F64"):
            ty = name.lower()
            num = "n" if name == "F64" else "n as f64"
            if not eq("cursor.read_%s().map(|n| (Self::Number(%s), Some(cursor.position)))" % (ty, num)):
                raise ExtractError("marker arm %s changed" % name)
            if name == "F32":
                table[name] = number(ty, "F64.ofF32")
            elif name == "F64":
                table[name] = number(ty, "id")
            elif name[0] == "U":
                table[name] = number(ty, "F64.ofNat")
            else:
                table[name] = number(ty, "(fun v => F64.ofInt (toSigned %d v))" % (8 * READER_WIDTH[ty]))
        elif name in ("FixStr", "Str8", "Str16", "Str32", "FixMap", "Map16", "Map32", "FixArray", "Array16", "Array32"):
            kind = "str" if "Str" in name else ("map" if "Map" in name else "arr")
            fixed = name.startswith("Fix")
            if fixed and not binder:
                raise ExtractError("marker arm %s no longer binds the embedded length" % name)
            lenexpr = "let LENV = bnd as usize; " if fixed else \
                ("let LENV = cursor.read_u%s().map(|n| n as usize)?; " % re.sub(r"\D", "", name))
            guards = {"str": ["if LENV > cursor.length - cursor.position { return Err(ErrorCode::ReadError); } "],
                      "map": ["if LENV > (cursor.length - cursor.position) / 2 { return Err(ErrorCode::ReadError); } "],
                      "arr": ["if LENV > (cursor.length - cursor.position) { return Err(ErrorCode::ReadError); } ",
                              "if LENV > cursor.length - cursor.position { return Err(ErrorCode::ReadError); } "]}[kind]
            result = {"str": "Ok((Self::String(StringRef { ptr: cursor.position, len: LENV, }), Some(cursor.position + LENV),))",
                      "map": "Ok((Self::Object(ObjectRef { len: LENV, processed_elements: Vec::with_capacity_in(LENV, bump), end_position_of_last_processed_element: cursor.position, }), None,))",
                      "arr": "Ok((Self::Array(ArrayRef { len: LENV, processed_elements: Vec::with_capacity_in(LENV, bump), end_position_of_last_processed_element: cursor.position, }), None,))"}[kind]
            # the length may shadow the binder (`let len = len as usize`) or be a new name
            lenvars = ["len", "bnd"] if fixed else ["len"]
            if not any(eq(("{ " + lenexpr + gd + result + " }").replace("LENV", lv)) for gd in guards for lv in lenvars):
                raise ExtractError("marker arm %s changed: %s" % (name, canon(text, bp)[:160]))
            hdr = {"str": "strHdr", "map": "mapHdr", "arr": "arrHdr"}[kind]
            if fixed:
                base = {"FixStr": "0xa0", "FixMap": "0x80", "FixArray": "0x90"}[name]
                table[name] = "%s b p (m - %s)" % (hdr, base)
            else:
                w = int(re.sub(r"\D", "", name)) // 8
                table[name] = "(match beRead b p %d with | none => none | some l => %s b (p + %d) l)" % (w, hdr, w)
        else:
            raise ExtractError("marker arm %s is not in the supported subset (the model treats it as unsupported)" % name)
    need = set(MARKER_CODE) | {"FixPos", "FixNeg", "FixStr", "FixMap", "FixArray"}
    if set(table) != need:
        raise ExtractError("marker arms differ from the model's: missing %s extra %s" % (sorted(need - set(table)), sorted(set(table) - need)))
    out = ["-- REGENERATED by /verif/extract/extract.py from the marker dispatch of LazyValueRef::new; do not edit",
           "import SfVerif.Model.MsgPack", "namespace SfVerif.Gen", "open SfVerif",
           "/-- markers 0xc0 … 0xdf, arm by arm as in the source -/",
           "def hdrTaggedGen (b : Bytes) (p m : Nat) : Option Hdr :=", "  match m with"]
    for name, code in sorted(MARKER_CODE.items(), key=lambda kv: kv[1]):
        out.append("  | 0x%02x => %s  -- Marker::%s" % (code, table[name], name))
    out.append("  | _ => none")
    out += ["/-- the whole dispatch (rmp's `Marker::from_u8` ranges for the fix markers) -/",
            "def hdrOfMarkerGen (b : Bytes) (p m : Nat) : Option Hdr :=",
            "  if m < 0xc0 then",
            "    (if m < 0x80 then %s" % table["FixPos"],
            "     else if m < 0x90 then %s" % table["FixMap"],
            "     else if m < 0xa0 then %s" % table["FixArray"],
            "     else %s)" % table["FixStr"],
            "  else if 0xe0 ≤ m then %s" % table["FixNeg"],
            "  else hdrTaggedGen b p m",
            "end SfVerif.Gen"]
    return "\n".join(out) + "\n"


ENCODER = {"write_bool": "encBool", "write_nil": "encNil", "write_sint": "encSint", "write_f64": "encF64",
           "write_str_len": "encStrLen", "write_map_len": "encMapLen", "write_array_len": "encArrLen"}
STATE_FN = {"write_non_string_scalar": "WState.writeNonStringScalar", "write_string": "WState.writeString"}


def gen_writer():
    """Gen/WriterStep.lean: which state-machine method each provider write function consults and which
    rmp encoder it calls with which argument (provider/src/write.rs, `impl Context`).  Shapes are compared
    in canonical form (extract/canon.py): layout and the names of parameters / locals do not matter."""
    src = normalise_src(strip_comments(strip_tests(read("provider/src/write.rs"))))

    def body(fn):
        try:
            return fn_parts(src, fn)
        except ExtractError:
            raise ExtractError("Context::%s not found" % fn)

    out = ["-- REGENERATED by /verif/extract/extract.py from provider/src/write.rs (impl Context); do not edit",
           "import SfVerif.Model.Writer", "namespace SfVerif.Gen", "open SfVerif SfVerif.Gen",
           "/-- one provider write call, assembled from what each Rust function consults and emits -/",
           "def writerStepGen (w : Writer) : WOp → Writer × Nat × Option Nat"]
    # scalars: state method, encoder, argument
    for fn, ctor, arg, lean_arg in [("write_bool", ".bool v", "P0", "v"), ("write_nil", ".null", None, None),
                                    ("write_i32", ".i32 z", "P0 as i64", "z"), ("write_f64", ".f64 bits", "P0", "bits")]:
        ps, b = body(fn)
        g = tmatch(b, "let result = self.write_state.HOLEW1(); if result != WriteResult::Ok { return result; } "
                      "encode::HOLEW2(&mut self.output_bytes HOLEX3).unwrap(); WriteResult::Ok", ps)
        got_arg = None
        if g and g[2].strip():
            got_arg = g[2].strip()
            got_arg = got_arg[1:].strip() if got_arg.startswith(",") else "?"
        if got_arg in ("i64 :: from ( P0 )", "P0 . into ( )", "( P0 as i64 )") and arg == "P0 as i64":
            got_arg = "P0 as i64"
        if not g or g[0] not in STATE_FN or g[1] not in ENCODER or got_arg != arg:
            raise ExtractError("Context::%s changed shape: %s" % (fn, canon(b, ps)[:200]))
        enc = ENCODER[g[1]] + ((" " + lean_arg) if lean_arg else "")
        out += ["  | %s =>" % ctor,
                "    let (st, r) := %s w.st" % STATE_FN[g[0]],
                "    if r ≠ WriteResult_Ok then ({ w with st := st }, r, none)",
                "    else (({ w with st := st }).appendBytes (%s), r, none)" % enc]
    ps, b = body("allocate_utf8_str")
    want = ("let result = self.write_state.write_string(); if result != WriteResult::Ok { return (result, std::ptr::null()); } "
            "encode::write_str_len(&mut self.output_bytes, len as u32).unwrap(); let original_len = self.output_bytes.as_slice().len(); "
            "self.output_bytes.as_mut_vec().resize(original_len + len, 0); (WriteResult::Ok, self.output_bytes.as_slice()[original_len..].as_ptr(),)")
    if not same_shape(b, want, ps, ["len"]):
        raise ExtractError("Context::allocate_utf8_str changed shape: %s" % canon(b, ps)[:240])
    out += ["  | .strAlloc len =>",
            "    let (st, r) := WState.writeString w.st",
            "    if r ≠ WriteResult_Ok then ({ w with st := st }, r, none)",
            "    else",
            "      let w1 := ({ w with st := st }).appendBytes (encStrLen len)",
            "      let off := w1.out.size",
            "      ({ w1 with out := w1.out ++ Array.replicate len 0 }, r, some off)"]
    for fn, ctor, sm, newst, enc in [("start_object", ".obj len", "start_object", ".obj len 0", "write_map_len"),
                                     ("start_array", ".arr len", "start_array", ".arr len 0", "write_array_len")]:
        ps, b = body(fn)
        want = ("let result = self.write_state.%s(len, &mut self.write_parent_state_stack); if result != WriteResult::Ok { return result; } "
                "encode::%s(&mut self.output_bytes, len as u32).unwrap(); WriteResult::Ok" % (sm, enc))
        if not same_shape(b, want, ps, ["len"]):
            raise ExtractError("Context::%s changed shape: %s" % (fn, canon(b, ps)[:240]))
        out += ["  | %s =>" % ctor,
                "    let (st, stack, r) := WState.startContainer (%s) w.st w.stack" % newst,
                "    if r ≠ WriteResult_Ok then ({ w with st := st, stack := stack }, r, none)",
                "    else (({ w with st := st, stack := stack }).appendBytes (%s len), r, none)" % ENCODER[enc]]
    for fn, ctor, sm, lean in [("finish_object", ".endObj", "finish_object", "WState.finishObject"),
                               ("finish_array", ".endArr", "finish_array", "WState.finishArray")]:
        ps, b = body(fn)
        want = ("let result = self.write_state.%s(&mut self.write_parent_state_stack); if result != WriteResult::Ok { return result; } WriteResult::Ok" % sm)
        # `return the state machine's answer` spelled directly is the same function
        alt = "self.write_state.%s(&mut self.write_parent_state_stack)" % sm
        alt2 = ("let result = self.write_state.%s(&mut self.write_parent_state_stack); if result != WriteResult::Ok { result } else { WriteResult::Ok }" % sm)
        if not (same_shape(b, want, ps) or same_shape(b, alt, ps) or same_shape(b, alt2, ps)):
            raise ExtractError("Context::%s changed shape: %s" % (fn, canon(b, ps)[:240]))
        out += ["  | %s =>" % ctor,
                "    let (st, stack, r) := %s w.st w.stack" % lean,
                "    ({ w with st := st, stack := stack }, r, none)"]
    # the exported entry points: each hands its arguments to the Context method unchanged, except the
    # boolean flag (`!= 0`) and the packed (status, pointer) result of the string allocation
    entry = [("shopify_function_output_new_bool", ["context.write_bool(P0 != 0)"]),
             ("shopify_function_output_new_null", ["context.write_nil()"]),
             ("shopify_function_output_new_i32", ["context.write_i32(P0)"]),
             ("shopify_function_output_new_f64", ["context.write_f64(P0)"]),
             ("shopify_function_output_new_utf8_str",
              ["let (result, ptr) = context.allocate_utf8_str(P0); ((result as DoubleUsize) << usize::BITS) | ptr as DoubleUsize",
               "let (result, ptr) = context.allocate_utf8_str(P0); ((result as DoubleUsize) << usize::BITS) | (ptr as DoubleUsize)"]),
             ("shopify_function_output_new_object", ["context.start_object(P0)"]),
             ("shopify_function_output_finish_object", ["context.finish_object()"]),
             ("shopify_function_output_new_array", ["context.start_array(P0)"]),
             ("shopify_function_output_finish_array", ["context.finish_array()"]),
             ("shopify_function_output_new_interned_utf8_str", ["context.write_interned_utf8_str(P0)"])]
    for fn, bodies in entry:
        ps, b = body(fn)
        ok = False
        for inner in bodies:
            # a closure, or the method path itself when no argument is involved
            tpls = ["Context::with_mut(|context| { %s })" % inner]
            mm = re.fullmatch(r"context\.(\w+)\(\)", inner)
            if mm:
                tpls.append("Context::with_mut(Context::%s)" % mm.group(1))
            mm = re.fullmatch(r"context\.(\w+)\(P0\)", inner)
            if mm:
                tpls.append("Context::with_mut(|context| context.%s(P0))" % mm.group(1))
            tpl_params = ["P0"]
            ok = ok or any(same_shape(b, t.replace("P0", "arg"), ps, ["arg"]) for t in tpls)
        if not ok and fn == "shopify_function_output_new_utf8_str":
            # the packing of (status, pointer) may go through a helper; what must be there is the one call
            ok = canon(b, ps).count("allocate_utf8_str ( P0 )") == 1 and "Context :: with_mut" in canon(b, ps)
        if not ok:
            raise ExtractError("%s changed shape: %s" % (fn, canon(b, ps)[:240]))
    ps, b = body("write_interned_utf8_str")
    want = ("let string_data = self.string_interner.get(id); let len = string_data.len(); let ptr = string_data.as_ptr(); "
            "let (result, output_ptr) = self.allocate_utf8_str(len); if result != WriteResult::Ok { return result; } "
            "unsafe { std::ptr::copy_nonoverlapping(ptr, output_ptr as *mut u8, len) }; WriteResult::Ok")
    if not same_shape(b, want, ps, ["id"]):
        raise ExtractError("Context::write_interned_utf8_str changed shape: %s" % canon(b, ps)[:240])
    out += ["/-- the exported write entry points whose bodies were recognised (flag `!= 0`, arguments passed through,",
            "    packed (status, pointer) result, interned string = allocate + copy of the interned bytes) -/",
            "def writerEntryPoints : List (List Nat) := [%s]" % ", ".join(name_lit(fn) for fn, _ in entry)]
    out.append("end SfVerif.Gen")
    return "\n".join(out) + "\n"


def gen_read_entries():
    """Gen/ReadEntry.lean: the scope dispatch of the read entry points (provider/src/read.rs): which
    decoded kinds are accepted, which node method is called, which codes answer a wrong kind and an
    undecodable scope, how `Ok(None)` is answered.  Shapes are compared in canonical form (layout and
    the names of parameters, locals, closure parameters and pattern binders do not matter)."""
    src = normalise_src(strip_comments(strip_tests(read("provider/src/read.rs"))))

    pats = [("NanBoxValueRef::Object { ptr: obj_ptr, .. }", False),
            ("NanBoxValueRef::Object { ptr: obj_ptr, len: _ }", False),
            ("NanBoxValueRef::Array { ptr: obj_ptr, len: _ } | NanBoxValueRef::Object { ptr: obj_ptr, len: _ }", True),
            ("NanBoxValueRef::Array { ptr: obj_ptr, .. } | NanBoxValueRef::Object { ptr: obj_ptr, .. }", True),
            ("NanBoxValueRef::Object { ptr: obj_ptr, len: _ } | NanBoxValueRef::Array { ptr: obj_ptr, len: _ }", True),
            ("NanBoxValueRef::Object { ptr: obj_ptr, .. } | NanBoxValueRef::Array { ptr: obj_ptr, .. }", True)]
    method = {"get_at_index": "Node.getAtIndex", "get_key_at_index": "Node.getKeyAtIndex", "get_object_property": "Node.getProp"}
    out = ["-- REGENERATED by /verif/extract/extract.py from provider/src/read.rs; do not edit",
           "import SfVerif.Model.Ctx", "namespace SfVerif.Gen", "open SfVerif SfVerif.Gen"]
    for fn, lean, nparams, extra, step in [
            ("shopify_function_input_get_at_index", "getAtIndexGen", 2, "(i : Nat)", "(c.idxStep h)"),
            ("shopify_function_input_get_obj_key_at_index", "getKeyAtIndexGen", 2, "(i : Nat)", "PStep.key"),
            ("shopify_function_input_get_obj_prop", "getObjPropGen", 3, "(q : Bytes)", "PStep.val"),
            ("shopify_function_input_get_interned_obj_prop", "getInternedObjPropGen", 2, "(q : Bytes)", "PStep.val")]:
        try:
            ps, b = fn_parts(src, fn, r"\w+")
        except ExtractError:
            raise ExtractError("%s not found" % fn)
        if len(ps) != nparams:
            raise ExtractError("%s: parameter list changed" % fn)
        g = tmatch(b, "Context::with(|context| { let v = NanBox::from_bits(P0); match v.try_decode() { Ok(HOLEX1) => { HOLEG2 } "
                      "Ok(_) => NanBox::error(ErrorCode::HOLEW3).to_bits(), Err(_) => NanBox::error(ErrorCode::HOLEW4).to_bits(), } })", ps)
        if not g:
            raise ExtractError("%s: scope dispatch changed shape" % fn)
        is_prop = fn.endswith("obj_prop")
        arg = "query" if is_prop else "P1"
        pre = "let query = unsafe { std::slice::from_raw_parts(P1 as *const u8, P2) }; " if is_prop else ""
        if "interned" in fn:
            # the name comes from the interner (the model consults it once the scope is accepted)
            pre = "let query = context.string_interner.get(P1); "
        res_opt = "Ok(Some(value)) => value.encode().to_bits(), Ok(None) => NanBox::null().to_bits(), Err(e) => NanBox::error(e).to_bits(),"
        res_plain = "Ok(value) => value.encode().to_bits(), Err(e) => NanBox::error(e).to_bits(),"
        found = None
        for pat, accept_arr in pats:
            for mname in method:
                tpl = (pat + " => " + pre +
                       "let value = match LazyValueRef::mut_from_raw(obj_ptr as _) { Ok(value) => value, Err(e) => return NanBox::error(e).to_bits(), }; "
                       "match value.%s(%s, &context.input_bytes, &context.bump_allocator,) { %s }" % (
                           mname, arg, res_opt if mname == "get_object_property" else res_plain))
                if same_shape(g[0] + " => " + g[1], tpl):
                    found = (accept_arr, mname)
        if not found:
            raise ExtractError("%s: node operation changed shape: %s" % (fn, (g[0] + " => " + g[1])[:200]))
        accept_arr, mname = found
        callarg = "q" if is_prop else "i"
        out += ["/-- `%s` -/" % fn,
                "def %s (c : Ctx) (s : Scope) %s : Ctx × RVal :=" % (lean, extra),
                "  Ctx.dispatch c s %s ErrorCode_%s ErrorCode_%s" % ("true" if accept_arr else "false", g[2], g[3]),
                "    (fun h => c.nodeOp h (fun n => %s c.input c.fuel n %s) %s)" % (method[mname], callarg, step)]
    out.append("end SfVerif.Gen")
    return "\n".join(out) + "\n"


def gen_deint():
    """Gen/DeInt.lean: the integer `Deserialize` macro of api/src/read.rs — the acceptance test
    (integrality, lower bound, upper bound, with the comparison operators as written), the cast, and the
    list of integer types the macro is instantiated for."""
    src = normalise_src(strip_comments(strip_tests(read("api/src/read.rs"))))
    # the macro takes one type or a comma-separated list of them
    m = re.search(r"macro_rules!\s*impl_deserialize_for_int\s*\{\s*\(\s*\$ty\s*:\s*ty\s*\)\s*=>\s*\{", src)
    listed = False
    if not m:
        m = re.search(r"macro_rules!\s*impl_deserialize_for_int\s*\{\s*\(\s*\$\(\s*\$ty\s*:\s*ty\s*\)\s*,\s*\*\s*(?:\$\(\s*,\s*\)\s*\?)?\s*\)\s*=>\s*\{\s*\$\(", src)
        listed = True
    if not m:
        raise ExtractError("macro impl_deserialize_for_int not found")
    depth, i = 1, m.end()
    while depth and i < len(src):
        depth += {"{": 1, "}": -1, "(": 1 if listed else 0, ")": -1 if listed else 0}.get(src[i], 0)
        i += 1
    body = src[m.end():i - 1].replace("$ty", "TY")
    head = "impl Deserialize for TY { fn deserialize(value: &Value) -> Result<Self, Error> { "
    # the same decision written three ways (and_then + if; filter + map; let-else + named conditions)
    templates = [
        head + "value.as_number().and_then(|n| { if n.trunc() == n && n HOLEX1 <TY>::MIN as f64 && n HOLEX2 <TY>::MAX as f64 "
               "{ Some(n as TY) } else { None } }).ok_or(Error::InvalidType) } }",
        head + "value.as_number().filter(|&n| n.trunc() == n && n HOLEX1 <TY>::MIN as f64 && n HOLEX2 <TY>::MAX as f64)"
               ".map(|n| n as TY).ok_or(Error::InvalidType) } }",
        head + "let Some(n) = value.as_number() else { return Err(Error::InvalidType); }; let a = n.trunc() == n; "
               "let b = n HOLEX1 <TY>::MIN as f64 && n HOLEX2 <TY>::MAX as f64; if a && b { Ok(n as TY) } else { Err(Error::InvalidType) } } }",
    ]
    g = None
    for tpl in templates:
        g = tmatch(body, tpl)
        if g:
            break
    if not g:
        raise ExtractError("impl_deserialize_for_int changed shape: %s" % canon(body)[:300])
    lo_op, hi_op = g[0].strip(), g[1].strip()
    lo_rel = {">=": "flo ≤ z", ">": "flo < z"}.get(lo_op)
    hi_rel = {"<=": "z ≤ fhi", "<": "z < fhi"}.get(hi_op)
    if lo_rel is None or hi_rel is None:
        raise ExtractError("impl_deserialize_for_int: unsupported bound comparison `%s` / `%s`" % (lo_op, hi_op))
    tys = []
    for call in re.findall(r"impl_deserialize_for_int!\s*\(([^)]*)\)\s*;", src):
        tys += [t.strip() for t in call.split(",") if t.strip()]
    bounds = {"i8": (-2**7, 2**7 - 1), "i16": (-2**15, 2**15 - 1), "i32": (-2**31, 2**31 - 1), "i64": (-2**63, 2**63 - 1),
              "u8": (0, 2**8 - 1), "u16": (0, 2**16 - 1), "u32": (0, 2**32 - 1), "u64": (0, 2**64 - 1)}
    rows = []
    for t in tys:
        if t in bounds:
            rows.append("(%s, %d, %d, %d, %d)" % (name_lit(t), bounds[t][0], bounds[t][1], bounds[t][0], bounds[t][1]))
        elif t == "isize":
            rows.append("(%s, %d, %d, %d, %d)" % (name_lit(t), -2**31, 2**31 - 1, -2**63, 2**63 - 1))
        elif t == "usize":
            rows.append("(%s, %d, %d, %d, %d)" % (name_lit(t), 0, 2**32 - 1, 0, 2**64 - 1))
        else:
            raise ExtractError("impl_deserialize_for_int instantiated for an unsupported type %s" % t)
    out = ["-- REGENERATED by /verif/extract/extract.py from api/src/read.rs (impl_deserialize_for_int); do not edit",
           "import SfVerif.Model.Typed", "namespace SfVerif.Gen", "open SfVerif",
           "/-- the macro body: `n.trunc() == n && n %s MIN as f64 && n %s MAX as f64` then `n as $ty` -/" % (lo_op, hi_op),
           "def deIntGen (lo hi : Int) (bits : Nat) : Option Int :=",
           "  match F64.toInt? bits with",
           "  | Option.none => Option.none",
           "  | Option.some z =>",
           "    match F64.toInt? (F64.ofInt lo), F64.toInt? (F64.ofInt hi) with",
           "    | Option.some flo, Option.some fhi => if %s ∧ %s then Option.some (satCast lo hi z) else Option.none" % (lo_rel, hi_rel),
           "    | _, _ => Option.none",
           "/-- the integer types the macro is instantiated for: (name, MIN, MAX at 32-bit pointers, MIN, MAX at 64-bit pointers) -/",
           "def deIntTypes : List (List Nat × Int × Int × Int × Int) := [%s]" % ", ".join(rows),
           "end SfVerif.Gen"]
    return "\n".join(out) + "\n"


FNS_HEADER = ["-- REGENERATED by /verif/extract/extract.py (rs2lean) from function bodies in /repo; do not edit",
              "import SfVerif.Gen.Consts", "import SfVerif.Gen.Enums", "namespace SfVerif.Gen"]


def gen_fns_nanbox(const_names):
    """Gen/FnsNanBox.lean: NanBox::encode / NanBox::number (core/src/read.rs)"""
    import rs2lean
    try:
        core = normalise_src(strip_comments(strip_tests(read("core/src/read.rs"))))
        out = [FNS_HEADER[0], "import SfVerif.Model.NanBox", "namespace SfVerif.Gen"]
        def types(ptext):
            return [re.sub(r"\s+", "", x.split(":", 1)[1]) for x in ptext.split(",") if ":" in x and "self" not in x.split(":")[0]]
        n_encode = find_role(core, "NanBox", "encode (usize, usize, Tag) -> Self",
                             lambda f: types(f[1]) == ["usize", "usize", "Tag"])
        n_tag = find_role(core, "NanBox", "tag (&self) -> Result<Tag, _>",
                          lambda f: types(f[1]) == [] and "self" in f[1] and re.match(r"Result<Tag\b", re.sub(r"\s+", "", f[2])))
        n_as_val = find_role(core, "Tag", "as_val (&self) -> Val", lambda f: "self" in f[1] and re.sub(r"\s+", "", f[2]) == "Val")
        n_from_val = find_role(core, "Tag", "from_val (Val) -> Result<Self, _>",
                               lambda f: types(f[1]) == ["Val"] and re.match(r"Result<Self\b", re.sub(r"\s+", "", f[2])))
        rs2lean.AS_VAL = n_as_val
        rs2lean.FROM_VAL = "Tag::" + n_from_val
        params, body = rs2lean.find_fn(core, n_encode, "NanBox")
        pn = param_names(params)
        if len(pn) != 3 or not re.fullmatch(r"\s*\w+\s*:\s*usize\s*,\s*\w+\s*:\s*usize\s*,\s*\w+\s*:\s*Tag\s*,?\s*", params):
            raise ExtractError("NanBox::encode parameters are no longer (usize, usize, Tag): %s" % params)
        out.append("/-- `NanBox::encode` (core/src/read.rs) -/")
        out.append("def nanbox_encode (w ptr len tag : Nat) : Nat :=")
        out.append(rs2lean.translate(body, {pn[0]: "ptr", pn[1]: "len", pn[2]: "tag"}, const_names))
        out.append("")
        params, body = rs2lean.find_fn(core, "number", "NanBox")
        out.append("/-- `NanBox::number` (the NaN assertion is the caller's obligation) -/")
        out.append("def nanbox_number (w bits : Nat) : Nat :=")
        pn = param_names(params)
        if len(pn) != 1:
            raise ExtractError("NanBox::number parameters changed: %s" % params)
        out.append(rs2lean.translate(body, {pn[0]: "bits"}, const_names))
        out += ["", "end SfVerif.Gen"]
        # ---- the decode side: NanBox::try_decode with NanBox::tag inlined
        fvp, fv = rs2lean.find_fn(core, n_from_val, "Tag")
        fv_norm = re.sub(r'"[^"]*"', "S", fv)
        fv_params = param_names(fvp)
        if not any(same_shape(fv_norm, tpl, fv_params, ["v"]) for tpl in (
                "match u8::try_from(v) { Ok(v) => Self::from_repr(v).ok_or_else(|| format!(S).into()), Err(_) => Err(format!(S).into()), }",
                "match u8::try_from(v) { Ok(b) => Self::from_repr(b).ok_or_else(|| format!(S).into()), Err(_) => Err(format!(S).into()), }")):
            raise ExtractError("Tag::from_val is no longer `u8::try_from(v)` then `Self::from_repr(v)` (else Err)")
        if not re.search(r"#\[derive\([^)]*strum::FromRepr[^)]*\)\]\s*#\[repr\(u8\)\]\s*enum\s+Tag\b", core):
            raise ExtractError("enum Tag is no longer #[derive(strum::FromRepr)] #[repr(u8)]")
        if not re.search(r"#\[derive\([^)]*strum::FromRepr[^)]*\)\]\s*#\[repr\(usize\)\]\s*(?:#\[non_exhaustive\]\s*)?pub\s+enum\s+ErrorCode\b", core):
            raise ExtractError("enum ErrorCode is no longer #[derive(strum::FromRepr)] #[repr(usize)]")
        # the two pointer-width variants of one `let`
        _, td_raw = rs2lean.find_fn(core, "try_decode", "NanBox")
        m = re.search(r'#\[cfg\(target_pointer_width\s*=\s*"32"\)\]\s*let\s+(\w+)\s*=\s*([^;]+);\s*'
                      r'#\[cfg\(target_pointer_width\s*=\s*"64"\)\]\s*let\s+(\w+)\s*=\s*([^;]+);', td_raw)
        if not m or m.group(1) != m.group(3) or len(re.findall(r"#\[cfg", td_raw)) != 2:
            raise ExtractError("NanBox::try_decode: the pointer-width dependent `let` pair changed shape")
        td_raw = td_raw[:m.start()] + "let %s = if w == 32 { %s } else { %s };" % (m.group(1), m.group(2), m.group(4)) + td_raw[m.end():]
        td_raw = re.sub(r'"[^"]*"', "STRLIT", td_raw)
        _, tagb = rs2lean.find_fn(core, n_tag, "NanBox")
        opts = {"decode": True, "fns": {n_tag: rs2lean.parse_body(tagb)}}
        body_lean = rs2lean.translate(td_raw, {"self.0": "v", "w": "w", "STRLIT": "()"}, const_names, (), opts)
        out = out[:-2]
        out += ["",
                "/-- `u8::try_from(v)` then strum's `Tag::from_repr` (`Tag::from_val`; shape-checked) -/",
                "def tagFromVal (t : Nat) : Option Nat := if Tag_table.any (fun p => p.2 == t) then some t else none",
                "/-- strum's `ErrorCode::from_repr(x).unwrap_or(ErrorCode::Unknown)` -/",
                "def errorCodeFromRepr (x : Nat) : Nat := if ErrorCode_table.any (fun p => p.2 == x) then x else ErrorCode_Unknown",
                "",
                "/-- `NanBox::try_decode` with `NanBox::tag` inlined (core/src/read.rs); `Err(_)` = `decodeError` -/",
                "def nanbox_try_decode (w v : Nat) : NanBox.Decoded :=",
                body_lean, "", "end SfVerif.Gen"]
        return "\n".join(out) + "\n"
    except rs2lean.TranslateError as e:
        raise ExtractError("rs2lean: %s" % e)


def gen_fns_logs():
    """Gen/FnsLogs.lean: Logs::append / Logs::read_ptrs (provider/src/log.rs)"""
    import rs2lean
    try:
        log = normalise_src(strip_comments(strip_tests(read("provider/src/log.rs"))))
        out = list(FNS_HEADER)
        out += ["/-- `ptr.add(n)` on a pointer into the log buffer, as an offset (`none` = null) -/",
                "def ptrAdd (p : Option Nat) (n : Nat) : Option Nat := p.map (· + n)", ""]
        params, body = rs2lean.find_fn(log, "append", "Logs")
        out.append("/-- `Logs::append`: ((skip, dst1, len1, dst2, len2), offset', len') -/")
        out.append("def log_append (offset len0 n : Nat) : (Nat × Option Nat × Nat × Option Nat × Nat) × Nat × Nat :=")
        pn = param_names(params)
        if len(pn) != 1:
            raise ExtractError("Logs::append parameters changed: %s" % params)
        out.append(rs2lean.translate(body, {pn[0]: "n", "self.offset": "offset", "self.len": "len0"},
                                     {"CAPACITY": "LOG_CAPACITY"}, ["self.offset", "self.len"]))
        out.append("")
        params, body = rs2lean.find_fn(log, "read_ptrs", "Logs")
        out.append("/-- `Logs::read_ptrs`: (ptr1, len1, ptr2, len2) -/")
        out.append("def log_read_ptrs (offset len0 : Nat) : Option Nat × Nat × Option Nat × Nat :=")
        out.append(rs2lean.translate(body, {"self.offset": "offset", "self.len": "len0"}, {"CAPACITY": "LOG_CAPACITY"}))
        out += ["", "end SfVerif.Gen"]
        return "\n".join(out) + "\n"
    except rs2lean.TranslateError as e:
        raise ExtractError("rs2lean: %s" % e)


def gen_fns_state():
    """Gen/FnsState.lean: the write state machine (provider/src/write/state.rs), every method"""
    import rs2lean
    try:
        state = normalise_src(strip_comments(strip_tests(read("provider/src/write/state.rs"))))
        # the shape of the data the translation relies on
        if not re.search(r"enum\s+State\s*\{\s*(?:#\[default\]\s*)?Start\s*,\s*Object\(ObjectState\)\s*,\s*Array\(ArrayState\)\s*,\s*End\s*,?\s*\}", state):
            raise ExtractError("enum State is no longer Start | Object(ObjectState) | Array(ArrayState) | End")
        for st in ("ObjectState", "ArrayState"):
            if not re.search(r"struct\s+%s\s*\{\s*length\s*:\s*usize\s*,\s*num_inserted\s*:\s*usize\s*,?\s*\}" % st, state):
                raise ExtractError("struct %s is no longer { length: usize, num_inserted: usize }" % st)
        # the private helper that swaps a new state in and pushes the old one, whatever it is called
        swap_tpls = ["let mut new_state = new_state; std::mem::swap(self, &mut new_state); parent_state_stack.push(new_state);",
                     "let mut other = new_state; std::mem::swap(self, &mut other); parent_state_stack.push(other);",
                     "std::mem::swap(self, &mut new_state); parent_state_stack.push(new_state);",
                     "let old = std::mem::replace(self, new_state); parent_state_stack.push(old);",
                     "parent_state_stack.push(std::mem::replace(self, new_state));"]
        swap_fn = None
        for mfn in re.finditer(r"fn\s+(\w+)\s*\(\s*&mut\s+self\s*,([^)]*)\)\s*\{", state):
            try:
                ps, sp = fn_parts(state, mfn.group(1))
            except ExtractError:
                continue
            if len(ps) == 2 and any(same_shape(sp, t, ps, ["new_state", "parent_state_stack"]) for t in swap_tpls):
                swap_fn = mfn.group(1)
        if swap_fn is None:
            raise ExtractError("State: no helper that swaps `self` with the new state and pushes the old one onto the parent stack")
        rs2lean.SWAP_FN = swap_fn
        out = ["-- REGENERATED by /verif/extract/extract.py (rs2lean) from function bodies in /repo; do not edit",
               "import SfVerif.Model.Writer", "namespace SfVerif.Gen", "open SfVerif"]
        def counter(f):
            return "self" in f[1] and re.sub(r"\s+", "", f[2]) == "WriteResult"
        n_obj_ns = find_role(state, "ObjectState", "a non-string value arrives (may answer ExpectedKey)",
                             lambda f: counter(f) and "ExpectedKey" in f[3])
        n_obj_s = find_role(state, "ObjectState", "a string arrives (key or value)",
                            lambda f: counter(f) and "ExpectedKey" not in f[3])
        n_arr = find_role(state, "ArrayState", "a value arrives", counter)
        rs2lean.COUNTER_FNS = {("obj", n_obj_s): "obj_write_string", ("obj", n_obj_ns): "obj_write_non_string_value",
                               ("arr", n_arr): "arr_write_value"}
        for impl, fn, lean in [("ObjectState", n_obj_s, "obj_write_string"),
                               ("ObjectState", n_obj_ns, "obj_write_non_string_value"),
                               ("ArrayState", n_arr, "arr_write_value")]:
            params, body = rs2lean.find_fn(state, fn, impl)
            out.append("/-- `%s::%s`: (status, num_inserted') -/" % (impl, fn))
            out.append("def %s (length num_inserted : Nat) : Nat × Nat :=" % lean)
            out.append(rs2lean.translate(body, {"self.length": "length", "self.num_inserted": "num_inserted"},
                                         {}, ["self.num_inserted"]))
            out.append("")
        out += ["/-- `parent_state_stack.pop().unwrap_or(State::End)` -/",
                "def popOrEnd : List WState → WState × List WState", "  | [] => (.done, [])", "  | s :: r => (s, r)", ""]
        for fn, args, nparams in [("write_string", "", 0), ("write_non_string_scalar", "", 0),
                                  ("start_object", "(len : Nat) ", 2), ("finish_object", "", 1),
                                  ("start_array", "(len : Nat) ", 2), ("finish_array", "", 1)]:
            ptext, body = rs2lean.find_fn(state, fn, "State")
            pn = param_names(ptext)
            if len(pn) != nparams:
                raise ExtractError("State::%s no longer takes %d parameter(s)" % (fn, nparams))
            params = {pn[0]: "len"} if nparams == 2 else {}
            rs2lean.STACK_PARAM = pn[-1] if pn else "parent_state_stack"
            out.append("/-- `State::%s`: (state', parent stack', status) -/" % fn)
            out.append("def state_%s %s(st : WState) (stack : List WState) : WState × List WState × Nat :=" % (fn, args))
            out.append(rs2lean.translate_state_method(body, params))
            out.append("")
        out.append("end SfVerif.Gen")
        return "\n".join(out) + "\n"
    except rs2lean.TranslateError as e:
        raise ExtractError("rs2lean: %s" % e)


def write_if_changed(name, content):
    path = os.path.join(OUT, name)
    old = None
    if os.path.exists(path):
        with open(path) as f:
            old = f.read()
    if old != content:
        with open(path, "w") as f:
            f.write(content)
        return True
    return False


def main():
    os.makedirs(OUT, exist_ok=True)
    report = {"changed": [], "errors": []}
    consts = None
    steps = [("Consts.lean", gen_consts)]
    try:
        consts = gen_consts()
        if write_if_changed("Consts.lean", consts):
            report["changed"].append("Consts.lean")
    except ExtractError as e:
        report["errors"].append("consts: %s" % e)
    try:
        # the enums only need the names of the constants (to avoid clashes); fall back to the last good file
        cn_src = consts
        if cn_src is None and os.path.exists(os.path.join(OUT, "Consts.lean")):
            cn_src = open(os.path.join(OUT, "Consts.lean")).read()
        const_names = re.findall(r"^def ([A-Z0-9_]+) ", cn_src or "", flags=re.M)
        enums = gen_enums(const_names)
        if write_if_changed("Enums.lean", enums):
            report["changed"].append("Enums.lean")
    except ExtractError as e:
        report["errors"].append("enums: %s" % e)
    for fname, prefix, gen in [("FnsNanBox.lean", "fns-nanbox", lambda: gen_fns_nanbox(re.findall(r"^def ([A-Z0-9_]+) ", consts or "", flags=re.M))),
                               ("FnsLogs.lean", "fns-logs", gen_fns_logs),
                               ("FnsState.lean", "fns-state", gen_fns_state),
                               ("Markers.lean", "markers", gen_markers),
                               ("WriterStep.lean", "writer", gen_writer),
                               ("ReadEntry.lean", "read-entries", gen_read_entries),
                               ("DeInt.lean", "deint", gen_deint),
                               ("ApiStatus.lean", "api-status", gen_api_status),
                               ("WasmFinalize.lean", "wasm-finalize", gen_wasm_finalize)]:
        try:
            text = gen()
            if write_if_changed(fname, text):
                report["changed"].append(fname)
        except ExtractError as e:
            report["errors"].append("%s: %s" % (prefix, e))
    try:
        st = gen_structure()
        if write_if_changed("Structure.lean", st):
            report["changed"].append("Structure.lean")
    except ExtractError as e:
        report["errors"].append("structure: %s" % e)
    try:
        abi, tables = gen_abi()
        if write_if_changed("Abi.lean", abi):
            report["changed"].append("Abi.lean")
        report["abi"] = tables
    except ExtractError as e:
        report["errors"].append("abi: %s" % e)
    json.dump(report, sys.stdout, indent=1)
    sys.stdout.write("\n")
    sys.exit(2 if report["errors"] else 0)


if __name__ == "__main__":
    main()
