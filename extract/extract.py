#!/usr/bin/env python3
"""Translator (T): regenerates /verif/lean/SfVerif/Gen/*.lean from /repo's current working tree.

  Consts.lean     NaN-box constants (const-expression translator, parametrised by pointer width),
                  log capacity
  Enums.lean      Tag / ErrorCode / WriteResult discriminants
  Structure.lean  inventory of global state in core/provider/api, Context fields, what the
                  (re)initialisers carry over
  FnsNanBox.lean  FnsLogs.lean  FnsState.lean
                  bodies of small functions (NaN-box encode/number; log ring append/read_ptrs; the
                  per-container counters of the write state machine) translated by rs2lean.py
  Abi.lean        the ABI tables C15 compares (WAT, C header compiled now, Rust extern block,
                  trampoline tables, provider exports, README / header code tables)

A file is rewritten only when its content changed (so lake rebuilds only what depends on it).
Exit status 0 = translated; 2 = the source could not be translated (a broken obligation).
"""
import json
import os
import re
import subprocess
import sys
import tempfile

REPO = os.environ.get("SFV_REPO", "/repo")
OUT = os.path.join(os.path.dirname(os.path.abspath(__file__)), "..", "lean", "SfVerif", "Gen")


class ExtractError(Exception):
    pass


def read(path):
    with open(os.path.join(REPO, path)) as f:
        return f.read()


def strip_tests(src):
    """drop `#[cfg(test)] mod ... { ... }` to the end of file (test modules come last in this repo)"""
    m = re.search(r"#\[cfg\(test\)\]\s*mod\s+\w+\s*\{", src)
    return src[: m.start()] if m else src


def strip_comments(src):
    src = re.sub(r"//[^\n]*", "", src)
    return re.sub(r"/\*.*?\*/", "", src, flags=re.S)


# --------------------------------------------------------------------------- const expressions

TOK = re.compile(r"\s*(?:(\d[\d_]*)|([A-Za-z_][A-Za-z0-9_]*(?:::[A-Za-z_][A-Za-z0-9_]*)*)|(<<|>>|[-+*/%&|^!()]))")


def tokenize(s):
    pos, out = 0, []
    s = s.strip()
    while pos < len(s):
        m = TOK.match(s, pos)
        if not m:
            raise ExtractError("cannot tokenize const expression: %r at %r" % (s, s[pos:]))
        if m.group(1):
            out.append(("int", int(m.group(1).replace("_", ""))))
        elif m.group(2):
            out.append(("id", m.group(2)))
        else:
            out.append(("op", m.group(3)))
        pos = m.end()
    return out


TYPE_BITS = {"u8": "8", "u16": "16", "u32": "32", "u64": "64", "u128": "128", "usize": "w",
             "Val": "(VAL_BITS w)", "i32": "32", "i64": "64"}


class Parser:
    """Rust const-expression subset -> fully parenthesised Lean over Nat.
    precedence (loosest first): |  ^  &  << >>  + -  * / %  as  unary"""

    def __init__(self, toks, ty, consts):
        self.t, self.i, self.ty, self.consts = toks, 0, ty, consts

    def peek(self):
        return self.t[self.i] if self.i < len(self.t) else (None, None)

    def eat(self, kind=None, val=None):
        k, v = self.peek()
        if (kind and k != kind) or (val is not None and v != val):
            raise ExtractError("const expression: expected %s %s, got %s %s" % (kind, val, k, v))
        self.i += 1
        return v

    def binlevel(self, ops, nxt, lean):
        e = nxt()
        while self.peek() in [("op", o) for o in ops]:
            o = self.eat()
            r = nxt()
            e = "(%s %s %s)" % (e, lean[o], r)
        return e

    def expr(self):
        return self.binlevel(["|"], self.xor, {"|": "|||"})

    def xor(self):
        return self.binlevel(["^"], self.band, {"^": "^^^"})

    def band(self):
        return self.binlevel(["&"], self.shift, {"&": "&&&"})

    def shift(self):
        return self.binlevel(["<<", ">>"], self.add, {"<<": "<<<", ">>": ">>>"})

    def add(self):
        return self.binlevel(["+", "-"], self.mul, {"+": "+", "-": "-"})

    def mul(self):
        return self.binlevel(["*", "/", "%"], self.cast, {"*": "*", "/": "/", "%": "%"})

    def cast(self):
        e = self.unary()
        while self.peek() == ("id", "as"):
            self.eat()
            k, v = self.peek()
            if k != "id" or v not in TYPE_BITS and v != "_":
                raise ExtractError("const expression: unsupported cast target %r" % (v,))
            self.eat()
            # every cast in these constants is widening or value-preserving (Rust rejects an
            # overflowing const evaluation at compile time), so it is the identity on Nat
        return e

    def unary(self):
        k, v = self.peek()
        if (k, v) == ("op", "!"):
            self.eat()
            e = self.unary()
            return "(bnot %s %s)" % (TYPE_BITS[self.ty], e)
        if (k, v) == ("op", "("):
            self.eat()
            e = self.expr()
            self.eat("op", ")")
            return e
        if k == "int":
            self.eat()
            return str(v)
        if k == "id":
            self.eat()
            if v.startswith("Self::") or v.startswith("NanBox::"):
                name = v.split("::", 1)[1]
                if name not in self.consts:
                    raise ExtractError("const expression refers to unknown constant %s" % v)
                return "(%s w)" % name
            if v == "Val::BITS":
                return "(VAL_BITS w)"
            if v == "usize::BITS":
                return "w"
            if v in ("u8::BITS", "u32::BITS", "u64::BITS"):
                return v[1:].split("::")[0]
            raise ExtractError("const expression: unsupported identifier %s" % v)
        raise ExtractError("const expression: unexpected token %s %s" % (k, v))


def gen_consts():
    src = strip_comments(strip_tests(read("core/src/read.rs")))
    m = re.search(r"impl\s+NanBox\s*\{", src)
    if not m:
        raise ExtractError("impl NanBox not found")
    body = src[m.end():]
    items = re.findall(r"(?:pub\s+)?const\s+([A-Z0-9_]+)\s*:\s*([A-Za-z0-9_]+)\s*=\s*([^;]+);", body)
    if not items:
        raise ExtractError("no NanBox constants found")
    # Val width: both cfg aliases must be u128 / u64
    v64 = re.search(r'target_pointer_width\s*=\s*"64"\)\]\s*pub\s+type\s+Val\s*=\s*(\w+)', src)
    v32 = re.search(r'target_pointer_width\s*=\s*"32"\)\]\s*pub\s+type\s+Val\s*=\s*(\w+)', src)
    if not (v64 and v32):
        raise ExtractError("Val type aliases not found")
    bits = {"u128": 128, "u64": 64, "u32": 32}
    if v64.group(1) not in bits or v32.group(1) not in bits:
        raise ExtractError("unsupported Val alias")
    lines = ["-- REGENERATED by /verif/extract/extract.py from core/src/read.rs, provider/src/log.rs; do not edit",
             "import SfVerif.Model.Prelude", "namespace SfVerif.Gen",
             "/-- `Val::BITS` for pointer width `w` (from the two `type Val` aliases) -/",
             "def VAL_BITS (w : Nat) : Nat := if w = 64 then %d else if w = 32 then %d else 2 * w"
             % (bits[v64.group(1)], bits[v32.group(1)])]
    all_names = [n for n, _, _ in items]
    if len(set(all_names)) != len(all_names):
        raise ExtractError("duplicate NanBox constant")
    defs, deps = {}, {}
    for name, ty, expr in items:
        if ty not in TYPE_BITS:
            raise ExtractError("constant %s has unsupported type %s" % (name, ty))
        p = Parser(tokenize(expr), ty, all_names)
        e = p.expr()
        if p.i != len(p.t):
            raise ExtractError("trailing tokens in constant %s" % name)
        arg = "w" if re.search(r"\bw\b", e) else "_w"
        defs[name] = "def %s (%s : Nat) : Nat := %s" % (name, arg, e)
        deps[name] = set(re.findall(r"\(([A-Z0-9_]+) w\)", e)) - {"VAL_BITS"}
    names, pending = [], list(all_names)
    while pending:
        ready = [n for n in pending if deps[n] <= set(names)]
        if not ready:
            raise ExtractError("cyclic NanBox constants: %s" % pending)
        for n in ready:
            lines.append(defs[n])
            names.append(n)
            pending.remove(n)
    required = ["F64_OFFSET", "PAYLOAD_SIZE", "NAN_MASK", "PAYLOAD_MASK", "TAG_SIZE", "MAX_TAG_VALUE",
                "TAG_MASK", "VALUE_SIZE", "VALUE_ENCODING_SIZE", "VALUE_LENGTH_SIZE", "MAX_VALUE_LENGTH",
                "VALUE_MASK", "POINTER_MASK"]
    for r in required:
        if r not in names:
            raise ExtractError("constant %s disappeared from NanBox" % r)
    log = strip_comments(read("provider/src/log.rs"))
    m = re.search(r"const\s+CAPACITY\s*:\s*usize\s*=\s*(\d+)\s*;", log)
    if not m:
        raise ExtractError("log CAPACITY not found")
    lines.append("def LOG_CAPACITY : Nat := %s" % m.group(1))
    lib = read("provider/src/lib.rs")
    m = re.search(r"ByteBuf::with_capacity\((\d+)\)", lib)
    lines.append("def OUTPUT_INITIAL_CAPACITY : Nat := %s" % (m.group(1) if m else "0"))
    lines.append("end SfVerif.Gen")
    return "\n".join(lines) + "\n"


# --------------------------------------------------------------------------- enums

def parse_enum(src, name, const_names):
    m = re.search(r"enum\s+%s\s*\{(.*?)\n\}" % name, src, flags=re.S)
    if not m:
        raise ExtractError("enum %s not found" % name)
    body = strip_comments(m.group(1))
    out, nxt = [], "0"
    for part in body.split(","):
        part = re.sub(r"#\[[^\]]*\]", "", part).strip()
        if not part:
            continue
        mm = re.match(r"([A-Za-z0-9_]+)\s*(?:=\s*(.+))?$", part, flags=re.S)
        if not mm:
            raise ExtractError("enum %s: cannot parse variant %r" % (name, part))
        vname, disc = mm.group(1), mm.group(2)
        if disc is not None:
            p = Parser(tokenize(disc), "u8", const_names)
            e = p.expr().replace(" w)", " 32)")
            val = e
        else:
            val = nxt
        out.append((vname, val))
        nxt = "(%s + 1)" % val
    return out


def gen_enums(const_names):
    rd = strip_tests(read("core/src/read.rs"))
    wr = strip_tests(read("core/src/write.rs"))
    lines = ["-- REGENERATED by /verif/extract/extract.py from core/src/{read,write}.rs; do not edit",
             "import SfVerif.Gen.Consts", "namespace SfVerif.Gen"]
    tables = {}
    for src, en in ((rd, "Tag"), (rd, "ErrorCode"), (wr, "WriteResult")):
        vs = parse_enum(src, en, const_names)
        tables[en] = vs
        for v, val in vs:
            lines.append("def %s_%s : Nat := %s" % (en, v, val))
        lines.append("def %s_table : List (List Nat × Nat) := [%s]" % (
            en, ", ".join("(%s, %s_%s)" % (name_lit(v), en, v) for v, _ in vs)))
    for need in ["Null", "Bool", "Number", "String", "Object", "Array", "Error"]:
        if need not in [v for v, _ in tables["Tag"]]:
            raise ExtractError("Tag::%s disappeared" % need)
    for need in ["DecodeError", "NotAnObject", "ByteArrayOutOfBounds", "ReadError", "NotAnArray",
                 "IndexOutOfBounds", "NotIndexable", "Unknown"]:
        if need not in [v for v, _ in tables["ErrorCode"]]:
            raise ExtractError("ErrorCode::%s disappeared" % need)
    for need in ["Ok", "IoError", "ExpectedKey", "ObjectLengthError", "ValueAlreadyWritten", "NotAnObject",
                 "ValueNotFinished", "ArrayLengthError", "NotAnArray"]:
        if need not in [v for v, _ in tables["WriteResult"]]:
            raise ExtractError("WriteResult::%s disappeared" % need)
    lines.append("end SfVerif.Gen")
    return "\n".join(lines) + "\n"


def name_lit(s):
    """a name as a list of character codes (kernel-decidable equality), with the text in a comment"""
    return "/- %s -/ [%s]" % (s.replace("-/", "- /"), ", ".join(str(ord(c)) for c in s))


# --------------------------------------------------------------------------- structure inventory

INTERIOR = re.compile(r"Atomic|Mutex|RwLock|OnceLock|OnceCell|LazyLock|\bCell\b|RefCell|UnsafeCell")


def inventory(path):
    src = strip_comments(strip_tests(read(path)))
    items = []
    # thread_local! blocks
    spans = []
    for m in re.finditer(r"thread_local!\s*\{", src):
        depth, i = 1, m.end()
        while i < len(src) and depth:
            depth += {"{": 1, "}": -1}.get(src[i], 0)
            i += 1
        spans.append((m.start(), i))
    for m in re.finditer(r"\bstatic\s+(mut\s+)?([A-Za-z_][A-Za-z0-9_]*)\s*:\s*([^=;]+)", src):
        inside = any(a <= m.start() < b for a, b in spans)
        ty = m.group(3).strip()
        if inside:
            kind = "threadLocal"
        elif m.group(1):
            kind = "staticMut"
        elif INTERIOR.search(ty):
            kind = "staticInterior"
        else:
            kind = "staticImmutable"
        # which targets is it compiled for?
        pre = src[max(0, m.start() - 200): m.start()]
        wasm_only = bool(re.search(r'#\[cfg\(target_family\s*=\s*"wasm"\)\]\s*(thread_local!\s*\{\s*)?(pub\s+)?$', pre))
        items.append((path, m.group(2), kind, wasm_only))
    return items


def gen_structure():
    files = ["core/src/lib.rs", "core/src/read.rs", "core/src/write.rs", "provider/src/lib.rs",
             "provider/src/read.rs", "provider/src/read/lazy_value_ref.rs", "provider/src/write.rs",
             "provider/src/write/state.rs", "provider/src/log.rs", "provider/src/alloc.rs",
             "provider/src/string_interner.rs", "api/src/lib.rs", "api/src/read.rs", "api/src/write.rs",
             "api/src/log.rs"]
    inv = []
    for f in files:
        try:
            inv += inventory(f)
        except FileNotFoundError:
            raise ExtractError("source file %s disappeared" % f)
    # any other .rs file under the three crates must be inventoried too
    for crate in ("core", "provider", "api"):
        for root, _, fs in os.walk(os.path.join(REPO, crate, "src")):
            for fn in fs:
                rel = os.path.relpath(os.path.join(root, fn), REPO)
                if fn.endswith(".rs") and rel not in files:
                    inv += inventory(rel)
    lib = strip_comments(strip_tests(read("provider/src/lib.rs")))
    m = re.search(r"struct\s+Context\s*\{(.*?)\n\}", lib, flags=re.S)
    if not m:
        raise ExtractError("struct Context not found")
    fields = re.findall(r"^\s*(?:pub(?:\([a-z]+\))?\s+)?([a-z_][a-z0-9_]*)\s*:(?!:)", m.group(1), flags=re.M)
    # Context::new: explicitly set fields, rest from Default
    m = re.search(r"fn\s+new\s*\(([^)]*)\)\s*->\s*Self\s*\{\s*Context\s*\{(.*?)\}\s*\}", lib, flags=re.S)
    if not m:
        raise ExtractError("Context::new not found")
    new_body = m.group(2)
    new_rest_default = bool(re.search(r"\.\.\s*Default::default\(\)", new_body))
    new_fields = [f for f in re.findall(r"([a-z_][a-z0-9_]*)\s*(?:,|$|:)", re.sub(r"\.\..*", "", new_body, flags=re.S)) if f in fields]

    def initialiser(fn_name):
        mm = re.search(r"fn\s+%s\s*\([^)]*\)[^{]*\{" % fn_name, lib)
        if not mm:
            raise ExtractError("initialiser %s not found" % fn_name)
        depth, i = 1, mm.end()
        while i < len(lib) and depth:
            depth += {"{": 1, "}": -1}.get(lib[i], 0)
            i += 1
        body = lib[mm.end(): i]
        repl = re.search(r"\*context\s*=\s*Context::(new|default)\(", body)
        taken = {}
        for t in re.finditer(r"let\s+(\w+)\s*=\s*(?:std::)?mem::take\(&mut\s+context\.(\w+)\)", body):
            taken[t.group(1)] = t.group(2)
        after = body[repl.end():] if repl else body
        carried, assigned = [], []
        for a in re.finditer(r"context\.(\w+)\s*=\s*([^;]+);", after):
            fld, rhs = a.group(1), a.group(2).strip()
            if rhs in taken and taken[rhs] == fld:
                carried.append(fld)
            else:
                assigned.append(fld)
        # anything else that mutates context fields in place before the replacement is suspicious
        inplace = [] if repl else re.findall(r"context\.(\w+)\s*=", body)
        return (bool(repl), repl.group(1) if repl else "", sorted(carried), sorted(assigned), sorted(inplace))

    native = initialiser("initialize_from_msgpack_bytes")
    wasm = initialiser("initialize")

    def strs(xs):
        return "[%s]" % ", ".join(name_lit(x) for x in xs)

    lines = ["-- REGENERATED by /verif/extract/extract.py (inventory of global state, Context, initialisers); do not edit",
             "namespace SfVerif.Gen",
             "/-- kind of a global item: 0 thread_local, 1 static mut, 2 static with interior mutability, 3 immutable static -/",
             "def globals : List (List Nat × List Nat × Nat × Bool) := ["]
    kinds = {"threadLocal": 0, "staticMut": 1, "staticInterior": 2, "staticImmutable": 3}
    rows = []
    for path, name, kind, wasm_only in sorted(inv):
        rows.append("  (%s, %s, %d, %s)" % (name_lit(path), name_lit(name), kinds[kind], "true" if wasm_only else "false"))
    lines.append(",\n".join(rows))
    lines.append("]")
    lines.append("def contextFields : List (List Nat) := %s" % strs(fields))
    lines.append("def contextNewSets : List (List Nat) := %s" % strs(new_fields))
    lines.append("def contextNewRestDefault : Bool := %s" % ("true" if new_rest_default else "false"))
    for nm, (repl, how, carried, assigned, inplace) in (("native", native), ("wasm", wasm)):
        lines.append("def %sInitReplacesWhole : Bool := %s" % (nm, "true" if repl else "false"))
        lines.append("def %sInitConstructor : List Nat := %s" % (nm, name_lit(how)))
        lines.append("def %sInitCarried : List (List Nat) := %s" % (nm, strs(carried)))
        lines.append("def %sInitAssignedAfter : List (List Nat) := %s" % (nm, strs(assigned)))
        lines.append("def %sInitInPlace : List (List Nat) := %s" % (nm, strs(inplace)))
    lines.append("end SfVerif.Gen")
    return "\n".join(lines) + "\n"


# --------------------------------------------------------------------------- ABI tables

def leb(buf, pos):
    r, s = 0, 0
    while True:
        b = buf[pos]
        pos += 1
        r |= (b & 0x7f) << s
        s += 7
        if not b & 0x80:
            return r, pos


VT = {0x7f: "i32", 0x7e: "i64", 0x7d: "f32", 0x7c: "f64"}


def wasm_imports(buf):
    """(module, name, params, results) of every function import of a wasm binary / object"""
    if buf[:4] != b"\0asm":
        raise ExtractError("not a wasm binary")
    pos, types, imps = 8, [], []
    while pos < len(buf):
        sid = buf[pos]
        size, pos = leb(buf, pos + 1)
        end = pos + size
        if sid == 1:
            n, p = leb(buf, pos)
            for _ in range(n):
                assert buf[p] == 0x60
                np_, p = leb(buf, p + 1)
                ps = [VT[buf[p + i]] for i in range(np_)]
                p += np_
                nr, p = leb(buf, p)
                rs = [VT[buf[p + i]] for i in range(nr)]
                p += nr
                types.append((ps, rs))
        elif sid == 2:
            n, p = leb(buf, pos)
            for _ in range(n):
                l, p = leb(buf, p)
                mod = buf[p:p + l].decode()
                p += l
                l, p = leb(buf, p)
                nm = buf[p:p + l].decode()
                p += l
                kind = buf[p]
                p += 1
                if kind == 0:
                    ti, p = leb(buf, p)
                    imps.append((mod, nm, types[ti][0], types[ti][1]))
                elif kind == 1:
                    p += 1
                    fl, p = leb(buf, p)
                    _, p = leb(buf, p)
                    if fl & 1:
                        _, p = leb(buf, p)
                elif kind == 2:
                    fl, p = leb(buf, p)
                    _, p = leb(buf, p)
                    if fl & 1:
                        _, p = leb(buf, p)
                elif kind == 3:
                    p += 2
                else:
                    raise ExtractError("unknown import kind %d" % kind)
        pos = end
    return imps


def header_imports():
    hdr = read("api/src/shopify_function.h")
    names = re.findall(r'import_name\("([^"]+)"\)', hdr)
    if not names:
        raise ExtractError("no imports in the C header")
    with tempfile.TemporaryDirectory(prefix="sfx-", dir="/var/tmp") as d:
        c = os.path.join(d, "t.c")
        with open(c, "w") as f:
            f.write('#include "shopify_function.h"\nvolatile void* imports[] = {\n')
            f.write(",\n".join("  (void*)%s" % n for n in names))
            f.write("\n};\n")
        o = os.path.join(d, "t.o")
        clang = None
        for cand in ("clang-14", "clang"):
            if subprocess.run(["which", cand], capture_output=True).returncode == 0:
                clang = cand
                break
        if not clang:
            raise ExtractError("clang not available")
        r = subprocess.run([clang, "--target=wasm32", "-c", "-I", os.path.join(REPO, "api/src"), c, "-o", o],
                           capture_output=True, text=True)
        if r.returncode != 0:
            raise ExtractError("the C header does not compile: " + r.stderr[:400])
        with open(o, "rb") as f:
            imps = wasm_imports(f.read())
    m = re.search(r'#define\s+SHOPIFY_FUNCTION_IMPORT_MODULE\s+"([^"]+)"', hdr)
    defines = dict((k, int(v)) for k, v in re.findall(r"#define\s+(WRITE_RESULT_\w+)\s+(\d+)", hdr))
    return [i for i in imps if i[1] in names], (m.group(1) if m else ""), defines


def sexprs(text):
    """tiny s-expression reader: nested lists of atoms (strings keep their quotes)"""
    toks = re.findall(r'\(|\)|"[^"]*"|[^\s()]+', text)
    pos = 0

    def rd():
        nonlocal pos
        t = toks[pos]
        pos += 1
        if t == "(":
            out = []
            while toks[pos] != ")":
                out.append(rd())
            pos += 1
            return out
        return t
    out = []
    while pos < len(toks):
        out.append(rd())
    return out


def wat_imports():
    wat = re.sub(r";;[^\n]*", "", read("api/src/shopify_function.wat"))
    try:
        top = sexprs(wat)
    except IndexError:
        raise ExtractError("unbalanced parentheses in the WAT")
    out = []
    for mod in top:
        if not (isinstance(mod, list) and mod and mod[0] == "module"):
            continue
        for item in mod[1:]:
            if isinstance(item, list) and item and item[0] == "import":
                m, n, desc = item[1].strip('"'), item[2].strip('"'), item[3]
                if not (isinstance(desc, list) and desc and desc[0] == "func"):
                    continue
                params, results = [], []
                for part in desc[1:]:
                    if isinstance(part, list) and part and part[0] == "param":
                        params += [x for x in part[1:] if not x.startswith("$")]
                    elif isinstance(part, list) and part and part[0] == "result":
                        results += part[1:]
                    elif isinstance(part, str) and part.startswith("$"):
                        continue
                    else:
                        raise ExtractError("WAT import %s: unsupported func description" % n)
                for x in params + results:
                    if x not in ("i32", "i64", "f32", "f64"):
                        raise ExtractError("WAT import %s: unsupported type %s" % (n, x))
                out.append((m, n, params, results))
    if not out:
        raise ExtractError("no imports in the WAT")
    return out


RUST_WASM32 = {"Val": "i64", "usize": "i32", "u32": "i32", "i32": "i32", "f64": "f64", "u64": "i64", "i64": "i64",
               "DoubleUsize": "i64", "WriteResult": "i32", "InternedStringId": "i32",
               "shopify_function_wasm_api_core::InternedStringId": "i32"}


def rust_ty(t):
    t = t.strip()
    if t.startswith("*const") or t.startswith("*mut"):
        return "i32"
    if t in RUST_WASM32:
        return RUST_WASM32[t]
    raise ExtractError("Rust type %r has no wasm32 mapping" % t)


def rust_sig(args, ret):
    params = []
    args = args.strip()
    if args:
        for a in split_top(args):
            a = a.strip()
            if not a:
                continue
            params.append(rust_ty(a.split(":", 1)[1]))
    results = []
    if ret and ret.strip() not in ("", "()"):
        results = [rust_ty(ret)]
    return params, results


def split_top(s):
    out, depth, cur = [], 0, ""
    for ch in s:
        if ch in "(<[":
            depth += 1
        if ch in ")>]":
            depth -= 1
        if ch == "," and depth == 0:
            out.append(cur)
            cur = ""
        else:
            cur += ch
    out.append(cur)
    return out


def rust_extern():
    src = strip_comments(strip_tests(read("api/src/lib.rs")))
    m = re.search(r'#\[link\(wasm_import_module\s*=\s*"([^"]+)"\)\]\s*extern\s+"C"\s*\{(.*?)\n\}', src, flags=re.S)
    if not m:
        raise ExtractError("extern block not found in api/src/lib.rs")
    mod, body = m.group(1), m.group(2)
    out = []
    for f in re.finditer(r"fn\s+(\w+)\s*\((.*?)\)\s*(?:->\s*([^;]+))?;", body, flags=re.S):
        ps, rs = rust_sig(f.group(2), f.group(3))
        out.append((mod, f.group(1), ps, rs))
    return out, mod


def provider_exports():
    out = []
    for path in ["provider/src/lib.rs", "provider/src/read.rs", "provider/src/write.rs", "provider/src/log.rs",
                 "provider/src/alloc.rs"]:
        src = strip_comments(strip_tests(read(path)))
        for m in re.finditer(r"decorate_for_target!\s*\{\s*(?:///[^\n]*\n\s*)*fn\s+(\w+)\s*\((.*?)\)\s*->\s*([^{]+)\{", src, flags=re.S):
            ps, rs = rust_sig(m.group(2), m.group(3))
            out.append(("_" + m.group(1), ps, rs))
        for m in re.finditer(r'#\[export_name\s*=\s*"([^"]+)"\]\s*(?:pub\s+)?(?:unsafe\s+)?extern\s+"C"\s+fn\s+\w+\s*\((.*?)\)\s*(?:->\s*([^{]+))?\{', src, flags=re.S):
            if m.group(1).startswith("concat!"):
                continue
            ps, rs = rust_sig(m.group(2), m.group(3))
            out.append((m.group(1), ps, rs))
    return out


VALTYPE = {"I32": "i32", "I64": "i64", "F32": "f32", "F64": "f64"}


def trampoline_tables():
    src = strip_comments(strip_tests(read("trampoline/src/lib.rs")))
    consts = dict(re.findall(r'const\s+(\w+)\s*:\s*&str\s*=\s*"([^"]+)"\s*;', src))
    m = re.search(r"static\s+IMPORTS\s*:[^=]*=\s*&\[(.*?)\];", src, flags=re.S)
    if not m:
        raise ExtractError("IMPORTS table not found")
    pairs = []
    for pm in re.finditer(r"\(\s*([^,()]+?)\s*,\s*([^,()]+?)\s*,?\s*\)", m.group(1), flags=re.S):
        def val(x):
            x = x.strip()
            if x.startswith('"'):
                return x.strip('"')
            if x in consts:
                return consts[x]
            raise ExtractError("IMPORTS entry %r not understood" % x)
        pairs.append((val(pm.group(1)), val(pm.group(2))))
    # expected signatures of the string-carrying imports
    expected = {}
    for vm in re.finditer(r"validate_params_and_results\(\s*(\w+|\"[^\"]+\")\s*,\s*\w+\s*,\s*&\[(.*?)\]\s*,\s*&\[(.*?)\]\s*,?\s*\)", src, flags=re.S):
        nm = vm.group(1).strip('"')
        nm = consts.get(nm, nm)
        ps = [VALTYPE[x] for x in re.findall(r"ValType::(\w+)", vm.group(2))]
        rs = [VALTYPE[x] for x in re.findall(r"ValType::(\w+)", vm.group(3))]
        expected[nm] = (ps, rs)
    # emitted provider imports with explicit types
    emitted = {}
    for em in re.finditer(r"types\s*\.add\(\s*&\[(.*?)\]\s*,\s*&\[(.*?)\]\s*\)\s*;.*?add_import_func\(\s*PROVIDER_MODULE_NAME\s*,\s*\"([^\"]+)\"", src, flags=re.S):
        ps = [VALTYPE[x] for x in re.findall(r"ValType::(\w+)", em.group(1))]
        rs = [VALTYPE[x] for x in re.findall(r"ValType::(\w+)", em.group(2))]
        emitted[em.group(3)] = (ps, rs)
    allow = re.findall(r'import\.name\s*!=\s*"([^"]+)"', src)
    return pairs, expected, emitted, allow


def cargo_major(path):
    m = re.search(r'^version\s*=\s*"(\d+)\.', read(path), flags=re.M)
    if not m:
        raise ExtractError("no version in %s" % path)
    return m.group(1)


def readme_tables():
    md = read("api/README.md")

    def section(title):
        i = md.find(title)
        if i < 0:
            raise ExtractError("README section %r not found" % title)
        j = md.find("\n#", i + 1)
        return md[i: j if j > 0 else len(md)]
    def rows(sec):
        return [(n, int(v)) for v, n in re.findall(r"-\s*\*\*(\d+)\*\*:\s*`(\w+)`", sec)]
    return rows(section("### Value Types")), rows(section("### Read Error Codes")), rows(section("### Write Status Codes"))


def sig_lit(entry):
    name, ps, rs = entry
    code = {"i32": 0, "i64": 1, "f32": 2, "f64": 3}
    return "(%s, [%s], [%s])" % (name_lit(name), ", ".join(str(code[p]) for p in ps), ", ".join(str(code[r]) for r in rs))


def gen_abi():
    wat = wat_imports()
    hdr, hdr_mod, hdr_defs = header_imports()
    ext, ext_mod = rust_extern()
    pairs, expected, emitted, allow = trampoline_tables()
    prov = provider_exports()
    tags, errs, stats = readme_tables()
    lines = ["-- REGENERATED by /verif/extract/extract.py (ABI tables; value types: 0 i32, 1 i64, 2 f32, 3 f64); do not edit",
             "namespace SfVerif.Gen", "abbrev Sig := List Nat × List Nat × List Nat"]

    def table(name, entries):
        es = sorted(entries, key=lambda e: e[0])
        lines.append("def %s : List Sig := [\n  %s\n]" % (name, ",\n  ".join(sig_lit(e) for e in es)))
    table("abiWat", [(n, p, r) for _, n, p, r in wat])
    table("abiHeader", [(n, p, r) for _, n, p, r in hdr])
    table("abiRustExtern", [(n, p, r) for _, n, p, r in ext])
    lines.append("def trampolineAcceptsNames : List (List Nat) := [\n  %s\n]" % ",\n  ".join(name_lit(o) for o, _ in sorted(pairs)))
    table("trampolineExpectedSigs", [(n, p, r) for n, (p, r) in expected.items()])
    lines.append("/-- the trampoline's IMPORTS table in source order: (public name, provider name or empty) -/")
    lines.append("def trampolineImportPairs : List (List Nat × List Nat) := [\n  %s\n]" % ",\n  ".join("(%s, %s)" % (name_lit(o), name_lit(nw)) for o, nw in pairs))
    lines.append("/-- provider imports the trampoline adds, with explicit types, in source order -/")
    lines.append("def trampolineAdds : List Sig := [\n  %s\n]" % ",\n  ".join(sig_lit((n, p_, r_)) for n, (p_, r_) in emitted.items()))
    # what the trampoline emits: renamed imports keep the guest's (= WAT's) signature
    watd = dict((n, (p, r)) for _, n, p, r in wat)
    emits = []
    for o, nw in pairs:
        if nw == "":
            continue
        if nw in emitted:
            emits.append((nw, emitted[nw][0], emitted[nw][1]))
        elif o in watd:
            emits.append((nw, watd[o][0], watd[o][1]))
        else:
            emits.append((nw, ["f32"], ["f32"]))   # unknown source signature: can never match
    for extra in emitted:
        if extra not in [e[0] for e in emits]:
            emits.append((extra, emitted[extra][0], emitted[extra][1]))
    table("trampolineEmits", emits)
    table("providerExports", prov)
    lines.append("def trampolineAllowList : List (List Nat) := [%s]" % ", ".join(name_lit(a) for a in sorted(allow)))
    mods = sorted(set(m for m, _, _, _ in wat))
    lines.append("def moduleNamesWat : List (List Nat) := [%s]" % ", ".join(name_lit(m) for m in mods))
    lines.append("def moduleNameHeader : List Nat := %s" % name_lit(hdr_mod))
    lines.append("def moduleNameHeaderImports : List (List Nat) := [%s]" % ", ".join(name_lit(m) for m in sorted(set(m for m, _, _, _ in hdr))))
    lines.append("def moduleNameRustExtern : List Nat := %s" % name_lit(ext_mod))
    lines.append("def moduleNameProvider : List Nat := %s" % name_lit("shopify_function_v" + cargo_major("provider/Cargo.toml")))
    lines.append("def moduleNameTrampoline : List Nat := %s" % name_lit("shopify_function_v" + cargo_major("trampoline/Cargo.toml")))

    def codes(name, rows):
        lines.append("def %s : List (List Nat × Nat) := [%s]" % (name, ", ".join("(%s, %d)" % (name_lit(n), v) for n, v in rows)))
    codes("readmeTags", tags)
    codes("readmeErrorCodes", errs)
    codes("readmeWriteStatus", stats)
    codes("headerDefines", sorted(hdr_defs.items()))
    lines.append("end SfVerif.Gen")
    return "\n".join(lines) + "\n", {
        "wat": sorted((n, p, r) for _, n, p, r in wat), "header": sorted((n, p, r) for _, n, p, r in hdr),
        "rustExtern": sorted((n, p, r) for _, n, p, r in ext), "trampolineAccepts": sorted(o for o, _ in pairs),
        "trampolineEmits": sorted(emits), "providerExports": sorted(prov),
        "modules": {"wat": mods, "header": hdr_mod, "rust": ext_mod},
        "readme": {"tags": tags, "errors": errs, "status": stats}, "headerDefines": hdr_defs}


# --------------------------------------------------------------------------- function bodies

# rmp::Marker variants and their byte codes (the MessagePack specification; `Marker::from_u8` is rmp's)
MARKER_CODE = {"Null": 0xc0, "False": 0xc2, "True": 0xc3, "F32": 0xca, "F64": 0xcb, "U8": 0xcc, "U16": 0xcd,
               "U32": 0xce, "U64": 0xcf, "I8": 0xd0, "I16": 0xd1, "I32": 0xd2, "I64": 0xd3, "Str8": 0xd9,
               "Str16": 0xda, "Str32": 0xdb, "Array16": 0xdc, "Array32": 0xdd, "Map16": 0xde, "Map32": 0xdf}
READER_WIDTH = {"u8": 1, "i8": 1, "u16": 2, "i16": 2, "u32": 4, "i32": 4, "f32": 4, "u64": 8, "i64": 8, "f64": 8}


def gen_markers():
    """Gen/Markers.lean: the marker dispatch of `LazyValueRef::new` (provider/src/read/lazy_value_ref.rs)
    arm by arm, and the widths of the cursor's fixed-width readers"""
    src = strip_comments(strip_tests(read("provider/src/read/lazy_value_ref.rs")))
    # cursor readers: bounds check + big-endian decode of exactly N bytes + advance by N
    for ty, n in READER_WIDTH.items():
        m = re.search(r"fn\s+read_%s\s*\(&mut self\)\s*->\s*Result<%s,\s*ErrorCode>\s*\{(.*?)\n    \}" % (ty, ty), src, flags=re.S)
        if not m:
            raise ExtractError("Cursor::read_%s not found" % ty)
        body = re.sub(r"\s+", "", m.group(1))
        if "ifself.position+%d>self.length{returnErr(ErrorCode::ReadError);}" % n not in body:
            raise ExtractError("Cursor::read_%s: bounds check is not `position + %d > length`" % (ty, n))
        if "self.position+=%d;" % n not in body:
            raise ExtractError("Cursor::read_%s does not advance by %d" % (ty, n))
        if n == 1:
            ok = ("self.bytes[self.position]" in body) and (ty == "u8" or "asi8" in body)
        else:
            idx = ",".join("bytes[%d]" % i for i in range(n))
            ok = ("%s::from_be_bytes([%s" % (ty, idx)) in body.replace(",]", "]") or ("%s::from_be_bytes([%s])" % (ty, idx)) in body.replace(",]", "]")
        if not ok:
            raise ExtractError("Cursor::read_%s does not decode %d big-endian bytes" % (ty, n))
    m = re.search(r"fn\s+read_marker\s*\(&mut self\)[^{]*\{(.*?)\n    \}", src, flags=re.S)
    if not m or "ifself.position>=self.length{returnErr(ErrorCode::ReadError);}" not in re.sub(r"\s+", "", m.group(1)) \
            or "Marker::from_u8(self.bytes[self.position])" not in re.sub(r"\s+", "", m.group(1)):
        raise ExtractError("Cursor::read_marker changed shape")
    # the dispatch
    m = re.search(r"let\s+marker\s*=\s*cursor\.read_marker\(\)\?;\s*match\s+marker\s*\{", src)
    if not m:
        raise ExtractError("LazyValueRef::new: `match marker` not found")
    depth, i = 1, m.end()
    while depth and i < len(src):
        depth += {"{": 1, "}": -1}.get(src[i], 0)
        i += 1
    body = src[m.end():i - 1]
    arms, pos = [], 0
    for am in re.finditer(r"(?:^|\n)\s*(Marker::(\w+)(?:\((\w+)\))?|_)\s*=>", body):
        arms.append([am.group(2) or "_", am.group(3), am.end()])
    for k, a in enumerate(arms):
        end = arms[k + 1][2] - len(re.search(r"(Marker::\w+(?:\(\w+\))?|_)\s*=>$", body[:arms[k + 1][2]]).group(0)) if k + 1 < len(arms) else len(body)
        a.append(re.sub(r"\s+", "", body[a[2]:end]).rstrip(","))
    table = {}
    for name, binder, _, text in arms:
        def number(reader_ty, conv):
            return "numHdr b p %d %s" % (READER_WIDTH[reader_ty], conv)
        if name == "_":
            if text != "Err(ErrorCode::ReadError)":
                raise ExtractError("the catch-all marker arm is no longer a read error")
            continue
        if name in ("Null", "False", "True"):
            want = {"Null": "Ok((Self::Null,Some(cursor.position)))", "False": "Ok((Self::Bool(false),Some(cursor.position)))",
                    "True": "Ok((Self::Bool(true),Some(cursor.position)))"}[name]
            if text != want:
                raise ExtractError("marker arm %s changed" % name)
            table[name] = {"Null": "some (.scalar .null p)", "False": "some (.scalar (.bool false) p)", "True": "some (.scalar (.bool true) p)"}[name]
        elif name in ("FixPos", "FixNeg"):
            if text != "Ok((Self::Number(%sasf64),Some(cursor.position)))" % binder:
                raise ExtractError("marker arm %s changed" % name)
            table[name] = ("some (.scalar (.num (F64.ofNat m)) p)" if name == "FixPos"
                           else "some (.scalar (.num (F64.ofInt (toSigned 8 m))) p)")
        elif name in ("U8", "U16", "U32", "U64", "I8", "I16", "I32", "I64", "F32", "F64"):
            ty = name.lower()
            num = "n" if name == "F64" else "nasf64"
            if text != "cursor.read_%s().map(|n|(Self::Number(%s),Some(cursor.position)))" % (ty, num):
                raise ExtractError("marker arm %s changed" % name)
            if name == "F32":
                table[name] = number(ty, "F64.ofF32")
            elif name == "F64":
                table[name] = number(ty, "id")
            elif name[0] == "U":
                table[name] = number(ty, "F64.ofNat")
            else:
                table[name] = number(ty, "(fun v => F64.ofInt (toSigned %d v))" % (8 * READER_WIDTH[ty]))
        elif name in ("FixStr", "Str8", "Str16", "Str32", "FixMap", "Map16", "Map32", "FixArray", "Array16", "Array32"):
            kind = "str" if "Str" in name else ("map" if "Map" in name else "arr")
            fixed = name.startswith("Fix")
            lenexpr = ("letlen=%sasusize;" % binder) if fixed else \
                ("letlen=cursor.read_u%s().map(|n|nasusize)?;" % {"8": "8", "16": "16", "32": "32"}[re.sub(r"\D", "", name)])
            guard = {"str": "iflen>cursor.length-cursor.position{returnErr(ErrorCode::ReadError);}",
                     "map": "iflen>(cursor.length-cursor.position)/2{returnErr(ErrorCode::ReadError);}",
                     "arr": "iflen>(cursor.length-cursor.position){returnErr(ErrorCode::ReadError);}"}[kind]
            result = {"str": "Ok((Self::String(StringRef{ptr:cursor.position,len,}),Some(cursor.position+len),))",
                      "map": "Ok((Self::Object(ObjectRef{len,processed_elements:Vec::with_capacity_in(len,bump),end_position_of_last_processed_element:cursor.position,}),None,))",
                      "arr": "Ok((Self::Array(ArrayRef{len,processed_elements:Vec::with_capacity_in(len,bump),end_position_of_last_processed_element:cursor.position,}),None,))"}[kind]
            if text != "{" + lenexpr + guard + result + "}":
                raise ExtractError("marker arm %s changed: %s" % (name, text[:120]))
            hdr = {"str": "strHdr", "map": "mapHdr", "arr": "arrHdr"}[kind]
            if fixed:
                base = {"FixStr": "0xa0", "FixMap": "0x80", "FixArray": "0x90"}[name]
                table[name] = "%s b p (m - %s)" % (hdr, base)
            else:
                w = int(re.sub(r"\D", "", name)) // 8
                table[name] = "(match beRead b p %d with | none => none | some l => %s b (p + %d) l)" % (w, hdr, w)
        else:
            raise ExtractError("marker arm %s is not in the supported subset (the model treats it as unsupported)" % name)
    need = set(MARKER_CODE) | {"FixPos", "FixNeg", "FixStr", "FixMap", "FixArray"}
    if set(table) != need:
        raise ExtractError("marker arms differ from the model's: missing %s extra %s" % (sorted(need - set(table)), sorted(set(table) - need)))
    out = ["-- REGENERATED by /verif/extract/extract.py from the marker dispatch of LazyValueRef::new; do not edit",
           "import SfVerif.Model.MsgPack", "namespace SfVerif.Gen", "open SfVerif",
           "/-- markers 0xc0 … 0xdf, arm by arm as in the source -/",
           "def hdrTaggedGen (b : Bytes) (p m : Nat) : Option Hdr :=", "  match m with"]
    for name, code in sorted(MARKER_CODE.items(), key=lambda kv: kv[1]):
        out.append("  | 0x%02x => %s  -- Marker::%s" % (code, table[name], name))
    out.append("  | _ => none")
    out += ["/-- the whole dispatch (rmp's `Marker::from_u8` ranges for the fix markers) -/",
            "def hdrOfMarkerGen (b : Bytes) (p m : Nat) : Option Hdr :=",
            "  if m < 0xc0 then",
            "    (if m < 0x80 then %s" % table["FixPos"],
            "     else if m < 0x90 then %s" % table["FixMap"],
            "     else if m < 0xa0 then %s" % table["FixArray"],
            "     else %s)" % table["FixStr"],
            "  else if 0xe0 ≤ m then %s" % table["FixNeg"],
            "  else hdrTaggedGen b p m",
            "end SfVerif.Gen"]
    return "\n".join(out) + "\n"


ENCODER = {"write_bool": "encBool", "write_nil": "encNil", "write_sint": "encSint", "write_f64": "encF64",
           "write_str_len": "encStrLen", "write_map_len": "encMapLen", "write_array_len": "encArrLen"}
STATE_FN = {"write_non_string_scalar": "WState.writeNonStringScalar", "write_string": "WState.writeString"}


def gen_writer():
    """Gen/WriterStep.lean: which state-machine method each provider write function consults and which
    rmp encoder it calls with which argument (provider/src/write.rs, `impl Context`)"""
    src = strip_comments(strip_tests(read("provider/src/write.rs")))

    def body(fn):
        m = re.search(r"fn\s+%s\s*\(([^)]*)\)\s*->\s*([^{]+?)\s*\{" % fn, src)
        if not m:
            raise ExtractError("Context::%s not found" % fn)
        depth, i = 1, m.end()
        while depth and i < len(src):
            depth += {"{": 1, "}": -1}.get(src[i], 0)
            i += 1
        return re.sub(r"\s+", "", src[m.end():i - 1])

    out = ["-- REGENERATED by /verif/extract/extract.py from provider/src/write.rs (impl Context); do not edit",
           "import SfVerif.Model.Writer", "namespace SfVerif.Gen", "open SfVerif SfVerif.Gen",
           "/-- one provider write call, assembled from what each Rust function consults and emits -/",
           "def writerStepGen (w : Writer) : WOp → Writer × Nat × Option Nat"]
    # scalars: state method, encoder, argument
    for fn, ctor, arg, lean_arg in [("write_bool", ".bool v", "bool", "v"), ("write_nil", ".null", None, None),
                                    ("write_i32", ".i32 z", "intasi64", "z"), ("write_f64", ".f64 bits", "float", "bits")]:
        b = body(fn)
        m = re.fullmatch(r"letresult=self\.write_state\.(\w+)\(\);ifresult!=WriteResult::Ok\{returnresult;\}"
                         r"encode::(\w+)\(&mutself\.output_bytes(?:,(\w+))?\)\.unwrap\(\);WriteResult::Ok", b)
        if not m or m.group(1) not in STATE_FN or m.group(2) not in ENCODER or (m.group(3) or None) != arg:
            raise ExtractError("Context::%s changed shape: %s" % (fn, b[:160]))
        enc = ENCODER[m.group(2)] + ((" " + lean_arg) if lean_arg else "")
        out += ["  | %s =>" % ctor,
                "    let (st, r) := %s w.st" % STATE_FN[m.group(1)],
                "    if r ≠ WriteResult_Ok then ({ w with st := st }, r, none)",
                "    else (({ w with st := st }).appendBytes (%s), r, none)" % enc]
    b = body("allocate_utf8_str")
    want = ("letresult=self.write_state.write_string();ifresult!=WriteResult::Ok{return(result,std::ptr::null());}"
            "encode::write_str_len(&mutself.output_bytes,lenasu32).unwrap();letoriginal_len=self.output_bytes.as_slice().len();"
            "self.output_bytes.as_mut_vec().resize(original_len+len,0);(WriteResult::Ok,self.output_bytes.as_slice()[original_len..].as_ptr(),)")
    if b != want:
        raise ExtractError("Context::allocate_utf8_str changed shape: %s" % b[:200])
    out += ["  | .strAlloc len =>",
            "    let (st, r) := WState.writeString w.st",
            "    if r ≠ WriteResult_Ok then ({ w with st := st }, r, none)",
            "    else",
            "      let w1 := ({ w with st := st }).appendBytes (encStrLen len)",
            "      let off := w1.out.size",
            "      ({ w1 with out := w1.out ++ Array.replicate len 0 }, r, some off)"]
    for fn, ctor, sm, newst, enc in [("start_object", ".obj len", "start_object", ".obj len 0", "write_map_len"),
                                     ("start_array", ".arr len", "start_array", ".arr len 0", "write_array_len")]:
        b = body(fn)
        want = ("letresult=self.write_state.%s(len,&mutself.write_parent_state_stack);ifresult!=WriteResult::Ok{returnresult;}"
                "encode::%s(&mutself.output_bytes,lenasu32).unwrap();WriteResult::Ok" % (sm, enc))
        if b != want:
            raise ExtractError("Context::%s changed shape: %s" % (fn, b[:200]))
        out += ["  | %s =>" % ctor,
                "    let (st, stack, r) := WState.startContainer (%s) w.st w.stack" % newst,
                "    if r ≠ WriteResult_Ok then ({ w with st := st, stack := stack }, r, none)",
                "    else (({ w with st := st, stack := stack }).appendBytes (%s len), r, none)" % ENCODER[enc]]
    for fn, ctor, sm, lean in [("finish_object", ".endObj", "finish_object", "WState.finishObject"),
                               ("finish_array", ".endArr", "finish_array", "WState.finishArray")]:
        b = body(fn)
        want = ("letresult=self.write_state.%s(&mutself.write_parent_state_stack);ifresult!=WriteResult::Ok{returnresult;}WriteResult::Ok" % sm)
        if b != want:
            raise ExtractError("Context::%s changed shape: %s" % (fn, b[:200]))
        out += ["  | %s =>" % ctor,
                "    let (st, stack, r) := %s w.st w.stack" % lean,
                "    ({ w with st := st, stack := stack }, r, none)"]
    out.append("end SfVerif.Gen")
    return "\n".join(out) + "\n"


def gen_read_entries():
    """Gen/ReadEntry.lean: the scope dispatch of the read entry points (provider/src/read.rs): which
    decoded kinds are accepted, which node method is called, which codes answer a wrong kind and an
    undecodable scope, how `Ok(None)` is answered"""
    src = strip_comments(strip_tests(read("provider/src/read.rs")))

    def body(fn):
        m = re.search(r"fn\s+%s\s*\(([^)]*)\)\s*->\s*(\w+)\s*\{" % fn, src)
        if not m:
            raise ExtractError("%s not found" % fn)
        depth, i = 1, m.end()
        while depth and i < len(src):
            depth += {"{": 1, "}": -1}.get(src[i], 0)
            i += 1
        return re.sub(r"\s+", "", src[m.end():i - 1])

    pats = {"NanBoxValueRef::Object{ptr:obj_ptr,..}": ("obj_ptr", False), "NanBoxValueRef::Object{ptr,..}": ("ptr", False),
            "NanBoxValueRef::Array{ptr,len:_}|NanBoxValueRef::Object{ptr,len:_}": ("ptr", True)}
    method = {"get_at_index": "Node.getAtIndex", "get_key_at_index": "Node.getKeyAtIndex", "get_object_property": "Node.getProp"}
    out = ["-- REGENERATED by /verif/extract/extract.py from provider/src/read.rs; do not edit",
           "import SfVerif.Model.Ctx", "namespace SfVerif.Gen", "open SfVerif SfVerif.Gen"]
    for fn, lean, arg, extra, step in [
            ("shopify_function_input_get_at_index", "getAtIndexGen", "index", "(i : Nat)", "(c.idxStep h)"),
            ("shopify_function_input_get_obj_key_at_index", "getKeyAtIndexGen", "index", "(i : Nat)", "PStep.key"),
            ("shopify_function_input_get_obj_prop", "getObjPropGen", "query", "(q : Bytes)", "PStep.val")]:
        b = body(fn)
        m = re.fullmatch(r"Context::with\(\|context\|\{letv=NanBox::from_bits\(scope\);matchv\.try_decode\(\)\{Ok\((.*?)\)=>\{(.*)\}"
                         r"Ok\(_\)=>NanBox::error\(ErrorCode::(\w+)\)\.to_bits\(\),Err\(_\)=>NanBox::error\(ErrorCode::(\w+)\)\.to_bits\(\),\}\}\)", b)
        if not m or m.group(1) not in pats:
            raise ExtractError("%s: scope dispatch changed shape" % fn)
        pvar, accept_arr = pats[m.group(1)]
        inner = m.group(2)
        if fn.endswith("obj_prop"):
            pre = "letquery=unsafe{std::slice::from_raw_parts(ptras*constu8,len)};"
            if not inner.startswith(pre):
                raise ExtractError("%s: the query is no longer the (ptr, len) slice" % fn)
            inner = inner[len(pre):]
        mi = re.fullmatch(r"letvalue=matchLazyValueRef::mut_from_raw\(%s as_\)\{Ok\(value\)=>value,Err\(e\)=>returnNanBox::error\(e\)\.to_bits\(\),\};"
                          r"matchvalue\.(\w+)\(%s,&context\.input_bytes,&context\.bump_allocator,\)\{(.*)\}".replace(" as_", "as_") % (pvar, arg), inner)
        if not mi or mi.group(1) not in method:
            raise ExtractError("%s: node operation changed shape: %s" % (fn, inner[:160]))
        res = mi.group(2)
        want_opt = "Ok(Some(value))=>value.encode().to_bits(),Ok(None)=>NanBox::null().to_bits(),Err(e)=>NanBox::error(e).to_bits(),"
        want_plain = "Ok(value)=>value.encode().to_bits(),Err(e)=>NanBox::error(e).to_bits(),"
        if res != (want_opt if mi.group(1) == "get_object_property" else want_plain):
            raise ExtractError("%s: result mapping changed" % fn)
        callarg = "i" if arg == "index" else "q"
        out += ["/-- `%s` -/" % fn,
                "def %s (c : Ctx) (s : Scope) %s : Ctx × RVal :=" % (lean, extra),
                "  Ctx.dispatch c s %s ErrorCode_%s ErrorCode_%s" % ("true" if accept_arr else "false", m.group(3), m.group(4)),
                "    (fun h => c.nodeOp h (fun n => %s c.input c.fuel n %s) %s)" % (method[mi.group(1)], callarg, step)]
    out.append("end SfVerif.Gen")
    return "\n".join(out) + "\n"


FNS_HEADER = ["-- REGENERATED by /verif/extract/extract.py (rs2lean) from function bodies in /repo; do not edit",
              "import SfVerif.Gen.Consts", "import SfVerif.Gen.Enums", "namespace SfVerif.Gen"]


def gen_fns_nanbox(const_names):
    """Gen/FnsNanBox.lean: NanBox::encode / NanBox::number (core/src/read.rs)"""
    import rs2lean
    try:
        core = strip_comments(strip_tests(read("core/src/read.rs")))
        out = list(FNS_HEADER)
        params, body = rs2lean.find_fn(core, "encode", "NanBox")
        if [x.split(":")[0].strip() for x in params.split(",") if x.strip()] != ["ptr", "len", "tag"]:
            raise ExtractError("NanBox::encode parameters changed: %s" % params)
        out.append("/-- `NanBox::encode` (core/src/read.rs) -/")
        out.append("def nanbox_encode (w ptr len tag : Nat) : Nat :=")
        out.append(rs2lean.translate(body, {"ptr": "ptr", "len": "len", "tag": "tag"}, const_names))
        out.append("")
        params, body = rs2lean.find_fn(core, "number", "NanBox")
        out.append("/-- `NanBox::number` (the NaN assertion is the caller's obligation) -/")
        out.append("def nanbox_number (w bits : Nat) : Nat :=")
        out.append(rs2lean.translate(body, {"val": "bits"}, const_names))
        out += ["", "end SfVerif.Gen"]
        return "\n".join(out) + "\n"
    except rs2lean.TranslateError as e:
        raise ExtractError("rs2lean: %s" % e)


def gen_fns_logs():
    """Gen/FnsLogs.lean: Logs::append / Logs::read_ptrs (provider/src/log.rs)"""
    import rs2lean
    try:
        log = strip_comments(strip_tests(read("provider/src/log.rs")))
        out = list(FNS_HEADER)
        out += ["/-- `ptr.add(n)` on a pointer into the log buffer, as an offset (`none` = null) -/",
                "def ptrAdd (p : Option Nat) (n : Nat) : Option Nat := p.map (· + n)", ""]
        params, body = rs2lean.find_fn(log, "append", "Logs")
        out.append("/-- `Logs::append`: ((skip, dst1, len1, dst2, len2), offset', len') -/")
        out.append("def log_append (offset len0 n : Nat) : (Nat × Option Nat × Nat × Option Nat × Nat) × Nat × Nat :=")
        out.append(rs2lean.translate(body, {"len": "n", "self.offset": "offset", "self.len": "len0"},
                                     {"CAPACITY": "LOG_CAPACITY"}, ["self.offset", "self.len"]))
        out.append("")
        params, body = rs2lean.find_fn(log, "read_ptrs", "Logs")
        out.append("/-- `Logs::read_ptrs`: (ptr1, len1, ptr2, len2) -/")
        out.append("def log_read_ptrs (offset len0 : Nat) : Option Nat × Nat × Option Nat × Nat :=")
        out.append(rs2lean.translate(body, {"self.offset": "offset", "self.len": "len0"}, {"CAPACITY": "LOG_CAPACITY"}))
        out += ["", "end SfVerif.Gen"]
        return "\n".join(out) + "\n"
    except rs2lean.TranslateError as e:
        raise ExtractError("rs2lean: %s" % e)


def gen_fns_state():
    """Gen/FnsState.lean: the write state machine (provider/src/write/state.rs), every method"""
    import rs2lean
    try:
        state = strip_comments(strip_tests(read("provider/src/write/state.rs")))
        # the shape of the data the translation relies on
        if not re.search(r"enum\s+State\s*\{\s*(?:#\[default\]\s*)?Start\s*,\s*Object\(ObjectState\)\s*,\s*Array\(ArrayState\)\s*,\s*End\s*,?\s*\}", state):
            raise ExtractError("enum State is no longer Start | Object(ObjectState) | Array(ArrayState) | End")
        for st in ("ObjectState", "ArrayState"):
            if not re.search(r"struct\s+%s\s*\{\s*length\s*:\s*usize\s*,\s*num_inserted\s*:\s*usize\s*,?\s*\}" % st, state):
                raise ExtractError("struct %s is no longer { length: usize, num_inserted: usize }" % st)
        _, sp = rs2lean.find_fn(state, "swap_and_push", "State")
        if re.sub(r"\s+", "", sp) != "letmutnew_state=new_state;std::mem::swap(self,&mutnew_state);parent_state_stack.push(new_state);":
            raise ExtractError("State::swap_and_push is no longer `swap self with the new state, push the old one`")
        out = ["-- REGENERATED by /verif/extract/extract.py (rs2lean) from function bodies in /repo; do not edit",
               "import SfVerif.Model.Writer", "namespace SfVerif.Gen", "open SfVerif"]
        for impl, fn, lean in [("ObjectState", "write_string", "obj_write_string"),
                               ("ObjectState", "write_non_string_value", "obj_write_non_string_value"),
                               ("ArrayState", "write_value", "arr_write_value")]:
            params, body = rs2lean.find_fn(state, fn, impl)
            out.append("/-- `%s::%s`: (status, num_inserted') -/" % (impl, fn))
            out.append("def %s (length num_inserted : Nat) : Nat × Nat :=" % lean)
            out.append(rs2lean.translate(body, {"self.length": "length", "self.num_inserted": "num_inserted"},
                                         {}, ["self.num_inserted"]))
            out.append("")
        out += ["/-- `parent_state_stack.pop().unwrap_or(State::End)` -/",
                "def popOrEnd : List WState → WState × List WState", "  | [] => (.done, [])", "  | s :: r => (s, r)", ""]
        for fn, args, params in [("write_string", "", {}), ("write_non_string_scalar", "", {}),
                                 ("start_object", "(len : Nat) ", {"length": "len"}), ("finish_object", "", {}),
                                 ("start_array", "(len : Nat) ", {"length": "len"}), ("finish_array", "", {})]:
            _, body = rs2lean.find_fn(state, fn, "State")
            out.append("/-- `State::%s`: (state', parent stack', status) -/" % fn)
            out.append("def state_%s %s(st : WState) (stack : List WState) : WState × List WState × Nat :=" % (fn, args))
            out.append(rs2lean.translate_state_method(body, params))
            out.append("")
        out.append("end SfVerif.Gen")
        return "\n".join(out) + "\n"
    except rs2lean.TranslateError as e:
        raise ExtractError("rs2lean: %s" % e)


def write_if_changed(name, content):
    path = os.path.join(OUT, name)
    old = None
    if os.path.exists(path):
        with open(path) as f:
            old = f.read()
    if old != content:
        with open(path, "w") as f:
            f.write(content)
        return True
    return False


def main():
    os.makedirs(OUT, exist_ok=True)
    report = {"changed": [], "errors": []}
    consts = None
    steps = [("Consts.lean", gen_consts)]
    try:
        consts = gen_consts()
        if write_if_changed("Consts.lean", consts):
            report["changed"].append("Consts.lean")
    except ExtractError as e:
        report["errors"].append("consts: %s" % e)
    try:
        # the enums only need the names of the constants (to avoid clashes); fall back to the last good file
        cn_src = consts
        if cn_src is None and os.path.exists(os.path.join(OUT, "Consts.lean")):
            cn_src = open(os.path.join(OUT, "Consts.lean")).read()
        const_names = re.findall(r"^def ([A-Z0-9_]+) ", cn_src or "", flags=re.M)
        enums = gen_enums(const_names)
        if write_if_changed("Enums.lean", enums):
            report["changed"].append("Enums.lean")
    except ExtractError as e:
        report["errors"].append("enums: %s" % e)
    for fname, prefix, gen in [("FnsNanBox.lean", "fns-nanbox", lambda: gen_fns_nanbox(re.findall(r"^def ([A-Z0-9_]+) ", consts or "", flags=re.M))),
                               ("FnsLogs.lean", "fns-logs", gen_fns_logs),
                               ("FnsState.lean", "fns-state", gen_fns_state),
                               ("Markers.lean", "markers", gen_markers),
                               ("WriterStep.lean", "writer", gen_writer),
                               ("ReadEntry.lean", "read-entries", gen_read_entries)]:
        try:
            text = gen()
            if write_if_changed(fname, text):
                report["changed"].append(fname)
        except ExtractError as e:
            report["errors"].append("%s: %s" % (prefix, e))
    try:
        st = gen_structure()
        if write_if_changed("Structure.lean", st):
            report["changed"].append("Structure.lean")
    except ExtractError as e:
        report["errors"].append("structure: %s" % e)
    try:
        abi, tables = gen_abi()
        if write_if_changed("Abi.lean", abi):
            report["changed"].append("Abi.lean")
        report["abi"] = tables
    except ExtractError as e:
        report["errors"].append("abi: %s" % e)
    json.dump(report, sys.stdout, indent=1)
    sys.stdout.write("\n")
    sys.exit(2 if report["errors"] else 0)


if __name__ == "__main__":
    main()
