#!/usr/bin/env python3
"""rs2lean: a translator for a small imperative subset of Rust into pure Lean 4 definitions.

Used by extract.py to regenerate `Gen/Fns.lean` from the *bodies* of a few small functions of
/repo (NaN-box encode / number, the log ring's append / read_ptrs, the per-container counters of the
write state machine), so that theorems about them are re-checked against what the source says now
(`Lemmas/GenFns.lean` proves each regenerated definition equal to the hand-written model function).

Subset: `let [mut] x [: T] [= e];`, `x = e;`, `x += e;`, `self.f = e;`, `self.f += e;`,
`if c { .. } [else { .. }]` (statement or tail expression), `return e;`, `assert!(..);` (ignored),
tail expression; expressions over integers with `+ - * / % << >> & | ^`, comparisons, `&& || !`,
casts (`as Val`, `as _`, `as usize` are value preserving here; `as u64` truncates), tuples,
`Self(e)`, `a.min(b)`, `a.is_multiple_of(k)`, `x.to_bits()`, `tag.as_val()`, `ptr::null()`,
`self.buffer.as_ptr()`, `p.add(n)`, `unsafe { e }`, `Self::CONST`, `WriteResult::Variant`.
Early returns are handled by symbolic execution into a decision tree (paths are duplicated).
Anything outside the subset raises TranslateError (a broken translation obligation, never a guess).
"""
import re


class TranslateError(Exception):
    pass


TOK = re.compile(
    r"\s*(?:(\d[\d_]*)"
    r"|([A-Za-z_][A-Za-z0-9_]*(?:::[A-Za-z_][A-Za-z0-9_]*)*)"
    r"|(<<=|>>=|<<|>>|<=|>=|==|!=|&&|\|\||\+=|-=|->|=>|[-+*/%&|^!(){}\[\];,.:=<>?]))")


def tokenize(s):
    pos, out = 0, []
    s = s.strip()
    while pos < len(s):
        m = TOK.match(s, pos)
        if not m:
            raise TranslateError("cannot tokenize %r" % s[pos:pos + 40])
        if m.group(1):
            out.append(("int", int(m.group(1).replace("_", ""))))
        elif m.group(2):
            out.append(("id", m.group(2)))
        else:
            out.append(("op", m.group(3)))
        pos = m.end()
    return out


def find_fn(src, name, impl=None):
    """text of the body `{ ... }` of `fn name` (inside `impl <impl>` when given)"""
    start = 0
    if impl:
        m = re.search(r"impl\s+%s\s*\{" % re.escape(impl), src)
        if not m:
            raise TranslateError("impl %s not found" % impl)
        start = m.end()
        depth, i = 1, start
        while depth and i < len(src):
            depth += {"{": 1, "}": -1}.get(src[i], 0)
            i += 1
        region = src[start:i]
    else:
        region = src
    m = re.search(r"fn\s+%s\s*(?:<[^>]*>)?\s*\(([^)]*)\)\s*(?:->\s*([^{]+?))?\s*\{" % re.escape(name), region)
    if not m:
        raise TranslateError("fn %s not found%s" % (name, " in impl " + impl if impl else ""))
    depth, i = 1, m.end()
    while depth and i < len(region):
        depth += {"{": 1, "}": -1}.get(region[i], 0)
        i += 1
    return m.group(1), region[m.end():i - 1]


class P:
    def __init__(self, toks):
        self.t, self.i = toks, 0
        self.no_struct = False

    def peek(self, k=0):
        return self.t[self.i + k] if self.i + k < len(self.t) else (None, None)

    def at(self, kind, val=None):
        k, v = self.peek()
        return k == kind and (val is None or v == val)

    def eat(self, kind=None, val=None):
        k, v = self.peek()
        if (kind and k != kind) or (val is not None and v != val):
            raise TranslateError("expected %s %s, got %s %s" % (kind, val, k, v))
        self.i += 1
        return v

    # ---- statements
    def block(self):
        self.eat("op", "{")
        stmts = []
        while not self.at("op", "}"):
            stmts.append(self.stmt())
        self.eat("op", "}")
        return stmts

    def stmts_until_end(self):
        out = []
        while self.peek()[0] is not None:
            out.append(self.stmt())
        return out

    def stmt(self):
        if self.at("id", "let"):
            self.eat()
            mut = False
            if self.at("id", "mut"):
                self.eat()
                mut = True
            if self.at("op", "("):
                # tuple pattern `let (a, b, c) = …`
                self.eat()
                names = []
                while not self.at("op", ")"):
                    if self.at("id", "mut"):
                        self.eat()
                    names.append(self.eat("id"))
                    if self.at("op", ","):
                        self.eat()
                self.eat("op", ")")
                name = tuple(names)
            else:
                name = self.eat("id")
            if self.at("op", ":"):
                self.eat()
                self.type_()
            e = None
            if self.at("op", "="):
                self.eat()
                e = self.expr()
            self.eat("op", ";")
            return ("let", name, mut, e)
        if self.at("id", "return"):
            self.eat()
            e = self.expr()
            self.eat("op", ";")
            return ("return", e)
        if self.at("id", "if"):
            e = self.if_()
            if self.at("op", ";"):
                self.eat()
            return ("ifs", e)
        if self.at("id") and self.peek(1) == ("op", "!") and self.peek(2) == ("op", "("):
            name = self.eat("id")
            self.eat("op", "!")
            self.parens_skip()
            self.eat("op", ";")
            if name not in ("assert", "debug_assert", "debug_assert_eq", "debug_assert_ne"):
                raise TranslateError("unsupported macro statement %s!" % name)
            return ("skip",)
        e = self.expr()
        if self.at("op", "=") or self.at("op", "+=") or self.at("op", "-="):
            op = self.eat()
            r = self.expr()
            self.eat("op", ";")
            return ("assign", e, op, r)
        if self.at("op", ";"):
            self.eat()
            return ("exprstmt", e)
        return ("tail", e)

    def parens_skip(self):
        self.eat("op", "(")
        depth = 1
        while depth:
            k, v = self.peek()
            if k is None:
                raise TranslateError("unbalanced parentheses")
            if (k, v) == ("op", "("):
                depth += 1
            if (k, v) == ("op", ")"):
                depth -= 1
            self.i += 1

    def type_(self):
        k, v = self.peek()
        if k == "id":
            self.eat()
            return v
        raise TranslateError("unsupported type syntax")

    def if_(self):
        self.eat("id", "if")
        saved, self.no_struct = self.no_struct, True
        c = self.expr()
        self.no_struct = saved
        a = self.block()
        b = None
        if self.at("id", "else"):
            self.eat()
            if self.at("id", "if"):
                b = [("tail", self.if_())]
            else:
                b = self.block()
        return ("if", c, a, b)

    def struct_fields(self):
        self.eat("op", "{")
        out = []
        while not self.at("op", "}"):
            f = self.eat("id")
            if self.at("op", ":"):
                self.eat()
                out.append((f, self.expr()))
            else:
                out.append((f, ("id", f)))
            if self.at("op", ","):
                self.eat()
        self.eat("op", "}")
        return out

    def match_(self):
        self.eat("id", "match")
        saved, self.no_struct = self.no_struct, True
        scrut = self.expr()
        self.no_struct = saved
        self.eat("op", "{")
        arms = []
        while not self.at("op", "}"):
            k, v = self.peek()
            if k != "id":
                raise TranslateError("unsupported match pattern")
            self.eat()
            binder = None
            if self.at("op", "("):
                self.eat()
                binder = self.eat("id")
                self.eat("op", ")")
            alts = [(v, binder)]
            while self.at("op", "|"):
                # `A | B => body`: the same body for each alternative
                self.eat()
                k2, v2 = self.peek()
                if k2 != "id":
                    raise TranslateError("unsupported match pattern")
                self.eat()
                b2 = None
                if self.at("op", "("):
                    self.eat()
                    b2 = self.eat("id")
                    self.eat("op", ")")
                alts.append((v2, b2))
            self.eat("op", "=>")
            if self.at("op", "{"):
                body = self.block()
            else:
                body = [("tail", self.expr())]
            if self.at("op", ","):
                self.eat()
            for (va, ba) in alts:
                arms.append((va, ba, body))
        self.eat("op", "}")
        return ("match", scrut, arms)

    # ---- expressions (Rust precedence, loosest first)
    def expr(self):
        return self.lor()

    def binl(self, ops, nxt):
        e = nxt()
        while self.peek()[0] == "op" and self.peek()[1] in ops:
            o = self.eat()
            e = ("bin", o, e, nxt())
        return e

    def lor(self):
        return self.binl(["||"], self.land)

    def land(self):
        return self.binl(["&&"], self.cmp)

    def cmp(self):
        e = self.bor()
        if self.peek()[0] == "op" and self.peek()[1] in ("==", "!=", "<", ">", "<=", ">="):
            o = self.eat()
            e = ("bin", o, e, self.bor())
        return e

    def bor(self):
        return self.binl(["|"], self.bxor)

    def bxor(self):
        return self.binl(["^"], self.band)

    def band(self):
        return self.binl(["&"], self.shift)

    def shift(self):
        return self.binl(["<<", ">>"], self.add)

    def add(self):
        return self.binl(["+", "-"], self.mul)

    def mul(self):
        return self.binl(["*", "/", "%"], self.cast)

    def cast(self):
        e = self.unary()
        while self.at("id", "as"):
            self.eat()
            k, v = self.peek()
            if k == "op" and v == "*":            # `as *mut ()` / `as *const T`: a pointer-width value
                self.eat()
                self.eat("id")                    # mut / const
                if self.at("op", "("):
                    self.eat()
                    self.eat("op", ")")
                else:
                    self.eat("id")
                e = ("cast", e, "*ptr")
                continue
            ty = self.eat("id")
            e = ("cast", e, ty)
        return e

    def unary(self):
        if self.at("op", "!"):
            self.eat()
            return ("not", self.unary())
        if self.at("op", "*"):
            self.eat()
            return ("deref", self.unary())
        return self.postfix()

    def postfix(self):
        e = self.primary()
        while True:
            if self.at("op", "."):
                self.eat()
                k, v = self.peek()
                if k == "int":
                    self.eat()
                    e = ("field", e, str(v))
                    continue
                name = self.eat("id")
                if self.at("op", "("):
                    args = self.args()
                    e = ("mcall", e, name, args)
                else:
                    e = ("field", e, name)
            elif self.at("op", "?"):
                self.eat()
                e = ("try", e)
            else:
                return e

    def args(self):
        self.eat("op", "(")
        out = []
        while not self.at("op", ")"):
            out.append(self.expr())
            if self.at("op", ","):
                self.eat()
        self.eat("op", ")")
        return out

    def primary(self):
        k, v = self.peek()
        if k == "int":
            self.eat()
            return ("int", v)
        if (k, v) == ("op", "("):
            self.eat()
            items = []
            trailing = False
            while not self.at("op", ")"):
                items.append(self.expr())
                trailing = False
                if self.at("op", ","):
                    self.eat()
                    trailing = True
            self.eat("op", ")")
            if len(items) == 1 and not trailing:
                return items[0]
            return ("tuple", items)
        if k == "id":
            if v == "unsafe":
                self.eat()
                b = self.block()
                if len(b) != 1 or b[0][0] != "tail":
                    raise TranslateError("unsafe block is not a single expression")
                return b[0][1]
            if v == "if":
                return self.if_()
            if v == "match":
                return self.match_()
            self.eat()
            if self.at("op", "("):
                return ("call", v, self.args())
            if self.at("op", "{") and not self.no_struct and v[0].isupper():
                return ("struct", v, self.struct_fields())
            return ("id", v)
        raise TranslateError("unexpected token %s %s" % (k, v))


# ------------------------------------------------------------------ symbolic execution -> Lean

class Env:
    def __init__(self, vals, consts, self_fields, opts=None):
        self.vals, self.consts, self.self_fields = dict(vals), consts, list(self_fields)
        self.opts = opts or {}

    def copy(self):
        return Env(self.vals, self.consts, self.self_fields, self.opts)


NARROW = {"u8": 8, "u16": 16, "u32": 32, "u64": 64}
IDENTITY_CASTS = {"Val", "_", "usize", "u128"}


def tr(e, env):
    """expression -> Lean string (natural numbers, propositions for conditions, Option Nat for pointers)"""
    k = e[0]
    if k == "int":
        return str(e[1])
    if k == "id":
        n = e[1]
        if n in env.vals:
            return env.vals[n]
        if n.startswith("Self::") or n.startswith("NanBox::"):
            c = n.split("::", 1)[1]
            if c in env.consts:
                return "(%s w)" % c
            raise TranslateError("unknown constant %s" % n)
        if n.startswith("WriteResult::"):
            return "WriteResult_" + n.split("::", 1)[1]
        if n in env.consts:
            return env.consts[n] if isinstance(env.consts, dict) else n
        if env.opts.get("decode"):
            if n == "ValueRef::Null":
                return "NanBox.Ref.null"
            if n.startswith("ErrorCode::") or n.startswith("Tag::"):
                return n.replace("::", "_")
        raise TranslateError("unbound identifier %s" % n)
    if k == "field":
        base, f = e[1], e[2]
        if base == ("id", "self"):
            key = "self." + f
            if key in env.vals:
                return env.vals[key]
        raise TranslateError("unsupported field access .%s" % f)
    if k == "cast":
        inner = tr(e[1], env)
        if e[2] == "*ptr" or (e[2] == "usize" and env.opts.get("decode")):
            return "(%s %% 2 ^ w)" % inner            # truncation to the pointer width
        if e[2] in IDENTITY_CASTS:
            return inner
        if e[2] in NARROW:
            return "(%s %% 2 ^ %d)" % (inner, NARROW[e[2]])
        raise TranslateError("unsupported cast target %s" % e[2])
    if k == "not":
        return "(¬ %s)" % tr(e[1], env)
    if k == "bin":
        o, a, b = e[1], tr(e[2], env), tr(e[3], env)
        m = {"+": "+", "-": "-", "*": "*", "/": "/", "%": "%", "<<": "<<<", ">>": ">>>", "&": "&&&", "|": "|||",
             "^": "^^^", "==": "=", "!=": "≠", "<": "<", ">": ">", "<=": "≤", ">=": "≥", "&&": "∧", "||": "∨"}
        return "(%s %s %s)" % (a, m[o], b)
    if k == "tuple":
        return "(" + ", ".join(tr(x, env) for x in e[1]) + ")"
    if k == "call":
        f, args = e[1], e[2]
        if f == "Self" and len(args) == 1:
            return tr(args[0], env)
        if f == "ptr::null" and not args:
            return "(none : Option Nat)"
        if f in ("std::cmp::min", "cmp::min", "core::cmp::min", "min") and len(args) == 2:
            return "(min %s %s)" % (tr(args[0], env), tr(args[1], env))
        if f in ("std::cmp::max", "cmp::max", "core::cmp::max", "max") and len(args) == 2:
            return "(max %s %s)" % (tr(args[0], env), tr(args[1], env))
        if env.opts.get("decode") and len(args) == 1:
            a = args[0]
            if f == "Ok":
                return "(NanBox.Decoded.ok %s)" % tr(a, env)
            if f == "Err":                            # the error text is not observable: callers match `Err(_)`
                return "NanBox.Decoded.decodeError"
            if f == "ValueRef::Number":
                return "(NanBox.Ref.number %s)" % tr(a, env)
            if f == "ValueRef::Bool":
                return "(NanBox.Ref.bool (decide %s))" % tr(a, env)
            if f == "ValueRef::Error":
                return "(NanBox.Ref.error %s)" % tr(a, env)
            if f == "f64::from_bits":
                return tr(a, env)
            if f == FROM_VAL:
                return "(tagFromVal %s)" % tr(a, env)
            if f == "ErrorCode::from_repr":
                return ("fromrepr", tr(a, env))
        raise TranslateError("unsupported call %s" % f)
    if k == "struct" and env.opts.get("decode"):
        ctor = {"ValueRef::Array": "array", "ValueRef::String": "string", "ValueRef::Object": "object"}.get(e[1])
        fields = dict(e[2])
        if ctor is None or sorted(fields) != ["len", "ptr"]:
            raise TranslateError("unsupported struct literal %s" % e[1])
        return "(NanBox.Ref.%s %s %s)" % (ctor, tr(fields["ptr"], env), tr(fields["len"], env))
    if k == "mcall":
        recv, name, args = e[1], e[2], e[3]
        if name == "min" and len(args) == 1:
            return "(min %s %s)" % (tr(recv, env), tr(args[0], env))
        if name == "max" and len(args) == 1:
            return "(max %s %s)" % (tr(recv, env), tr(args[0], env))
        if name == "saturating_sub" and len(args) == 1:
            return "(%s - %s)" % (tr(recv, env), tr(args[0], env))      # natural subtraction is saturating
        if name == "is_multiple_of" and len(args) == 1:
            return "(%s %% %s = 0)" % (tr(recv, env), tr(args[0], env))
        if name in ("to_bits", AS_VAL) and not args:
            return tr(recv, env)
        if name == "as_ptr" and not args and recv == ("field", ("id", "self"), "buffer"):
            return "(some 0 : Option Nat)"
        if name == "add" and len(args) == 1:
            return "(ptrAdd %s %s)" % (tr(recv, env), tr(args[0], env))
        if env.opts.get("decode"):
            if name == "unwrap_or" and len(args) == 1 and args[0] == ("id", "ErrorCode::Unknown"):
                r = tr(recv, env)
                if isinstance(r, tuple) and r[0] == "fromrepr":
                    return "(errorCodeFromRepr %s)" % r[1]
            if name == "into" and not args:
                return tr(recv, env)
            if recv == ("id", "self") and not args and name in env.opts.get("fns", {}):
                return inline_pure(env.opts["fns"][name], env)
        raise TranslateError("unsupported method .%s()" % name)
    if k == "if":
        c, a, b = e[1], e[2], e[3]
        if b is None or len(a) != 1 or a[0][0] != "tail" or len(b) != 1 or b[0][0] != "tail":
            raise TranslateError("if-expression with statements inside")
        return "(if %s then %s else %s)" % (tr(c, env), tr(a[0][1], env), tr(b[0][1], env))
    raise TranslateError("unsupported expression %s" % k)


def inline_pure(stmts, env):
    """a private method made of `let`s and a tail expression, inlined as an expression"""
    env = env.copy()
    for s in stmts[:-1]:
        if s[0] != "let" or s[3] is None:
            raise TranslateError("inlined method is not `let`s + tail expression")
        env.vals[s[1]] = tr(s[3], env)
    if not stmts or stmts[-1][0] != "tail":
        raise TranslateError("inlined method has no tail expression")
    return tr(stmts[-1][1], env)


def run(stmts, env):
    """decision tree: ('if', cond, t, e) | ('ret', value_or_None, env) | ('try', opt, var, tree)"""
    if not stmts:
        return ("ret", None, env)
    s, rest = stmts[0], stmts[1:]
    k = s[0]
    if k == "let" and s[3] is not None and s[3][0] == "try":
        if not env.opts.get("decode"):
            raise TranslateError("`?` outside the subset")
        opt = tr(s[3][1], env)
        env = env.copy()
        env.vals[s[1]] = s[1]
        return ("try", opt, s[1], run(rest, env))
    if k == "tail" and s[1][0] == "match" and rest == [] and env.opts.get("decode"):
        scrut = tr(s[1][1], env)
        tree = ("ret", "NanBox.Decoded.panic", env)          # no arm taken: not reachable for an exhaustive match
        for variant, binder, body in reversed(s[1][2]):
            if binder is not None or not variant.startswith("Tag::"):
                raise TranslateError("unsupported match arm %s" % variant)
            tree = ("if", "(%s = %s)" % (scrut, variant.replace("::", "_")), run(body, env), tree)
        return tree
    if k == "skip":
        return run(rest, env)
    if k == "let" and s[3] is not None and s[3][0] == "if" and s[3][3] is not None and \
            not (len(s[3][2]) == 1 and len(s[3][3]) == 1 and not isinstance(s[1], tuple)):
        # `let pat = if c { stmts; e1 } else { stmts; e2 };` — the branches are executed, each ending
        # in the binding of its own tail expression
        def bind(block):
            if not block or block[-1][0] != "tail":
                raise TranslateError("branch of a `let … = if` has no value")
            return block[:-1] + [("let", s[1], s[2], block[-1][1])]
        c = tr(s[3][1], env)
        return ("if", c, run(bind(s[3][2]) + rest, env), run(bind(s[3][3]) + rest, env))
    if k == "let" and isinstance(s[1], tuple):
        if s[3] is None or s[3][0] != "tuple" or len(s[3][1]) != len(s[1]):
            raise TranslateError("tuple pattern bound to something that is not a tuple of the same width")
        env = env.copy()
        vals = [tr(x, env) for x in s[3][1]]
        for nm, v in zip(s[1], vals):
            env.vals[nm] = v
        return run(rest, env)
    if k == "let":
        env = env.copy()
        if s[3] is not None:
            env.vals[s[1]] = tr(s[3], env)
        else:
            env.vals.pop(s[1], None)
        return run(rest, env)
    if k == "assign":
        lhs, op, rhs = s[1], s[2], s[3]
        if lhs[0] == "id":
            key = lhs[1]
        elif lhs[0] == "field" and lhs[1] == ("id", "self"):
            key = "self." + lhs[2]
            if key not in env.self_fields:
                raise TranslateError("assignment to untracked field %s" % key)
        else:
            raise TranslateError("unsupported assignment target")
        env = env.copy()
        r = tr(rhs, env)
        if op == "=":
            env.vals[key] = r
        else:
            if key not in env.vals:
                raise TranslateError("compound assignment to unbound %s" % key)
            env.vals[key] = "(%s %s %s)" % (env.vals[key], op[0], r)
        return run(rest, env)
    if k == "return":
        return ("ret", tr(s[1], env), env)
    if k == "tail":
        e = s[1]
        if e[0] == "if" and rest == []:
            c = tr(e[1], env)
            return ("if", c, run(e[2], env), run(e[3] or [], env))
        if rest:
            raise TranslateError("tail expression followed by statements")
        return ("ret", tr(e, env), env)
    if k == "ifs":
        e = s[1]
        c = tr(e[1], env)
        return ("if", c, run(e[2] + rest, env), run((e[3] or []) + rest, env))
    if k == "exprstmt":
        raise TranslateError("expression statement with effects outside the subset")
    raise TranslateError("unsupported statement %s" % k)


def emit(tree, out_fields, indent=2):
    pad = " " * indent
    if tree[0] == "try":
        _, opt, var, t = tree
        return "%smatch %s with\n%s| none => NanBox.Decoded.decodeError\n%s| some %s =>\n%s" % (
            pad, opt, pad, pad, var, emit(t, out_fields, indent + 2))
    if tree[0] == "ret":
        _, v, env = tree
        parts = []
        if v is not None:
            parts.append(v)
        for f in out_fields:
            parts.append(env.vals[f])
        return pad + ("(" + ", ".join(parts) + ")" if len(parts) != 1 else parts[0])
    _, c, t, e = tree
    return "%sif %s then\n%s\n%selse\n%s" % (pad, c, emit(t, out_fields, indent + 2), pad, emit(e, out_fields, indent + 2))


def translate(body_text, vals, consts, self_fields=(), opts=None):
    stmts = P(tokenize(body_text)).stmts_until_end()
    env = Env(vals, consts, self_fields, opts)
    return emit(run(stmts, env), list(self_fields))


def parse_body(body_text):
    return P(tokenize(body_text)).stmts_until_end()


# ------------------------------------------------------------------ the write state machine (state.rs)

# names the extractor found in the source (the helper that swaps in a new state and pushes the old
# one; the parameter that is the parent stack) — set per method by extract.py
AS_VAL = "as_val"
FROM_VAL = "Tag::from_val"
SWAP_FN = "swap_and_push"
STACK_PARAM = "parent_state_stack"

COUNTER_FNS = {("obj", "write_string"): "obj_write_string",
               ("obj", "write_non_string_value"): "obj_write_non_string_value",
               ("arr", "write_value"): "arr_write_value"}


class SEnv:
    """self is a symbolic `WState`: ('start',) ('done',) ('obj', L, N) ('arr', L, N) or ('raw', leanTerm)"""

    def __init__(self, self_v, stack, vals, binders):
        self.self_v, self.stack, self.vals, self.binders = self_v, stack, dict(vals), dict(binders)

    def copy(self):
        return SEnv(self.self_v, self.stack, self.vals, self.binders)


def st_term(v):
    if v[0] == "start":
        return "WState.start"
    if v[0] == "done":
        return "WState.done"
    if v[0] in ("obj", "arr"):
        return "(WState.%s %s %s)" % (v[0], v[1], v[2])
    return v[1]


def state_value(e, env):
    """`State::End`, `State::Object(ObjectState { length, num_inserted: 0 })`, `Self::Array(..)`"""
    if e[0] == "id" and e[1].split("::")[-1] in ("End", "Start"):
        return ("done",) if e[1].endswith("End") else ("start",)
    if e[0] == "call" and e[1].split("::")[-1] in ("Object", "Array") and len(e[2]) == 1 and e[2][0][0] == "struct":
        kind = "obj" if e[1].endswith("Object") else "arr"
        st = e[2][0]
        want = "ObjectState" if kind == "obj" else "ArrayState"
        if st[1] != want:
            raise TranslateError("%s built from %s" % (e[1], st[1]))
        f = dict(st[2])
        if set(f) != {"length", "num_inserted"}:
            raise TranslateError("%s fields changed" % want)
        return (kind, sv(f["length"], env), sv(f["num_inserted"], env))
    raise TranslateError("unsupported state value")


def subst_payload(e, env):
    """`binder.length` / `binder.num_inserted` -> the symbolic payload of self"""
    if isinstance(e, tuple):
        if e[0] == "field" and e[1][0] == "id" and e[1][1] in env.binders:
            kind = env.binders[e[1][1]]
            if env.self_v[0] != kind or e[2] not in ("length", "num_inserted"):
                raise TranslateError("payload field %s read after self was replaced" % e[2])
            return ("id", "__payload_" + e[2])
        return tuple(subst_payload(x, env) for x in e)
    if isinstance(e, list):
        return [subst_payload(x, env) for x in e]
    return e


def sv(e, env):
    """scalar expressions inside the state machine: literals, parameters, results, `WriteResult::X`"""
    vals = dict(env.vals)
    if env.self_v[0] in ("obj", "arr"):
        vals["__payload_length"], vals["__payload_num_inserted"] = env.self_v[1], env.self_v[2]
    return tr(subst_payload(e, env), Env(vals, {}, []))


def counter_call(e, env):
    """`binder.method()` on the payload bound by the enclosing match arm: (status, env')"""
    if e[0] != "mcall" or e[1][0] != "id" or e[1][1] not in env.binders or e[3]:
        return None
    kind = env.binders[e[1][1]]
    fn = COUNTER_FNS.get((kind, e[2]))
    if fn is None:
        raise TranslateError("unknown counter method %s on %s" % (e[2], kind))
    if env.self_v[0] != kind:
        raise TranslateError("payload binder used after self was replaced")
    l, n = env.self_v[1], env.self_v[2]
    env = env.copy()
    env.self_v = (kind, l, "(%s %s %s).2" % (fn, l, n))
    return "(%s %s %s).1" % (fn, l, n), env


def run_state(stmts, env):
    """decision tree: ('if', c, t, e) | ('match', [(leanPattern, subtree)]) | ('ret', status, env)"""
    if not stmts:
        raise TranslateError("state method falls off its end")
    s, rest = stmts[0], stmts[1:]
    k = s[0]
    if k == "let":
        cc = counter_call(s[3], env) if s[3] is not None else None
        if cc:
            status, env = cc
            env.vals[s[1]] = status
            return run_state(rest, env)
        env = env.copy()
        env.vals[s[1]] = sv(s[3], env)
        return run_state(rest, env)
    if k == "ifs":
        e = s[1]
        c = sv(e[1], env)
        return ("if", c, run_state(e[2] + rest, env), run_state((e[3] or []) + rest, env))
    if k == "return":
        return ("ret", sv(s[1], env), env)
    if k == "assign":
        lhs, op, rhs = s[1], s[2], s[3]
        if lhs == ("deref", ("id", "self")) and op == "=":
            env = env.copy()
            if rhs[0] == "mcall" and rhs[2] == "unwrap_or" and rhs[1][0] == "mcall" and rhs[1][2] == "pop" \
                    and rhs[1][1] == ("id", STACK_PARAM) and len(rhs[3]) == 1 \
                    and state_value(rhs[3][0], env) == ("done",):
                env.self_v = ("raw", "(popOrEnd %s).1" % env.stack)
                env.stack = "(popOrEnd %s).2" % env.stack
            else:
                env.self_v = state_value(rhs, env)
            env.binders = {}
            return run_state(rest, env)
        raise TranslateError("unsupported assignment in state method")
    if k == "exprstmt":
        e = s[1]
        if e[0] == "mcall" and e[1] == ("id", "self") and e[2] == SWAP_FN and len(e[3]) == 2 \
                and e[3][1] == ("id", STACK_PARAM):
            env = env.copy()
            new = state_value(e[3][0], env)
            env.stack = "(%s :: %s)" % (st_term(env.self_v), env.stack)
            env.self_v = new
            env.binders = {}
            return run_state(rest, env)
        raise TranslateError("unsupported statement in state method")
    if k == "tail":
        e = s[1]
        if rest:
            raise TranslateError("tail expression followed by statements")
        if e[0] == "match":
            if e[1] != ("id", "self") or env.self_v != ("raw", "st"):
                raise TranslateError("match on something other than the untouched self")
            arms = []
            for pat, binder, body in e[2]:
                a = env.copy()
                v = pat.split("::")[-1]
                if v == "Start" and binder is None:
                    a.self_v, lp = ("start",), ".start"
                elif v == "End" and binder is None:
                    a.self_v, lp = ("done",), ".done"
                elif v in ("Object", "Array") and binder:
                    kind = "obj" if v == "Object" else "arr"
                    a.self_v, lp = (kind, "l", "n"), ".%s l n" % kind
                    a.binders = {binder: kind}
                elif pat == "_" and binder is None:
                    lp = "_"
                else:
                    raise TranslateError("unsupported pattern %s" % pat)
                arms.append((lp, run_state(body, a)))
            return ("match", arms)
        cc = counter_call(e, env)
        if cc:
            return ("ret", cc[0], cc[1])
        return ("ret", sv(e, env), env)
    raise TranslateError("unsupported statement %s in state method" % k)


def emit_state(tree, indent=2):
    pad = " " * indent
    if tree[0] == "try":
        _, opt, var, t = tree
        return "%smatch %s with\n%s| none => NanBox.Decoded.decodeError\n%s| some %s =>\n%s" % (
            pad, opt, pad, pad, var, emit(t, out_fields, indent + 2))
    if tree[0] == "ret":
        _, status, env = tree
        return "%s(%s, %s, %s)" % (pad, st_term(env.self_v), env.stack, status)
    if tree[0] == "if":
        _, c, t, e = tree
        return "%sif %s then\n%s\n%selse\n%s" % (pad, c, emit_state(t, indent + 2), pad, emit_state(e, indent + 2))
    lines = ["%smatch st with" % pad]
    for lp, sub in tree[1]:
        lines.append("%s| %s =>\n%s" % (pad, lp, emit_state(sub, indent + 4)))
    return "\n".join(lines)


def translate_state_method(body_text, params):
    stmts = P(tokenize(body_text)).stmts_until_end()
    env = SEnv(("raw", "st"), "stack", params, {})
    return emit_state(run_state(stmts, env))
