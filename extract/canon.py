#!/usr/bin/env python3
"""canon: a whitespace- and naming-insensitive canonical form of a fragment of Rust, used by the shape
checks of extract.py so that renaming a local variable, a parameter, a closure parameter or a pattern
binder (and re-flowing the text) does not change what the extractor sees.

Every identifier occurrence that is a *variable* (lower-case initial; not a keyword / primitive type;
not a path segment `a::b`; not a field or method `.f`; not a field name `f:` inside a struct literal
or pattern; not a macro `m!`; not a called free function `f(`) is renamed `v0, v1, ...` in order of
first occurrence (parameters, when given, are pinned as `P0, P1, ...`; a trailing comma before a closing bracket is dropped).  Struct shorthand `S { x }`
is expanded to `S { x: x }` first.  Two fragments have the same canonical form iff they are equal up to
a consistent renaming of such variables and layout."""
import re

KEEP = set("""self Self let mut if else match return as fn unsafe ref move in for while loop break continue
true false pub crate super use mod impl struct enum where dyn usize isize u8 u16 u32 u64 u128 i8 i16 i32
i64 i128 f32 f64 bool char str _ std core alloc""".split())
TOKRE = re.compile(r"[A-Za-z_][A-Za-z0-9_]*|\d[\d_]*|::|=>|->|==|!=|<=|>=|&&|\|\||\+=|-=|<<|>>|\.\.|\S")
IDENT = re.compile(r"[a-z_][A-Za-z0-9_]*$")


def tokens(text):
    return TOKRE.findall(text)


def canon(text, params=()):
    toks = tokens(text)
    toks = [t for i, t in enumerate(toks) if not (t == "," and i + 1 < len(toks) and toks[i + 1] in (")", "}", "]"))]
    params = list(params)
    # 1. expand struct shorthand
    out, marks, stack = [], [], []          # marks[i]: token i is a field name
    for i, t in enumerate(toks):
        prev = toks[i - 1] if i else ""
        nxt = toks[i + 1] if i + 1 < len(toks) else ""
        if t == "{":
            stack.append(bool(re.match(r"[A-Z]", prev)))
        elif t == "}" and stack:
            stack.pop()
        in_struct = bool(stack and stack[-1])
        is_id = bool(IDENT.match(t)) and (t not in KEEP or t in params)
        if in_struct and is_id and prev in ("{", ",") and nxt in (",", "}"):
            out += [t, ":", t]
            marks += [True, False, False]
        elif in_struct and IDENT.match(t) and prev in ("{", ",") and nxt == ":":
            out.append(t)
            marks.append(True)
        else:
            out.append(t)
            marks.append(False)
    # 2. rename variables
    names = {p: "P%d" % k for k, p in enumerate(params)}
    res = []
    for i, t in enumerate(out):
        prev = out[i - 1] if i else ""
        nxt = out[i + 1] if i + 1 < len(out) else ""
        if (IDENT.match(t) and (t not in KEEP or t in names) and not marks[i]
                and prev not in (".", "::", "'") and nxt not in ("::", "!", "(")):
            if t not in names:
                names[t] = "v%d" % (len(names) - len(params))
            res.append(names[t])
        else:
            res.append(t)
    return " ".join(res)


def same(a, b, params_a=(), params_b=()):
    return canon(a, params_a) == canon(b, params_b)


if __name__ == "__main__":
    import sys
    print(canon(sys.stdin.read(), sys.argv[1:]))
