#!/usr/bin/env python3
"""canon: a whitespace- and naming-insensitive canonical form of a fragment of Rust, used by the shape
checks of extract.py so that renaming a local variable, a parameter, a closure parameter or a pattern
binder (and re-flowing the text) does not change what the extractor sees.

Every identifier occurrence that is a *variable* (lower-case initial; not a keyword / primitive type;
not a path segment `a::b`; not a field or method `.f`; not a field name `f:` inside a struct literal
or pattern; not a macro `m!`; not a called free function `f(`) is renamed `v0, v1, ...` in order of
first occurrence (parameters, when given, are pinned as `P0, P1, ...`; a trailing comma before a closing bracket is dropped).  Struct shorthand `S { x }`
is expanded to `S { x: x }` first.  Two fragments have the same canonical form iff they are equal up to
a consistent renaming of such variables and layout."""
import re

KEEP = set("""self Self let mut if else match return as fn unsafe ref move in for while loop break continue
true false pub crate super use mod impl struct enum where dyn usize isize u8 u16 u32 u64 u128 i8 i16 i32
i64 i128 f32 f64 bool char str _ std core alloc""".split())
TOKRE = re.compile(r"[A-Za-z_][A-Za-z0-9_]*|\d[\d_]*|::|=>|->|==|!=|<=|>=|&&|\|\||\+=|-=|<<|>>|\.\.|\S")
IDENT = re.compile(r"[a-z_][A-Za-z0-9_]*$")


def tokens(text):
    return TOKRE.findall(text)


def unbrace(toks):
    """`|x| { e }` = `|x| e` and `pat => { e }` = `pat => e,` (what rustfmt does in either direction): drop
    the braces around a closure body or a match arm that is a single expression, and make the comma
    after a match arm uniform (none after a block, one after an expression)"""
    out = list(toks)
    changed = True
    while changed:
        changed = False
        for i, t in enumerate(out):
            if t != "{" or i == 0 or out[i - 1] not in ("|", "=>"):
                continue
            depth, j, semis = 1, i + 1, 0
            while j < len(out) and depth:
                if out[j] in ("{", "(", "["):
                    depth += 1
                elif out[j] in ("}", ")", "]"):
                    depth -= 1
                elif out[j] == ";" and depth == 1:
                    semis += 1
                j += 1
            if depth:
                break
            close = j - 1
            inner = out[i + 1:close]
            holes = len(inner) == 1 and bool(re.fullmatch(r"HOLE[WXG]\d+", inner[0]))   # a template's hole standing for statements
            if semis == 0 and inner and inner[0] not in ("let",) and not holes:
                arm = out[i - 1] == "=>"
                tail = out[close + 1:]
                if arm and (not tail or tail[0] not in (",", "}")):
                    tail = [","] + tail
                out = out[:i] + inner + tail
                changed = True
                break
            if out[i - 1] == "=>" and close + 1 < len(out) and out[close + 1] == "," and not holes:
                del out[close + 1]
                changed = True
                break
    return out


def rewrites(toks):
    """two spellings of the same thing: `0 != x` = `x != 0` (a literal on the left of `==` / `!=` with a
    plain identifier on the right), `x = x + e;` = `x += e;` (also `-`)"""
    out, i = [], 0
    n = len(toks)
    while i < n:
        t = toks[i]
        if (re.fullmatch(r"\d[\d_]*", t) and i + 2 < n and toks[i + 1] in ("==", "!=")
                and re.fullmatch(r"[a-z_][A-Za-z0-9_]*", toks[i + 2])
                and (i + 3 >= n or toks[i + 3] not in (".", "(", "[", "::", "as"))
                and (i == 0 or toks[i - 1] not in (".", "+", "-", "*", "/", "%", "<<", ">>", "&", "|", "^", "as"))):
            out += [toks[i + 2], toks[i + 1], t]
            i += 3
            continue
        if (re.fullmatch(r"[a-z_][A-Za-z0-9_]*", t) and i + 3 < n and toks[i + 1] == "=" and toks[i + 2] == t
                and toks[i + 3] in ("+", "-") and (i == 0 or toks[i - 1] in (";", "{", "}"))):
            out += [t, toks[i + 3] + "="]
            i += 4
            continue
        if (t == "map" and i + 5 < n and toks[i + 1] == "(" and toks[i + 3] == "::" and toks[i + 4] == "from" and toks[i + 5] == ")"
                and toks[i + 2] in ("f64", "f32", "i64", "u64", "usize", "isize", "u32", "i32", "u16", "i16", "u128", "i128")):
            # `.map(T::from)` = `.map(|n| n as T)`
            out += ["map", "(", "|", "n", "|", "n", "as", toks[i + 2], ")"]
            i += 6
            continue
        if (t in ("f64", "f32", "i64", "u64", "usize", "isize", "u32", "i32", "u16", "i16", "u128", "i128") and i + 5 < n
                and toks[i + 1] == "::" and toks[i + 2] == "from" and toks[i + 3] == "("
                and re.fullmatch(r"[a-z_][A-Za-z0-9_]*", toks[i + 4]) and toks[i + 5] == ")"):
            # `T::from(x)` exists only where the conversion is lossless, and then it is `x as T`
            out += [toks[i + 4], "as", t]
            i += 6
            continue
        out.append(t)
        i += 1
    return flip_comparisons(strip_let_types(out))


def strip_let_types(toks):
    """`let x: T = e` = `let x = e` (an annotation the compiler would infer)"""
    out, i, n = [], 0, len(toks)
    while i < n:
        out.append(toks[i])
        if toks[i] == "let":
            depth, j, colon = 0, i + 1, None
            while j < n and not (depth == 0 and toks[j] in ("=", ";")):
                if toks[j] in ("(", "[", "{", "<"):
                    depth += 1
                elif toks[j] in (")", "]", "}", ">"):
                    depth -= 1
                elif toks[j] == ":" and depth == 0 and colon is None:
                    colon = j
                j += 1
            if colon is not None and j < n and toks[j] == "=":
                out += toks[i + 1:colon]
                i = j
                continue
        i += 1
    return out


def flip_comparisons(toks):
    """`a >= b` = `b <= a`, `a > b` = `b < a` when both sides are simple (a literal, or an identifier /
    `self` followed by field accesses) and the comparison stands alone between delimiters"""
    def operand(i):
        # index just past a simple operand starting at i, or None
        if i >= len(toks):
            return None
        if re.fullmatch(r"\d[\d_]*", toks[i]):
            return i + 1
        if not re.fullmatch(r"[A-Za-z_][A-Za-z0-9_]*", toks[i]) or toks[i] in ("if", "return", "let", "match", "as"):
            return None
        j = i + 1
        while j + 1 < len(toks) and toks[j] == "." and re.fullmatch(r"[A-Za-z_][A-Za-z0-9_]*|\d+", toks[j + 1]) \
                and (j + 2 >= len(toks) or toks[j + 2] != "("):
            j += 2
        return j
    out, i = list(toks), 0
    while i < len(out):
        toks = out
        if i == 0 or out[i - 1] in ("(", "if", "&&", "||", "{", ";", "!", "=", "return", ","):
            e1 = operand(i)
            if e1 is not None and e1 < len(out) and out[e1] in (">=", ">"):
                e2 = operand(e1 + 1)
                if e2 is not None and (e2 >= len(out) or out[e2] in (")", "{", "&&", "||", ";", ",", "}")):
                    flipped = out[e1 + 1:e2] + [{">=": "<=", ">": "<"}[out[e1]]] + out[i:e1]
                    out = out[:i] + flipped + out[e2:]
                    i = e2
                    continue
        i += 1
    return out


def canon(text, params=()):
    toks = rewrites(unbrace(tokens(text)))
    toks = [t for i, t in enumerate(toks) if not (t == "," and i + 1 < len(toks) and toks[i + 1] in (")", "}", "]"))]
    params = list(params)
    # 1. expand struct shorthand
    out, marks, stack = [], [], []          # marks[i]: token i is a field name
    for i, t in enumerate(toks):
        prev = toks[i - 1] if i else ""
        nxt = toks[i + 1] if i + 1 < len(toks) else ""
        if t == "{":
            stack.append(bool(re.match(r"[A-Z]", prev)))
        elif t == "}" and stack:
            stack.pop()
        in_struct = bool(stack and stack[-1])
        is_id = bool(IDENT.match(t)) and (t not in KEEP or t in params)
        if in_struct and is_id and prev in ("{", ",") and nxt in (",", "}"):
            out += [t, ":", t]
            marks += [True, False, False]
        elif in_struct and IDENT.match(t) and prev in ("{", ",") and nxt == ":":
            out.append(t)
            marks.append(True)
        else:
            out.append(t)
            marks.append(False)
    # 2. rename variables; every *binding occurrence* (`let` pattern, closure parameter, match-arm /
    #    `if let` pattern, `for` variable) starts a fresh variable, so shadowing a name and picking a new
    #    one come out the same.  A `let` binding takes effect after its statement (`let x = x + 1`).
    n = len(out)

    def is_var(k):
        t = out[k]
        prev = out[k - 1] if k else ""
        nxt = out[k + 1] if k + 1 < n else ""
        return bool(IDENT.match(t) and (t not in KEEP or t in params) and not marks[k]
                    and prev not in (".", "::", "'") and nxt not in ("::", "!", "("))

    binder = [False] * n            # token k is a binding occurrence
    activate_at = {}                # k -> index from which the binding is visible
    # (a) let patterns
    for k, t in enumerate(out):
        if t != "let":
            continue
        depth, e = 0, k + 1
        while e < n and not (depth == 0 and out[e] in ("=", ";")):
            depth += {"(": 1, "[": 1, "{": 1, ")": -1, "]": -1, "}": -1}.get(out[e], 0)
            e += 1
        # a type annotation `: T` is not part of the pattern
        pat_end, depth = e, 0
        for q in range(k + 1, e):
            depth += {"(": 1, "[": 1, "{": 1, "<": 0, ")": -1, "]": -1, "}": -1}.get(out[q], 0)
            if depth == 0 and out[q] == ":" and not (q and marks[q - 1]):
                pat_end = q
                break
        # visible after the terminating `;` (statement) or at the `{` that opens an `if let` / `else` body
        cond_let = k > 0 and out[k - 1] in ("if", "while")
        depth, a = 0, e
        while a < n:
            if depth == 0 and (out[a] == ";" or (cond_let and out[a] == "{")):
                break
            if cond_let:
                depth += {"(": 1, "[": 1, ")": -1, "]": -1}.get(out[a], 0)
            else:
                depth += {"(": 1, "[": 1, "{": 1, ")": -1, "]": -1, "}": -1}.get(out[a], 0)
            a += 1
        for q in range(k + 1, pat_end):
            if is_var(q) and out[q] != "mut":
                binder[q] = True
                activate_at[q] = a + 1
    # (b) closure parameters
    k = 0
    while k < n:
        if out[k] == "|" and (k == 0 or out[k - 1] in ("(", ",", "=", "move", "{", ";")):
            e = k + 1
            while e < n and out[e] != "|":
                e += 1
            depth = 0
            for q in range(k + 1, e):
                if out[q] == ":" and depth == 0:
                    depth = 1                       # skip a type annotation up to the next comma
                elif out[q] == ",":
                    depth = 0
                elif depth == 0 and is_var(q):
                    binder[q] = True
                    activate_at[q] = e + 1
            k = e + 1
        else:
            k += 1
    # (c) match-arm patterns (everything between the start of the arm and `=>`)
    for k, t in enumerate(out):
        if t != "=>":
            continue
        depth, b = 0, k - 1
        while b >= 0:
            u = out[b]
            if u in (")", "]"):
                depth += 1
            elif u == "}":
                if depth == 0 and out[b + 1] not in ("=>", "|", "if"):
                    break
                depth += 1
            elif u in ("(", "[", "{"):
                if depth == 0:
                    break
                depth -= 1
            elif u == "," and depth == 0:
                break
            b -= 1
        stop = k
        for q in range(b + 1, k):
            if out[q] == "if":
                stop = q
                break
        for q in range(b + 1, stop):
            if is_var(q):
                binder[q] = True
                activate_at[q] = k + 1
    # (d) `for x in`
    for k, t in enumerate(out):
        if t == "for":
            e = k + 1
            while e < n and out[e] != "in":
                e += 1
            for q in range(k + 1, e):
                if is_var(q):
                    binder[q] = True
                    activate_at[q] = e + 1
    current = {p: "P%d" % k for k, p in enumerate(params)}
    pending = []                    # (activation index, name, label)
    fresh = [0]

    def new_label():
        fresh[0] += 1
        return "v%d" % (fresh[0] - 1)

    res = []
    for k, t in enumerate(out):
        for item in [x for x in pending if x[0] <= k]:
            current[item[1]] = item[2]
            pending.remove(item)
        if binder[k]:
            lab = new_label()
            pending.append((activate_at[k], t, lab))
            res.append(lab)
        elif is_var(k):
            if t not in current:
                current[t] = new_label()            # a free variable of the fragment
            res.append(current[t])
        else:
            res.append(t)
    return " ".join(res)


def same(a, b, params_a=(), params_b=()):
    return canon(a, params_a) == canon(b, params_b)


if __name__ == "__main__":
    import sys
    print(canon(sys.stdin.read(), sys.argv[1:]))
