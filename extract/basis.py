#!/usr/bin/env python3
"""basis.py [--write]: fingerprints (sha256 of the comment- and whitespace-free text) of the source
regions the hand-written models were transcribed from and that no translator regenerates.
A changed fingerprint is NOT a violation (the differential correspondence decides); it is reported
as a note in the evidence so that a reader knows the model's transcription basis moved.
`--write` records the current fingerprints in extract/basis.json (committed; never done by a check)."""
import hashlib, json, os, re, sys

REPO = os.environ.get("SFV_REPO", "/repo")
HERE = os.path.dirname(os.path.abspath(__file__))
REGIONS = {
    # property scope -> (file, start regex, end regex or None = to the test module / end of file)
    "lazy reader: ObjectRef / ArrayRef / LazyValueRef methods (C01, C08, C11)":
        ("provider/src/read/lazy_value_ref.rs", r"pub\(crate\) struct StringRef", None),
    "interner (C12)": ("provider/src/string_interner.rs", r"pub\(crate\) struct StringInterner", None),
    "context, initialisers, thread-locals (C13, C14)": ("provider/src/lib.rs", r"", None),
    "native glue of the api crate (C02, C05, C12)": ("api/src/lib.rs", r"mod provider_fallback", r"\n}\n"),
    "typed deserialisation (C09, C10)": ("api/src/read.rs", r"", None),
    "typed serialisation (C09)": ("api/src/write.rs", r"", None),
}


def norm(text):
    m = re.search(r"#\[cfg\(test\)\]\s*mod\s+\w+\s*\{", text)
    if m:
        text = text[: m.start()]
    text = re.sub(r"//[^\n]*", "", text)
    text = re.sub(r"/\*.*?\*/", "", text, flags=re.S)
    return re.sub(r"\s+", "", text)


def current():
    out = {}
    for label, (path, start, end) in REGIONS.items():
        try:
            src = open(os.path.join(REPO, path)).read()
        except OSError:
            out[label] = "missing"
            continue
        i = re.search(start, src).start() if start and re.search(start, src) else 0
        j = len(src)
        if end:
            m = re.search(end, src[i:])
            if m:
                j = i + m.end()
        out[label] = hashlib.sha256(norm(src[i:j]).encode()).hexdigest()[:16]
    return out


if __name__ == "__main__":
    cur = current()
    path = os.path.join(HERE, "basis.json")
    if "--write" in sys.argv:
        json.dump(cur, open(path, "w"), indent=1)
        print("recorded", len(cur), "fingerprints")
    else:
        old = json.load(open(path)) if os.path.exists(path) else {}
        print(json.dumps({"changed": [k for k in cur if old.get(k) != cur[k]]}))
