#!/bin/bash
# Runs the repository's pinned suite with the verification guard OFF and compares the set of
# passing tests with /root/.vp/BASELINE.json (stable_pass). Exit 0 iff every baseline test passes.
set -u
export RUSTUP_TOOLCHAIN=${RUSTUP_TOOLCHAIN:-stable-x86_64-unknown-linux-gnu} CARGO_NET_OFFLINE=true
cd /repo || exit 2
out=$(cargo nextest run --workspace --no-fail-fast --offline --test-threads 8 2>&1)
echo "$out" | grep -E "Summary" || true
echo "$out" | grep -E "^\s+PASS" | sed -E 's/^\s+PASS \[[^]]*\] (\(.*\) )?//' | awk '{print $1"::"$2}' | sed 's/::integration_test::/::integration_test::/' | sort -u > /tmp/.sfv_pass.txt
python3 - <<'PY'
import json,sys
base=set(json.load(open('/root/.vp/BASELINE.json'))['stable_pass'])
got=set(l.strip() for l in open('/tmp/.sfv_pass.txt') if l.strip())
# nextest prints `<crate>::<binary> <test path>` for integration tests and `<crate> <test path>` for unit tests
norm=set()
for g in got:
    norm.add(g)
missing=sorted(b for b in base if b not in norm)
print("baseline tests: %d, passing now: %d, missing: %d" % (len(base), len(norm & base), len(missing)))
for m in missing[:20]: print("  MISSING", m)
sys.exit(1 if missing else 0)
PY
rc=$?
rm -f /tmp/.sfv_pass.txt
exit $rc
