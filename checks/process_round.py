#!/usr/bin/env python3
"""process_round.py <worktree-prefix> <suffix> [props...]: import every finished seed of a round
(<prefix>-Cxx/seed/patch.diff + <crate>/tests/seed_demo.rs), confirm it in its worktree, write a
meta.json skeleton from the seed's README, and run the property's own quick check plus its
neighbours against it (try_seed.py).  Bookkeeping for the seeded-change rounds; not a check."""
import json, os, re, subprocess, sys
V = os.path.dirname(os.path.dirname(os.path.abspath(__file__)))
NEIGH = {"C01": ["C08", "C11"], "C02": ["C03", "C12"], "C03": ["C02"], "C04": ["C07", "C05"], "C05": ["C13", "C14"],
         "C06": ["C11", "C08"], "C07": ["C04", "C15"], "C08": ["C01"], "C09": ["C10", "C11"], "C10": ["C09"],
         "C11": ["C01", "C09"], "C12": ["C02", "C14"], "C13": ["C12", "C05"], "C14": ["C12", "C13"], "C15": ["C07"]}
CRATES = {"api": "shopify_function_wasm_api", "provider": "shopify_function_provider", "core": "shopify_function_wasm_api_core",
          "trampoline": "shopify_function_trampoline", "integration_tests": "integration_tests"}
prefix, suffix = sys.argv[1], sys.argv[2]
props = sys.argv[3:] or ["C%02d" % i for i in range(1, 16)]
env = dict(os.environ, VERIF_NO_ESCALATE="1")
for p in props:
    wt = "%s-%s" % (prefix, p)
    if not os.path.exists(os.path.join(wt, "seed", "patch.diff")):
        print(p, "no patch yet")
        continue
    sid = "seed-%s-%s" % (p, suffix)
    d = os.path.join(V, "seeded", sid)
    crate = next((c for c in CRATES if os.path.exists(os.path.join(wt, c, "tests", "seed_demo.rs"))), None)
    if crate is None:
        print(p, "no demo found")
        continue
    if not os.path.exists(os.path.join(d, "confirm.log")):
        subprocess.run(["bash", os.path.join(V, "checks", "import_seed.sh"), wt, sid, CRATES[crate], "seed_demo"], capture_output=True, text=True)
    log = open(os.path.join(d, "confirm.log")).read()
    with_patch = log.split("== demo WITHOUT patch")[0]
    ok = ("FAILED" in with_patch.split("== demo WITH patch")[-1]) and re.search(r"test result: ok\.", log.split("== demo WITHOUT patch")[-1]) is not None
    readme = ""
    try:
        readme = open(os.path.join(d, "README.md")).read()
    except OSError:
        pass
    para = [x.strip() for x in re.split(r"\n\s*\n", readme) if x.strip() and not x.strip().startswith("#")]
    mp = os.path.join(d, "meta.json")
    meta = json.load(open(mp)) if os.path.exists(mp) else {}
    meta.setdefault("breaks", p)
    meta.setdefault("summary", (para[0] if para else "")[:600])
    meta.setdefault("origin", "sub-agent given only the property text and a scratch worktree")
    meta["confirmed"] = ("scratch worktree: demo fails with the patch and passes without it (confirm.log)" if ok else "NOT CONFIRMED: see confirm.log")
    json.dump(meta, open(mp, "w"), indent=1)
    print("==", p, "confirmed" if ok else "NOT CONFIRMED")
    if ok:
        r = subprocess.run([sys.executable, os.path.join(V, "checks", "try_seed.py"), os.path.join("seeded", sid), p] + NEIGH[p], cwd=V, env=env, capture_output=True, text=True)
        print("\n".join(l[:230] for l in r.stdout.strip().split("\n")[-4:]))
        m = json.load(open(mp))
        for k, v in m.get("checks_run", {}).items():
            print("   ", k, [x[18:200] for x in v["detail"][1:3]])
