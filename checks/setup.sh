#!/bin/bash
# Builds the framework from files on disk only (offline): Lean project + model driver,
# the correspondence harness(es), the miri sysroot for the 32-bit runs.
set -e
cd "$(dirname "$0")/.."
export CARGO_NET_OFFLINE=true
mkdir -p work replays evidence
python3 extract/extract.py > work/extract.json || true
(cd lean && lake build sfdriver SfVerif 2>&1 | tail -3)
(cd harness/sfh && cp -n /repo/Cargo.lock Cargo.lock 2>/dev/null || true; RUSTUP_TOOLCHAIN=stable-x86_64-unknown-linux-gnu cargo build --offline 2>&1 | tail -2)
if [ -d harness/sfw ]; then
  (cd harness/sfw && RUSTUP_TOOLCHAIN=stable-x86_64-unknown-linux-gnu cargo build --offline 2>&1 | tail -2)
fi
if [ -x harness/sfw/target/debug/sfw ]; then
  harness/sfw/target/debug/sfw glue lean/SfVerif/Gen/Glue.lean || true
  harness/sfw/target/debug/sfw abi lean/SfVerif/Gen/AbiTool.lean || true
  (cd lean && lake build sfdriver SfVerif 2>&1 | tail -1)
fi
cargo +nightly miri setup --target i686-unknown-linux-gnu 2>&1 | tail -1 || true
(cd harness/sfh && MIRIFLAGS="-Zmiri-permissive-provenance -Zmiri-disable-isolation -Zmiri-disable-stacked-borrows" cargo +nightly miri run --offline --target i686-unknown-linux-gnu --target-dir target-miri -- run < /dev/null 2>&1 | tail -1) || true
echo setup done
