#!/usr/bin/env python3
"""mutate.py — a mutation sweep over /repo's non-test source, run in a sandbox copy.

Not one of the registered checks: it measures them. For each sampled one-token mutant
  1. the mutant is written into a *copy* of the repository (never /repo),
  2. the pinned suite runs there; a mutant the suite notices (build error, a passing test lost) is dropped,
  3. the fifteen quick checks of a *copy* of /verif run against the mutated copy (SFV_REPO),
  4. the outcome goes to <out>/results.jsonl; survivors (suite passes, every check quiet) are what to triage.

usage: mutate.py setup                      create /tmp/mut/{mrepo,vm} from /repo HEAD and /verif
       mutate.py list                       print the number of mutation sites per file and operator
       mutate.py run <n> [seed] [filter]    sample n mutants (stratified by file), run the pipeline
       mutate.py one <file> <line> <op> <k> run one named mutant
"""
import json, os, random, re, subprocess, sys, time

ROOT = os.environ.get("MUT_ROOT", "/tmp/mut")
MREPO = ROOT + "/mrepo"
VM = ROOT + "/vm"
OUT = ROOT + "/out"
ENV = dict(os.environ, RUSTUP_TOOLCHAIN="stable-x86_64-unknown-linux-gnu", CARGO_NET_OFFLINE="true",
           SFV_REPO=MREPO, VERIF_NO_ESCALATE="1", RUST_BACKTRACE="1")
FILES = [
    "core/src/read.rs", "core/src/write.rs", "core/src/lib.rs",
    "provider/src/lib.rs", "provider/src/read.rs", "provider/src/write.rs", "provider/src/log.rs",
    "provider/src/string_interner.rs", "provider/src/alloc.rs", "provider/src/read/lazy_value_ref.rs",
    "provider/src/write/state.rs",
    "api/src/lib.rs", "api/src/read.rs", "api/src/write.rs", "api/src/log.rs",
    "trampoline/src/lib.rs",
]
PROPS = ["C%02d" % i for i in range(1, 16)]

# (name, regex, replacement) — applied to the k-th match on a line
OPS = [
    ("le->lt", r" <= ", " < "), ("lt->le", r" < ", " <= "), ("ge->gt", r" >= ", " > "), ("gt->ge", r" > ", " >= "),
    ("eq->ne", r" == ", " != "), ("ne->eq", r" != ", " == "),
    ("and->or", r" && ", " || "), ("or->and", r" \|\| ", " && "),
    ("plus1->plus0", r" \+ 1\b", " + 0"), ("minus1->minus0", r" - 1\b", " - 0"), ("plus->minus", r" \+ ", " - "),
    ("min->max", r"\.min\(", ".max("), ("max->min", r"\.max\(", ".min("),
    ("true->false", r"\btrue\b", "false"), ("false->true", r"\bfalse\b", "true"),
    ("int+1", r"(?<![\w.#\[])(\d+)(?![\w.\]])", None),
    ("not-removed", r"(?<=[ (])!(?=[a-z(])", ""),
    ("shl->shr", r" << ", " >> "), ("shr->shl", r" >> ", " << "), ("bitand->bitor", r" & ", " | "), ("bitor->bitand", r" \| ", " & "),
    ("delete-stmt", r"^\s+(self\.|[a-z_]+\.)[a-z_.]+(\(.*\)| [-+]?= .*);\s*$", None),
    ("variant-swap", r"\b(ErrorCode|WriteResult|Error|Tag|State|Marker)::([A-Z]\w+)\b", None),
    ("len+1", r"\.len\(\)(?! \+)", ".len() + 1"),
    ("len-1", r"\.len\(\)(?! [-+])", ".len() - 1"),
    ("call-swap", r"\b(array_len|obj_len|is_array|is_obj|start_array|start_object|finish_array|finish_object|get_at_index|get_obj_key_at_index|get_key_at_index|saturating_sub|checked_add|write_array_len|write_map_len|as_bool|is_null|first|last)\b", None),
]
CALL_SWAP = {"array_len": "obj_len", "obj_len": "array_len", "is_array": "is_obj", "is_obj": "is_array",
             "start_array": "start_object", "start_object": "start_array", "finish_array": "finish_object",
             "finish_object": "finish_array", "get_at_index": "get_key_at_index", "get_key_at_index": "get_at_index",
             "get_obj_key_at_index": "get_at_index", "saturating_sub": "wrapping_sub", "checked_add": "wrapping_add",
             "write_array_len": "write_map_len", "write_map_len": "write_array_len", "as_bool": "is_null", "is_null": "is_array",
             "first": "last", "last": "first"}
VARIANTS = {}


def variants():
    if not VARIANTS:
        for f in FILES:
            pth = os.path.join(MREPO, f)
            if os.path.exists(pth):
                for e, v in re.findall(r"\b(ErrorCode|WriteResult|Error|Tag|State|Marker)::([A-Z]\w+)\b", non_test(open(pth).read())):
                    VARIANTS.setdefault(e, set()).add(v)
    return VARIANTS


def sh(cmd, cwd=None, timeout=3600, env=None):
    p = subprocess.run(cmd, cwd=cwd, capture_output=True, text=True, timeout=timeout, env=env or ENV)
    return p.returncode, p.stdout + p.stderr


def setup():
    os.makedirs(ROOT, exist_ok=True)
    if not os.path.isdir(MREPO):
        sh(["git", "clone", "-q", "/repo", MREPO])
    sh(["git", "fetch", "-q", "/repo", "HEAD"], cwd=MREPO)
    sh(["git", "reset", "-q", "--hard", "FETCH_HEAD"], cwd=MREPO)
    here = os.path.dirname(os.path.dirname(os.path.abspath(__file__)))
    sh(["rsync", "-a", "--delete", "--exclude", ".git", "--exclude", "replays", here + "/", VM + "/"])
    for c in ("harness/sfw/Cargo.toml", "harness/sfh/Cargo.toml"):
        p = os.path.join(VM, c)
        s = open(p).read().replace('"/repo/', '"%s/' % MREPO)
        open(p, "w").write(s)
    os.makedirs(OUT, exist_ok=True)
    print("sandbox ready:", MREPO, VM)


def non_test(text):
    i = text.find("#[cfg(test)]")
    return text if i < 0 else text[:i]


def sites():
    out = []
    for f in FILES:
        p = os.path.join(MREPO, f)
        if not os.path.exists(p):
            continue
        body = non_test(open(p).read())
        for ln, line in enumerate(body.split("\n")):
            st = line.strip()
            if not st or st.startswith("//") or st.startswith("#[") or st.startswith("#!") or "debug_assert" in st or st.startswith("use "):
                continue
            code = line.split("//")[0]
            for name, rx, rep in OPS:
                for k, m in enumerate(re.finditer(rx, code)):
                    if name == "int+1":
                        # literals inside attributes / type names are excluded by the look-arounds; skip huge ones
                        if len(m.group(1)) > 6:
                            continue
                    if name == "call-swap" and re.search(r"\bfn\s+" + m.group(1), code):
                        continue
                    if name in ("lt->le", "gt->ge") and re.search(r"(->|=>|<[A-Za-z&'_])", code):
                        continue
                    out.append((f, ln, name, k))
    return out


def apply(site):
    f, ln, name, k = site
    p = os.path.join(MREPO, f)
    lines = open(p).read().split("\n")
    line = lines[ln]
    code, sep, comment = line.partition("//")
    rx, rep = next((r, rp) for n, r, rp in OPS if n == name)
    ms = list(re.finditer(rx, code))
    if k >= len(ms):
        return None
    m = ms[k]
    if name == "int+1":
        new = code[:m.start(1)] + str(int(m.group(1)) + 1) + code[m.end(1):]
    elif name == "variant-swap":
        vs = sorted(variants().get(m.group(1), []))
        if len(vs) < 2:
            return None
        nv = vs[(vs.index(m.group(2)) + 1 + k) % len(vs)]
        if nv == m.group(2):
            return None
        new = code[:m.start(2)] + nv + code[m.end(2):]
    elif name == "call-swap":
        new = code[:m.start()] + CALL_SWAP[m.group(1)] + code[m.end():]
    elif name == "delete-stmt":
        new = ""
    else:
        new = code[:m.start()] + rep + code[m.end():]
    lines[ln] = new + sep + comment
    open(p, "w").write("\n".join(lines))
    return line.strip(), (new + sep + comment).strip()


def restore():
    sh(["git", "checkout", "-q", "--", "."], cwd=MREPO)


def suite():
    rc, out = sh(["cargo", "nextest", "run", "--workspace", "--no-fail-fast", "--offline", "--test-threads", "8"], cwd=MREPO, timeout=1800)
    passed = set(re.findall(r"^\s+PASS \[[^\]]*\]\s+(?:\(\s*\d+/\d+\)\s+)?(\S+ \S+)", out, re.M))
    built = re.search(r"Summary \[", out) is not None
    return built, passed, out


def checks(props=None):
    procs = {}
    for p in (props or PROPS):
        procs[p] = subprocess.Popen([sys.executable, "checks/run.py", p, "quick"], cwd=VM, env=ENV, stdout=subprocess.PIPE, stderr=subprocess.STDOUT, text=True)
    res = {}
    for p, pr in procs.items():
        try:
            out, _ = pr.communicate(timeout=1800)
        except subprocess.TimeoutExpired:
            pr.kill()
            out = "TIMEOUT"
        det = [l.strip()[:300] for l in out.split("\n") if "violation detail" in l]
        res[p] = {"rc": pr.returncode, "detail": det[:3]}
    return res


def run_one(site, base_pass, log):
    restore()
    t0 = time.time()
    ch = apply(site)
    if ch is None:
        return
    rec = {"file": site[0], "line": site[1] + 1, "op": site[2], "k": site[3], "before": ch[0], "after": ch[1]}
    built, passed, out = suite()
    if not built:
        rec["outcome"] = "does-not-build"
    elif not base_pass <= passed:
        rec["outcome"] = "killed-by-suite"
        rec["lost"] = sorted(base_pass - passed)[:5]
    else:
        res = checks()
        alarms = sorted(p for p, v in res.items() if v["rc"] != 0)
        rec["outcome"] = "detected" if alarms else "SURVIVED"
        rec["alarms"] = alarms
        rec["detail"] = {p: res[p]["detail"] for p in alarms}
    rec["wall_s"] = round(time.time() - t0, 1)
    restore()
    log.write(json.dumps(rec) + "\n")
    log.flush()
    print(rec["outcome"], rec["file"], rec["line"], rec["op"], "|", rec["before"][:70], "=>", rec["after"][:70], rec.get("alarms", ""), flush=True)


def main():
    cmd = sys.argv[1] if len(sys.argv) > 1 else "list"
    if cmd == "setup":
        setup()
        return
    if cmd == "patches":
        # mutate.py patches <results-name> <dir>... : every <dir>/patch.diff applied to the sandbox copy in turn,
        # all quick checks run, alarms recorded (regression of the seeded and the benign collections)
        os.makedirs(OUT, exist_ok=True)
        log = open(os.path.join(OUT, sys.argv[2] + ".jsonl"), "a")
        for d in sys.argv[3:]:
            restore()
            sh(["git", "clean", "-fdq"], cwd=MREPO)
            pf = os.path.join(d, "patch.diff")
            rc, out = sh(["git", "apply", pf], cwd=MREPO)
            rec = {"patch": os.path.basename(d.rstrip("/"))}
            if rc != 0:
                rec["outcome"] = "does-not-apply"
            else:
                t0 = time.time()
                props = None
                try:
                    meta = json.load(open(os.path.join(d, "meta.json")))
                    props = sorted(set([meta["breaks"]] + list(meta.get("detected_by", []))))
                    rec["expected"] = meta["breaks"]
                except Exception:
                    pass
                res = checks(props)
                rec["alarms"] = sorted(p for p, v in res.items() if v["rc"] != 0)
                rec["detail"] = {p: res[p]["detail"][:2] for p in rec["alarms"]}
                rec["wall_s"] = round(time.time() - t0, 1)
            log.write(json.dumps(rec) + "\n")
            log.flush()
            print(rec["patch"], rec.get("outcome", ""), rec.get("alarms", ""), flush=True)
        restore()
        sh(["git", "clean", "-fdq"], cwd=MREPO)
        return
    if cmd == "list":
        ss = sites()
        from collections import Counter
        print(len(ss), "sites")
        for k, v in sorted(Counter(s[0] for s in ss).items()):
            print("  %-45s %d" % (k, v))
        for k, v in sorted(Counter(s[2] for s in ss).items()):
            print("  %-20s %d" % (k, v))
        return
    os.makedirs(OUT, exist_ok=True)
    restore()
    built, base_pass, out = suite()
    assert built and len(base_pass) >= 100, "baseline suite did not run: %d passed\n%s" % (len(base_pass), out[-800:])
    print("baseline: %d tests pass" % len(base_pass), flush=True)
    log = open(os.path.join(OUT, "results.jsonl"), "a")
    if cmd == "one":
        run_one((sys.argv[2], int(sys.argv[3]) - 1, sys.argv[4], int(sys.argv[5])), base_pass, log)
        return
    n = int(sys.argv[2])
    seed = int(sys.argv[3]) if len(sys.argv) > 3 else 1
    flt = sys.argv[4] if len(sys.argv) > 4 else ""
    ss = [s for s in sites() if flt in s[0]]
    rnd = random.Random(seed)
    byfile = {}
    for s in ss:
        byfile.setdefault(s[0], []).append(s)
    for v in byfile.values():
        rnd.shuffle(v)
    done = set()
    for fn in os.listdir(OUT):
        if fn.startswith("results") and fn.endswith(".jsonl"):
            try:
                for l in open(os.path.join(OUT, fn)):
                    r = json.loads(l)
                    done.add((r["file"], r["line"] - 1, r["op"], r["k"]))
            except Exception:
                pass
    picked = []
    files = sorted(byfile)
    i = 0
    while len(picked) < n and any(byfile.values()):
        f = files[i % len(files)]
        i += 1
        if byfile[f]:
            s = byfile[f].pop()
            if s not in done:
                picked.append(s)
    for s in picked:
        run_one(s, base_pass, log)


if __name__ == "__main__":
    main()
