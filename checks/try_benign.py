#!/usr/bin/env python3
"""try_benign.py <patch.diff> [props...] — apply a BEHAVIOUR-PRESERVING patch to /repo, run the quick checks,
undo the patch, print which checks raised an alarm and why (json on the last line)."""
import json, os, subprocess, sys, time
VERIF = os.path.dirname(os.path.dirname(os.path.abspath(__file__)))
patch = os.path.abspath(sys.argv[1])
props = sys.argv[2:] or [c["property_id"] for c in json.load(open(os.path.join(VERIF, "MANIFEST.json")))["checks"]]
assert subprocess.run(["git", "-C", "/repo", "status", "--porcelain", "--untracked-files=no"], capture_output=True, text=True).stdout.strip() == "", "/repo not clean"
r = subprocess.run(["git", "-C", "/repo", "apply", patch], capture_output=True, text=True)
if r.returncode != 0:
    print("patch does not apply:", r.stderr); sys.exit(2)
results = {}
try:
    for p in props:
        t0 = time.time()
        q = subprocess.run([sys.executable, os.path.join(VERIF, "checks", "run.py"), p, "quick"], cwd=VERIF, capture_output=True, text=True)
        viol = [l for l in q.stdout.split("\n") if l.startswith("VIOLATION")]
        detail = [l.strip() for l in q.stdout.split("\n") if "violation detail" in l]
        results[p] = {"rc": q.returncode, "violation": viol[0] if viol else None, "detail": [d[:400] for d in detail[:3]], "wall_s": round(time.time() - t0, 1)}
        print(p, "ALARM" if q.returncode else "quiet", (detail[0][:300] if detail else ""), flush=True)
finally:
    subprocess.run(["git", "-C", "/repo", "checkout", "--", "."], check=True)
    subprocess.run(["git", "-C", "/repo", "clean", "-fdq"], check=False)
print(json.dumps(results))
