#!/bin/bash
# import_seed.sh <worktree> <seed-id> <cargo-package> <demo-test-name>
# Confirms a sub-agent's seeded change in its scratch worktree (confirm_seed.sh) and files it under
# /verif/seeded/<seed-id>/ (patch.diff, README.md, demonstration, confirm.log).
set -u
WT=$1; ID=$2; CRATE=$3; DEMO=$4
V=$(cd "$(dirname "$0")/.." && pwd)
D=$V/seeded/$ID
mkdir -p $D
cp $WT/seed/patch.diff $D/patch.diff
cp $WT/seed/README.md $D/README.md 2>/dev/null
find $WT -path $WT/target -prune -o -name "${DEMO}*.rs" -print | grep -v "^$WT/seed/" | while read f; do cp $f $D/; done
bash $V/checks/confirm_seed.sh $WT $CRATE $DEMO > $D/confirm.log 2>&1
cat $D/confirm.log
