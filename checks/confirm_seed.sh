#!/bin/bash
# confirm_seed.sh <worktree> <crate-with-demo> <demo-test-name>
# Confirms in the scratch worktree: the pinned suite is unchanged with the patch, the demo fails
# with the patch and passes without it. Leaves the worktree with the patch applied.
set -u
WT=$1; CRATE=$2; DEMO=$3
export RUSTUP_TOOLCHAIN=stable-x86_64-unknown-linux-gnu CARGO_NET_OFFLINE=true CARGO_TARGET_DIR=$WT/target
cd $WT || exit 2
git diff --quiet -- . ':!seed' ':!*/tests/seed_demo*' || true
echo "== suite WITH patch (demo moved aside)"
mkdir -p /var/tmp/seedtmp-$$; find . -path ./target -prune -o -name 'seed_demo*.rs' -print | grep -v '^./seed/' > /var/tmp/seedtmp-$$/list
while read f; do mkdir -p /var/tmp/seedtmp-$$/$(dirname $f); mv $f /var/tmp/seedtmp-$$/$f; done < /var/tmp/seedtmp-$$/list
cargo nextest run --workspace --no-fail-fast --offline --test-threads 8 2>&1 | grep -E "Summary"
while read f; do mv /var/tmp/seedtmp-$$/$f $f; done < /var/tmp/seedtmp-$$/list
echo "== demo WITH patch (expected: fails)"
cargo test --offline -p $CRATE --test $DEMO 2>&1 | grep -E "^test result|FAILED|panicked" | head -5
echo "== demo WITHOUT patch (expected: passes)"
git apply -R seed/patch.diff && cargo test --offline -p $CRATE --test $DEMO 2>&1 | grep -E "^test result" | head -3
git apply seed/patch.diff
rm -rf /var/tmp/seedtmp-$$
