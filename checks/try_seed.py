#!/usr/bin/env python3
"""try_seed.py <seed-dir> [props...] — apply seeded/<id>/patch.diff to /repo, run the quick checks,
undo the patch, and record which checks raised an alarm in seeded/<id>/meta.json (field `detected_by`)."""
import json, os, subprocess, sys, time
VERIF = os.path.dirname(os.path.dirname(os.path.abspath(__file__)))
sd = os.path.abspath(sys.argv[1])
props = sys.argv[2:] or [c["property_id"] for c in json.load(open(os.path.join(VERIF, "MANIFEST.json")))["checks"]]
patch = os.path.join(sd, "patch.diff")
assert subprocess.run(["git", "-C", "/repo", "status", "--porcelain", "--untracked-files=no"], capture_output=True, text=True).stdout.strip() == "", "/repo not clean"
r = subprocess.run(["git", "-C", "/repo", "apply", patch], capture_output=True, text=True)
if r.returncode != 0:
    print("patch does not apply:", r.stderr); sys.exit(2)
results = {}
try:
    for p in props:
        t0 = time.time()
        q = subprocess.run([sys.executable, os.path.join(VERIF, "checks", "run.py"), p, "quick"], cwd=VERIF, capture_output=True, text=True)
        viol = [l for l in q.stdout.split("\n") if l.startswith("VIOLATION")]
        detail = [l.strip() for l in q.stdout.split("\n") if "violation detail" in l]
        results[p] = {"rc": q.returncode, "violation": viol[0] if viol else None, "detail": detail[:3], "wall_s": round(time.time() - t0, 1)}
        print(p, "ALARM" if q.returncode else "quiet", (detail[0][:160] if detail else ""))
finally:
    subprocess.run(["git", "-C", "/repo", "checkout", "--", "."], check=True)
mp = os.path.join(sd, "meta.json")
meta = json.load(open(mp)) if os.path.exists(mp) else {}
meta["checks_run"] = meta.get("checks_run", {})
meta["checks_run"].update(results)
meta["detected_by"] = sorted(p for p, v in meta["checks_run"].items() if v["rc"] != 0)
json.dump(meta, open(mp, "w"), indent=1)
