#!/usr/bin/env python3
"""Writes /verif/MANIFEST.json from the table below (one place to keep claims current)."""
import json
import os
import subprocess

VERIF = os.path.dirname(os.path.dirname(os.path.abspath(__file__)))

TB = ("Trusted: Lean 4.33 kernel; axioms at most propext, Classical.choice, Quot.sound (listed per theorem in the evidence); "
      "the translator /verif/extract/extract.py; the correspondence harness and its canonicalisation; "
      "modelled not verified: rmp encoders/marker table, bumpalo, Vec/ByteBuf growth, std float conversions, wasm-only entry points. ")

CLAIMS = {
    "C01": ("Theorem C01_every_history: for EVERY document (well-formed or not — on undecodable parts the specification itself says ReadError, see C08) and EVERY finite sequence of read calls — root fetches, element / key / property / length / string-address calls, on any handle the client was given earlier; revisits, out of order, interleaved across siblings, error-returning calls in between, the root fetched again — the model of provider/src/read.rs + lazy_value_ref.rs answers, call by call, exactly Spec.run: a function of the document bytes and each call's own position and arguments (Spec/Read.lean: positions by the eager walk specPath, values from the headers found there, first-match property lookup, documented error codes). "
            "Built from: an invariant on the lazily parsed tree (Inv: correct partial view of the value at an offset; Done: complete view), node-level refinement from ANY such view (finish_done, arrGet_ok, objGet_ok, objProp_ok — unbounded nesting), handles as paths (inv_path: a valid handle denotes a correct view of the value the eager decoder finds along the same path), updateAt_inv (operating on the node a handle denotes keeps every root a correct view), Ext (every operation only extends the tree: all handles stay valid and keep their shape), nodeOp_ok, the per-entry-point theorems C01_entry_points_equal_spec, and C01_answer_independent_of_history. "
            "C01_reads_are_the_decoded_tree / C01_spec_is_the_decoded_tree: when the input decodes (independent tree decoder Model/Doc.decodeAll, string keys) to a document d, every entry point on every valid handle returns what the sub-document at that position says (type, nearest double, string length and bytes, container length, element/key/value by index, first-match property or null) — the header-walk specification and the decoded tree agree (DocLink1-7). Integers below 2^53 are reported exactly. C01_header_reader_is_the_source_text: the model's header reader equals the marker dispatch of LazyValueRef::new regenerated arm by arm on every run. Tie: every read call (root, property by name / interned id, element / key by index, length, string bytes, api-level accessors) is compared with the real provider + api crates on generated raw MessagePack (every marker, non-minimal widths, duplicate keys, sizes crossing 15/16, 31/32, 255/256, 65535/65536, 2^14-1) over histories on all handles issued so far.",
            TB + "Handles are modelled as (root allocation, path); bump-arena address stability (the Vec pre-sized to the declared length) is not modelled — it is what makes a path a stable address. Histories include calls whose scope is not a handle (null, boolean, number, error value, forged bit patterns: answered by kind).",
            "Lean 4 invariant + refinement to an eager specification, lifted to every history, over a hand-written model + differential correspondence over documents x histories", "§4 C01"),
    "C02": ("Kernel-checked theorems: C02_every_history (for ANY finite sequence of write calls, accepted and rejected in any mixture: if the writer then reports the output complete, the accepted calls in call order are the serialisation of one value tree v, the output bytes are exactly its canonical MessagePack encoding — one well-formed value, nothing else — and an independent eager decoder reads them back to v; via C02_rejected_calls_leave_no_trace and a payload-carrying completeness lemma for the document grammar), C02_every_thread_history (the same after any history of protocol operations on a thread: reads, logs, interning, new invocations in between, strings by value or by interned id), C02_completed_output_is_the_tree (for EVERY value tree of any size/depth whose integers fit 64 bits and lengths fit 32-bit headers: the write calls describing it are all accepted from a fresh writer, end in the completed state with an empty container stack, finalisation returns the bytes, and an independent eager decoder reads those bytes back to exactly that tree with nothing left over), "
            "C02_writes_append_exactly_the_encoding (from any value position, inside any open containers, the calls append the canonical encoding and nothing else), C02_decode_encode (decoder inverts the encoding in any byte context), a rejected call — including a rejected string write with its copy — adds no byte; finalisation hands out bytes only in the completed state. "
            "Tied to provider/src/write.rs + api glue by byte-for-byte differential correspondence of the output after every call (all ten operations, both levels, sizes crossing header widths and buffer growth) and of the decoded document (outdoc?).",
            TB + "A string written as a bare allocation whose copy never arrives is outside C02_every_history (strings written whole); the split form is covered by the correspondence.",
            "Lean 4 theorems over a hand-written model + differential correspondence (line protocol)", "§4 C02"),
    "C03": ("Refinement of the write state machine (transcription of state.rs: interleaved key/value counter, parent slot claimed before push, parent stack) to a grammar zipper (Spec/Grammar.lean: path of open containers with completed pairs / waiting key / items, statuses as documented in api/README.md). "
            "C03_state_machine_is_the_source_text: every method of state.rs is translated on every run by extract/rs2lean.py (symbolic execution of the Rust bodies, early returns, `*self = ..`, payload counters, swap_and_push, pop().unwrap_or(End)) into Gen/FnsState.lean and proved equal to the model, so the theorems are re-checked against what the source says now. Theorems: C03_call_answered_by_grammar (in EVERY reachable state, any nesting depth and fill level, each of the operations gets exactly the grammar's status and the state afterwards stands for the grammar's document), C03_history_answered_by_grammar (every finite call sequence, continuing after errors and after completion), "
            "C03_language_of_the_grammar / C03_accepted_complete_sequences_are_trees (a call sequence is accepted call by call and finalisation then succeeds IFF it is the token string of a tree: one root value, objects = declared number of string-key/value pairs then finish, arrays = declared number of values then finish, any nesting), C03_complete_iff_root_closed (finalisation succeeds iff the grammar's document is complete), C03_complete_is_final, C03_reject_noop (a rejected call leaves output bytes, position and parent stack unchanged, for every state and operation). "
            "C03_every_history / C03_every_history_complete: at the level of a whole thread, after any history of protocol operations (reads, logs, interning, typed (de)serialisation, new invocations, accepted and rejected writes, string writes whole or as allocation + copy) the next write call is answered by the grammar, moves the document as the grammar says, changes nothing when rejected, and finalisation succeeds iff the root value is closed. "
            "Tie: status of every call, output snapshot and finalisation compared with the real crates on random long sequences, all sequences up to length 4 over a 14-letter alphabet, and 32-bit lengths (2^31, 2^32-1) under miri/i686.",
            TB + "miri (32-bit runs). The model uses unbounded naturals for the counters; the 32-bit wrap-around of the key/value counter (F1) is covered by the miri runs, not by the theorem.", "Lean 4 refinement theorem + differential correspondence + exhaustive short sequences", "§4 C03"),
    "C04": ("Theorems about the instruction lists the current trampoline source emits (regenerated into Gen/Glue.lean on every run by running the real TrampolineCodegen on a fixed family of three guest modules): for all arguments, both memories, every calling context and every provider response, "
            "read_utf8_str moves exactly len bytes from the provider's address to the guest's buffer, get_obj_prop moves the name into the provider's allocation and returns the provider's value, output/intern strings move exactly len bytes to the provider's destination and return status/id, "
            "log copies one or two segments exactly as the five-word plan says, every other import is the provider's function under the underscored name with the same signature. Symbolic execution in a mini-Wasm (generic theorems) + a decidable shape check discharged by the kernel on the regenerated modules. "
            "The mini-Wasm interpreter and wasmtime are compared on every scenario of the family; ~28 generated modules (any subset/order, foreign imports, foreign memory, calls direct / wrapped / through a table) are executed in wasmtime against an ABI oracle.",
            TB + "Mini-Wasm semantics of the 12 instructions (cross-checked against wasmtime on every run); walrus keeping every reference pointed at the replaced function is exercised, not proved, so 'all guest modules' is partial: module shapes are sampled. wasmtime, walrus, wasmparser, wat.",
            "Lean 4 symbolic execution of regenerated glue code + kernel-decided shape check + differential execution in wasmtime", "§4 C04"),
    "C05": ("Theorem C05_read_is_tail, for every capacity > 0 and instantiated at the extracted 1001: after any sequence of messages of any lengths the two read segments, concatenated, are exactly the last min(total, capacity) bytes logged, in order "
            "(step theorem read(log l m) = lastN cap (read l ++ m) under a ring invariant, lifted by induction over histories; every prefix is a history, so it holds at every read point). C05_plan_sound: every plan covers exactly the retained tail, lies inside the buffer, segments disjoint. C05_every_history: the same at the level of a whole thread — at any moment of any history of protocol operations (reads, writes, interning, typed (de)serialisation, new invocations in between) the host reads the last min(total, capacity) bytes logged since the current invocation started. "
            "C05_model_is_the_source_text: Logs::append and Logs::read_ptrs are translated from provider/src/log.rs on every run (rs2lean: mutable locals, early-assigned segments, pointer offsets) and proved equal to the model. Plans (as offsets) and read-back segments compared with the real ring after every message, split request/copy forms included.",
            TB + "A trap inside the cross-memory copy itself (guest passes an out-of-bounds source) is outside the stated quantifier and not modelled.",
            "Lean 4 invariant + refinement to 'last N bytes' by induction over histories + differential correspondence", "§4 C05"),
    "C06": ("Theorems over the regenerated constants: documented 32-bit layout, 64-bit layout, saturation at exactly 2^14-1 on both widths, totality of unboxing (never a crash), tag table; "
            "the constants AND the bodies of NanBox::encode / NanBox::number / NanBox::try_decode (with NanBox::tag inlined and both pointer-width variants of its cfg pair) are re-translated from core/src/read.rs on every run (C06_model_is_the_source_text proves the model functions equal to the regenerated ones, for every bit pattern); box/unbox compared with the real crate on all boundary lengths x pointers, decision-relevant prefix/tag patterns, random doubles and raw patterns natively, and at 32-bit pointer width under miri/i686 on a fixed corpus of 281 box/unbox lines (quick and thorough).",
            TB, "Lean 4 theorems over translated constants (decide +kernel) + differential correspondence", "§4 C06"),
    "C07": ("Theorems over a model of TrampolineCodegen::new/apply (Model/Tramp.lean: stepOne per IMPORTS entry, every occurrence of an import handled) driven by the tables regenerated from trampoline/src/lib.rs: no own memory => returned unchanged; more than one own memory, another API version => rejected; C07_reject_name_outside_abi: an import from the API namespace whose name is neither a public API function (WAT), nor a provider export, nor `memory` — the empty name included (F12, fixed) — is rejected whatever else the module contains (C07_known_names_are_the_abi: the names the scan tolerates are exactly those, kernel-decided over the regenerated tables and the names the probed tool accepts among ~280 near-miss candidates); "
            "C07_reject_bad_signature (a string-carrying function import whose signature is not the expected one is rejected wherever it stands, whatever else is imported, also as a second import of the same name); C07_idempotent (the import section the tool produces is accepted and left exactly as it is by a second application — uses table facts discharged by the kernel on the regenerated tables: no new name is an original name, helper names are known and never original names); "
            "an accepted module keeps exactly one own memory, keeps namespace and kind of every import it keeps, and everything added is imported from the provider namespace; the emitted family has memory 0 = imported provider memory, memory 1 = guest's own. "
            "Accept / reject class / resulting import multiset compared with the real tool on generated modules and all single-defect variants (no memory, two memories, unknown and near-miss names — every one also checked against an acceptance oracle that does not go through the model —, other version, wrong signature x5, foreign same name, foreign memory, the same function imported twice, twice with another signature, a non-function import carrying an API name); outputs validated, re-trampolined (byte-level idempotence) and executed next to the original in wasmtime (own exports, data, start, globals, memory).",
            TB + "Preservation of the guest's own behaviour depends on walrus' re-emission: validated by differential execution, not proved (partial). Idempotence is proved for the decision and the import section; byte-for-byte equality of the second output is checked by correspondence.",
            "Lean 4 theorems over a model of the acceptance logic + differential runs of the real tool (wasmparser validation, wasmtime execution)", "§4 C07"),
    "C08": ("Theorem C08_every_history_arbitrary_bytes: for EVERY byte string (no hypothesis on the input) and EVERY finite sequence of read calls on handles the client was given, the model of read.rs + lazy_value_ref.rs answers exactly Spec.run — the sequential header walk, which says ReadError wherever it cannot decode (truncation, unsupported marker, non-string key, unreadable value header, NaN). "
            "Built on the error direction of the reader refinement: finish_fail (when the eager walk cannot decode the rest of a value, finish_processing reports an error and leaves a correct partial view), arrGet_fail / objGet_fail / objProp_err, the total node-level theorems getAtIndex_arr_tot / getAtIndex_obj_tot / getProp_tot, and the handle / context lifting shared with C01. "
            "Corollaries: C08_value_or_error (an answer is the read-error value or the boxed header the sequential decoder reads at that position), C08_strings_inside_input (every reported string — value or key — has offset+length inside the input, in every reachable context), C08_repeat_same_answer, C08_errors_keep_state_sound; header-level: accepted container lengths bounded by remaining bytes, progress, NaN and unsupported markers are read errors. "
            "Tie: the model (which has no crash outcome) is compared with the real provider on random bytes and mutations of valid documents (truncation, flips, length tampering, splices, NaN, non-string keys) under catch_unwind.",
            TB + "'Never crashes' is a statement about the Rust code (panics, aborts on allocation); the model is total, so that half rests on the correspondence run (panics caught per call) and on the alloc bound theorem.",
            "Lean 4 refinement theorem (both directions) lifted to every history + differential correspondence on malformed inputs", "§4 C08"),
    "C09": ("C09_bytes_roundtrip_partial (byte level, through the models of the real writer and lazy reader): for every value of the write-side family with a nullFree type, serialising it through the write calls into a fresh output document, finalising, handing the bytes to a fresh invocation, fetching the root and deserialising through the provider read calls returns the value — composes C02 (bytes decode to the value's tree), C01 (lazy reads are reads of the decoded tree) and the document-level round trip. C09_typed_read_is_tree_read: for every read-side type (unit, bool, every integer range, f64, String, char, Option, Vec, fixed arrays, tuples, string-keyed maps, any nesting), Deserialize through the provider calls equals Deserialize read off the decoded tree, success and failure alike (Lemmas/DeDoc1-4, DeShape). Theorems at document level: for every value of the write-side family (unit, bool, i32, non-NaN f64, strings, options, vectors, string-keyed maps, any nesting) whose type has no Option directly over a nullable type, deserialising the document its serialisation builds returns the value "
            "(mutual induction over values; uses the exactness of i32 -> f64 -> i32 proved for all |z| < 2^53); the excluded shape is proved to fail (Some(()) -> None, known finding F10); mismatching documents are rejected for every type constructor, wrong lengths for fixed arrays and tuples. "
            "The real Serialize -> finalize -> re-initialise -> Deserialize pipeline is run on 35 concrete nested Rust types with seeded values (plus Vec->array/tuple, HashMap->BTreeMap read-side variants) and compared with the model, with an independent decoder and with serde_json; 60 documents x 63 types for mismatches.",
            TB + "HashMap iteration order: answers are compared with maps sorted. serde_json / rmp_serde as the JSON oracle.",
            "Lean 4 theorems by mutual induction over typed values + differential correspondence over a macro-instantiated type family", "§4 C09"),
    "C10": ("Theorems for all doubles: for i8/i16/i32/u8/u16/u32 Ok(r) iff the double is an integer with exact value r in range; for the 64-bit types the same for every double except 2^63 / 2^64, "
            "with the counterexamples proved and reported as known findings; C10_model_is_the_source_text: the model's guard-and-cast is the definition regenerated on every run from the body of the impl_deserialize_for_int! macro (integrality test, both bound comparisons with the operators as written, the cast), and every integer type the macro is instantiated for, at either pointer width, has bounds covered by the exactness theorems (C10_every_instantiated_type); guard and cast compared with the real Deserialize impls on every power of two +-2 ulp, bounds, halves, infinities and random doubles for the ten types.",
            TB, "Lean 4 theorems (case analysis over exact values, decide +kernel for the bounds) + differential correspondence", "§4 C10"),
    "C11": ("Theorems: the inline field of a handle is min(n, 2^14-1) for every n on both widths (from the C06 round trip); the api-level length accessor returns the node's true length for every size "
            "(inline below the limit, length query exactly when the field is saturated); the length query answers -1 for values without a length; an index is refused as out of bounds iff it is >= the true length. C11_true_length_every_path: in every reachable context over an input that decodes to a document d, for every valid handle (root, nested, by name, by index, key) the length query returns the length of the decoded sub-document (string bytes / elements / pairs, any size) and exactly the indices below it can be read. "
            "Strings/arrays/objects of sizes 0..40, 2^14-3..2^14+2, 65535, 65536, 70000 reached as root, nested, by name, by index and as key-at-index compared with the real provider and api accessors.",
            TB, "Lean 4 theorems over the NaN-box and reader models + differential correspondence at boundary sizes", "§4 C11"),
    "C12": ("Theorem C12_refines (refinement to an append-only list of byte strings): after interning any sequence of strings the ids are 0,1,2,… and the k-th id resolves to the k-th string — however many and however large the later ones are; "
            "C12_write_by_id / C12_lookup_by_id: using an id behaves exactly like using the bytes; the interner survives a new invocation. At the level of a whole thread, for every history of protocol operations (reads, writes, logs, new invocations, typed (de)serialisation, further interning, reservations whose copy is pending): C12_id_resolves_forever (an id that resolves to bs resolves to bs after every further sequence of operations), C12_intern_creates / C12_reserve_then_copy_creates (both ways of interning return a fresh id that resolves from then on), C12_cached_same_id (a cached handle answers the same id on every later load on its thread, without interning again, and the id resolves) — by a frame theorem over the whole protocol step and the storage invariant that spans lie one after the other. Interleavings of interns (0..1 MiB, lengths around 2^8 and 2^16 re-used by id), lookups and writes by id, new invocations and a second thread compared with the real crates.",
            TB + "A variant that stored pointers instead of offsets cannot be told apart by the model (offsets only); the correspondence run across buffer growth is what exhibits it.",
            "Lean 4 refinement theorem by induction over intern sequences + differential correspondence", "§4 C12"),
    "C13": ("Theorems: starting an invocation yields a state that depends only on the input bytes and on the deliberately surviving interner/cache, so every later answer is independent of earlier history (all histories); "
            "regenerated obligation that both initialisers replace the whole context and carry over exactly the interner (natively) / nothing (wasm); invocation sequences on one thread compared with the model and with the same invocation on a fresh thread.",
            TB, "Lean 4 theorems + regenerated structural obligation + differential correspondence", "§4 C13"),
    "C14": ("Theorem C14_noninterference: for every schedule of any number of threads and any length, each thread observes exactly what it observes alone (induction on the schedule; split request/copy steps); "
            "regenerated obligation that every native global item is thread_local or immutable; real OS threads under a baton-passing scheduler (random schedules, the 3-step reproducer, all interleavings of two short scripts) compared with solo runs and with the model.",
            TB + "Steps are atomic in the model: data races inside one provider call are not modelled.",
            "Lean 4 theorem by induction over schedules + regenerated inventory obligation + scheduled differential runs", "§4 C14"),
    "C15": ("decide +kernel over tables regenerated from the artefacts as they are now: WAT = C header (compiled now with clang for wasm32) = Rust extern block = trampoline's accepted names (IMPORTS table); the signatures the real tool insists on, the provider imports it emits and the low-level names it tolerates are found by probing the real tool on every run (sfw abi: whole API at once, each function with its public and a perturbed signature) and agree with the static table (C15_tool_renames_agree_with_table); "
            "every emitted low-level import exists in the provider with the same signature; one module name = shopify_function_v<major>; README tables and header defines = core enums. The quantifier is a finite table, so this is a proof.",
            "Trusted: Lean kernel; the extractor (s-expression reader for WAT, wasm import-section reader, regex readers for Rust, the Rust->wasm32 type map), the probing harness sfw abi (walrus, wat, wasmparser), clang 14. The provider's real wasm export section is not reachable offline; the source-level type map stands in.",
            "Lean 4 decide over regenerated tables (translator tie)", "§4 C15"),
}

NOT_YET = {
    "C01": "reader refinement theorem under construction; the correspondence machinery for it already runs (see DESIGN.md)",
    "C04": "mini-Wasm model of the emitted glue under construction",
    "C05": "ring theorems under construction; correspondence already runs",
    "C07": "acceptance-logic model under construction",
    "C09": "typed round-trip theorem under construction; correspondence already runs",
    "C11": "length theorems under construction; correspondence already runs",
    "C12": "interner refinement theorem under construction; correspondence already runs",
}


def main():
    commits = subprocess.run(["git", "-C", "/repo", "log", "--format=%h %s"], capture_output=True, text=True).stdout.strip().split("\n")
    hook_commits = [c.split()[0] for c in commits if c.split(" ", 1)[1].startswith("verif hooks")]
    checks = []
    for pid in sorted(CLAIMS):
        text, note, tech, ref = CLAIMS[pid]
        checks.append({
            "property_id": pid,
            "quick_cmd": "python3 checks/run.py %s quick" % pid,
            "thorough_cmd": "python3 checks/run.py %s thorough" % pid,
            "evidence_file": "/verif/evidence/%s.json" % pid,
            "replay_cmd_template": "python3 checks/run.py %s --replay {path}" % pid,
            "engine": "lean4+sfh",
            "level_claimed": {"category": "proof", "text": text, "design_ref": ref},
            "level_note": note,
            "technique": tech,
        })
    m = {
        "version": 1,
        "setup_cmd": "bash checks/setup.sh",
        "hooks": {
            "guard": "cargo feature sfwa_verif (on shopify_function_provider and shopify_function_wasm_api; default off)",
            "enable": "the harness crates under /verif/harness depend on /repo/{api,provider} by path with features=[\"sfwa_verif\"]",
            "baseline_off_cmd": "bash checks/baseline_off.sh",
            "source_commits": hook_commits,
            "add_only": False,
        },
        "engines": [
            {"name": "lean4+sfh", "path": "/verif/lean, /verif/harness/sfh, /verif/extract, /verif/checks/run.py",
             "serves_properties": sorted(CLAIMS),
             "kind_free_text": "Lean 4 models and theorems; translator regenerating Gen/*.lean from /repo; differential correspondence harness over a line protocol"},
        ],
        "checks": checks,
        "notes": "See DESIGN.md. One hook line is not add-only: the cfg on Logs::read_ptrs is widened from target_family=wasm to any(wasm, feature=sfwa_verif). Known findings: /verif/known_findings.json.",
        "not_applicable": [{"property_id": k, "reason": v} for k, v in sorted(NOT_YET.items()) if k not in CLAIMS],
    }
    with open(os.path.join(VERIF, "MANIFEST.json"), "w") as f:
        json.dump(m, f, indent=1)
    print("claimed:", sorted(CLAIMS), "not claimed:", [k for k in sorted(NOT_YET) if k not in CLAIMS])


if __name__ == "__main__":
    main()
