#!/bin/bash
# run every claimed quick check on the current tree and validate the evidence files
cd "$(dirname "$0")/.."
fail=0
for p in $(python3 -c "import json;print(' '.join(c['property_id'] for c in json.load(open('MANIFEST.json'))['checks']))"); do
  out=$(python3 checks/run.py $p ${1:-quick} 2>&1)
  rc=$?
  echo "$out" | tail -1
  if [ $rc -ne 0 ]; then fail=1; echo "$out" | grep -E "violation detail|VIOLATION" | head -4; fi
done
python3-vt - <<'PY'
import json,jsonschema,glob
s=json.load(open('/root/.vp/EVIDENCE.schema.json'))
bad=0
for c in json.load(open('MANIFEST.json'))['checks']:
    f=c['evidence_file']
    try:
        e=json.load(open(f)); jsonschema.validate(e,s)
        cov=e['coverage']
        if cov['obligations']!=cov['discharged'] or e.get('violations'): print('EVIDENCE NOT CLEAN',f,cov['obligations'],cov['discharged'],e.get('violations')); bad=1
    except Exception as ex:
        print('EVIDENCE INVALID',f,str(ex)[:200]); bad=1
print('evidence ok' if not bad else 'evidence problems')
PY
exit $fail
