#!/usr/bin/env python3
"""run.py <property> <quick|thorough> [--replay <file>]

The uniform check flow (DESIGN.md §2.4):
  1. extract: regenerate lean/SfVerif/Gen/*.lean from /repo's working tree (translator leg, T)
  2. lake build SfVerif.Props.<id> + sfdriver; `#print axioms` of every property theorem; source audit
  3. build the harness against /repo's working tree with the hook feature on
  4. corpus and known-finding reproducers, then the seeded correspondence run (D):
     the implementation's answers (recorded online by the generator) against the Lean model's
  5. on any failure: search / minimise -> replay file -> `VIOLATION property=<id> replay=<path>`
  6. evidence/<id>.json
"""
import fcntl
import hashlib
import json
import os
import re
import shutil
import subprocess
import sys
import time

VERIF = os.path.dirname(os.path.dirname(os.path.abspath(__file__)))
REPO = os.environ.get("SFV_REPO", "/repo")
LEAN = os.path.join(VERIF, "lean")
WORK = os.path.join(VERIF, "work")
HARNESS = os.path.join(VERIF, "harness", "sfh")
HARNESS_W = os.path.join(VERIF, "harness", "sfw")
SFH = os.path.join(HARNESS, "target", "debug", "sfh")
SFW = os.path.join(HARNESS_W, "target", "debug", "sfw")
DRIVER = os.path.join(LEAN, ".lake", "build", "bin", "sfdriver")
ALLOWED_AXIOMS = {"propext", "Classical.choice", "Quot.sound"}

# per property: generator names for sfh (D), whether the wasm harness is used, extra Gen obligations
PROPS = {
    "C01": {"gen": ["C01"]},
    "C02": {"gen": ["C02"]},
    "C03": {"gen": ["C03"]},
    "C04": {"gen": ["C04"], "wasm": "C04"},
    "C05": {"gen": ["C05"]},
    "C06": {"gen": ["C06"]},
    "C07": {"gen": [], "wasm": "C07"},
    "C08": {"gen": ["C08"]},
    "C09": {"gen": ["C09"]},
    "C10": {"gen": ["C10"]},
    "C11": {"gen": ["C11"]},
    "C12": {"gen": ["C12"]},
    "C13": {"gen": ["C13"]},
    "C14": {"gen": ["C14"]},
    "C15": {"gen": []},
}

ENV = dict(os.environ)
ENV["CARGO_NET_OFFLINE"] = "true"
ENV.setdefault("RUSTUP_TOOLCHAIN", "stable-x86_64-unknown-linux-gnu")
ENV["SFV_REPO"] = REPO


def sh(cmd, cwd=None, timeout=3600, stdin=None, env=None):
    p = subprocess.run(cmd, cwd=cwd, capture_output=True, text=True, timeout=timeout, input=stdin, env=env or ENV)
    return p.returncode, p.stdout, p.stderr


class Lock:
    def __init__(self, name):
        os.makedirs(WORK, exist_ok=True)
        self.f = open(os.path.join(WORK, name), "w")

    def __enter__(self):
        fcntl.flock(self.f, fcntl.LOCK_EX)

    def __exit__(self, *a):
        fcntl.flock(self.f, fcntl.LOCK_UN)


def c15_witnesses(extract):
    """concrete rows on which the artefacts C15 compares differ (search for a failing input, not a proof)"""
    abi = (extract or {}).get("abi") or {}
    out = []

    def tbl(k):
        return {e[0]: (tuple(e[1]), tuple(e[2])) for e in abi.get(k, [])}
    wat, hdr, rs, exp, emits = tbl("wat"), tbl("header"), tbl("rustExtern"), tbl("providerExports"), tbl("trampolineEmits")
    for a, an, b, bn in ((wat, "WAT", hdr, "C header"), (wat, "WAT", rs, "Rust extern block")):
        if not a or not b:
            continue
        for n in sorted(set(a) | set(b)):
            if a.get(n) != b.get(n):
                out.append("%s: %s has %s, %s has %s" % (n, an, a.get(n), bn, b.get(n)))
    acc = abi.get("trampolineAccepts")
    if acc is not None and wat and sorted(acc) != sorted(wat):
        out.append("trampoline table names differ from the WAT: %s" % sorted(set(acc) ^ set(wat)))
    for n, sg in sorted(emits.items()):
        if exp and exp.get(n) != sg:
            out.append("emitted import %s %s: provider exports %s" % (n, sg, exp.get(n)))
    # what the probed tool tolerates beyond its table
    try:
        txt = open(os.path.join(LEAN, "SfVerif", "Gen", "AbiTool.lean")).read()
        m = re.search(r"def trampolineAllowList[^\n]*:= \[(.*?)\]\n", txt, re.S)
        if m and exp:
            for n in re.findall(r"/- (.*?) -/", m.group(1)):
                if n not in exp and n != "memory":
                    out.append("the tool accepts an import named `%s` from the API namespace; no table of the ABI and no provider export has it" % n)
            mm_ = re.search(r"def toolAcceptsOtherModuleNames[^\n]*:= \[(.*?)\]\n", txt, re.S)
            if mm_:
                for n in re.findall(r"/- (.*?) -/", mm_.group(1)):
                    out.append("the tool accepts imports from the module `%s`" % n)
            md = re.search(r"def toolAcceptsDupBadSig[^\n]*:= \[(.*?)\]\n", txt, re.S)
            if md:
                for n in re.findall(r"/- (.*?) -/", md.group(1)):
                    out.append("the tool accepts a module that imports `%s` twice, once with the public signature and once with another one" % n)
            if re.search(r"/-  -/ \[\]", m.group(1)):
                out.append("the tool accepts an import with the empty name from the API namespace")
    except Exception:
        pass
    mods = abi.get("modules") or {}
    names = set(mods.get("wat") or []) | {mods.get("header"), mods.get("rust")} - {None}
    if len(names) > 1:
        out.append("import module names differ: %s" % sorted(names))
    return out


def theorems_of(prop):
    path = os.path.join(LEAN, "SfVerif", "Props", prop + ".lean")
    if not os.path.exists(path):
        return []
    src = open(path).read()
    return re.findall(r"^theorem\s+(%s_\w+)" % prop, src, flags=re.M)


def audit_sources():
    """no sorry / admit / own axioms / native_decide / implemented_by / unsafe / maxHeartbeats 0 (outside comments)"""
    bad = []
    pat = re.compile(r"\bsorry\b|\badmit\b|^axiom\s|native_decide|implemented_by|\bunsafe\s|maxHeartbeats\s+0")
    for root, _, files in os.walk(os.path.join(LEAN, "SfVerif")):
        for fn in files:
            if not fn.endswith(".lean"):
                continue
            src = open(os.path.join(root, fn)).read()
            src = re.sub(r"/-.*?-/", lambda m: "\n" * m.group(0).count("\n"), src, flags=re.S)
            for i, line in enumerate(src.split("\n")):
                line = re.sub(r"--.*", "", line)
                if pat.search(line):
                    bad.append("%s:%d: %s" % (os.path.relpath(os.path.join(root, fn), VERIF), i + 1, line.strip()[:80]))
    return bad


def run_driver(ops_path, out_path, width=64):
    with open(ops_path) as fi, open(out_path, "w") as fo:
        p = subprocess.run(["bash", "-c", "ulimit -s unlimited 2>/dev/null || ulimit -s 1000000; exec %s --width %d" % (DRIVER, width)],
                           stdin=fi, stdout=fo, stderr=subprocess.PIPE, text=True, timeout=3600)
    return p.returncode, p.stderr


def run_impl(ops_path, out_path):
    with open(ops_path) as fi, open(out_path, "w") as fo:
        p = subprocess.run([SFH, "run"], stdin=fi, stdout=fo, stderr=subprocess.PIPE, text=True, timeout=3600, env=ENV)
    return p.returncode, p.stderr


MIRI_TARGET = "i686-unknown-linux-gnu"
MIRI_DIR = os.path.join(HARNESS, "target-miri")


def run_impl32(ops_path, out_path):
    """the real crates at 32-bit pointer width: the harness interpreted by miri for i686"""
    env = dict(ENV)
    env["MIRIFLAGS"] = "-Zmiri-permissive-provenance -Zmiri-disable-isolation -Zmiri-disable-stacked-borrows -Zmiri-ignore-leaks"
    env.pop("RUSTUP_TOOLCHAIN", None)
    with open(ops_path) as fi, open(out_path, "w") as fo:
        p = subprocess.run(["cargo", "+nightly", "miri", "run", "--offline", "--target", MIRI_TARGET,
                            "--target-dir", MIRI_DIR, "--", "run"],
                           cwd=HARNESS, stdin=fi, stdout=fo, stderr=subprocess.PIPE, text=True, timeout=7000, env=env)
    return p.returncode, p.stderr


def split_cases(ops, *streams):
    """group parallel line lists by `case` lines"""
    cases, cur = [], None
    for i, l in enumerate(ops):
        if l.startswith("case "):
            cur = {"ops": [], "cols": [[] for _ in streams]}
            cases.append(cur)
        if cur is None:
            cur = {"ops": [], "cols": [[] for _ in streams]}
            cases.append(cur)
        cur["ops"].append(l)
        for k, s in enumerate(streams):
            cur["cols"][k].append(s[i] if i < len(s) else "<missing>")
    return cases


def first_disagreement(ops_path, impl_path, model_path):
    ops = open(ops_path).read().split("\n")
    a = open(impl_path).read().split("\n")
    b = open(model_path).read().split("\n")
    if ops and ops[-1] == "":
        ops.pop()
    n_dis = 0
    first, first_bad = None, None
    for c in split_cases(ops, a, b):
        for i, (x, y) in enumerate(zip(c["cols"][0], c["cols"][1])):
            if x != y:
                n_dis += 1
                if first is None:
                    first = (c, i)
                # a crash / escape on the implementation side is the most telling witness
                if first_bad is None and re.search(r"PANIC|DEAD|OUTSIDE-INPUT|REFUSED-UNSAFE", x):
                    first_bad = (c, i)
                break
    return n_dis, (first_bad or first)


def disagree(case_ops, tag):
    """run both sides on a case; return (index, impl, model) of the first differing line or None"""
    os.makedirs(WORK, exist_ok=True)
    base = os.path.join(WORK, "mini-%s-%d" % (tag, os.getpid()))
    with open(base + ".ops", "w") as f:
        f.write("\n".join(case_ops) + "\n")
    rc1, _ = run_impl(base + ".ops", base + ".impl")
    rc2, _ = run_driver(base + ".ops", base + ".model")
    a = open(base + ".impl").read().split("\n")
    b = open(base + ".model").read().split("\n")
    for f in (".ops", ".impl", ".model"):
        try:
            os.remove(base + f)
        except OSError:
            pass
    for i in range(len(case_ops)):
        x = a[i] if i < len(a) else "<missing>"
        y = b[i] if i < len(b) else "<missing>"
        if x != y:
            return i, a[: len(case_ops)], b[: len(case_ops)]
    return None


def minimise(case_ops, tag, budget=120):
    """delta debugging over the lines after the header (case/width), keeping a disagreement"""
    header = [l for l in case_ops[:2] if l.startswith("case ") or l.startswith("width ")]
    body = case_ops[len(header):]
    r = disagree(header + body, tag)
    if r is None:
        return case_ops, None
    body = body[: max(0, r[0] - len(header)) + 1]  # nothing after the first difference matters
    n, tests = 2, 0
    while len(body) >= 2 and tests < budget:
        chunk = max(1, len(body) // n)
        reduced = False
        for i in range(0, len(body), chunk):
            cand = body[:i] + body[i + chunk:]
            tests += 1
            if cand and disagree(header + cand, tag) is not None:
                body = cand
                n = max(2, n - 1)
                reduced = True
                break
            if tests >= budget:
                break
        if not reduced:
            if chunk == 1:
                break
            n = min(len(body), n * 2)
    final = disagree(header + body, tag)
    return header + body, final


def write_replay(prop, tier, seed, kind, payload):
    os.makedirs(os.path.join(VERIF, "replays"), exist_ok=True)
    h = hashlib.sha1(json.dumps(payload, sort_keys=True).encode()).hexdigest()[:10]
    path = os.path.join(VERIF, "replays", "%s-%s-%s.json" % (prop, kind, h))
    payload = dict(payload)
    payload.update({"property": prop, "tier": tier, "seed": seed, "kind": kind})
    with open(path, "w") as f:
        json.dump(payload, f, indent=1)
    return path


def load_known():
    p = os.path.join(VERIF, "known_findings.json")
    if not os.path.exists(p):
        return []
    return json.load(open(p)).get("findings", [])


def reproduces(entry):
    """run a finding's reproducer against the implementation: does the listed failure still show?"""
    rep = entry["reproducer"]
    if rep.get("tool") == "sfw":
        rc, out, err = sh([SFW] + [a.replace("{VERIF}", VERIF) for a in rep["args"]], timeout=600)
        return re.search(rep["fails_if"], out) is not None, out.strip()[-300:]
    base = os.path.join(WORK, "kf-%d" % os.getpid())
    with open(base + ".ops", "w") as f:
        f.write("\n".join(rep["ops"]) + "\n")
    if rep.get("width", 64) == 32:
        with Lock(".miri.lock"):
            run_impl32(base + ".ops", base + ".impl")
    else:
        run_impl(base + ".ops", base + ".impl")
    lines = open(base + ".impl").read().split("\n")
    os.remove(base + ".ops")
    os.remove(base + ".impl")
    got = lines[rep["line"]] if rep["line"] < len(lines) else "<missing>"
    return re.search(rep["fails_if"], got) is not None, got


def replay_cmd(path):
    r = json.load(open(path))
    print(json.dumps({k: r[k] for k in r if k not in ("ops", "impl", "model")}, indent=1))
    if "ops" in r:
        res = disagree(r["ops"], "replay")
        if res is None:
            print("replay: implementation and model agree on these operations now")
            return 0
        i, a, b = res
        for k, l in enumerate(r["ops"]):
            mark = "  <-- differs" if k == i else ""
            print("%-60s impl: %-40s model: %s%s" % (l[:60], a[k][:40] if k < len(a) else "", b[k][:40] if k < len(b) else "", mark))
        return 1
    # no operation list to replay (a broken obligation, an oracle failure, a crash while generating): the
    # replay is the check itself, on /repo as it is now
    prop = r.get("property")
    if prop in PROPS:
        env = dict(os.environ)
        env["VERIF_NO_ESCALATE"] = "1"
        q = subprocess.run([sys.executable, os.path.abspath(__file__), prop, r.get("tier", "quick")], env=env)
        return q.returncode
    return 0


def main():
    if len(sys.argv) < 3:
        print(__doc__)
        return 2
    prop, tier = sys.argv[1], sys.argv[2]
    if prop not in PROPS:
        print("unknown property", prop)
        return 2
    if tier == "--replay" or (len(sys.argv) >= 5 and sys.argv[3] == "--replay"):
        # a replay answers for /repo as it is now: rebuild the harnesses and the model driver first
        with Lock(".build.lock"):
            sh([sys.executable, os.path.join(VERIF, "extract", "extract.py")])
            sh(["cargo", "build", "--offline"], cwd=HARNESS, timeout=3000)
            sh(["cargo", "build", "--offline"], cwd=HARNESS_W, timeout=3000)
            sh(["lake", "build", "sfdriver"], cwd=LEAN, timeout=3000)
        return replay_cmd(sys.argv[3] if tier == "--replay" else sys.argv[4])
    # the tier named on the command line wins; VERIF_TIER only fills in when none was given
    if tier not in ("quick", "thorough"):
        tier = os.environ.get("VERIF_TIER", "quick")
    seed = int(os.environ.get("VERIF_SEED", "1"))
    t0 = time.time()
    cfg = PROPS[prop]
    os.makedirs(WORK, exist_ok=True)
    violations = []      # (what, replay_path, found_input)
    known_lines = []
    notes = []
    obligations = []     # (name, ok, detail)
    coverage = {}

    # ------------------------------------------------------------------ 1-3: build (serialised)
    with Lock(".build.lock"):
        rc, out, err = sh([sys.executable, os.path.join(VERIF, "extract", "extract.py")])
        extract = {}
        try:
            extract = json.loads(out)
        except Exception:
            extract = {"errors": ["extractor crashed: " + (err or out)[-400:]]}
        # a translation that failed is a broken obligation only for the properties that use it
        RELEVANT = {"consts": {"C06", "C11", "C05"}, "structure": {"C13", "C14"}, "abi": {"C15", "C07", "C04"},
                    "fns-nanbox": {"C06", "C11"}, "fns-logs": {"C05"}, "fns-state": {"C03", "C02"},
                    "markers": {"C01", "C08", "C11"}, "writer": {"C02", "C03"},
                    "read-entries": {"C01", "C08"}, "deint": {"C10", "C09"}, "api-status": {"C03", "C02", "C15"}, "wasm-finalize": {"C02", "C05"}}
        rel_errors = [e for e in extract.get("errors", [])
                      if prop in RELEVANT.get(e.split(":")[0], {prop})]
        for e in rel_errors:
            obligations.append(("translate:" + e.split(":")[0], False, e))
        for e in extract.get("errors", []):
            if e not in rel_errors:
                notes.append("translation problem outside this property's scope: " + e[:200])
        if not rel_errors:
            obligations.append(("translate:/repo -> Gen/*.lean", True, "changed: %s" % extract.get("changed")))

        # informational: did the source regions the hand-written models were transcribed from move?
        rc_b, out_b, _ = sh([sys.executable, os.path.join(VERIF, "extract", "basis.py")])
        try:
            for k in json.loads(out_b).get("changed", []):
                notes.append("transcription basis changed since the model was written (not a violation by itself; the correspondence run decides): " + k)
        except Exception:
            pass

        harness_ok, wasm_ok = True, True
        rc, out, err = sh(["cargo", "build", "--offline"], cwd=HARNESS, timeout=3000)
        harness_ok = rc == 0
        if not harness_ok:
            obligations.append(("harness builds against /repo (tie D)", False, (err or out)[-600:]))
        rc, out, err = sh(["cargo", "build", "--offline"], cwd=HARNESS_W, timeout=3000)
        wasm_ok = rc == 0
        if wasm_ok:
            rc, out, err = sh([SFW, "glue", os.path.join(LEAN, "SfVerif", "Gen", "Glue.lean")], timeout=600)
            if rc != 0:
                wasm_ok = False
                if cfg.get("wasm"):
                    obligations.append(("translate: the trampoline's emitted glue -> Gen/Glue.lean", False, (err or out)[-600:]))
            elif cfg.get("wasm"):
                obligations.append(("translate: the trampoline's emitted glue -> Gen/Glue.lean", True, out.strip()))
            if wasm_ok:
                # what the real tool insists on, adds, emits and tolerates, found by probing it
                cand = [e[0] for e in (extract.get("abi") or {}).get("providerExports", [])]
                rc, out, err = sh([SFW, "abi", os.path.join(LEAN, "SfVerif", "Gen", "AbiTool.lean")] + cand, timeout=600)
                if prop in ("C15", "C07", "C04"):
                    obligations.append(("translate: the real trampoline probed -> Gen/AbiTool.lean", rc == 0, (out if rc == 0 else (err or out)).strip()[-400:]))
        elif cfg.get("wasm"):
            obligations.append(("wasm harness builds against /repo (tie D)", False, (err or out)[-600:]))

        thms = theorems_of(prop)
        targets = ["sfdriver"]
        if thms or os.path.exists(os.path.join(LEAN, "SfVerif", "Props", prop + ".lean")):
            targets.append("SfVerif.Props." + prop)
        rc, out, err = sh(["lake", "build"] + targets, cwd=LEAN, timeout=3000)
        build_log = out + err
        lean_ok = rc == 0
        failed_thms = []
        if not lean_ok:
            # which declarations failed? (file:line of each error -> enclosing theorem)
            path = os.path.join(LEAN, "SfVerif", "Props", prop + ".lean")
            src_lines = open(path).read().split("\n") if os.path.exists(path) else []
            for m in re.finditer(r"error: (\S+?):(\d+):\d+: (.*)", build_log):
                f_, ln, msg = m.group(1), int(m.group(2)), m.group(3)
                name = None
                if f_.endswith("Props/%s.lean" % prop):
                    for k in range(min(ln, len(src_lines)) - 1, -1, -1):
                        mm = re.match(r"^(?:theorem|example|def|lemma)\s*(\S*)", src_lines[k])
                        if mm:
                            name = mm.group(1) or "example@%d" % (k + 1)
                            break
                failed_thms.append((name or f_, "%s:%d %s" % (f_, ln, msg[:200])))
        axioms = {}
        if lean_ok and thms:
            ax_file = os.path.join(WORK, "axioms_%s.lean" % prop)
            with open(ax_file, "w") as f:
                f.write("import SfVerif.Props.%s\nopen SfVerif.Props.%s\n" % (prop, prop))
                for t in thms:
                    f.write("#print axioms %s\n" % t)
            rc2, out2, err2 = sh(["lake", "env", "lean", ax_file], cwd=LEAN, timeout=1200)
            for m in re.finditer(r"'([\w.]+)' (does not depend on any axioms|depends on axioms: \[([^\]]*)\])", out2 + err2, flags=re.S):
                nm = m.group(1).split(".")[-1]
                axioms[nm] = [] if m.group(3) is None else [a.strip() for a in m.group(3).replace("\n", " ").split(",")]
        for t in thms:
            if not lean_ok:
                bad = [d for n, d in failed_thms if n == t]
                if bad:
                    obligations.append((t, False, bad[0]))
                elif any(n is None or not str(n).startswith(prop + "_") for n, _ in failed_thms):
                    obligations.append((t, False, "not checked: the build failed earlier (%s)" % failed_thms[0][1]))
                else:
                    obligations.append((t, True, "checked before the failing declaration"))
            else:
                ax = axioms.get(t)
                if ax is None:
                    obligations.append((t, False, "#print axioms gave no answer"))
                else:
                    extra = [a for a in ax if a not in ALLOWED_AXIOMS and "bv_decide" not in a]
                    obligations.append((t, not extra, "axioms: %s" % (ax or "none")))
        if lean_ok and thms and tier == "thorough":
            # independent re-check of the compiled property module by the toolchain's replaying checker
            rc3, out3, err3 = sh(["lake", "env", "leanchecker", "SfVerif.Props." + prop], cwd=LEAN, timeout=3000)
            obligations.append(("leanchecker SfVerif.Props.%s (independent replay of the compiled module)" % prop, rc3 == 0, (out3 + err3).strip()[-300:]))
        if not lean_ok and not any(not ok for _, ok, _ in obligations):
            obligations.append(("lake build", False, build_log[-600:]))
        bad_src = audit_sources()
        obligations.append(("source audit (no sorry/admit/axiom/native_decide/implemented_by/unsafe)", not bad_src, "; ".join(bad_src[:5])))

        # keep private copies of the binaries so a concurrent rebuild cannot disturb this run
    driver_ok = os.path.exists(DRIVER)

    # ------------------------------------------------------------------ known findings
    for e in load_known():
        if e["property"] != prop:
            continue
        if e["reproducer"].get("tool") == "sfw" and not wasm_ok:
            continue
        if e["reproducer"].get("tool") != "sfw" and not harness_ok:
            continue
        still, got = reproduces(e)
        if e["status"] == "known":
            if still:
                known_lines.append("KNOWN-FINDING: property=%s %s [%s]" % (prop, e["what"], e["key"]))
            else:
                notes.append("known finding %s no longer reproduces (got: %s)" % (e["key"], got))
        elif e["status"] == "fixed" and still:
            rp = write_replay(prop, tier, seed, "regression", {"finding": e, "got": got, "ops": e["reproducer"].get("ops", [])})
            violations.append(("a repaired defect is back: %s (%s)" % (e["key"], got), rp, True))

    # ------------------------------------------------------------------ D: corpus, then seeded run
    stats_all = {"cases": 0, "lines": 0, "hist": {}, "samples": [], "oracle_failures": []}
    distinct = set()
    d_tiers = [tier]
    reported_oracle = 0
    for d_tier in d_tiers:          # may grow: a broken obligation without a failing input widens the search
        if harness_ok and driver_ok:
            runs = []
            cdir = os.path.join(VERIF, "corpus", prop)
            if os.path.isdir(cdir) and d_tier == tier:
                for fn in sorted(os.listdir(cdir)):
                    if fn.endswith(".ops"):
                        runs.append(("corpus:" + fn, os.path.join(cdir, fn), None))
                    if fn.endswith(".ops32") and (d_tier == "thorough" or fn.startswith("q-")):
                        runs.append(("corpus32:" + fn, os.path.join(cdir, fn), 32))
            for g in cfg["gen"]:
                ops_p = os.path.join(WORK, "%s-%s-%d.ops" % (g, d_tier, seed))
                impl_p = os.path.join(WORK, "%s-%s-%d.impl" % (g, d_tier, seed))
                rc, out, err = sh([SFH, "gen", g, d_tier, str(seed), ops_p, impl_p], timeout=7000)
                if rc != 0:
                    # which operation took the process down? (lines are written before they run)
                    tail_ops = []
                    try:
                        lines_ = open(ops_p, errors="replace").read().split("\n")
                        lines_ = [l for l in lines_ if l]
                        start = max((i for i, l in enumerate(lines_) if l.startswith("case ")), default=0)
                        tail_ops = lines_[start:]
                    except Exception:
                        pass
                    rp = write_replay(prop, tier, seed, "harness-crash", {"stderr": err[-800:], "gen": g, "ops": tail_ops[-400:],
                        "note": "the process running the real crates died; the last operation of `ops` (written before it ran, flushed for the operations that copy) is where"})
                    violations.append(("the real code took the harness process down (%s) at or after `%s`" % (err.strip()[-120:], (tail_ops[-1] if tail_ops else "?")[:80]), rp, True))
                    continue
                runs.append(("gen:" + g, ops_p, impl_p))
            for label, ops_p, impl_p in runs:
                width = 64
                if impl_p == 32:
                    width = 32
                    impl_p = os.path.join(WORK, "corpus32-%d.impl" % os.getpid())
                    with Lock(".miri.lock"):
                        rc32, err32 = run_impl32(ops_p, impl_p)
                    if rc32 != 0:
                        obligations.append(("32-bit run of the real crates under miri (%s)" % label, False, err32[-400:]))
                        continue
                    coverage32 = sum(1 for _ in open(ops_p))
                    notes.append("32-bit (miri/i686) corpus %s: %d lines" % (label, coverage32))
                elif impl_p is None:
                    impl_p = os.path.join(WORK, "corpus-%d.impl" % os.getpid())
                    run_impl(ops_p, impl_p)
                model_p = os.path.join(WORK, os.path.basename(ops_p) + ".model")
                rc, err = run_driver(ops_p, model_p, width)
                if rc != 0:
                    obligations.append(("model driver runs", False, err[-300:]))
                    continue
                sp = ops_p + ".stats.json"
                if os.path.exists(sp):
                    st = json.load(open(sp))
                    stats_all["cases"] += st["cases"]
                    stats_all["lines"] += st["lines"]
                    for k, v in st["hist"].items():
                        stats_all["hist"][k] = stats_all["hist"].get(k, 0) + v
                    stats_all["samples"] += st["samples"]
                    stats_all["oracle_failures"] += st["oracle_failures"]
                if not os.path.exists(sp):
                    stats_all["cases"] += sum(1 for l in open(ops_p) if l.startswith("case "))
                    stats_all["lines"] += sum(1 for _ in open(ops_p))
                with open(ops_p) as f:
                    for l in f:
                        if not (l.startswith("case ") or l.startswith("width ") or l.startswith("thread ")):
                            distinct.add(l)
                n_dis, first = first_disagreement(ops_p, impl_p, model_p)
                if n_dis:
                    case, idx = first
                    mini, fin = (case["ops"], None) if width == 32 else minimise(case["ops"], prop)
                    if fin is None:
                        fin = (idx, case["cols"][0], case["cols"][1])
                        mini = case["ops"]
                    i, a, b = fin
                    rp = write_replay(prop, tier, seed, "disagreement", {
                        "ops": mini, "impl": a, "model": b, "first_difference_at": i, "source": label,
                        "cases_disagreeing": n_dis,
                        "note": "the implementation's answer differs from the verified model's on these operations"})
                    violations.append(("correspondence broken (%d case(s)); first: `%s` -> impl `%s` / model `%s`" % (
                        n_dis, mini[i][:80] if i < len(mini) else "?", a[i][:60] if i < len(a) else "?", b[i][:60] if i < len(b) else "?"), rp, True))
            if cfg.get("wasm") and wasm_ok:
                sub = cfg["wasm"].lower()
                n_sc = {"c04": 360, "c07": 160}[sub] * (10 if d_tier == "thorough" else 1)
                ops_p = os.path.join(WORK, "%s-%s-%d.ops" % (sub, d_tier, seed))
                impl_p = os.path.join(WORK, "%s-%s-%d.impl" % (sub, d_tier, seed))
                rc, out, err = sh([SFW, sub, str(seed), str(n_sc), ops_p, impl_p], timeout=7000)
                if rc != 0:
                    rp = write_replay(prop, tier, seed, "harness-crash", {"stderr": err[-800:], "tool": "sfw " + sub})
                    violations.append(("the wasm harness failed (%s)" % err.strip()[-200:], rp, False))
                else:
                    wj = json.loads(out)
                    model_p = ops_p + ".model"
                    run_driver(ops_p, model_p)
                    ops_l = open(ops_p).read().split("\n")
                    a_l = open(impl_p).read().split("\n")
                    b_l = open(model_p).read().split("\n")
                    n_lines = len([l for l in ops_l if l])
                    stats_all["lines"] += wj.get("scenarios", wj.get("cases", 0))
                    stats_all["cases"] += n_lines
                    for k, v in wj.get("hist", {}).items():
                        stats_all["hist"][k] = stats_all["hist"].get(k, 0) + v
                    stats_all["samples"] += ["%s -> %s" % (ops_l[i][:140], a_l[i][:120]) for i in range(min(3, n_lines))]
                    stats_all["oracle_failures"] += wj.get("oracle_failures", [])
                    if wj.get("known_f8"):
                        notes.append("%d scenario(s) hit the known finding F8 (rejected string write copied anyway)" % wj["known_f8"])
                    for l in ops_l:
                        if l:
                            distinct.add(l)
                    dis = [(i, ops_l[i], a_l[i] if i < len(a_l) else "<missing>", b_l[i] if i < len(b_l) else "<missing>")
                           for i in range(n_lines) if (a_l[i] if i < len(a_l) else None) != (b_l[i] if i < len(b_l) else None)]
                    if dis:
                        i, o, a, b = dis[0]
                        rp = write_replay(prop, tier, seed, "disagreement", {
                            "ops": [o], "impl": [a], "model": [b], "first_difference_at": 0, "cases_disagreeing": len(dis),
                            "note": "wasmtime execution of the real trampoline output (impl) vs the Lean model (model)"})
                        violations.append(("correspondence broken (%d line(s)); first: `%s` -> impl `%s` / model `%s`" % (len(dis), o[:100], a[:80], b[:80]), rp, True))
            for o in stats_all["oracle_failures"][reported_oracle:reported_oracle + 3]:
                rp = write_replay(prop, tier, seed, "oracle", {"failure": o, "all": stats_all["oracle_failures"][:20]})
                violations.append(("implementation vs oracle: " + o[:200], rp, True))
        reported_oracle = len(stats_all["oracle_failures"])
        if (d_tier == "quick" and len(d_tiers) == 1 and harness_ok and driver_ok and not os.environ.get("VERIF_NO_ESCALATE")
                and any(not ok for _, ok, _ in obligations) and not any(v[2] for v in violations)):
            d_tiers.append("thorough")
            notes.append("a proof obligation is broken and the quick search found no failing input: searching again with the thorough generators")

    # ------------------------------------------------------------------ C15: the disagreeing table rows are the failing input
    if prop == "C15" and any(not ok for _, ok, _ in obligations):
        wit = c15_witnesses(extract if tier != "replay" else {})
        if wit:
            rp = write_replay(prop, tier, seed, "tables", {"disagreements": wit,
                "note": "rows on which two descriptions of the ABI (or the tool's behaviour and a table) differ on the current tree"})
            violations.append(("descriptions of the ABI disagree: " + "; ".join(wit)[:400], rp, True))

    # ------------------------------------------------------------------ broken obligations
    broken = [(n, d) for n, ok, d in obligations if not ok]
    if broken:
        found = any(v[2] for v in violations)
        rp = write_replay(prop, tier, seed, "obligation", {
            "broken": [{"obligation": n, "detail": d} for n, d in broken],
            "note": "theorem / translation / tie no longer checks against the current source" +
                    ("" if found else "; the search found no input on which the property itself fails")})
        violations.insert(0, ("proof obligation(s) no longer check: " + "; ".join(n for n, _ in broken)[:300], rp, found))

    # ------------------------------------------------------------------ evidence
    n_obl = len(obligations)
    n_ok = sum(1 for _, ok, _ in obligations if ok)
    evidence = {
        "property_id": prop,
        "tier": tier if tier in ("quick", "thorough") else "quick",
        "seed": seed,
        "level": "proof",
        "coverage": {
            "obligations": n_obl,
            "discharged": n_ok,
            "checker_cmd": "cd /verif/lean && lake build SfVerif.Props.%s && lake env lean work/axioms_%s.lean  (Lean 4 kernel; `#print axioms` per theorem)" % (prop, prop),
            "trusted_base": [
                "Lean 4.33 kernel",
                "axioms used: " + ", ".join(sorted(set(a for v in axioms.values() for a in v))) if axioms else "axioms used: (none reported)",
                "translator /verif/extract/extract.py + rs2lean.py (const-expression translator, function-body translator for NanBox::encode/number, Logs::append/read_ptrs and the whole write state machine, Rust->wasm32 type map, regex/s-expression readers, clang 14 for the header)",
                "correspondence harness /verif/harness/sfh and its canonicalisation; model driver lean/Driver.lean",
                "modelled rather than verified: rmp encoders and marker table, bumpalo, Vec/ByteBuf growth, std float conversions, HashMap iteration order, wasm-only entry points",
            ],
            "theorems": [{"name": n, "ok": ok, "detail": d[:300]} for n, ok, d in obligations],
            "evaluations": stats_all["lines"],
            "distinct_nontrivial": len(distinct),
            "rule": "operation lines issued to the real crates and to the Lean model (answers compared line by line); distinct = distinct operation lines other than case/width/thread headers",
            "samples": stats_all["samples"][:4] or [n for n, _, _ in obligations[:4]],
            "traces_validated_against_impl": stats_all["cases"],
            "input_distribution": dict(sorted((k, v) for k, v in stats_all["hist"].items() if not k.startswith("ans:") or re.match(r"ans:[a-zA-Z]", k))),
            "oracle_failures": len(stats_all["oracle_failures"]),
            "known_findings_reported": known_lines,
            "notes": notes,
        },
        "assumptions": [
            "the Lean model is tied to the code by the regenerated Gen/*.lean files and by differential correspondence on the seeded inputs above; theorems are about the model",
            "native pointer width (64-bit) for the correspondence run; 32-bit configuration proved in the model and, in the thorough tier, run under miri where noted",
        ],
        "wall_s": round(time.time() - t0, 2),
        "violations": len(violations),
    }
    os.makedirs(os.path.join(VERIF, "evidence"), exist_ok=True)
    with open(os.path.join(VERIF, "evidence", prop + ".json"), "w") as f:
        json.dump(evidence, f, indent=1)

    for k in known_lines:
        print(k)
    for n_ in notes:
        print("note:", n_)
    print("%s %s seed=%d: obligations %d/%d, correspondence cases %d lines %d, distinct ops %d, wall %.1fs" % (
        prop, tier, seed, n_ok, n_obl, stats_all["cases"], stats_all["lines"], len(distinct), time.time() - t0))
    if violations:
        for what, rp, found in violations:
            print("  violation detail: " + what)
        what, rp, found = violations[0]
        anyfound = any(v[2] for v in violations)
        # prefer a replay that carries a concrete failing input
        for w_, r_, f_ in violations:
            if f_ and "ops" in json.load(open(r_)):
                rp = r_
                break
        print("VIOLATION property=%s replay=%s%s" % (prop, rp, "" if anyfound else " no-failing-input-found"))
        return 1
    return 0


if __name__ == "__main__":
    sys.exit(main())
