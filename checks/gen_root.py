#!/usr/bin/env python3
"""Regenerate lean/SfVerif.lean (library root: every module under Gen/Model/Lemmas/Spec/Props)."""
import os
root = os.path.join(os.path.dirname(os.path.abspath(__file__)), '..', 'lean')
lines = ['-- root of the `SfVerif` library: every model, lemma and property module']
for d in ['Gen', 'Model', 'Lemmas', 'Spec', 'Props']:
    for f in sorted(os.listdir(os.path.join(root, 'SfVerif', d))):
        if f.endswith('.lean'):
            lines.append(f'import SfVerif.{d}.{f[:-5]}')
open(os.path.join(root, 'SfVerif.lean'), 'w').write('\n'.join(lines) + '\n')
