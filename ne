baseline: 117 tests pass
Traceback (most recent call last):
  File "/verif/checks/mutate.py", line 293, in <module>
    main()
  File "/verif/checks/mutate.py", line 259, in main
    run_one((sys.argv[2], int(sys.argv[3]) - 1, sys.argv[4], int(sys.argv[5])), base_pass, log)
  File "/verif/checks/mutate.py", line 183, in run_one
    ch = apply(site)
         ^^^^^^^^^^^
  File "/verif/checks/mutate.py", line 127, in apply
    rx, rep = next((r, rp) for n, r, rp in OPS if n == name)
              ^^^^^^^^^^^^^^^^^^^^^^^^^^^^^^^^^^^^^^^^^^^^^^
StopIteration
