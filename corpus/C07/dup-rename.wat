(module
  (import "shopify_function_v2" "shopify_function_input_get" (func $a (result i64)))
  (import "shopify_function_v2" "shopify_function_input_get" (func $b (result i64)))
  (memory (export "memory") 1)
  (func (export "f") (drop (call $a)) (drop (call $b)))
)
