(module
  (import "shopify_function_v2" "shopify_function_input_read_utf8_str" (func $a (param i32 i32 i32)))
  (import "shopify_function_v2" "shopify_function_input_read_utf8_str" (func $b (param i64)))
  (memory (export "memory") 1)
  (func (export "f") (call $a (i32.const 0) (i32.const 0) (i32.const 0)) (call $b (i64.const 0)))
)
