(module
  (import "shopify_function_v2" "" (func $f))
  (import "shopify_function_v2" "shopify_function_input_get" (func $g (result i64)))
  (memory (export "memory") 1)
  (func (export "x") call $f)
)
