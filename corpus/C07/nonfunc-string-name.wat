(module
  (import "shopify_function_v2" "shopify_function_input_read_utf8_str" (global i32))
  (import "shopify_function_v2" "shopify_function_input_get" (func $b (result i64)))
  (memory (export "memory") 1)
  (func (export "f") (drop (call $b)))
)
