//! sfw — trampoline side of the correspondence harness (C04, C07).
//!
//!   sfw glue <out.lean>        run the real TrampolineCodegen on a fixed family of guest modules and
//!                              write the rewritten modules as Lean values (Gen/Glue.lean)
//!   sfw c04 <seed> <n> <ops-out> <impl-out>   execute trampolined modules in wasmtime against a scripted
//!                              low-level provider; one protocol line per scenario (answered by the
//!                              Lean interpreter for the glue family) and an oracle verdict
//!   sfw c07 <seed> <n> <ops-out> <impl-out>   acceptance / refusal / idempotence / preservation runs
//!   sfw f8                     the known-finding reproducer (rejected string write still copies)
use anyhow::{anyhow, Result};
use std::collections::HashMap;
use std::fmt::Write as _;
use std::io::Write as _;
use wasmtime::{Caller, Config, Engine, FuncType, Linker, Memory, MemoryType, Module, Store, Val, ValType};

const API_MODULE: &str = "shopify_function_v2";

#[derive(Clone)]
struct Rng(u64);
impl Rng {
    fn new(seed: u64) -> Self {
        let mut r = Rng(seed ^ 0x9E37_79B9_7F4A_7C15);
        for _ in 0..4 {
            r.next();
        }
        r
    }
    fn next(&mut self) -> u64 {
        let mut x = self.0;
        x ^= x >> 12;
        x ^= x << 25;
        x ^= x >> 27;
        self.0 = x;
        x.wrapping_mul(0x2545_F491_4F6C_DD1D)
    }
    fn below(&mut self, n: u64) -> u64 {
        if n == 0 {
            0
        } else {
            self.next() % n
        }
    }
    fn range(&mut self, lo: u64, hi: u64) -> u64 {
        lo + self.below(hi - lo + 1)
    }
}

fn fnv64(bytes: &[u8]) -> u64 {
    let mut h: u64 = 0xcbf29ce484222325;
    for b in bytes {
        h ^= *b as u64;
        h = h.wrapping_mul(0x100000001b3);
    }
    h
}

#[derive(Clone, Debug, PartialEq)]
struct Sig {
    params: Vec<String>,
    results: Vec<String>,
}

#[derive(Clone, Debug)]
struct ApiFn {
    name: String,
    sig: Sig,
}

fn vt_name(t: &wasmparser::ValType) -> String {
    match t {
        wasmparser::ValType::I32 => "i32".into(),
        wasmparser::ValType::I64 => "i64".into(),
        wasmparser::ValType::F32 => "f32".into(),
        wasmparser::ValType::F64 => "f64".into(),
        _ => "other".into(),
    }
}

/// function imports of a wasm binary: (module, name, sig) in order; also memory imports
fn imports_of(wasm: &[u8]) -> Result<(Vec<(String, String, String, Sig)>, usize)> {
    let mut types: Vec<Sig> = Vec::new();
    let mut out = Vec::new();
    let mut own_mems = 0usize;
    for payload in wasmparser::Parser::new(0).parse_all(wasm) {
        match payload? {
            wasmparser::Payload::TypeSection(r) => {
                for rg in r {
                    for st in rg?.into_types() {
                        if let wasmparser::CompositeInnerType::Func(f) = &st.composite_type.inner {
                            types.push(Sig {
                                params: f.params().iter().map(vt_name).collect(),
                                results: f.results().iter().map(vt_name).collect(),
                            });
                        } else {
                            types.push(Sig { params: vec!["other".into()], results: vec![] });
                        }
                    }
                }
            }
            wasmparser::Payload::ImportSection(r) => {
                for imp in r.into_imports() {
                    let imp = imp?;
                    match imp.ty {
                        wasmparser::TypeRef::Func(t) | wasmparser::TypeRef::FuncExact(t) => out.push((
                            imp.module.to_string(),
                            imp.name.to_string(),
                            "func".to_string(),
                            types[t as usize].clone(),
                        )),
                        wasmparser::TypeRef::Memory(_) => out.push((
                            imp.module.to_string(),
                            imp.name.to_string(),
                            "memory".to_string(),
                            Sig { params: vec![], results: vec![] },
                        )),
                        wasmparser::TypeRef::Global(_) => out.push((
                            imp.module.to_string(),
                            imp.name.to_string(),
                            "global".to_string(),
                            Sig { params: vec![], results: vec![] },
                        )),
                        wasmparser::TypeRef::Table(_) => out.push((
                            imp.module.to_string(),
                            imp.name.to_string(),
                            "table".to_string(),
                            Sig { params: vec![], results: vec![] },
                        )),
                        _ => out.push((imp.module.to_string(), imp.name.to_string(), "other".to_string(), Sig { params: vec![], results: vec![] })),
                    }
                }
            }
            wasmparser::Payload::MemorySection(r) => own_mems += r.count() as usize,
            _ => {}
        }
    }
    Ok((out, own_mems))
}

fn load_api() -> Result<Vec<ApiFn>> {
    let repo = std::env::var("SFV_REPO").unwrap_or_else(|_| "/repo".to_string());
    let wasm = wat::parse_file(format!("{}/api/src/shopify_function.wat", repo))?;
    let (imps, _) = imports_of(&wasm)?;
    Ok(imps
        .into_iter()
        .filter(|(m, _, k, _)| m == API_MODULE && k == "func")
        .map(|(_, n, _, s)| ApiFn { name: n, sig: s })
        .collect())
}

/// names the provider exports on wasm (`_` + the name of every `decorate_for_target!` function, plus
/// explicit `export_name`s), read from the provider's non-test source
fn provider_exports() -> Vec<String> {
    let repo = std::env::var("SFV_REPO").unwrap_or_else(|_| "/repo".to_string());
    let mut out: Vec<String> = Vec::new();
    let mut stack = vec![std::path::PathBuf::from(format!("{}/provider/src", repo))];
    while let Some(d) = stack.pop() {
        let Ok(rd) = std::fs::read_dir(&d) else { continue };
        for e in rd.flatten() {
            let p = e.path();
            if p.is_dir() {
                stack.push(p);
                continue;
            }
            if p.extension().and_then(|x| x.to_str()) != Some("rs") {
                continue;
            }
            let Ok(text) = std::fs::read_to_string(&p) else { continue };
            let text = text.split("#[cfg(test)]").next().unwrap_or("").to_string();
            for (pat, prefix) in [("fn shopify_function_", "_shopify_function_"), ("export_name = \"", "")] {
                let mut rest = text.as_str();
                while let Some(i) = rest.find(pat) {
                    let tail = &rest[i + pat.len()..];
                    let name: String = tail.chars().take_while(|c| c.is_ascii_alphanumeric() || *c == '_').collect();
                    let full = format!("{}{}", prefix, name);
                    if !name.is_empty() && !out.contains(&full) {
                        out.push(full);
                    }
                    rest = tail;
                }
            }
        }
    }
    out
}

/// names close to real ones that are in no table of the ABI: every one must be refused
fn near_miss_names(api: &[ApiFn], exports: &[String]) -> Vec<String> {
    let mut known: Vec<String> = api.iter().map(|a| a.name.clone()).collect();
    known.extend(exports.iter().cloned());
    known.push("memory".to_string());
    let mut out: Vec<String> = vec![String::new(), "_".into(), "foo".into(), "_foo".into(), "Memory".into(), "memory_".into(), "_memory".into()];
    for k in known.clone() {
        let mut c = vec![format!("_{}", k), format!("__{}", k), format!("{}_", k), k.to_uppercase()];
        if let Some(t) = k.strip_prefix('_') {
            c.push(t.to_string());
        }
        if let Some(t) = k.strip_prefix("shopify_function_") {
            c.push(t.to_string());
        }
        if k.len() > 1 {
            c.push(k[..k.len() - 1].to_string());
            c.push(k[1..].to_string());
        }
        for n in c {
            if !known.contains(&n) && !out.contains(&n) {
                out.push(n);
            }
        }
    }
    out
}

fn sig_wat(s: &Sig) -> String {
    let mut t = String::new();
    if !s.params.is_empty() {
        write!(t, " (param {})", s.params.join(" ")).unwrap();
    }
    if !s.results.is_empty() {
        write!(t, " (result {})", s.results.join(" ")).unwrap();
    }
    t
}

struct GuestSpec {
    /// indices into the API table, in import order
    apis: Vec<usize>,
    foreign_first: bool,
    foreign_between: bool,
    own_stuff: bool,
    /// data segment, start function and a mutable global as well (own_stuff must be set)
    own_state: bool,
    /// also import an unrelated memory (valid multi-memory guest)
    foreign_memory: bool,
    memories: usize,
    module_name: String,
    /// override of one import's signature / name (single-defect variants)
    bad_sig: Option<(usize, Sig)>,
    extra_import: Option<(String, String)>,
    /// a second import of API function k (valid Wasm), with its own or another signature
    dup: Option<(usize, Sig)>,
    /// an import that carries API function k's name but is a global
    nonfunc: Option<usize>,
    /// an import from the API namespace with this (unknown) name that is a global / table / memory
    extra_nonfunc: Option<(String, usize)>,
}

/// the low-level provider imports (name, signature) the real tool emits for a guest importing the whole API
static EMITS: std::sync::OnceLock<Vec<(String, Sig)>> = std::sync::OnceLock::new();

fn init_emits(api: &[ApiFn]) {
    if EMITS.get().is_some() {
        return;
    }
    let all: Vec<(String, String, Sig)> = api.iter().map(|a| (API_MODULE.to_string(), a.name.clone(), a.sig.clone())).collect();
    let mut out: Vec<(String, Sig)> = Vec::new();
    if let Ok(w) = wat::parse_str(&probe_module(&all)) {
        if let Ok(o) = trampoline(&w) {
            if let Ok((imps, _)) = imports_of(&o) {
                for (m, n, k, sg) in imps {
                    if k == "func" && m == API_MODULE && !api.iter().any(|a| a.name == n) && !out.iter().any(|(en, _)| *en == n) {
                        out.push((n, sg));
                    }
                }
            }
        }
    }
    let _ = EMITS.set(out);
}

fn build_guest(api: &[ApiFn], g: &GuestSpec) -> String {
    let mut w = String::from("(module\n");
    if g.foreign_first {
        w.push_str("  (import \"env\" \"foreign\" (func $foreign (param i32) (result i32)))\n");
    }
    for (pos, &k) in g.apis.iter().enumerate() {
        let sig = match &g.bad_sig {
            Some((bk, s)) if *bk == k => s.clone(),
            _ => api[k].sig.clone(),
        };
        writeln!(w, "  (import \"{}\" \"{}\" (func $api_{}{}))", g.module_name, api[k].name, k, sig_wat(&sig)).unwrap();
        if g.foreign_between && pos == 0 {
            w.push_str("  (import \"env\" \"foreign2\" (func $foreign2))\n");
        }
    }
    if let Some((k, sig)) = &g.dup {
        writeln!(w, "  (import \"{}\" \"{}\" (func $dup{}))", g.module_name, api[*k].name, sig_wat(sig)).unwrap();
    }
    if let Some(k) = &g.nonfunc {
        writeln!(w, "  (import \"{}\" \"{}\" (global $nf i32))", g.module_name, api[*k].name).unwrap();
    }
    if g.foreign_memory {
        w.push_str("  (import \"env\" \"scratch\" (memory 1))\n");
    }
    if let Some((n, kind)) = &g.extra_nonfunc {
        let what = ["(global $xg i32)", "(table $xt 1 funcref)", "(memory $xm 1)"][*kind % 3];
        writeln!(w, "  (import \"{}\" \"{}\" {})", g.module_name, n, what).unwrap();
    }
    if let Some((m, n)) = &g.extra_import {
        // a low-level provider name (a partially trampolined guest) comes with the signature the tool itself emits
        let sig = EMITS.get().and_then(|e| e.iter().find(|(en, _)| en == n)).map(|(_, s)| sig_wat(s)).unwrap_or_default();
        writeln!(w, "  (import \"{}\" \"{}\" (func $extra{}))", m, n, if m == &g.module_name { sig } else { String::new() }).unwrap();
    }
    for i in 0..g.memories {
        if i == 0 {
            w.push_str("  (memory (export \"memory\") 1)\n");
        } else {
            w.push_str("  (memory 1)\n");
        }
    }
    if g.bad_sig.is_none() {
        // wrappers: direct call and call through a table
        writeln!(w, "  (table {} funcref)", g.apis.len().max(1)).unwrap();
        if !g.apis.is_empty() {
            let els: Vec<String> = g.apis.iter().map(|k| format!("$api_{}", k)).collect();
            writeln!(w, "  (elem (i32.const 0) {})", els.join(" ")).unwrap();
        }
        for (slot, &k) in g.apis.iter().enumerate() {
            let s = &api[k].sig;
            writeln!(w, "  (type $t_{} (func{}))", k, sig_wat(s)).unwrap();
            let gets: String = (0..s.params.len()).map(|i| format!(" local.get {}", i)).collect();
            writeln!(w, "  (func (export \"w_{}\"){}{} call $api_{})", k, sig_wat(s), gets, k).unwrap();
            writeln!(w, "  (func (export \"t_{}\"){}{} i32.const {} call_indirect (type $t_{}))", k, sig_wat(s), gets, slot, k).unwrap();
            writeln!(w, "  (export \"api_{}\" (func $api_{}))", k, k).unwrap();
        }
    }
    if g.dup.is_some() {
        w.push_str("  (export \"api_dup\" (func $dup))\n");
    }
    if g.own_stuff && g.own_state && g.memories >= 1 {
        w.push_str("  (global $g (mut i32) (i32.const 7))\n");
        w.push_str("  (data (i32.const 1024) \"hello-own-data\")\n");
        w.push_str("  (func $start i32.const 2048 i32.const 305419896 i32.store)\n  (start $start)\n");
        w.push_str("  (func (export \"own_add\") (param i32 i32) (result i32) local.get 0 local.get 1 i32.add global.get $g i32.add)\n");
        w.push_str("  (func (export \"own_poke\") (param i32 i32) local.get 0 local.get 1 i32.store8 global.get $g i32.const 1 i32.add global.set $g)\n");
        w.push_str("  (func (export \"own_peek\") (param i32) (result i32) local.get 0 i32.load8_u)\n");
    } else if g.own_stuff {
        w.push_str("  (func (export \"own_add\") (param i32 i32) (result i32) local.get 0 local.get 1 i32.add)\n");
    }
    w.push_str(")\n");
    w
}

fn trampoline(wasm: &[u8]) -> Result<Vec<u8>> {
    // a panic inside the tool is an outcome of its own (never a reason for this harness to die)
    let w = wasm.to_vec();
    let r = std::panic::catch_unwind(move || -> Result<Vec<u8>> {
        let module = walrus::Module::from_buffer(&w)?;
        let mut out = shopify_function_trampoline::TrampolineCodegen::new(module)?.apply()?;
        Ok(out.emit_wasm())
    });
    match r {
        Ok(x) => x,
        Err(_) => Err(anyhow!("PANIC inside TrampolineCodegen")),
    }
}

// ------------------------------------------------------------------------------ glue -> Lean

fn lean_instrs(ops: &[wasmparser::Operator], pos: &mut usize) -> (String, bool) {
    // returns (lean list literal, ended_by_else)
    let mut items: Vec<String> = Vec::new();
    while *pos < ops.len() {
        let op = &ops[*pos];
        *pos += 1;
        use wasmparser::Operator::*;
        match op {
            End => return (format!("[{}]", items.join(", ")), false),
            Else => return (format!("[{}]", items.join(", ")), true),
            LocalGet { local_index } => items.push(format!(".localGet {}", local_index)),
            LocalSet { local_index } => items.push(format!(".localSet {}", local_index)),
            LocalTee { local_index } => items.push(format!(".localTee {}", local_index)),
            Call { function_index } => items.push(format!(".call {}", function_index)),
            I32Load { memarg } => items.push(format!(".i32Load {} {}", memarg.memory, memarg.offset)),
            I32Add => items.push(".i32Add".into()),
            I32Ne => items.push(".i32Ne".into()),
            I64Const { value } => items.push(format!(".i64Const {}", *value as u64)),
            I64ShrU => items.push(".i64ShrU".into()),
            I32WrapI64 => items.push(".i32WrapI64".into()),
            MemoryCopy { dst_mem, src_mem } => items.push(format!(".memCopy {} {}", dst_mem, src_mem)),
            If { .. } => {
                let (t, had_else) = lean_instrs(ops, pos);
                let e = if had_else { lean_instrs(ops, pos).0 } else { "[]".to_string() };
                items.push(format!(".ifElse {} {}", t, e));
            }
            other => {
                let n = format!("{:?}", other);
                let n: String = n.chars().take_while(|c| c.is_alphanumeric()).collect();
                items.push(format!(".other {}", name_lit(&n)));
            }
        }
    }
    (format!("[{}]", items.join(", ")), false)
}

fn name_lit(s: &str) -> String {
    format!("/- {} -/ [{}]", s.replace("-/", "- /"), s.bytes().map(|b| b.to_string()).collect::<Vec<_>>().join(", "))
}

fn vt_code(s: &str) -> u8 {
    match s {
        "i32" => 0,
        "i64" => 1,
        "f32" => 2,
        "f64" => 3,
        _ => 9,
    }
}

/// a rewritten module as a Lean `Wasm.Module` literal
fn module_to_lean(wasm: &[u8], api: &[ApiFn]) -> Result<String> {
    let mut types: Vec<Sig> = Vec::new();
    let mut func_types: Vec<u32> = Vec::new();
    let mut imports: Vec<(String, String, u32)> = Vec::new();
    let mut mems: Vec<bool> = Vec::new(); // imported?
    let mut exports: Vec<(String, u32)> = Vec::new();
    let mut bodies: Vec<(Vec<String>, String)> = Vec::new();
    for payload in wasmparser::Parser::new(0).parse_all(wasm) {
        match payload? {
            wasmparser::Payload::TypeSection(r) => {
                for rg in r {
                    for st in rg?.into_types() {
                        if let wasmparser::CompositeInnerType::Func(f) = &st.composite_type.inner {
                            types.push(Sig {
                                params: f.params().iter().map(vt_name).collect(),
                                results: f.results().iter().map(vt_name).collect(),
                            });
                        } else {
                            types.push(Sig { params: vec![], results: vec![] });
                        }
                    }
                }
            }
            wasmparser::Payload::ImportSection(r) => {
                for imp in r.into_imports() {
                    let imp = imp?;
                    match imp.ty {
                        wasmparser::TypeRef::Func(t) | wasmparser::TypeRef::FuncExact(t) => imports.push((imp.module.to_string(), imp.name.to_string(), t)),
                        wasmparser::TypeRef::Memory(_) => mems.push(true),
                        _ => {}
                    }
                }
            }
            wasmparser::Payload::FunctionSection(r) => {
                for t in r {
                    func_types.push(t?);
                }
            }
            wasmparser::Payload::MemorySection(r) => {
                for _ in r {
                    mems.push(false);
                }
            }
            wasmparser::Payload::ExportSection(r) => {
                for e in r {
                    let e = e?;
                    if e.kind == wasmparser::ExternalKind::Func {
                        exports.push((e.name.to_string(), e.index));
                    }
                }
            }
            wasmparser::Payload::CodeSectionEntry(body) => {
                let mut locals: Vec<String> = Vec::new();
                for l in body.get_locals_reader()? {
                    let (n, t) = l?;
                    for _ in 0..n {
                        locals.push(vt_name(&t));
                    }
                }
                let ops: Vec<wasmparser::Operator> = body.get_operators_reader()?.into_iter().collect::<std::result::Result<_, _>>()?;
                let mut pos = 0;
                let (l, _) = lean_instrs(&ops, &mut pos);
                bodies.push((locals, l));
            }
            _ => {}
        }
    }
    let mut s = String::from("{ funcs := [\n");
    let mut rows: Vec<String> = Vec::new();
    for (m, n, t) in &imports {
        let sg = &types[*t as usize];
        rows.push(format!(
            "      {{ params := [{}], results := [{}], locals := [], body := none, imp := some ({}, {}) }}",
            sg.params.iter().map(|p| vt_code(p).to_string()).collect::<Vec<_>>().join(", "),
            sg.results.iter().map(|p| vt_code(p).to_string()).collect::<Vec<_>>().join(", "),
            name_lit(m),
            name_lit(n)
        ));
    }
    for (i, (locals, body)) in bodies.iter().enumerate() {
        let sg = &types[func_types[i] as usize];
        rows.push(format!(
            "      {{ params := [{}], results := [{}], locals := [{}], body := some {}, imp := none }}",
            sg.params.iter().map(|p| vt_code(p).to_string()).collect::<Vec<_>>().join(", "),
            sg.results.iter().map(|p| vt_code(p).to_string()).collect::<Vec<_>>().join(", "),
            locals.iter().map(|p| vt_code(p).to_string()).collect::<Vec<_>>().join(", "),
            body
        ));
    }
    s.push_str(&rows.join(",\n"));
    s.push_str("\n    ],\n    memsImported := [");
    s.push_str(&mems.iter().map(|b| b.to_string()).collect::<Vec<_>>().join(", "));
    s.push_str("],\n    apiExports := [");
    // exports named api_<k>: (k, func index)
    let mut ex: Vec<String> = Vec::new();
    for (n, idx) in &exports {
        if let Some(k) = n.strip_prefix("api_").and_then(|x| x.parse::<usize>().ok()) {
            if k < api.len() {
                ex.push(format!("({}, {})", k, idx));
            }
        }
    }
    s.push_str(&ex.join(", "));
    s.push_str("] }");
    Ok(s)
}

fn family(api: &[ApiFn]) -> Vec<(String, GuestSpec)> {
    let n = api.len();
    let all: Vec<usize> = (0..n).collect();
    let mut perm: Vec<usize> = all.iter().rev().copied().collect();
    perm.rotate_left(3);
    let find = |name: &str| api.iter().position(|a| a.name == name).unwrap_or(0);
    let mut fam = vec![
        (
            "full surface, API order".into(),
            GuestSpec { apis: all, foreign_first: false, foreign_between: false, own_stuff: false, memories: 1, module_name: API_MODULE.into(), own_state: false, foreign_memory: false, bad_sig: None, extra_import: None, dup: None, nonfunc: None, extra_nonfunc: None },
        ),
        (
            "permuted order, foreign imports, own code".into(),
            GuestSpec { apis: perm, foreign_first: true, foreign_between: true, own_stuff: true, memories: 1, module_name: API_MODULE.into(), own_state: false, foreign_memory: false, bad_sig: None, extra_import: None, dup: None, nonfunc: None, extra_nonfunc: None },
        ),
        (
            "two-import subset (log, output string)".into(),
            GuestSpec {
                apis: vec![find("shopify_function_log_new_utf8_str"), find("shopify_function_output_new_utf8_str")],
                foreign_first: false,
                foreign_between: false,
                own_stuff: true,
                own_state: false,
                foreign_memory: false,
                memories: 1,
                module_name: API_MODULE.into(),
                bad_sig: None,
                extra_import: None,
                dup: None,
                nonfunc: None,
                extra_nonfunc: None,
            },
        ),
    ];
    // each string-carrying function on its own (plus one scalar function): what the glue looks like when
    // nothing else is there to share helpers with
    for name in ["shopify_function_input_read_utf8_str", "shopify_function_input_get_obj_prop", "shopify_function_output_new_utf8_str", "shopify_function_intern_utf8_str", "shopify_function_log_new_utf8_str"] {
        fam.push((
            format!("{} alone (with input_get)", name),
            GuestSpec { apis: vec![find(name), find("shopify_function_input_get")], foreign_first: false, foreign_between: false, own_stuff: false, memories: 1, module_name: API_MODULE.into(), own_state: false, foreign_memory: false, bad_sig: None, extra_import: None, dup: None, nonfunc: None, extra_nonfunc: None },
        ));
    }
    fam
}

fn cmd_glue(out: &str) -> Result<()> {
    let api = load_api()?;
    let mut s = String::from("-- REGENERATED by /verif/harness/sfw (`sfw glue`): the real TrampolineCodegen::apply run on a fixed\n-- family of guest modules, output disassembled with wasmparser; do not edit\nimport SfVerif.Model.Wasm\nnamespace SfVerif.Gen\nopen SfVerif.Wasm\n\n");
    s.push_str("/-- the public API functions in WAT order: (name, params, results) -/\ndef glueApi : List (List Nat × List Nat × List Nat) := [\n");
    s.push_str(
        &api.iter()
            .map(|a| {
                format!(
                    "  ({}, [{}], [{}])",
                    name_lit(&a.name),
                    a.sig.params.iter().map(|p| vt_code(p).to_string()).collect::<Vec<_>>().join(", "),
                    a.sig.results.iter().map(|p| vt_code(p).to_string()).collect::<Vec<_>>().join(", ")
                )
            })
            .collect::<Vec<_>>()
            .join(",\n"),
    );
    s.push_str("\n]\n\n");
    for (lean, text) in [
        ("nmReadStr", "shopify_function_input_read_utf8_str"),
        ("nmGetProp", "shopify_function_input_get_obj_prop"),
        ("nmOutStr", "shopify_function_output_new_utf8_str"),
        ("nmIntern", "shopify_function_intern_utf8_str"),
        ("nmLog", "shopify_function_log_new_utf8_str"),
        ("nmAddr", "_shopify_function_input_get_utf8_str_addr"),
        ("nmAlloc", "_shopify_function_alloc"),
    ] {
        writeln!(s, "def {} : List Nat := {}", lean, name_lit(text)).unwrap();
    }
    writeln!(s, "def glueProviderModule : List Nat := {}\n", name_lit(shopify_function_trampoline::PROVIDER_MODULE_NAME)).unwrap();
    let fam = family(&api);
    for (i, (desc, g)) in fam.iter().enumerate() {
        let wat_text = build_guest(&api, g);
        let wasm = wat::parse_str(&wat_text)?;
        let out_wasm = trampoline(&wasm).map_err(|e| anyhow!("trampolining family module {} failed: {}", i, e))?;
        writeln!(s, "/-- {} -/\ndef glueModule{} : Module :=\n  {}\n", desc, i, module_to_lean(&out_wasm, &api)?).unwrap();
    }
    writeln!(s, "def glueModules : List Module := [{}]", (0..fam.len()).map(|i| format!("glueModule{}", i)).collect::<Vec<_>>().join(", ")).unwrap();
    s.push_str("end SfVerif.Gen\n");
    let old = std::fs::read_to_string(out).unwrap_or_default();
    if old != s {
        std::fs::write(out, s)?;
        println!("changed");
    } else {
        println!("unchanged");
    }
    Ok(())
}

// ------------------------------------------------------------------------------ execution

#[derive(Default, Clone)]
struct Script {
    /// response of a provider function (i32 / i64 as u64); default 0
    resp: HashMap<String, u64>,
    /// plan words the log function writes at its returned address
    plan: Option<[u32; 5]>,
    calls: Vec<String>,
    prov: Option<Memory>,
}

const MEM: usize = 65536;

struct Run {
    foreign_touched: bool,
    guest0: Vec<u8>,
    prov0: Vec<u8>,
    ret: Option<u64>,
    guest: Vec<u8>,
    prov: Vec<u8>,
    calls: Vec<String>,
    trap: bool,
}

fn val_to_u64(v: &Val) -> u64 {
    match v {
        Val::I32(x) => *x as u32 as u64,
        Val::I64(x) => *x as u64,
        Val::F64(x) => *x,
        Val::F32(x) => *x as u64,
        _ => 0,
    }
}

fn mk_val(t: &ValType, v: u64) -> Val {
    match t {
        ValType::I32 => Val::I32(v as u32 as i32),
        ValType::I64 => Val::I64(v as i64),
        ValType::F64 => Val::F64(v),
        ValType::F32 => Val::F32(v as u32),
        _ => Val::I32(0),
    }
}

fn wt(s: &str) -> ValType {
    match s {
        "i32" => ValType::I32,
        "i64" => ValType::I64,
        "f32" => ValType::F32,
        _ => ValType::F64,
    }
}

fn run_scenario(engine: &Engine, wasm: &[u8], export: &str, args: &[u64], script: &Script, ginit: &[(usize, Vec<u8>)], pinit: &[(usize, Vec<u8>)]) -> Result<Run> {
    let module = Module::new(engine, wasm)?;
    let mut store: Store<Script> = Store::new(engine, script.clone());
    let prov = Memory::new(&mut store, MemoryType::new(1, None))?;
    store.data_mut().prov = Some(prov);
    for (a, b) in pinit {
        prov.write(&mut store, *a, b)?;
    }
    let mut linker: Linker<Script> = Linker::new(engine);
    // a module may import the same name more than once: one definition serves every occurrence
    linker.allow_shadowing(true);
    let mut foreign: Vec<Memory> = Vec::new();
    let (imps, _) = imports_of(wasm)?;
    for (m, n, kind, sig) in &imps {
        match kind.as_str() {
            "memory" => {
                if m == API_MODULE {
                    linker.define(&mut store, m, n, prov)?;
                } else {
                    let fm = Memory::new(&mut store, MemoryType::new(1, None))?;
                    fm.write(&mut store, 0, &vec![0xAAu8; MEM])?;
                    linker.define(&mut store, m, n, fm)?;
                    foreign.push(fm);
                }
            }
            "func" => {
                let ft = FuncType::new(engine, sig.params.iter().map(|p| wt(p)), sig.results.iter().map(|p| wt(p)));
                let name = n.clone();
                let rts: Vec<ValType> = sig.results.iter().map(|p| wt(p)).collect();
                linker.func_new(m, n, ft, move |mut caller: Caller<'_, Script>, params: &[Val], results: &mut [Val]| {
                    let argv: Vec<String> = params.iter().map(|v| val_to_u64(v).to_string()).collect();
                    let r = caller.data().resp.get(&name).copied().unwrap_or(0);
                    caller.data_mut().calls.push(format!("{}({})", name, argv.join(",")));
                    if name == "_shopify_function_log_new_utf8_str" {
                        if let (Some(plan), Some(pm)) = (caller.data().plan, caller.data().prov) {
                            let mut bytes = Vec::new();
                            for w in plan {
                                bytes.extend_from_slice(&w.to_le_bytes());
                            }
                            let _ = pm.write(&mut caller, r as usize, &bytes);
                        }
                    }
                    for (i, t) in rts.iter().enumerate() {
                        results[i] = mk_val(t, r);
                    }
                    Ok(())
                })?;
            }
            _ => {}
        }
    }
    let inst = linker.instantiate(&mut store, &module)?;
    let gmem = inst.get_memory(&mut store, "memory");
    if let Some(gm) = gmem {
        for (a, b) in ginit {
            gm.write(&mut store, *a, b)?;
        }
    }
    let guest0 = match gmem {
        Some(gm) => gm.data(&store)[..MEM].to_vec(),
        None => vec![],
    };
    let prov0 = prov.data(&store)[..MEM].to_vec();
    let foreign0: Vec<Vec<u8>> = foreign.iter().map(|fm| fm.data(&store)[..MEM].to_vec()).collect();
    let f = inst.get_func(&mut store, export).ok_or_else(|| anyhow!("no export {}", export))?;
    let ty = f.ty(&store);
    let params: Vec<Val> = ty.params().zip(args.iter()).map(|(t, v)| mk_val(&t, *v)).collect();
    let mut results: Vec<Val> = ty.results().map(|t| mk_val(&t, 0)).collect();
    let trap = f.call(&mut store, &params, &mut results).is_err();
    let guest = match gmem {
        Some(gm) => gm.data(&store)[..MEM].to_vec(),
        None => vec![],
    };
    let provb = prov.data(&store)[..MEM].to_vec();
    let foreign_touched = foreign.iter().zip(foreign0.iter()).any(|(fm, before)| fm.data(&store)[..MEM] != before[..]);
    Ok(Run {
        foreign_touched,
        guest0,
        prov0,
        ret: results.first().map(val_to_u64),
        guest,
        prov: provb,
        calls: store.data().calls.clone(),
        trap,
    })
}

fn show_run(r: &Run) -> String {
    if r.trap {
        return "trap".to_string();
    }
    format!(
        "ret={} g={:016x} p={:016x} calls={}",
        match r.ret {
            Some(v) => v.to_string(),
            None => "-".to_string(),
        },
        fnv64(&r.guest),
        fnv64(&r.prov),
        r.calls.join(";")
    )
}

/// what the public ABI says the call must do, given the provider's responses
fn oracle(api: &ApiFn, args: &[u64], script: &Script, guest0: &[u8], prov0: &[u8]) -> Run {
    let mut guest = guest0.to_vec();
    let mut prov = prov0.to_vec();
    let r = |n: &str| script.resp.get(n).copied().unwrap_or(0);
    let mut calls = Vec::new();
    let mut ret: Option<u64> = None;
    let short = api.name.strip_prefix("shopify_function_").unwrap_or(&api.name);
    match short {
        "input_read_utf8_str" => {
            let (src, out, len) = (args[0], args[1] as usize, args[2] as usize);
            calls.push(format!("_shopify_function_input_get_utf8_str_addr({})", src));
            let addr = r("_shopify_function_input_get_utf8_str_addr") as u32 as usize;
            let tmp = prov[addr..addr + len].to_vec();
            guest[out..out + len].copy_from_slice(&tmp);
        }
        "input_get_obj_prop" => {
            let (scope, ptr, len) = (args[0], args[1] as usize, args[2] as usize);
            calls.push(format!("_shopify_function_alloc({})", len));
            let dst = r("_shopify_function_alloc") as u32 as usize;
            let tmp = guest[ptr..ptr + len].to_vec();
            prov[dst..dst + len].copy_from_slice(&tmp);
            calls.push(format!("_shopify_function_input_get_obj_prop({},{},{})", scope, dst, len));
            ret = Some(r("_shopify_function_input_get_obj_prop"));
        }
        "output_new_utf8_str" | "intern_utf8_str" => {
            let (ptr, len) = (args[0] as usize, args[1] as usize);
            let pname = format!("_{}", api.name);
            calls.push(format!("{}({})", pname, len));
            let v = r(&pname);
            let hi = (v >> 32) as u32;
            let dst = v as u32 as usize;
            // a string write the provider rejects writes nothing
            if short == "intern_utf8_str" || hi == 0 {
                let tmp = guest[ptr..ptr + len].to_vec();
                prov[dst..dst + len].copy_from_slice(&tmp);
            }
            ret = Some(hi as u64);
        }
        "log_new_utf8_str" => {
            let (ptr, len) = (args[0] as usize, args[1] as usize);
            calls.push(format!("_shopify_function_log_new_utf8_str({})", len));
            let addr = r("_shopify_function_log_new_utf8_str") as u32 as usize;
            if let Some(plan) = script.plan {
                let mut bytes = Vec::new();
                for w in plan {
                    bytes.extend_from_slice(&w.to_le_bytes());
                }
                prov[addr..addr + 20].copy_from_slice(&bytes);
                let (so, d1, l1, d2, l2) = (plan[0] as usize, plan[1] as usize, plan[2] as usize, plan[3] as usize, plan[4] as usize);
                let t1 = guest[ptr + so..ptr + so + l1].to_vec();
                prov[d1..d1 + l1].copy_from_slice(&t1);
                let t2 = guest[ptr + so + l1..ptr + so + l1 + l2].to_vec();
                prov[d2..d2 + l2].copy_from_slice(&t2);
            }
        }
        _ => {
            // scalar call: reaches the provider unchanged under the underscored name
            let pname = format!("_{}", api.name);
            calls.push(format!("{}({})", pname, args.iter().map(|a| a.to_string()).collect::<Vec<_>>().join(",")));
            if !api.sig.results.is_empty() {
                let v = r(&pname);
                ret = Some(if api.sig.results[0] == "i32" { v as u32 as u64 } else { v });
            }
        }
    }
    Run { foreign_touched: false, guest0: vec![], prov0: vec![], ret, guest, prov, calls, trap: false }
}

struct Scenario {
    k: usize,
    args: Vec<u64>,
    script: Script,
    ginit: Vec<(usize, Vec<u8>)>,
    pinit: Vec<(usize, Vec<u8>)>,
}

fn gen_scenario(rng: &mut Rng, api: &[ApiFn], k: usize, force_reject: Option<bool>) -> Scenario {
    let a = &api[k];
    let short = a.name.strip_prefix("shopify_function_").unwrap_or(&a.name).to_string();
    let mut script = Script::default();
    let len = *[0u64, 1, 2, 5, 31, 32, 100, 1000].get(rng.below(8) as usize).unwrap();
    let gptr = rng.range(16, 30000);
    let pdst = rng.range(40000, 60000);
    let gbytes: Vec<u8> = (0..len + 8).map(|i| (rng.next() as u8) | ((i as u8) & 1)).collect();
    let pbytes: Vec<u8> = (0..len + 8).map(|_| rng.next() as u8).collect();
    let mut ginit = vec![(gptr as usize, gbytes)];
    let mut pinit = vec![(pdst as usize, pbytes)];
    let args: Vec<u64>;
    match short.as_str() {
        "input_read_utf8_str" => {
            let src = rng.next() & 0xffff_ffff;
            script.resp.insert("_shopify_function_input_get_utf8_str_addr".into(), pdst);
            args = vec![src, gptr, len];
        }
        "input_get_obj_prop" => {
            script.resp.insert("_shopify_function_alloc".into(), pdst);
            script.resp.insert("_shopify_function_input_get_obj_prop".into(), rng.next());
            args = vec![rng.next(), gptr, len];
        }
        "output_new_utf8_str" => {
            let reject = force_reject.unwrap_or(rng.below(4) == 0);
            let v = if reject { (*[2u64, 3, 4, 7].get(rng.below(4) as usize).unwrap()) << 32 } else { pdst };
            script.resp.insert("_shopify_function_output_new_utf8_str".into(), v);
            // make the first bytes of provider memory recognisable: a rejected write must not touch them
            pinit.push((0, vec![0xEE; 16]));
            args = vec![gptr, len];
        }
        "intern_utf8_str" => {
            let id = rng.below(1000);
            script.resp.insert("_shopify_function_intern_utf8_str".into(), (id << 32) | pdst);
            args = vec![gptr, len];
        }
        "log_new_utf8_str" => {
            let area = 39000u64;
            script.resp.insert("_shopify_function_log_new_utf8_str".into(), area);
            // a convention-conforming plan: skip, one or two segments, inside provider memory
            let cap = 1001u64;
            let keep = len.min(cap);
            let so = len - keep;
            let off = rng.below(cap);
            let ring = 41000u64;
            let (l1, d2, l2) = if keep <= cap - off { (keep, 0u64, 0u64) } else { (cap - off, ring, keep - (cap - off)) };
            script.plan = Some([so as u32, (ring + off) as u32, l1 as u32, d2 as u32, l2 as u32]);
            ginit = vec![(gptr as usize, (0..len + 8).map(|_| rng.next() as u8).collect())];
            pinit = vec![(ring as usize, vec![0x55; 1001])];
            args = vec![gptr, len];
        }
        _ => {
            let pname = format!("_{}", a.name);
            script.resp.insert(pname, rng.next());
            args = a.sig.params.iter().map(|p| if p == "i32" { rng.next() & 0xffff_ffff } else if p == "f64" { rng.next() & !(0x7ffu64 << 52) | (0x3ffu64 << 52) } else { rng.next() }).collect();
            ginit.clear();
            pinit.clear();
        }
    }
    Scenario { k, args, script, ginit, pinit }
}

fn hexs(b: &[u8]) -> String {
    b.iter().map(|x| format!("{:02x}", x)).collect()
}

fn scenario_line(modidx: usize, s: &Scenario) -> String {
    let mut resp: Vec<(&String, &u64)> = s.script.resp.iter().collect();
    resp.sort();
    format!(
        "glue {} {} args={} h={} plan={} g={} p={}",
        modidx,
        s.k,
        s.args.iter().map(|a| a.to_string()).collect::<Vec<_>>().join(","),
        if resp.is_empty() { "-".to_string() } else { resp.iter().map(|(n, v)| format!("{}:{}", n, v)).collect::<Vec<_>>().join(",") },
        match s.script.plan {
            Some(p) => p.iter().map(|w| w.to_string()).collect::<Vec<_>>().join(","),
            None => "-".to_string(),
        },
        if s.ginit.is_empty() { "-".to_string() } else { s.ginit.iter().map(|(a, b)| format!("{}:{}", a, hexs(b))).collect::<Vec<_>>().join(",") },
        if s.pinit.is_empty() { "-".to_string() } else { s.pinit.iter().map(|(a, b)| format!("{}:{}", a, hexs(b))).collect::<Vec<_>>().join(",") },
    )
}

fn engine() -> Result<Engine> {
    let mut cfg = Config::new();
    cfg.wasm_multi_memory(true);
    cfg.wasm_bulk_memory(true);
    Ok(Engine::new(&cfg)?)
}

fn cmd_c04(seed: u64, n: u64, ops_path: &str, impl_path: &str) -> Result<()> {
    let api = load_api()?;
    let eng = engine()?;
    let mut rng = Rng::new(seed.wrapping_mul(77).wrapping_add(4));
    let mut ops = std::io::BufWriter::new(std::fs::File::create(ops_path)?);
    let mut imp = std::io::BufWriter::new(std::fs::File::create(impl_path)?);
    let mut oracle_failures: Vec<String> = Vec::new();
    let mut known_f8 = 0u64;
    let mut total = 0u64;
    let mut hist: HashMap<String, u64> = HashMap::new();
    init_emits(&api);
    // the glue family first (these lines are answered by the Lean interpreter too)
    let fam = family(&api);
    let mut modules: Vec<(Vec<u8>, Vec<usize>, bool, Option<usize>)> = Vec::new();
    for (_, g) in &fam {
        let wasm = wat::parse_str(&build_guest(&api, g))?;
        modules.push((trampoline(&wasm)?, g.apis.clone(), true, None));
    }
    // generated modules: any subset / order of API imports, foreign imports, own code
    let string_carrying = ["shopify_function_input_read_utf8_str", "shopify_function_input_get_obj_prop", "shopify_function_output_new_utf8_str", "shopify_function_intern_utf8_str", "shopify_function_log_new_utf8_str"];
    let mut forced: Vec<(usize, usize)> = Vec::new();
    let mut partial_n = 0usize;
    for mi in 0..(n / 12).max(4) {
        let mut idx: Vec<usize> = (0..api.len()).collect();
        for i in (1..idx.len()).rev() {
            let j = rng.below(i as u64 + 1) as usize;
            idx.swap(i, j);
        }
        if mi % 4 == 1 {
            // a guest that uses only scalar functions (no glue is needed, the imports are only renamed)
            idx.retain(|k| !string_carrying.contains(&api[*k].name.as_str()));
        }
        let keep = rng.range(1, idx.len() as u64) as usize;
        if mi % 5 != 4 {
            idx.truncate(keep);
        }
        // every third generated module imports one of its API functions a second time (valid Wasm)
        let dup = if rng.below(3) == 0 { Some(idx[rng.below(idx.len() as u64) as usize]) } else { None };
        let mut g = GuestSpec { apis: idx.clone(), foreign_first: rng.below(2) == 0, foreign_between: rng.below(2) == 0, own_stuff: rng.below(2) == 0, memories: 1, module_name: API_MODULE.into(), own_state: true, foreign_memory: rng.below(3) == 0, bad_sig: None, extra_import: None, dup: dup.map(|k| (k, api[k].sig.clone())), nonfunc: None, extra_nonfunc: None };
        if mi % 5 == 4 {
            // a partially trampolined guest: a low-level provider import is already present
            // (it imports the whole API, so whichever glue might take the present import for its own is there)
            if let Some(e) = EMITS.get().filter(|e| !e.is_empty()) {
                let mut stringy: Vec<&(String, Sig)> = e.iter().filter(|(n, _)| n.contains("utf8_str") || n.contains("alloc") || n.contains("obj_prop")).collect();
                // the low-level twins of the string-carrying functions first (same signature as one another)
                stringy.sort_by_key(|(n, _)| (!string_carrying.iter().any(|s| n.strip_prefix('_') == Some(*s)), n.clone()));
                let full = string_carrying.iter().all(|s| idx.iter().any(|k| api[*k].name == *s));
                let pick = if stringy.is_empty() || !full { &e[(mi as usize / 5) % e.len()] } else { partial_n += 1; stringy[(partial_n - 1) % stringy.len()] };
                g.extra_import = Some((API_MODULE.into(), pick.0.clone()));
            }
        }
        if mi % 5 == 3 {
            // a guest that imports the provider's memory itself (to peek at it); its API imports still
            // need their trampolines
            g.foreign_memory = false;
            g.own_stuff = false;
            g.extra_nonfunc = Some(("memory".to_string(), 2));
        }
        let wasm = wat::parse_str(&build_guest(&api, &g))?;
        if mi % 5 == 4 && g.extra_import.is_some() {
            // every string-carrying function of a partially trampolined guest gets a scenario of its own
            for name in string_carrying {
                if let Some(k) = api.iter().position(|a| a.name == name) {
                    if idx.contains(&k) {
                        forced.push((modules.len(), k));
                        *hist.entry(format!("partially-trampolined:{}+{}", g.extra_import.as_ref().map(|x| x.1.as_str()).unwrap_or(""), name)).or_insert(0) += 1;
                    }
                }
            }
        }
        modules.push((trampoline(&wasm)?, idx, false, dup));
    }
    // every string-carrying function (and two scalar ones) imported twice: the second occurrence has glue
    // of its own and must behave like the first
    for name in ["shopify_function_input_read_utf8_str", "shopify_function_input_get_obj_prop", "shopify_function_output_new_utf8_str", "shopify_function_intern_utf8_str", "shopify_function_log_new_utf8_str", "shopify_function_input_get_at_index", "shopify_function_output_new_i32"] {
        let k = api.iter().position(|a| a.name == name).unwrap_or(0);
        let other = api.iter().position(|a| a.name == "shopify_function_input_get").unwrap_or(0);
        let idx = vec![k, other];
        let g = GuestSpec { apis: idx.clone(), foreign_first: false, foreign_between: true, own_stuff: true, memories: 1, module_name: API_MODULE.into(), own_state: true, foreign_memory: false, bad_sig: None, extra_import: None, dup: Some((k, api[k].sig.clone())), nonfunc: None, extra_nonfunc: None };
        let wasm = wat::parse_str(&build_guest(&api, &g))?;
        modules.push((trampoline(&wasm)?, idx, false, Some(k)));
    }
    for i in 0..n + forced.len() as u64 {
        // family modules, then every module in turn, then at random; then the forced (module, function) pairs
        let is_forced = i >= n;
        let mi = if is_forced {
            forced[(i - n) as usize].0
        } else {
            match i % 3 {
                0 => (i / 3) as usize % fam.len(),
                1 => (i / 3) as usize % modules.len(),
                _ => rng.below(modules.len() as u64) as usize,
            }
        };
        let (wasm, apis, in_family, dup) = &modules[mi];
        let mut k = if is_forced { forced[(i - n) as usize].1 } else { apis[rng.below(apis.len() as u64) as usize] };
        let mut path = ["api", "w", "t"][rng.below(3) as usize];
        let mut export = format!("{}_{}", path, k);
        if let Some(dk) = dup {
            if !is_forced && rng.below(2) == 0 {
                // the second occurrence of a repeated import
                k = *dk;
                path = "dup";
                export = "api_dup".to_string();
            }
        }
        let sc = gen_scenario(&mut rng, &api, k, None);
        let run = match run_scenario(&eng, wasm, &export, &sc.args, &sc.script, &sc.ginit, &sc.pinit) {
            Ok(r) => r,
            Err(e) => {
                // e.g. an import left under its public name: a provider offers only the low-level names
                total += 1;
                oracle_failures.push(format!("{} via {}: the trampolined module cannot be run against the provider: {:#}", api[k].name, export, e).chars().take(400).collect());
                continue;
            }
        };
        let exp = oracle(&api[k], &sc.args, &sc.script, &run.guest0, &run.prov0);
        total += 1;
        *hist.entry(format!("fn:{}", api[k].name)).or_insert(0) += 1;
        *hist.entry(format!("path:{}", path)).or_insert(0) += 1;
        *hist.entry(format!("module:{}", if *in_family { "family" } else { "generated" })).or_insert(0) += 1;
        let same = !run.trap && !run.foreign_touched && run.ret == exp.ret && run.guest == exp.guest && run.prov == exp.prov && run.calls == exp.calls;
        if !same {
            let short = api[k].name.strip_prefix("shopify_function_").unwrap_or("");
            let v = sc.script.resp.get("_shopify_function_output_new_utf8_str").copied().unwrap_or(0);
            if short == "output_new_utf8_str" && (v >> 32) != 0 && sc.args[1] > 0 && run.ret == exp.ret && run.guest == exp.guest && run.calls == exp.calls {
                known_f8 += 1; // F8: the rejected write copied anyway; nothing else differs
            } else {
                oracle_failures.push(format!("{} via {} args={:?}: got {} expected {}", api[k].name, export, sc.args, show_run(&run), show_run(&exp)));
            }
        }
        if *in_family {
            writeln!(ops, "{}", scenario_line(mi, &sc))?;
            writeln!(imp, "{}", show_run(&run))?;
        }
    }
    ops.flush()?;
    imp.flush()?;
    let mut hs: Vec<String> = hist.iter().map(|(k, v)| format!("\"{}\":{}", k, v)).collect();
    hs.sort();
    println!(
        "{{\"scenarios\":{},\"modules\":{},\"known_f8\":{},\"oracle_failures\":[{}],\"hist\":{{{}}}}}",
        total,
        modules.len(),
        known_f8,
        oracle_failures.iter().take(10).map(|s| format!("{:?}", s)).collect::<Vec<_>>().join(","),
        hs.join(",")
    );
    Ok(())
}

fn cmd_f8() -> Result<()> {
    let api = load_api()?;
    let eng = engine()?;
    let k = api.iter().position(|a| a.name == "shopify_function_output_new_utf8_str").ok_or_else(|| anyhow!("no output_new_utf8_str"))?;
    let g = GuestSpec { apis: vec![k], foreign_first: false, foreign_between: false, own_stuff: false, memories: 1, module_name: API_MODULE.into(), own_state: false, foreign_memory: false, bad_sig: None, extra_import: None, dup: None, nonfunc: None, extra_nonfunc: None };
    let wasm = trampoline(&wat::parse_str(&build_guest(&api, &g))?)?;
    let mut script = Script::default();
    script.resp.insert("_shopify_function_output_new_utf8_str".into(), 4u64 << 32);
    let run = run_scenario(&eng, &wasm, &format!("api_{}", k), &[100, 5], &script, &[(100, b"HELLO".to_vec())], &[])?;
    println!("status={} provider[0..5]={:?}", run.ret.unwrap_or(99), String::from_utf8_lossy(&run.prov[0..5]));
    if &run.prov[0..5] == b"HELLO" {
        println!("REJECTED-WRITE-COPIED");
    } else {
        println!("rejected-write-left-provider-untouched");
    }
    Ok(())
}

// ------------------------------------------------------------------------------ C07

/// every `memory.copy` that touches the imported provider memory must have the guest's own
/// (defined) memory on the other side: the glue never moves bytes to or from a foreign memory
fn glue_copies_between_provider_and_own(wasm: &[u8]) -> Result<Vec<String>> {
    let mut mem_imports: Vec<(String, String)> = Vec::new();
    let mut defined = 0u32;
    let mut bad = Vec::new();
    for payload in wasmparser::Parser::new(0).parse_all(wasm) {
        match payload? {
            wasmparser::Payload::ImportSection(r) => {
                for imp in r.into_imports() {
                    let imp = imp?;
                    if let wasmparser::TypeRef::Memory(_) = imp.ty {
                        mem_imports.push((imp.module.to_string(), imp.name.to_string()));
                    }
                }
            }
            wasmparser::Payload::MemorySection(r) => defined = r.count(),
            wasmparser::Payload::CodeSectionEntry(body) => {
                let provider = mem_imports.iter().position(|(m, n)| m == API_MODULE && n == "memory").map(|i| i as u32);
                let own = if defined == 1 { Some(mem_imports.len() as u32) } else { None };
                for op in body.get_operators_reader()? {
                    if let wasmparser::Operator::MemoryCopy { dst_mem, src_mem } = op? {
                        if let (Some(p), Some(o)) = (provider, own) {
                            let touches_provider = dst_mem == p || src_mem == p;
                            let other = if dst_mem == p { src_mem } else { dst_mem };
                            if touches_provider && other != o {
                                let name = |i: u32| mem_imports.get(i as usize).map(|(m, n)| format!("{}.{}", m, n)).unwrap_or_else(|| format!("own#{}", i));
                                bad.push(format!("memory.copy {} <- {}", name(dst_mem), name(src_mem)));
                            }
                        }
                    }
                }
            }
            _ => {}
        }
    }
    Ok(bad)
}

fn summary_line(wasm: &[u8]) -> Result<String> {
    let (imps, own) = imports_of(wasm)?;
    let items: Vec<String> = imps
        .iter()
        .map(|(m, n, k, s)| format!("{}|{}|{}|{}|{}", m, n, k, s.params.join(","), s.results.join(",")))
        .collect();
    Ok(format!("tramp mems={} imports={}", own, if items.is_empty() { "-".to_string() } else { items.join(";") }))
}

fn classify(err: &str) -> &'static str {
    if err.contains("PANIC inside") {
        "PANIC"
    } else if err.contains("multiple non-imported memories") {
        "multi-memory"
    } else if err.contains("unexpected import") {
        "unexpected-import"
    } else if err.contains("are not supported. Imports must be from") {
        "unsupported-module"
    } else if err.contains("Params for") || err.contains("Results for") {
        "bad-signature"
    } else if err.contains("expected a function import") {
        "not-a-function"
    } else {
        "other-error"
    }
}

fn own_behaviour(eng: &Engine, wasm: &[u8]) -> Result<String> {
    // run the module's own exports with every API import stubbed to return 0
    let script = Script::default();
    let mut out = String::new();
    for (f, a) in [("own_add", vec![5u64, 9]), ("own_poke", vec![3000, 77]), ("own_peek", vec![3000]), ("own_peek", vec![1024]), ("own_peek", vec![2048]), ("own_add", vec![1, 1])] {
        // a fresh instance per call keeps the comparison simple and deterministic
        match run_scenario(eng, wasm, f, &a, &script, &[], &[]) {
            Ok(r) => write!(out, "{}={:?}/{:016x};", f, r.ret, fnv64(&r.guest)).unwrap(),
            Err(_) => write!(out, "{}=absent;", f).unwrap(),
        }
    }
    Ok(out)
}

fn cmd_c07(seed: u64, n: u64, ops_path: &str, impl_path: &str) -> Result<()> {
    let api = load_api()?;
    let eng = engine()?;
    let mut rng = Rng::new(seed.wrapping_mul(131).wrapping_add(7));
    let mut ops = std::io::BufWriter::new(std::fs::File::create(ops_path)?);
    let mut imp = std::io::BufWriter::new(std::fs::File::create(impl_path)?);
    let mut failures: Vec<String> = Vec::new();
    let mut hist: HashMap<String, u64> = HashMap::new();
    let string_fns = ["shopify_function_input_read_utf8_str", "shopify_function_input_get_obj_prop", "shopify_function_output_new_utf8_str", "shopify_function_intern_utf8_str", "shopify_function_log_new_utf8_str"];
    let mut cases = 0u64;
    init_emits(&api);
    let near = near_miss_names(&api, &provider_exports());
    // after the generated cases: every near-miss name once (as a function import next to a few API imports)
    for i in 0..n + near.len() as u64 {
        let sweep = i >= n;
        let mut idx: Vec<usize> = (0..api.len()).collect();
        for a in (1..idx.len()).rev() {
            let j = rng.below(a as u64 + 1) as usize;
            idx.swap(a, j);
        }
        let keep = rng.range(0, api.len() as u64) as usize;
        idx.truncate(keep);
        let mut g = GuestSpec { apis: idx.clone(), foreign_first: rng.below(2) == 0, foreign_between: rng.below(2) == 0, own_stuff: true, memories: 1, module_name: API_MODULE.into(), own_state: true, foreign_memory: false, bad_sig: None, extra_import: None, dup: None, nonfunc: None, extra_nonfunc: None };
        let variant = if sweep { 4 } else { i % 16 };
        let vname = match variant {
            0 | 1 => "valid",
            2 => {
                g.memories = 0;
                "no-memory"
            }
            3 => {
                g.memories = 2;
                "two-memories"
            }
            4 => {
                let n = if sweep { near[(i - n) as usize].clone() } else if rng.below(4) == 0 { format!("shopify_function_unknown_{}", rng.below(9)) } else { near[(i as usize / 15) % near.len()].clone() };
                g.extra_import = Some((API_MODULE.into(), n));
                "unknown-name"
            }
            5 => {
                let spellings = ["1", "3", "10", "20", "02", "002", "+2", "2x", "2.0", "22", "", "0x2", "2_", "-2"];
                g.extra_import = Some((format!("shopify_function_v{}", spellings[(i as usize / 15) % spellings.len()]), "shopify_function_input_get".into()));
                "other-version"
            }
            6 => {
                let name = string_fns[rng.below(5) as usize];
                let k = api.iter().position(|a| a.name == name).unwrap();
                if !g.apis.contains(&k) {
                    g.apis.push(k);
                }
                let mut s = api[k].sig.clone();
                match rng.below(3) {
                    0 => {
                        s.params.pop();
                    }
                    1 => s.results = if s.results.is_empty() { vec!["i32".into()] } else { vec![] },
                    _ => s.params[0] = if s.params[0] == "i32" { "i64".into() } else { "i32".into() },
                }
                g.bad_sig = Some((k, s));
                "bad-signature"
            }
            7 => {
                g.extra_import = Some(("env".into(), "shopify_function_input_get".into()));
                "foreign-same-name"
            }
            8 => {
                g.foreign_memory = true;
                "foreign-memory"
            }
            9 => {
                // the same function imported twice (valid Wasm)
                let k = rng.below(api.len() as u64) as usize;
                if !g.apis.contains(&k) {
                    g.apis.push(k);
                }
                g.dup = Some((k, api[k].sig.clone()));
                "duplicate-import"
            }
            10 => {
                // ... the second time with another signature
                let name = string_fns[rng.below(5) as usize];
                let k = api.iter().position(|a| a.name == name).unwrap();
                if !g.apis.contains(&k) {
                    g.apis.push(k);
                }
                let mut s = api[k].sig.clone();
                if rng.below(2) == 0 {
                    s.params.pop();
                } else {
                    s.results = if s.results.is_empty() { vec!["i32".into()] } else { vec![] };
                }
                g.dup = Some((k, s));
                "duplicate-bad-signature"
            }
            11 => {
                g.nonfunc = Some(rng.below(api.len() as u64) as usize);
                "non-function-api-name"
            }
            15 => {
                // a partially trampolined guest: one of the low-level provider imports is already there (with the
                // signature the tool emits), next to public names that still need their trampolines
                if let Some(e) = EMITS.get().filter(|e| !e.is_empty()) {
                    let (n, _) = &e[(i as usize / 16) % e.len()];
                    g.extra_import = Some((API_MODULE.into(), n.clone()));
                }
                "partially-trampolined"
            }
            14 => {
                // a guest that imports the provider's memory itself (allowed) next to public API functions:
                // it must be trampolined like any other
                g.extra_nonfunc = Some(("memory".to_string(), 2));
                "imports-provider-memory"
            }
            13 => {
                // no memory of its own, only an imported one: still "no memory" for the tool
                g.memories = 0;
                g.foreign_memory = true;
                "imported-memory-only"
            }
            _ => {
                // an unknown name in the API namespace that is not a function
                let n = if rng.below(2) == 0 { format!("shopify_function_unknown_{}", rng.below(9)) } else { near[(i as usize / 15 * 7 + 3) % near.len()].clone() };
                g.extra_nonfunc = Some((n, rng.below(3) as usize));
                "unknown-non-function"
            }
        };
        *hist.entry(format!("variant:{}", vname)).or_insert(0) += 1;
        let wat_text = build_guest(&api, &g);
        let wasm = match wat::parse_str(&wat_text) {
            Ok(w) => w,
            Err(_) => continue,
        };
        cases += 1;
        writeln!(ops, "{}", summary_line(&wasm)?)?;
        let res = trampoline(&wasm);
        // the file-based entry point the CLI uses must do the same as `apply` on the parsed module: to another
        // path, onto an existing file, and in place
        {
            let dir = std::path::Path::new(ops_path).parent().map(|p| p.to_path_buf()).unwrap_or_else(|| std::path::PathBuf::from("."));
            let (a, b) = (dir.join(format!("c07-{}-in.wasm", seed)), dir.join(format!("c07-{}-out.wasm", seed)));
            std::fs::write(&a, &wasm)?;
            std::fs::write(&b, b"stale contents of an earlier run")?;
            let (a1, b1, a2) = (a.clone(), b.clone(), a.clone());
            let r1 = std::panic::catch_unwind(move || shopify_function_trampoline::trampoline_existing_module(&a1, &b1)).unwrap_or_else(|_| Err(anyhow!("PANIC")));
            let r2 = std::panic::catch_unwind(move || shopify_function_trampoline::trampoline_existing_module(&a2, &a2)).unwrap_or_else(|_| Err(anyhow!("PANIC")));
            match (&res, r1.is_ok(), r2.is_ok()) {
                (Ok(out), true, true) => {
                    if &std::fs::read(&b)? != out {
                        failures.push(format!("case {} ({}): the file written by trampoline_existing_module differs from apply()'s module", i, vname));
                    }
                    if &std::fs::read(&a)? != out {
                        failures.push(format!("case {} ({}): trampolining a file in place leaves something else than apply()'s module ({} bytes)", i, vname, std::fs::read(&a)?.len()));
                    }
                }
                (Err(_), false, false) => {
                    if std::fs::read(&a)? != wasm {
                        failures.push(format!("case {} ({}): a refused in-place run changed the file", i, vname));
                    }
                }
                (r, x, y) => failures.push(format!("case {} ({}): apply() {} but trampoline_existing_module {} / in place {}", i, vname, if r.is_ok() { "accepts" } else { "refuses" }, if x { "accepts" } else { "refuses" }, if y { "accepts" } else { "refuses" })),
            }
            let _ = std::fs::remove_file(&a);
            let _ = std::fs::remove_file(&b);
        }
        match res {
            Err(e) => {
                writeln!(imp, "reject {}", classify(&format!("{:#}", e)))?;
            }
            Ok(out) => {
                if vname == "other-version" {
                    // the property, not the model: only the one documented module name is the API
                    failures.push(format!("case {} ({}): accepted a module that imports from `{}`", i, vname, g.extra_import.as_ref().map(|x| x.0.clone()).unwrap_or_default()));
                }
                if vname == "unknown-name" || vname == "unknown-non-function" {
                    // the property, not the model: a name that is in no table of the ABI is refused
                    let n = g.extra_import.as_ref().map(|x| x.1.clone()).or(g.extra_nonfunc.as_ref().map(|x| x.0.clone())).unwrap_or_default();
                    failures.push(format!("case {} ({}): accepted a module that imports the unknown name `{}` from the API namespace", i, vname, n));
                }
                let (before, _) = imports_of(&wasm)?;
                let (after, own_after) = imports_of(&out)?;
                if out == walrus::Module::from_buffer(&wasm)?.emit_wasm() && g.memories == 0 {
                    writeln!(imp, "noop")?;
                } else {
                    let mut names: Vec<String> = after.iter().map(|(m, n, k, _)| format!("{}|{}|{}", m, n, k)).collect();
                    names.sort();
                    writeln!(imp, "rewrite own_mems={} imports={}", own_after, names.join(";"))?;
                }
                // validity, idempotence, preservation (not part of the model's answer)
                if wasmparser::validate(&out).is_err() {
                    failures.push(format!("case {} ({}): output does not validate", i, vname));
                }
                match trampoline(&out) {
                    Ok(second) => {
                        if second != out {
                            failures.push(format!("case {} ({}): second application changes the module", i, vname));
                        }
                    }
                    Err(e) => failures.push(format!("case {} ({}): second application fails: {}", i, vname, e)),
                }
                let _ = before;
                for b in glue_copies_between_provider_and_own(&out)? {
                    failures.push(format!("case {} ({}): glue copies to/from a memory that is not the guest's own: {}", i, vname, b));
                }
                if g.memories == 1 {
                    // own behaviour: original (API imports stubbed under their public names) vs rewritten
                    let a = own_behaviour(&eng, &wasm)?;
                    let b = own_behaviour(&eng, &out)?;
                    if a != b {
                        failures.push(format!("case {} ({}): own behaviour differs: {} vs {}", i, vname, a, b));
                    }
                    // the guest memory is still its own and exported as before
                    let m = Module::new(&eng, &out)?;
                    let exported_mem = m.exports().any(|e| e.name() == "memory" && e.ty().memory().is_some());
                    if !exported_mem {
                        failures.push(format!("case {} ({}): memory export lost", i, vname));
                    }
                }
            }
        }
    }
    // guests the import-level model does not describe (a 64-bit memory of their own): whatever the tool decides,
    // "accepted" must mean "a valid module came out" — checked against the property directly, not the model
    for (k, a) in api.iter().enumerate() {
        for with_own_stuff in [false, true] {
            let mut wat_text = String::from("(module\n");
            writeln!(wat_text, "  (import \"{}\" \"{}\" (func $f{}))", API_MODULE, a.name, sig_wat(&a.sig)).unwrap();
            wat_text.push_str("  (memory (export \"memory\") i64 1)\n");
            if with_own_stuff {
                wat_text.push_str("  (data (i64.const 16) \"own\")\n  (func (export \"own_add\") (param i32 i32) (result i32) local.get 0 local.get 1 i32.add)\n");
            }
            wat_text.push_str(")\n");
            let Ok(wasm) = wat::parse_str(&wat_text) else { continue };
            if wasmparser::validate(&wasm).is_err() {
                continue;
            }
            *hist.entry("variant:memory64-guest".to_string()).or_insert(0) += 1;
            match trampoline(&wasm) {
                Err(_) => {}
                Ok(out) => {
                    if wasmparser::validate(&out).is_err() {
                        failures.push(format!("memory64 guest importing {} (api #{}): accepted, but the output does not validate", a.name, k));
                    }
                }
            }
        }
    }
    ops.flush()?;
    imp.flush()?;
    let mut hs: Vec<String> = hist.iter().map(|(k, v)| format!("\"{}\":{}", k, v)).collect();
    hs.sort();
    println!(
        "{{\"cases\":{},\"oracle_failures\":[{}],\"hist\":{{{}}}}}",
        cases,
        failures.iter().take(10).map(|s| format!("{:?}", s)).collect::<Vec<_>>().join(","),
        hs.join(",")
    );
    Ok(())
}

/// run the trampoline on one WAT file and describe the outcome (ad-hoc experiments, replays)
// ------------------------------------------------------------------------------ abi -> Lean (behavioural)

fn probe_module(imports: &[(String, String, Sig)]) -> String {
    let mut t = String::from("(module\n");
    for (i, (m, n, s)) in imports.iter().enumerate() {
        writeln!(t, "  (import \"{}\" \"{}\" (func $f{}{}))", m, n, i, sig_wat(s)).unwrap();
    }
    t.push_str("  (memory (export \"memory\") 1)\n)\n");
    t
}

fn sig_lean(name: &str, s: &Sig) -> String {
    format!(
        "({}, [{}], [{}])",
        name_lit(name),
        s.params.iter().map(|p| vt_code(p).to_string()).collect::<Vec<_>>().join(", "),
        s.results.iter().map(|p| vt_code(p).to_string()).collect::<Vec<_>>().join(", ")
    )
}

/// `sfw abi <out.lean> [candidate names...]`: what the real tool accepts, insists on and emits, found by
/// running it on modules that import the public API (all of it at once; one function at a time with the
/// public signature and with a perturbed one; candidate low-level names inside the API namespace)
fn cmd_abi(out: &str, candidates: &[String]) -> Result<()> {
    let api = load_api()?;
    let prov = shopify_function_trampoline::PROVIDER_MODULE_NAME;
    // "the tool accepts" = `apply` accepts, or the file-based entry point the CLI uses does (they must agree; a
    // module only one of them lets through counts as accepted)
    let out_dir = std::path::Path::new(out).parent().map(|p| p.to_path_buf()).unwrap_or_else(|| std::path::PathBuf::from("."));
    let via_file = |wasm: &[u8]| -> Option<Vec<u8>> {
        let (a, b) = (out_dir.join(format!("abi-probe-{}-in.wasm", std::process::id())), out_dir.join(format!("abi-probe-{}-out.wasm", std::process::id())));
        std::fs::write(&a, wasm).ok()?;
        let (a1, b1) = (a.clone(), b.clone());
        let r = std::panic::catch_unwind(move || shopify_function_trampoline::trampoline_existing_module(&a1, &b1)).unwrap_or_else(|_| Err(anyhow!("PANIC")));
        let bytes = if r.is_ok() { std::fs::read(&b).ok() } else { None };
        let _ = std::fs::remove_file(&a);
        let _ = std::fs::remove_file(&b);
        bytes
    };
    let run = |imports: &[(String, String, Sig)]| -> Result<Vec<(String, String, String, Sig)>> {
        let wasm = wat::parse_str(&probe_module(imports))?;
        let outw = match trampoline(&wasm) {
            Ok(o) => o,
            Err(e) => match via_file(&wasm) {
                Some(o) => o,
                None => return Err(e),
            },
        };
        wasmparser::validate(&outw).map_err(|e| anyhow!("output does not validate: {}", e))?;
        Ok(imports_of(&outw)?.0)
    };
    // 1. the whole API at once
    let all: Vec<(String, String, Sig)> = api.iter().map(|a| (API_MODULE.to_string(), a.name.clone(), a.sig.clone())).collect();
    let out_all = run(&all).map_err(|e| anyhow!("the tool refuses a module importing the whole public API: {:#}", e))?;
    let mut emits: Vec<(String, Sig)> = Vec::new();
    let mut left: Vec<String> = Vec::new();
    for (m, n, k, s) in &out_all {
        if k != "func" {
            continue;
        }
        let public_name = api.iter().any(|a| &a.name == n);
        if m == prov && !public_name {
            if !emits.iter().any(|(en, es)| en == n && es == s) {
                emits.push((n.clone(), s.clone()));
            }
        } else if m == API_MODULE && public_name {
            left.push(n.clone());
        }
    }
    // 2. one function at a time
    let mut expected: Vec<(String, Sig)> = Vec::new();
    let mut adds: Vec<(String, Sig)> = Vec::new();
    let mut renames: Vec<(String, String)> = Vec::new();
    for a in &api {
        let public = run(&[(API_MODULE.to_string(), a.name.clone(), a.sig.clone())]);
        let mut bad = a.sig.clone();
        bad.params.push("i32".to_string());
        let perturbed = run(&[(API_MODULE.to_string(), a.name.clone(), bad)]);
        if perturbed.is_err() {
            // the tool insists on a signature for this import: the public one, or one we cannot name
            match &public {
                Ok(imps) => {
                    expected.push((a.name.clone(), a.sig.clone()));
                    for (m, n, k, s) in imps {
                        if k == "func" && m == prov && !adds.iter().any(|(an, asg)| an == n && asg == s) {
                            adds.push((n.clone(), s.clone()));
                        }
                    }
                }
                Err(_) => expected.push((a.name.clone(), Sig { params: vec!["f32".into()], results: vec!["f32".into()] })),
            }
        } else if let Ok(imps) = &public {
            let fs: Vec<&(String, String, String, Sig)> = imps.iter().filter(|(_, _, k, _)| k == "func").collect();
            if fs.len() == 1 {
                renames.push((a.name.clone(), fs[0].1.clone()));
            } else {
                renames.push((a.name.clone(), String::new()));
            }
        } else {
            // refused with its public signature although no signature is insisted on
            expected.push((a.name.clone(), Sig { params: vec!["f32".into()], results: vec!["f32".into()] }));
        }
    }
    // 2b. the same function imported twice, once with the public and once with a perturbed signature, in both
    //     orders: where the tool insists on a signature it must do so for every occurrence
    let mut dup_accepted: Vec<String> = Vec::new();
    for (name, sig) in &expected {
        for perturb in 0..3 {
            let mut bad = sig.clone();
            match perturb {
                0 => bad.params.push("i32".to_string()),
                1 => bad.results = if bad.results.is_empty() { vec!["i32".to_string()] } else { vec![] },
                _ => {
                    bad.params.pop();
                }
            }
            for order in 0..2 {
                let pair = if order == 0 { vec![(API_MODULE.to_string(), name.clone(), sig.clone()), (API_MODULE.to_string(), name.clone(), bad.clone())] } else { vec![(API_MODULE.to_string(), name.clone(), bad.clone()), (API_MODULE.to_string(), name.clone(), sig.clone())] };
                let n2 = name.clone();
                let accepted = std::panic::catch_unwind(std::panic::AssertUnwindSafe(|| run(&pair).is_ok())).unwrap_or(true);
                if accepted && !dup_accepted.contains(&n2) {
                    dup_accepted.push(n2);
                }
            }
        }
    }
    // 2c. module names that look like the API namespace: which ones does the tool accept (and treat as what)?
    let mut mod_accepted: Vec<String> = Vec::new();
    for sp in ["1", "3", "10", "20", "02", "002", "+2", "2x", "2.0", "22", "", "0x2", "2_", "-2", " 2", "2 "] {
        let mname = format!("shopify_function_v{}", sp);
        if mname == API_MODULE {
            continue;
        }
        let a0 = &api[0];
        let a1 = &api[1 % api.len()];
        let alone = run(&[(mname.clone(), a0.name.clone(), a0.sig.clone())]).is_ok();
        let behind = run(&[(API_MODULE.to_string(), a1.name.clone(), a1.sig.clone()), ("env".to_string(), "f".to_string(), Sig { params: vec![], results: vec![] }), (mname.clone(), a0.name.clone(), a0.sig.clone())]).is_ok();
        if alone || behind {
            mod_accepted.push(mname);
        }
    }
    // 3. low-level names inside the API namespace the tool tolerates (its own output must be accepted again)
    let mut cands: Vec<String> = emits.iter().map(|(n, _)| n.clone()).collect();
    for c in candidates {
        if !cands.contains(c) {
            cands.push(c.clone());
        }
    }
    cands.push("memory".to_string());
    let mut exports_known: Vec<String> = candidates.to_vec();
    for e in provider_exports() {
        if !exports_known.contains(&e) {
            exports_known.push(e);
        }
    }
    for c in near_miss_names(&api, &exports_known) {
        if !cands.contains(&c) {
            cands.push(c);
        }
    }
    let mut allow: Vec<String> = Vec::new();
    for c in &cands {
        if api.iter().any(|a| &a.name == c) || renames.iter().any(|(_, n)| n == c) {
            continue; // names of the table itself
        }
        let sig = emits.iter().find(|(n, _)| n == c).map(|(_, s)| s.clone()).unwrap_or(Sig { params: vec![], results: vec![] });
        if run(&[(API_MODULE.to_string(), c.clone(), sig)]).is_ok() && !allow.contains(c) {
            allow.push(c.clone());
        }
    }
    expected.sort_by(|a, b| a.0.cmp(&b.0));
    emits.sort_by(|a, b| a.0.cmp(&b.0));
    adds.sort_by(|a, b| a.0.cmp(&b.0));
    allow.sort();
    renames.sort();
    let mut s = String::from("-- REGENERATED by /verif/harness/sfw (`sfw abi`): the real TrampolineCodegen probed with modules importing the\n-- public API (all at once; one function at a time with the public and with a perturbed signature; low-level\n-- names inside the API namespace); value types: 0 i32, 1 i64, 2 f32, 3 f64; do not edit\nimport SfVerif.Gen.Abi\nnamespace SfVerif.Gen\n");
    let tbl = |name: &str, doc: &str, rows: &Vec<(String, Sig)>| -> String {
        format!("/-- {} -/\ndef {} : List Sig := [\n  {}\n]\n", doc, name, rows.iter().map(|(n, g)| sig_lean(n, g)).collect::<Vec<_>>().join(",\n  "))
    };
    s.push_str(&tbl("trampolineExpectedSigs", "imports the tool refuses with a perturbed signature, with the signature it accepts (f32 -> f32: it refuses the public one)", &expected));
    s.push_str(&tbl("trampolineAdds", "provider imports the glue of those functions brings in", &adds));
    s.push_str(&tbl("trampolineEmits", "every provider import in the output for a guest importing the whole API", &emits));
    writeln!(s, "/-- low-level names tolerated inside the API namespace -/\ndef trampolineAllowList : List (List Nat) := [{}]", allow.iter().map(|a| name_lit(a)).collect::<Vec<_>>().join(", ")).unwrap();
    writeln!(s, "/-- imports that are only renamed: (public name, name in the output) -/\ndef toolRenames : List (List Nat × List Nat) := [\n  {}\n]", renames.iter().map(|(a, b)| format!("({}, {})", name_lit(a), name_lit(b))).collect::<Vec<_>>().join(",\n  ")).unwrap();
    writeln!(s, "/-- import module names of the form shopify_function_v<something> other than the API's that the tool accepts -/\ndef toolAcceptsOtherModuleNames : List (List Nat) := [{}]", mod_accepted.iter().map(|a| name_lit(a)).collect::<Vec<_>>().join(", ")).unwrap();
    writeln!(s, "/-- functions the tool insists on a signature for, yet accepts when imported twice with the public and a perturbed signature (either order) -/\ndef toolAcceptsDupBadSig : List (List Nat) := [{}]", dup_accepted.iter().map(|a| name_lit(a)).collect::<Vec<_>>().join(", ")).unwrap();
    writeln!(s, "/-- function imports left in the API namespace after trampolining the whole API -/\ndef toolLeftInApi : List (List Nat) := [{}]", left.iter().map(|a| name_lit(a)).collect::<Vec<_>>().join(", ")).unwrap();
    s.push_str("end SfVerif.Gen\n");
    let old = std::fs::read_to_string(out).unwrap_or_default();
    if old != s {
        std::fs::write(out, s)?;
        println!("changed");
    } else {
        println!("unchanged");
    }
    Ok(())
}

fn cmd_apply(path: &str) -> Result<()> {
    let wasm = wat::parse_str(&std::fs::read_to_string(path)?)?;
    println!("in:  {}", summary_line(&wasm)?);
    match trampoline(&wasm) {
        Err(e) => println!("out: reject {} ({:#})", classify(&format!("{:#}", e)), e),
        Ok(out) => {
            println!("out: {}", summary_line(&out)?);
            println!("valid: {}", wasmparser::validate(&out).is_ok());
            match trampoline(&out) {
                Ok(second) => println!("idempotent: {}", second == out),
                Err(e) => println!("second application fails: {:#}", e),
            }
        }
    }
    Ok(())
}

fn main() -> Result<()> {
    let args: Vec<String> = std::env::args().collect();
    match args.get(1).map(|s| s.as_str()) {
        Some("glue") => cmd_glue(args.get(2).ok_or_else(|| anyhow!("out path"))?),
        Some("c04") => cmd_c04(args[2].parse()?, args[3].parse()?, &args[4], &args[5]),
        Some("c07") => cmd_c07(args[2].parse()?, args[3].parse()?, &args[4], &args[5]),
        Some("f8") => cmd_f8(),
        Some("apply") => cmd_apply(&args[2]),
        Some("wat2wasm") => {
            let w = wat::parse_file(args.get(2).ok_or_else(|| anyhow!("in"))?)?;
            std::fs::write(args.get(3).ok_or_else(|| anyhow!("out"))?, w)?;
            Ok(())
        }
        Some("abi") => cmd_abi(args.get(2).ok_or_else(|| anyhow!("out path"))?, &args[3..]),
        _ => {
            eprintln!("usage: sfw glue <out.lean> | abi <out.lean> [names..] | c04 <seed> <n> <ops> <impl> | c07 <seed> <n> <ops> <impl> | f8");
            std::process::exit(2);
        }
    }
}
