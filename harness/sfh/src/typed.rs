//! The typed layer (C09, C10): a family of concrete Rust types driven by a type-expression name,
//! a canonical value syntax shared with the Lean model, real Serialize/Deserialize.

use crate::mp;
use shopify_function_provider as prov;
use shopify_function_wasm_api as api;
use shopify_function_wasm_api::{Deserialize, Serialize};
use std::collections::{BTreeMap, HashMap};

pub struct P<'a> {
    s: &'a [u8],
    i: usize,
}

impl<'a> P<'a> {
    fn peek(&self) -> Option<u8> {
        self.s.get(self.i).copied()
    }
    fn eat(&mut self, c: u8) -> Option<()> {
        if self.peek()? == c {
            self.i += 1;
            Some(())
        } else {
            None
        }
    }
    fn take_while(&mut self, f: impl Fn(u8) -> bool) -> &'a [u8] {
        let st = self.i;
        while self.i < self.s.len() && f(self.s[self.i]) {
            self.i += 1;
        }
        &self.s[st..self.i]
    }
}

/// canonical value syntax: u | b0 | b1 | i<dec> | f<16hex> | s<hex>| N | S<v> | [v;v] | {hex=v;hex=v} | (v;v)
pub trait TV: Sized {
    fn parse(p: &mut P) -> Option<Self>;
    fn show(&self) -> String;
}

impl TV for () {
    fn parse(p: &mut P) -> Option<Self> {
        p.eat(b'u')
    }
    fn show(&self) -> String {
        "u".into()
    }
}
impl TV for bool {
    fn parse(p: &mut P) -> Option<Self> {
        p.eat(b'b')?;
        match p.peek()? {
            b'0' => {
                p.i += 1;
                Some(false)
            }
            b'1' => {
                p.i += 1;
                Some(true)
            }
            _ => None,
        }
    }
    fn show(&self) -> String {
        format!("b{}", *self as u8)
    }
}
macro_rules! tv_int {
    ($t:ty) => {
        impl TV for $t {
            fn parse(p: &mut P) -> Option<Self> {
                p.eat(b'i')?;
                let d = p.take_while(|c| c == b'-' || c.is_ascii_digit());
                std::str::from_utf8(d).ok()?.parse().ok()
            }
            fn show(&self) -> String {
                format!("i{}", self)
            }
        }
    };
}
tv_int!(i8);
tv_int!(i16);
tv_int!(i32);
tv_int!(i64);
tv_int!(u8);
tv_int!(u16);
tv_int!(u32);
tv_int!(u64);
tv_int!(usize);
tv_int!(isize);
impl TV for f64 {
    fn parse(p: &mut P) -> Option<Self> {
        p.eat(b'f')?;
        let d = p.take_while(|c| c.is_ascii_hexdigit());
        if d.len() != 16 {
            return None;
        }
        Some(f64::from_bits(
            u64::from_str_radix(std::str::from_utf8(d).ok()?, 16).ok()?,
        ))
    }
    fn show(&self) -> String {
        format!("f{:016x}", self.to_bits())
    }
}
fn parse_hex(p: &mut P) -> Option<Vec<u8>> {
    let d = p.take_while(|c| c.is_ascii_hexdigit());
    crate::util::unhex(std::str::from_utf8(d).ok()?)
}
impl TV for String {
    fn parse(p: &mut P) -> Option<Self> {
        p.eat(b's')?;
        String::from_utf8(parse_hex(p)?).ok()
    }
    fn show(&self) -> String {
        format!("s{}", crate::util::hex(self.as_bytes()))
    }
}
impl TV for char {
    fn parse(_p: &mut P) -> Option<Self> {
        None
    }
    fn show(&self) -> String {
        let mut b = [0u8; 4];
        format!("c{}", crate::util::hex(self.encode_utf8(&mut b).as_bytes()))
    }
}
impl<T: TV> TV for Option<T> {
    fn parse(p: &mut P) -> Option<Self> {
        match p.peek()? {
            b'N' => {
                p.i += 1;
                Some(None)
            }
            b'S' => {
                p.i += 1;
                Some(Some(T::parse(p)?))
            }
            _ => None,
        }
    }
    fn show(&self) -> String {
        match self {
            None => "N".into(),
            Some(v) => format!("S{}", v.show()),
        }
    }
}
fn parse_seq<T: TV>(p: &mut P, open: u8, close: u8) -> Option<Vec<T>> {
    p.eat(open)?;
    let mut v = Vec::new();
    if p.peek()? == close {
        p.i += 1;
        return Some(v);
    }
    loop {
        v.push(T::parse(p)?);
        match p.peek()? {
            b';' => p.i += 1,
            c if c == close => {
                p.i += 1;
                return Some(v);
            }
            _ => return None,
        }
    }
}
impl<T: TV> TV for Vec<T> {
    fn parse(p: &mut P) -> Option<Self> {
        parse_seq(p, b'[', b']')
    }
    fn show(&self) -> String {
        format!(
            "[{}]",
            self.iter().map(|x| x.show()).collect::<Vec<_>>().join(";")
        )
    }
}
impl<T: TV> TV for HashMap<String, T> {
    fn parse(p: &mut P) -> Option<Self> {
        p.eat(b'{')?;
        let mut m = HashMap::new();
        if p.peek()? == b'}' {
            p.i += 1;
            return Some(m);
        }
        loop {
            let k = String::from_utf8(parse_hex(p)?).ok()?;
            p.eat(b'=')?;
            let v = T::parse(p)?;
            if m.insert(k, v).is_some() {
                return None; // the value syntax requires distinct keys
            }
            match p.peek()? {
                b';' => p.i += 1,
                b'}' => {
                    p.i += 1;
                    return Some(m);
                }
                _ => return None,
            }
        }
    }
    fn show(&self) -> String {
        let mut items: Vec<(Vec<u8>, String)> = self
            .iter()
            .map(|(k, v)| (k.as_bytes().to_vec(), v.show()))
            .collect();
        items.sort();
        format!(
            "{{{}}}",
            items
                .iter()
                .map(|(k, v)| format!("{}={}", crate::util::hex(k), v))
                .collect::<Vec<_>>()
                .join(";")
        )
    }
}
impl<T: TV> TV for BTreeMap<String, T> {
    fn parse(_p: &mut P) -> Option<Self> {
        None
    }
    fn show(&self) -> String {
        format!(
            "{{{}}}",
            self.iter()
                .map(|(k, v)| format!("{}={}", crate::util::hex(k.as_bytes()), v.show()))
                .collect::<Vec<_>>()
                .join(";")
        )
    }
}
impl<A: TV, B: TV> TV for (A, B) {
    fn parse(_p: &mut P) -> Option<Self> {
        None
    }
    fn show(&self) -> String {
        format!("({};{})", self.0.show(), self.1.show())
    }
}
impl<A: TV, B: TV, C: TV> TV for (A, B, C) {
    fn parse(_p: &mut P) -> Option<Self> {
        None
    }
    fn show(&self) -> String {
        format!("({};{};{})", self.0.show(), self.1.show(), self.2.show())
    }
}
impl<T: TV, const N: usize> TV for [T; N] {
    fn parse(_p: &mut P) -> Option<Self> {
        None
    }
    fn show(&self) -> String {
        format!(
            "[{}]",
            self.iter().map(|x| x.show()).collect::<Vec<_>>().join(";")
        )
    }
}

type M<T> = HashMap<String, T>;
type BM<T> = BTreeMap<String, T>;

/// types with both Serialize and Deserialize (the round-trip family)
macro_rules! ser_types {
    ($m:ident, $($args:tt)*) => {
        $m! { $($args)*;
            "unit" => (),
            "bool" => bool,
            "i32" => i32,
            "f64" => f64,
            "str" => String,
            "opt(unit)" => Option<()>,
            "opt(bool)" => Option<bool>,
            "opt(i32)" => Option<i32>,
            "opt(f64)" => Option<f64>,
            "opt(str)" => Option<String>,
            "opt(opt(i32))" => Option<Option<i32>>,
            "opt(vec(i32))" => Option<Vec<i32>>,
            "vec(unit)" => Vec<()>,
            "vec(bool)" => Vec<bool>,
            "vec(i32)" => Vec<i32>,
            "vec(f64)" => Vec<f64>,
            "vec(str)" => Vec<String>,
            "vec(opt(i32))" => Vec<Option<i32>>,
            "vec(opt(str))" => Vec<Option<String>>,
            "vec(vec(i32))" => Vec<Vec<i32>>,
            "vec(vec(vec(bool)))" => Vec<Vec<Vec<bool>>>,
            "vec(map(i32))" => Vec<M<i32>>,
            "vec(opt(map(vec(i32))))" => Vec<Option<M<Vec<i32>>>>,
            "map(unit)" => M<()>,
            "map(bool)" => M<bool>,
            "map(i32)" => M<i32>,
            "map(f64)" => M<f64>,
            "map(str)" => M<String>,
            "map(opt(i32))" => M<Option<i32>>,
            "map(vec(i32))" => M<Vec<i32>>,
            "map(vec(str))" => M<Vec<String>>,
            "map(map(i32))" => M<M<i32>>,
            "map(map(vec(opt(f64))))" => M<M<Vec<Option<f64>>>>,
            "opt(map(str))" => Option<M<String>>,
            "vec(opt(vec(opt(bool))))" => Vec<Option<Vec<Option<bool>>>>,
        }
    };
}

/// read-side only types
macro_rules! de_types {
    ($m:ident, $($args:tt)*) => {
        $m! { $($args)*;
            "i8" => i8, "i16" => i16, "i64" => i64, "u8" => u8, "u16" => u16, "u32" => u32,
            "u64" => u64, "usize" => usize, "isize" => isize,
            "char" => char,
            "tup(i32,i32)" => (i32, i32),
            "tup(i32,str)" => (i32, String),
            "tup(i32,str,vec(f64))" => (i32, String, Vec<f64>),
            "tup(bool,opt(i32),unit)" => (bool, Option<i32>, ()),
            "arr0(i32)" => [i32; 0],
            "arr1(str)" => [String; 1],
            "arr2(i32)" => [i32; 2],
            "arr3(i32)" => [i32; 3],
            "arr3(opt(bool))" => [Option<bool>; 3],
            "arr2(vec(i32))" => [Vec<i32>; 2],
            "arr32(i32)" => [i32; 32],
            "vec(tup(i32,str))" => Vec<(i32, String)>,
            "bmap(i32)" => BM<i32>,
            "bmap(vec(str))" => BM<Vec<String>>,
            "vec(u8)" => Vec<u8>,
            "vec(i64)" => Vec<i64>,
            "map(u16)" => M<u16>,
            "opt(i8)" => Option<i8>,
        }
    };
}

fn de_as<T: Deserialize + TV>(v: &api::Value) -> String {
    match T::deserialize(v) {
        Ok(x) => format!("ok {}", x.show()),
        Err(_) => "invalid-type".to_string(),
    }
}

macro_rules! de_match {
    ($ty:expr, $v:expr; $($name:literal => $t:ty),* $(,)?) => {
        match $ty { $($name => Some(de_as::<$t>($v)),)* _ => None }
    };
}

pub fn de(ty: &str, v: &api::Value) -> Option<String> {
    if let Some(r) = ser_types!(de_match, ty, v) {
        return Some(r);
    }
    de_types!(de_match, ty, v)
}

pub fn deint(ty: &str, v: &api::Value) -> Option<String> {
    match ty {
        "i8" | "i16" | "i32" | "i64" | "u8" | "u16" | "u32" | "u64" | "usize" | "isize" => {
            de(ty, v)
        }
        _ => None,
    }
}

fn write_err_code(e: &api::write::Error) -> usize {
    use api::write::Error::*;
    match e {
        IoError => 1,
        ExpectedKey => 2,
        ObjectLengthError => 3,
        ValueAlreadyWritten => 4,
        NotAnObject => 5,
        ValueNotFinished => 6,
        ArrayLengthError => 7,
        NotAnArray => 8,
        _ => 99,
    }
}

/// serialise `val` as T; returns (status, json-equal?) and leaves the output in the provider
fn ser_as<T: Serialize + TV>(val: &str, json: &dyn Fn(&T) -> serde_json::Value) -> Option<(usize, String)> {
    let mut p = P {
        s: val.as_bytes(),
        i: 0,
    };
    let v = T::parse(&mut p)?;
    if p.i != val.len() {
        return None;
    }
    let mut c = api::Context;
    let st = match v.serialize(&mut c) {
        Ok(()) => 0,
        Err(e) => write_err_code(&e),
    };
    let expect = json(&v);
    let got = api::Context.finalize_output_and_return();
    let j = match got {
        Ok(g) => {
            if g == expect {
                "1".to_string()
            } else {
                format!("0(expected={} got={})", expect, g)
            }
        }
        Err(_) => "-".to_string(),
    };
    Some((st, j))
}

macro_rules! ser_match {
    ($ty:expr, $val:expr; $($name:literal => $t:ty),* $(,)?) => {
        match $ty { $($name => ser_as::<$t>($val, &|v: &$t| serde_json::to_value(v).unwrap_or(serde_json::Value::Null)),)* _ => None }
    };
}

/// `serrt <serty> <val> <dety>`
pub fn serrt_full(serty: &str, val: &str, dety: &str) -> Option<String> {
    let (st, j) = ser_types!(ser_match, serty, val)?;
    let out = prov::verif::output_snapshot();
    let (fst, fbytes) = prov::write::shopify_function_output_finalize_and_return_msgpack_bytes();
    let fst = fst as usize;
    let doc = if fst == 0 {
        match mp::decode_all(&fbytes) {
            Some(d) => mp::show_doc(&d, true),
            None => "undecodable".to_string(),
        }
    } else {
        "unfinished".to_string()
    };
    let _ = out;
    // hand the output back as input
    let rt = if fst == 0 {
        prov::initialize_from_msgpack_bytes(fbytes);
        let root = api::Value::verif_from_bits(prov::read::shopify_function_input_get());
        de(dety, &root)?
    } else {
        "skipped".to_string()
    };
    Some(format!("st={} doc={} rt={} json={}", st, doc, rt, j))
}

pub fn serrt(ty: &str, val: &str) -> Option<String> {
    // `ty` may be `serty>dety`
    let (s, d) = match ty.split_once('>') {
        Some((s, d)) => (s, d),
        None => (ty, ty),
    };
    serrt_full(s, val, d)
}

pub const SER_TYPE_NAMES: &[&str] = &[
    "unit", "bool", "i32", "f64", "str", "opt(unit)", "opt(bool)", "opt(i32)", "opt(f64)", "opt(str)",
    "opt(opt(i32))", "opt(vec(i32))", "vec(unit)", "vec(bool)", "vec(i32)", "vec(f64)", "vec(str)",
    "vec(opt(i32))", "vec(opt(str))", "vec(vec(i32))", "vec(vec(vec(bool)))", "vec(map(i32))",
    "vec(opt(map(vec(i32))))", "map(unit)", "map(bool)", "map(i32)", "map(f64)", "map(str)",
    "map(opt(i32))", "map(vec(i32))", "map(vec(str))", "map(map(i32))", "map(map(vec(opt(f64))))",
    "opt(map(str))", "vec(opt(vec(opt(bool))))",
];

pub const DE_TYPE_NAMES: &[&str] = &[
    "i8", "i16", "i64", "u8", "u16", "u32", "u64", "usize", "isize", "char", "tup(i32,i32)",
    "tup(i32,str)", "tup(i32,str,vec(f64))", "tup(bool,opt(i32),unit)", "arr0(i32)", "arr1(str)",
    "arr2(i32)", "arr3(i32)", "arr3(opt(bool))", "arr2(vec(i32))", "arr32(i32)", "vec(tup(i32,str))",
    "bmap(i32)", "bmap(vec(str))", "vec(u8)", "vec(i64)", "map(u16)", "opt(i8)",
];


// ------------------------------------------------------------------ large values (oracle leg only)

/// Round trip of one large value through the real typed layer: serialise, compare the output with
/// serde's JSON, hand the output back as input, deserialise, compare with the original. These sizes
/// are beyond what the (quadratic) model driver replays in a quick run; the theorem covers every
/// size, the tie at these sizes is this oracle. Returns a description of the failure, if any.
fn big_rt<T>(name: &str, v: &T, expect: serde_json::Value) -> Option<String>
where
    T: Serialize + Deserialize + PartialEq,
{
    prov::initialize_from_msgpack_bytes(vec![0xc0]);
    let mut c = api::Context;
    if let Err(e) = v.serialize(&mut c) {
        return Some(format!("{}: serialize failed with status {}", name, write_err_code(&e)));
    }
    let (fst, fbytes) = prov::write::shopify_function_output_finalize_and_return_msgpack_bytes();
    let fst = fst as usize;
    if fst != 0 {
        return Some(format!("{}: output not complete (status {})", name, fst));
    }
    match api::Context.finalize_output_and_return() {
        Ok(j) if j == expect => {}
        Ok(_) => return Some(format!("{}: serialised document is not serde's JSON value", name)),
        Err(_) => return Some(format!("{}: serialised document undecodable", name)),
    }
    prov::initialize_from_msgpack_bytes(fbytes);
    let root = api::Value::verif_from_bits(prov::read::shopify_function_input_get());
    match T::deserialize(&root) {
        Ok(back) if back == *v => None,
        Ok(_) => Some(format!("{}: deserialised value differs from the original", name)),
        Err(_) => Some(format!("{}: deserialising the serialised value is an error", name)),
    }
}

/// lengths around the points where a size-dependent shortcut could sit: header widths, powers of
/// two, and 2^20 bytes' worth of elements for the element sizes that occur
pub fn big_roundtrips(thorough: bool) -> (usize, Vec<String>) {
    let mut fails = Vec::new();
    let mut n_run = 0usize;
    let mut lens: Vec<usize> = vec![16384, 21846, 43691, 65536, 65537, 131073, 262145];
    if thorough {
        lens.extend_from_slice(&[16383, 32769, 87382, 100000, 524289, 1048577, 2097153]);
    }
    for &n in &lens {
        let ints: Vec<i32> = (0..n).map(|i| (i as i32).wrapping_mul(7919) - 1000).collect();
        let mut run = |r: Option<String>| {
            n_run += 1;
            if let Some(f) = r {
                fails.push(format!("n={} {}", n, f));
            }
        };
        macro_rules! big_rt {
            ($name:expr, $v:expr) => {{
                let v = $v;
                big_rt($name, v, serde_json::to_value(v).unwrap_or(serde_json::Value::Null))
            }};
        }
        run(big_rt!("vec(i32)", &ints));
        run(big_rt!("opt(vec(i32))", &Some(ints.clone())));
        run(big_rt!("vec(f64)", &ints.iter().map(|&i| i as f64 + 0.5).collect::<Vec<f64>>()));
        run(big_rt!("vec(opt(i32))", &ints.iter().map(|&i| if i % 3 == 0 { None } else { Some(i) }).collect::<Vec<Option<i32>>>()));
        run(big_rt!("vec(bool)", &ints.iter().map(|&i| i % 2 == 0).collect::<Vec<bool>>()));
        run(big_rt!("vec(unit)", &vec![(); n]));
        let mut m: HashMap<String, Vec<i32>> = HashMap::new();
        m.insert("k".to_string(), ints.clone());
        m.insert("e".to_string(), Vec::new());
        run(big_rt!("map(vec(i32))", &m));
        if n <= 300000 {
            let strs: Vec<String> = (0..n).map(|i| format!("s{}", i % 1000)).collect();
            run(big_rt!("vec(str)", &strs));
            run(big_rt!("vec(opt(str))", &strs.iter().map(|s| if s.len() == 2 { None } else { Some(s.clone()) }).collect::<Vec<Option<String>>>()));
            run(big_rt!("vec(vec(i32))", &(0..n).map(|i| vec![i as i32; i % 3]).collect::<Vec<Vec<i32>>>()));
            let maps: Vec<HashMap<String, i32>> = (0..n)
                .map(|i| {
                    let mut h = HashMap::new();
                    if i % 2 == 1 {
                        h.insert("a".to_string(), i as i32);
                    }
                    h
                })
                .collect();
            run(big_rt!("vec(map(i32))", &maps));
            let mut big: HashMap<String, i32> = HashMap::new();
            for i in 0..n {
                big.insert(format!("k{}", i), i as i32);
            }
            run(big_rt!("map(i32)", &big));
        }
    }
    (n_run, fails)
}
