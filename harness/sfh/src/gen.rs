//! Online generators: each drives the implementation through the Engine, records every
//! operation line and the implementation's answer, and gathers the input distribution.

use crate::exec::WIDTH;
use crate::mp::{self, GenCfg};
use crate::typed;
use crate::util::*;
use crate::Engine;
use std::collections::BTreeMap;
use std::io::Write;

pub struct Rec {
    eng: Engine,
    ops: std::io::BufWriter<std::fs::File>,
    imp: std::io::BufWriter<std::fs::File>,
    stats_path: String,
    pub hist: BTreeMap<String, u64>,
    pub oracle_failures: Vec<String>,
    alias_n: u64,
    pub cases: u64,
    pub lines: u64,
    pub samples: Vec<String>,
    cur_case: Vec<String>,
}

impl Rec {
    pub fn new(ops_path: &str, impl_path: &str) -> Self {
        Rec {
            eng: Engine::new(),
            ops: std::io::BufWriter::new(std::fs::File::create(ops_path).expect("ops file")),
            imp: std::io::BufWriter::new(std::fs::File::create(impl_path).expect("impl file")),
            stats_path: format!("{}.stats.json", ops_path),
            hist: BTreeMap::new(),
            oracle_failures: Vec::new(),
            alias_n: 0,
            cases: 0,
            lines: 0,
            samples: Vec::new(),
            cur_case: Vec::new(),
        }
    }
    pub fn bump(&mut self, key: &str) {
        *self.hist.entry(key.to_string()).or_insert(0) += 1;
    }
    /// send one op; returns the implementation's answer
    pub fn op(&mut self, line: &str) -> String {
        // every third use of these goes through the api crate's own entry point instead of the provider's
        // (`Value::get_interned_obj_prop`, `Value::intern_utf8_str`, `Context::input_get`,
        // `Context::write_interned_utf8_str`): same operation for the model, another path through the code
        self.alias_n += 1;
        let aliased;
        let line = if self.alias_n % 3 == 0 {
            aliased = if let Some(r) = line.strip_prefix("iprop ") {
                format!("aiprop {}", r)
            } else if let Some(r) = line.strip_prefix("intern ") {
                format!("vintern {}", r)
            } else if line == "root" {
                "aroot".to_string()
            } else if let Some(r) = line.strip_prefix("w istr ") {
                format!("aw istr {}", r)
            } else {
                line.to_string()
            };
            aliased.as_str()
        } else {
            line
        };
        // the line goes to the operations file before it runs: if the real code takes the whole process down
        // (a wild copy, an abort), the last line of the file is the operation that did it
        writeln!(self.ops, "{}", line).unwrap();
        if line.starts_with("log") || line.starts_with("aw") || line.starts_with("palloc") || line.starts_with("intern") {
            self.ops.flush().unwrap();
        }
        let a = self.eng.line(line);
        writeln!(self.imp, "{}", a).unwrap();
        self.lines += 1;
        let first = line.split_whitespace().next().unwrap_or("");
        let k = if first == "w" || first == "aw" || first == "box" {
            let second = line.split_whitespace().nth(1).unwrap_or("");
            format!("op:{} {}", first, second)
        } else {
            format!("op:{}", first)
        };
        self.bump(&k);
        let akey = a.split_whitespace().next().unwrap_or("");
        if first != "case" && first != "thread" {
            let short: String = akey.chars().take(12).collect();
            self.bump(&format!("ans:{}", short));
        }
        if self.samples.len() < 6 && self.cur_case.len() < 14 {
            let mut l = line.to_string();
            if l.len() > 80 {
                l.truncate(80);
                l.push_str("...");
            }
            let mut aa = a.clone();
            if aa.len() > 60 {
                aa.truncate(60);
                aa.push_str("...");
            }
            self.cur_case.push(format!("{} -> {}", l, aa));
        }
        a
    }
    pub fn case(&mut self, tag: &str) {
        if !self.cur_case.is_empty() && self.samples.len() < 6 {
            let s = self.cur_case.join(" | ");
            self.samples.push(s);
        }
        self.cur_case.clear();
        self.cases += 1;
        let id = format!("case {}-{}", tag, self.cases);
        self.op(&id);
        self.op(&format!("width {}", WIDTH));
    }
    pub fn finish(&mut self) {
        if !self.cur_case.is_empty() && self.samples.len() < 6 {
            let s = self.cur_case.join(" | ");
            self.samples.push(s);
        }
        self.ops.flush().unwrap();
        self.imp.flush().unwrap();
        let mut f = std::fs::File::create(&self.stats_path).unwrap();
        let hist: Vec<String> = self
            .hist
            .iter()
            .map(|(k, v)| format!("{}:{}", serde_json::to_string(k).unwrap(), v))
            .collect();
        let samples: Vec<String> = self
            .samples
            .iter()
            .map(|s| serde_json::to_string(s).unwrap())
            .collect();
        let orc: Vec<String> = self
            .oracle_failures
            .iter()
            .map(|s| serde_json::to_string(s).unwrap())
            .collect();
        writeln!(
            f,
            "{{\"cases\":{},\"lines\":{},\"hist\":{{{}}},\"samples\":[{}],\"oracle_failures\":[{}]}}",
            self.cases,
            self.lines,
            hist.join(","),
            samples.join(","),
            orc.join(",")
        )
        .unwrap();
    }
}

pub fn generate(prop: &str, tier: &str, seed: u64, rec: &mut Rec) {
    let thorough = tier == "thorough";
    let mut rng = Rng::new(seed.wrapping_mul(0x1000_0000_01b3).wrapping_add(fnv64(prop.as_bytes())));
    let scale: u64 = std::env::var("VERIF_SCALE")
        .ok()
        .and_then(|s| s.parse().ok())
        .unwrap_or(if thorough { 20 } else { 1 });
    match prop {
        "C01" => {
            gen_c01(rec, &mut rng, 500 * scale, false);
            gen_c01_exhaustive(rec, thorough);
            if thorough {
                gen_descend_and_return(rec, "c01d", 7, &[(0, 0), (1, 0), (2, 0), (0, 1), (2, 1)]);
            } else {
                gen_descend_and_return(rec, "c01d", 6, &[(0, 0), (1, 0), (2, 0), (2, 1)]);
            }
        }
        "C08" => {
            gen_c01(rec, &mut rng, 1500 * scale, true);
            gen_c08_exhaustive(rec, if thorough { 4 } else { 3 });
            gen_descend_and_return(rec, "c08d", if thorough { 7 } else { 6 }, &[(0, 0), (1, 0), (2, 1)]);
        }
        "C11" => gen_c11(rec, &mut rng, scale),
        "C02" => gen_writes(rec, &mut rng, 700 * scale, false),
        "C03" => {
            gen_writes(rec, &mut rng, 900 * scale, true);
            gen_writes_exhaustive(rec, if thorough { 5 } else { 4 });
        }
        "C04" => gen_alloc(rec, &mut rng, 40 * scale),
        "C05" => gen_logs(rec, &mut rng, 300 * scale, thorough),
        "C06" => gen_boxes(rec, &mut rng, scale),
        "C09" => gen_typed(rec, &mut rng, 1200 * scale),
        "C10" => gen_deint(rec, &mut rng, 2000 * scale),
        "C12" => gen_intern(rec, &mut rng, 250 * scale),
        "C13" => gen_invocations(rec, &mut rng, 150 * scale),
        "C14" => gen_threads(rec, &mut rng, 200 * scale, thorough),
        _ => panic!("unknown property {}", prop),
    }
    // dense native sweeps over sizes (oracle leg, see sweeps.rs); not under miri (VERIF_SCALE set there)
    if std::env::var("VERIF_NO_SWEEPS").is_err() && !cfg!(miri) {
        let sweeps: Vec<crate::sweeps::Sweep> = match prop {
            "C01" | "C08" => vec![crate::sweeps::container_sizes(thorough)],
            "C11" => vec![crate::sweeps::container_sizes(false), crate::sweeps::string_lengths(thorough)],
            "C02" => vec![crate::sweeps::string_lengths(thorough)],
            "C12" => vec![crate::sweeps::intern_lengths(thorough)],
            "C05" => vec![crate::sweeps::log_lengths(thorough)],
            _ => vec![],
        };
        for s in sweeps {
            for _ in 0..s.points {
                rec.bump(&format!("oracle:sweep:{}", s.name));
            }
            for f in s.failures {
                rec.oracle_failures.push(format!("size sweep {}: {}", s.name, f));
            }
        }
    }
}

// ---------------------------------------------------------------------------------- reads

#[derive(Clone)]
struct H {
    k: usize,
    kind: u8, // b's' b'a' b'o'
    inline: usize,
}

fn note_handle(hs: &mut Vec<H>, ans: &str) {
    let t: Vec<&str> = ans.split_whitespace().collect();
    if t.len() == 3 && (t[0] == "str" || t[0] == "arr" || t[0] == "obj") {
        if let (Some(k), Ok(l)) = (t[1].strip_prefix('h').and_then(|x| x.parse().ok()), t[2].parse()) {
            if !hs.iter().any(|h: &H| h.k == k) {
                hs.push(H {
                    k,
                    kind: t[0].as_bytes()[0],
                    inline: l,
                });
            }
        }
    }
}

const SCALAR_SCOPES: &[&str] = &[
    "null", "b0", "b1", "n3ff0000000000000", "e3", "e5", "zs3", "zo2", "za2", "n7ff0000000000000",
    "nc031000000000000", "nc031400000000000", "nc0091eb851eb851f", "nbff0000000000000", "n8000000000000000", "nfff0000000000000",
];

fn read_history(rec: &mut Rec, rng: &mut Rng, n_ops: usize, interned: &[(usize, Vec<u8>)], big: bool) {
    let mut hs: Vec<H> = Vec::new();
    let a = rec.op("root");
    note_handle(&mut hs, &a);
    for _ in 0..n_ops {
        let r = rng.below(100);
        if r < 4 {
            let a = rec.op("root");
            note_handle(&mut hs, &a);
            continue;
        }
        if r < 8 || hs.is_empty() {
            let sc = *rng.pick(SCALAR_SCOPES);
            let line = match rng.below(8) {
                7 => format!("str {}", sc),
                6 => format!("iprop {} {}", sc, interned.first().map(|x| x.0).unwrap_or(0)),
                0 => format!("idx {} {}", sc, rng.below(3)),
                1 => format!("key {} {}", sc, rng.below(3)),
                2 => format!("prop {} {}", sc, hex0(b"a")),
                3 => format!("len {}", sc),
                4 => format!("a.kind {}", sc),
                _ => format!("a.len {}", sc),
            };
            rec.op(&line);
            continue;
        }
        // bias towards recently issued handles but revisit old ones too
        let h = if rng.chance(1, 2) {
            hs[hs.len() - 1 - rng.below(hs.len().min(4) as u64) as usize].clone()
        } else {
            hs[rng.below(hs.len() as u64) as usize].clone()
        };
        let truelen = h.inline;
        let pick_index = |rng: &mut Rng| -> usize {
            let r = rng.below(10);
            if truelen == 0 || r == 0 {
                truelen + rng.below(3) as usize
            } else if r == 1 {
                truelen - 1
            } else if big && r < 5 {
                // the end of a large container forces a long walk
                truelen.saturating_sub(1 + rng.below(3) as usize)
            } else if big {
                rng.below(truelen.min(40) as u64) as usize
            } else {
                rng.below(truelen as u64) as usize
            }
        };
        let sc = format!("h{}", h.k);
        let line = match (h.kind, rng.below(12)) {
            (_, 0) => format!("len {}", sc),
            (_, 1) => format!("a.len {}", sc),
            (_, 2) => format!("a.kind {}", sc),
            (b's', 3..=7) => format!("str {}", sc),
            (b's', 8) => format!("a.str {}", sc),
            (b's', 9) => format!("idx {} 0", sc),
            (b's', _) => format!("prop {} {}", sc, hex0(b"a")),
            (b'a', 3) => format!("key {} {}", sc, pick_index(rng)),
            (b'a', 4) => format!("prop {} {}", sc, hex0(b"a")),
            (b'a', 5) => format!("str {}", sc),
            (b'a', _) => format!("idx {} {}", sc, pick_index(rng)),
            (_, 3..=5) => {
                let key = mp::gen_key(rng);
                if rng.chance(1, 3) {
                    format!("aprop {} {}", sc, hex0(&key))
                } else {
                    format!("prop {} {}", sc, hex0(&key))
                }
            }
            (_, 6) if !interned.is_empty() => {
                let (id, _) = rng.pick(interned);
                format!("iprop {} {}", sc, id)
            }
            (_, 6 | 7) => format!("key {} {}", sc, pick_index(rng)),
            (_, 8) => format!("a.key {} {}", sc, pick_index(rng)),
            (_, _) => format!("idx {} {}", sc, pick_index(rng)),
        };
        let a = rec.op(&line);
        note_handle(&mut hs, &a);
        if a == "PANIC" {
            rec.bump("PANIC");
        }
    }
}

fn gen_doc(rng: &mut Rng, allow_nan: bool) -> Vec<u8> {
    let cfg = GenCfg {
        max_depth: rng.range(0, 6) as usize,
        max_children: 17,
        allow_nan,
    };
    let mut out = Vec::new();
    // most documents have a container at the root
    if rng.chance(3, 4) {
        let n = rng.range(1, 5) as usize;
        if rng.chance(1, 2) {
            mp::put_arr_hdr_r(rng, &mut out, n);
            for _ in 0..n {
                mp::gen_value(rng, &cfg, 1, &mut out);
            }
        } else {
            mp::put_map_hdr_r(rng, &mut out, n);
            for _ in 0..n {
                let key = mp::gen_key(rng);
                mp::put_str_hdr_r(rng, &mut out, key.len());
                out.extend_from_slice(&key);
                mp::gen_value(rng, &cfg, 1, &mut out);
            }
        }
    } else {
        mp::gen_value(rng, &cfg, 0, &mut out);
    }
    out
}

/// `[ [[[ … 1 … ]]], 7 ]` with `k` levels of one-element arrays; truncated: the input ends inside the
/// innermost header (stepping over the first element fails `k` levels down)
fn deep_doc(k: usize, truncated: bool) -> Vec<u8> {
    let mut d = vec![0x92u8];
    d.extend(std::iter::repeat(0x91u8).take(k));
    if !truncated {
        d.push(0x01);
        d.push(0x07);
    }
    d
}

fn mp_str(out: &mut Vec<u8>, s: &[u8]) {
    if s.len() < 32 {
        out.push(0xa0 + s.len() as u8);
    } else {
        out.push(0xd9);
        out.push(s.len() as u8);
    }
    out.extend_from_slice(s);
}

/// `{"codes": C, "tags": T}` where C and T are arrays of `n` strings (or maps of `n` string entries)
fn sibling_doc(n: usize, map: bool) -> Vec<u8> {
    let mut d = vec![0x82u8];
    for name in ["codes", "tags"] {
        mp_str(&mut d, name.as_bytes());
        d.push(if map { 0xde } else { 0xdc });
        d.push((n >> 8) as u8);
        d.push(n as u8);
        for i in 0..n {
            if map {
                mp_str(&mut d, format!("k{}", i).as_bytes());
            }
            mp_str(&mut d, format!("{}-{}", &name[..3], i).as_bytes());
        }
    }
    d
}

fn sibling_history(rec: &mut Rec, n: usize, map: bool) {
    let handle = |a: &str| -> Option<String> { a.split_whitespace().nth(1).map(|x| x.to_string()) };
    rec.op("root");
    let c = match handle(&rec.op(&format!("prop h0 {}", hex0(b"codes")))) {
        Some(c) => c,
        None => return,
    };
    for i in 0..n {
        rec.op(&format!("idx {} {}", c, i));
    }
    let t = match handle(&rec.op(&format!("prop h0 {}", hex0(b"tags")))) {
        Some(t) => t,
        None => return,
    };
    let mut kept: Vec<(usize, String)> = Vec::new();
    let mut kept_keys: Vec<(usize, String)> = Vec::new();
    for i in 0..n {
        if map && i % 2 == 0 {
            if let Some(h) = handle(&rec.op(&format!("key {} {}", t, i))) {
                if i < 3 || i % 128 == 0 {
                    kept_keys.push((i, h));
                }
            }
        }
        if let Some(h) = handle(&rec.op(&format!("idx {} {}", t, i))) {
            if i < 3 || i % 128 == 0 {
                kept.push((i, h));
            }
        }
    }
    // the handles taken on the way still denote the same entries
    for (_, h) in kept.iter().chain(kept_keys.iter()) {
        rec.op(&format!("str {}", h));
        rec.op(&format!("len {}", h));
    }
    for i in [0usize, 1, 255, 256, n - 1] {
        rec.op(&format!("idx {} {}", t, i));
        if map {
            rec.op(&format!("key {} {}", t, i));
            rec.op(&format!("prop {} {}", t, hex0(format!("k{}", i).as_bytes())));
        }
    }
}

/// a map of `n` one-byte-valued entries: key `k` at the positions in `at` (values 1, 2, …), fillers `f<i>` elsewhere
fn keyed_map(n: usize, k: &[u8], at: &[usize]) -> Vec<u8> {
    let mut d = vec![0x80u8 + n as u8];
    let mut hit = 0u8;
    for i in 0..n {
        if at.contains(&i) {
            mp_str(&mut d, k);
            hit += 1;
            d.push(hit);
        } else {
            mp_str(&mut d, format!("f{}", i).as_bytes());
            d.push(0x40 + i as u8);
        }
    }
    d
}

/// lookups of one (interned) name in several objects where it sits at different positions, once and
/// twice: the answer is the first match in *this* object, whatever was found where before
/// a NaN float (legal MessagePack, a read error as a value) inside containers: what follows it is still there
fn nan_inside_cases(rec: &mut Rec, label: &str) {
    let f64nan: &[u8] = &[0xcb, 0x7f, 0xf8, 0, 0, 0, 0, 0, 0];
    let f32nan: &[u8] = &[0xca, 0x7f, 0xc0, 0, 0];
    let long: Vec<u8> = (0..20000usize).map(|i| b'a' + (i % 26) as u8).collect();
    for nan in [f64nan, f32nan] {
        // [1, NaN, "xy", [7, 8], <20000-byte string>]
        let mut a = vec![0x95u8, 0x01];
        a.extend_from_slice(nan);
        a.extend_from_slice(&[0xa2, b'x', b'y', 0x92, 0x07, 0x08, 0xda]);
        a.extend_from_slice(&(long.len() as u16).to_be_bytes());
        a.extend_from_slice(&long);
        // {"a": 1, "n": NaN, "note": <long>, "z": [1,2,3]}
        let mut o = vec![0x84u8, 0xa1, b'a', 0x01, 0xa1, b'n'];
        o.extend_from_slice(nan);
        o.extend_from_slice(&[0xa4, b'n', b'o', b't', b'e', 0xda]);
        o.extend_from_slice(&(long.len() as u16).to_be_bytes());
        o.extend_from_slice(&long);
        o.extend_from_slice(&[0xa1, b'z', 0x93, 0x01, 0x02, 0x03]);
        // [[NaN], 5]
        let mut n = vec![0x92u8, 0x91];
        n.extend_from_slice(nan);
        n.push(0x05);
        for doc in [a.clone(), o.clone(), n.clone()] {
            for order in 0..2 {
                rec.case(label);
                rec.bump("doc:nan-inside");
                rec.op(&format!("init {}", hex0(&doc)));
                rec.op("root");
                rec.op("len h0");
                let idxs: Vec<usize> = if order == 0 { vec![4, 3, 2, 1, 0] } else { vec![0, 1, 2, 3, 4] };
                for i in idxs {
                    let r = rec.op(&format!("idx h0 {}", i));
                    if let Some(h) = r.split_whitespace().nth(1) {
                        if r.starts_with("str") || r.starts_with("arr") || r.starts_with("obj") {
                            rec.op(&format!("len {}", h));
                            rec.op(&format!("a.len {}", h));
                            rec.op(&format!("idx {} 1", h));
                        }
                    }
                }
                for k in [&b"note"[..], b"z", b"n", b"a"] {
                    rec.op(&format!("prop h0 {}", hex0(k)));
                    rec.op(&format!("aprop h0 {}", hex0(k)));
                }
                rec.op("key h0 2");
            }
        }
    }
}

fn lookup_position_cases(rec: &mut Rec, label: &str) {
    // lookups by cached ids whose handles are slices of one static string
    {
        rec.case(label);
        rec.bump("doc:cached-slices");
        let name = b"customerId";
        let mut doc = vec![0x83u8];
        mp_str(&mut doc, b"customer");
        doc.push(0x01);
        mp_str(&mut doc, name);
        doc.push(0x02);
        mp_str(&mut doc, b"");
        doc.push(0x03);
        rec.op(&format!("init {}", hex0(&doc)));
        rec.op("root");
        for k in [8usize, 10, 0, 10, 8] {
            let a = rec.op(&format!("cachedp {} {}", hex0(name), k));
            if let Some(id) = a.strip_prefix("id ") {
                rec.op(&format!("aiprop h0 {}", id));
                rec.op(&format!("iprop h0 {}", id));
            }
            rec.op(&format!("prop h0 {}", hex0(&name[..k])));
        }
    }
    let k = b"kk";
    for p in 1..=3usize {
        for q in 0..p {
            for order in 0..2 {
                rec.case(label);
                rec.bump("doc:lookup-positions");
                let a = rec.op(&format!("intern {}", hex0(k)));
                let id: usize = a.strip_prefix("id ").and_then(|x| x.parse().ok()).unwrap_or(0);
                let single = keyed_map(p + 1, k, &[p]);
                let double = keyed_map(p + 2, k, &[q, p]);
                let mut doc = vec![0x93u8];
                let (first, second) = if order == 0 { (&single, &double) } else { (&double, &single) };
                doc.extend_from_slice(first);
                doc.extend_from_slice(second);
                doc.extend_from_slice(&double);
                rec.op(&format!("init {}", hex0(&doc)));
                rec.op("root");
                for i in 0..3 {
                    let o = rec.op(&format!("idx h0 {}", i));
                    if let Some(h) = o.split_whitespace().nth(1) {
                        rec.op(&format!("iprop {} {}", h, id));
                        rec.op(&format!("prop {} {}", h, hex0(k)));
                        rec.op(&format!("aprop {} {}", h, hex0(k)));
                        rec.op(&format!("iprop {} {}", h, id));
                    }
                }
            }
        }
    }
}

fn gen_c01(rec: &mut Rec, rng: &mut Rng, cases: u64, malformed: bool) {
    lookup_position_cases(rec, if malformed { "c08" } else { "c01" });
    nan_inside_cases(rec, if malformed { "c08" } else { "c01" });
    // deeply nested values that have to be stepped over (valid for C01, cut off for C08)
    for &k in &[1usize, 64, 127, 128, 129, 300] {
        rec.case(if malformed { "c08" } else { "c01" });
        rec.bump("doc:deep");
        rec.op(&format!("init {}", hex0(&deep_doc(k, malformed))));
        rec.op("root");
        rec.op("idx h0 1");
        rec.op("idx h0 0");
        rec.op("idx h0 1");
        rec.op("len h0");
    }
    // two sibling containers with more entries than a width boundary: the first is read completely,
    // then an early handle of the second is kept while every later entry is read, and used again
    {
        let sizes: &[usize] = if cases > 3000 { &[257, 300, 1025, 1100, 2049, 4100, 8200, 16400] } else { &[257, 300, 1025, 1100, 4100] };
        for &n in sizes {
            for map in [false, true] {
                rec.case(if malformed { "c08" } else { "c01" });
                rec.bump("doc:siblings");
                let mut d = sibling_doc(n, map);
                if malformed {
                    // cut off inside the last few entries of the second container
                    let cut = d.len() - 1 - rng.below(40) as usize;
                    d.truncate(cut);
                }
                rec.op(&format!("init {}", hex0(&d)));
                sibling_history(rec, n, map);
            }
        }
    }
    for i in 0..cases {
        rec.case(if malformed { "c08" } else { "c01" });
        // a few interned names for iprop
        let mut interned = Vec::new();
        if rng.chance(1, 3) {
            for _ in 0..rng.range(1, 3) {
                let k = mp::gen_key(rng);
                let a = rec.op(&format!("intern {}", hex0(&k)));
                if let Some(id) = a.strip_prefix("id ").and_then(|x| x.parse().ok()) {
                    interned.push((id, k));
                }
            }
        }
        let mut doc = gen_doc(rng, false);
        let mut big = false;
        if !malformed && i % 97 == 13 {
            // crossing sizes, including the inline-length limit
            let n = *rng.pick(&[15usize, 16, 31, 32, 255, 256, 16382, 16383, 16384, 65535, 65536]);
            let kk = rng.next();
            doc = mp::gen_big(rng, n, kk);
            if rng.chance(1, 2) {
                doc = mp::wrap_nested(&doc);
            }
            big = true;
            rec.bump("doc:big");
        }
        if malformed {
            match rng.below(10) {
                0 => {
                    // random bytes
                    let n = rng.range(0, 12) as usize;
                    doc = (0..n).map(|_| rng.next() as u8).collect();
                    rec.bump("doc:random-bytes");
                }
                1 => {
                    // every truncation point handled across cases: here one random
                    let n = rng.below(doc.len() as u64 + 1) as usize;
                    doc.truncate(n);
                    rec.bump("doc:truncated");
                }
                2 => {
                    rec.bump("doc:valid");
                }
                _ => {
                    for _ in 0..rng.range(1, 3) {
                        doc = mp::mutate(rng, &doc);
                    }
                    rec.bump("doc:mutated");
                }
            }
            if doc.len() > 4 && rng.chance(1, 40) {
                // huge declared lengths on tiny inputs
                let m = *rng.pick(&[0xdbu8, 0xdd, 0xdf, 0xdc, 0xde, 0xda]);
                doc = vec![m, 0xff, 0xff, 0xff, 0xff];
                rec.bump("doc:huge-length");
            }
        } else {
            rec.bump("doc:valid");
        }
        rec.bump(&format!("docsize:{}", size_bucket(doc.len())));
        rec.op(&format!("init {}", hex0(&doc)));
        let n_ops = if big { 30 } else { rng.range(5, 60) as usize };
        read_history(rec, rng, n_ops, &interned, big);
    }
}

/// small-scope exhaustive: every document of a small grammar (depth <= 2, at most two children,
/// keys "a"/"b" and the duplicate-key variant) x every sequence of two reads on the root out of
/// {element / key / value by index 0, 1, 2; property a, b, c}, followed by reads below each child
/// ordered trees with at most `n` nodes (a node is a leaf or a container of sub-trees)
#[derive(Clone, Debug)]
struct Shape(Vec<Shape>);

fn shapes_exact(n: usize) -> Vec<Shape> {
    // all ordered trees with exactly n nodes
    if n == 0 {
        return vec![];
    }
    if n == 1 {
        return vec![Shape(vec![])];
    }
    // root + a forest of n-1 nodes
    fn forests(n: usize) -> Vec<Vec<Shape>> {
        if n == 0 {
            return vec![vec![]];
        }
        let mut out = Vec::new();
        for first in 1..=n {
            for t in shapes_exact(first) {
                for rest in forests(n - first) {
                    let mut f = vec![t.clone()];
                    f.extend(rest);
                    out.push(f);
                }
            }
        }
        out
    }
    forests(n - 1).into_iter().map(Shape).collect()
}

/// encode a shape: containers are arrays (kind 0), maps with keys a, b, c… (kind 1) or alternate by depth
/// (kind 2); leaves are distinct small integers, or (leaf_kind 1) empty containers
fn encode_shape(t: &Shape, kind: u8, leaf_kind: u8, depth: usize, next: &mut u8, out: &mut Vec<u8>, is_root: bool) {
    let as_map = match kind {
        0 => false,
        1 => true,
        _ => depth % 2 == 1,
    };
    if t.0.is_empty() && !is_root {
        if leaf_kind == 1 {
            out.push(if *next % 2 == 0 { 0x90 } else { 0x80 });
        } else {
            out.push(*next);
        }
        *next += 1;
        return;
    }
    out.push(if as_map { 0x80 } else { 0x90 } + t.0.len() as u8);
    for (i, c) in t.0.iter().enumerate() {
        if as_map {
            out.push(0xa1);
            out.push(b'a' + i as u8);
        }
        encode_shape(c, kind, leaf_kind, depth + 1, next, out, false);
    }
}

fn container_paths(t: &Shape, prefix: &mut Vec<usize>, out: &mut Vec<Vec<usize>>) {
    for (i, c) in t.0.iter().enumerate() {
        prefix.push(i);
        if !c.0.is_empty() {
            out.push(prefix.clone());
            container_paths(c, prefix, out);
        }
        prefix.pop();
    }
}

/// **descend and come back**: for every small document shape, every path down to a nested container (each
/// step read through the handle of the step before) and every ancestor on that path, read every index of
/// the ancestor (before, at, after the branch that was descended, and one past the end), then walk the whole
/// document again through fresh and through the old handles. What a partial descent leaves behind in the
/// nodes it went through must never show.
fn gen_descend_and_return(rec: &mut Rec, label: &str, max_nodes: usize, kinds: &[(u8, u8)]) {
    let handle = |a: &str| -> Option<String> {
        let t: Vec<&str> = a.split_whitespace().collect();
        if t.len() == 3 && (t[0] == "arr" || t[0] == "obj") {
            Some(t[1].to_string())
        } else {
            None
        }
    };
    for n in 3..=max_nodes {
        for shape in shapes_exact(n) {
            let mut paths = Vec::new();
            container_paths(&shape, &mut Vec::new(), &mut paths);
            if paths.is_empty() {
                continue;
            }
            for &(kind, leaf_kind) in kinds {
                let mut doc = Vec::new();
                let mut next = 1u8;
                encode_shape(&shape, kind, leaf_kind, 0, &mut next, &mut doc, true);
                for path in &paths {
                    // ancestors: level 0 = root … level k-1 = parent of the end of the path
                    let mut node = &shape;
                    let mut lens = Vec::new();
                    for &i in path {
                        lens.push(node.0.len());
                        node = &node.0[i];
                    }
                    for a in 0..path.len() {
                        for j in 0..=lens[a] {
                            rec.case(label);
                            rec.bump("exhaustive:descend-return");
                            rec.op(&format!("init {}", hex0(&doc)));
                            let mut hs: Vec<String> = Vec::new();
                            match handle(&rec.op("root")) {
                                Some(h) => hs.push(h),
                                None => continue,
                            }
                            let mut ok = true;
                            for &i in path {
                                let cur = hs.last().unwrap().clone();
                                match handle(&rec.op(&format!("idx {} {}", cur, i))) {
                                    Some(h) => hs.push(h),
                                    None => {
                                        ok = false;
                                        break;
                                    }
                                }
                            }
                            if !ok {
                                continue;
                            }
                            // come back to ancestor `a` and read index j there (by index, as key, by name)
                            let anc = hs[a].clone();
                            let got = rec.op(&format!("idx {} {}", anc, j));
                            rec.op(&format!("key {} {}", anc, j));
                            rec.op(&format!("prop {} {}", anc, hex0(&[b'a' + j as u8])));
                            if let Some(h) = handle(&got) {
                                rec.op(&format!("idx {} 0", h));
                                rec.op(&format!("len {}", h));
                            }
                            // the old handles still answer, in both directions
                            for h in hs.iter().rev() {
                                rec.op(&format!("len {}", h));
                                rec.op(&format!("idx {} 1", h));
                                rec.op(&format!("idx {} 0", h));
                            }
                            // and a fresh walk from the root sees the document
                            let top = hs[0].clone();
                            for i in 0..shape.0.len() {
                                if let Some(h) = handle(&rec.op(&format!("idx {} {}", top, i))) {
                                    for k in 0..3 {
                                        if let Some(h2) = handle(&rec.op(&format!("idx {} {}", h, k))) {
                                            rec.op(&format!("idx {} 0", h2));
                                            rec.op(&format!("idx {} 1", h2));
                                        }
                                    }
                                }
                            }
                        }
                    }
                }
            }
        }
    }
}

fn gen_c01_exhaustive(rec: &mut Rec, thorough: bool) {
    let leaves: Vec<Vec<u8>> = vec![vec![0x01], vec![0xa1, 0x61], vec![0xc0]];
    let arr_of = |kids: &[&Vec<u8>]| -> Vec<u8> {
        let mut v = vec![0x90 + kids.len() as u8];
        for k in kids {
            v.extend_from_slice(k);
        }
        v
    };
    let map_of = |keys: &[u8], kids: &[&Vec<u8>]| -> Vec<u8> {
        let mut v = vec![0x80 + kids.len() as u8];
        for (i, k) in kids.iter().enumerate() {
            v.extend_from_slice(&[0xa1, keys[i]]);
            v.extend_from_slice(k);
        }
        v
    };
    // children of the root
    let mut level1: Vec<Vec<u8>> = leaves.clone();
    if thorough {
        level1.push(arr_of(&[]));
        level1.push(map_of(b"", &[]));
        for a in &leaves {
            level1.push(arr_of(&[a]));
            level1.push(map_of(b"a", &[a]));
            for b in &leaves {
                level1.push(arr_of(&[a, b]));
                level1.push(map_of(b"ab", &[a, b]));
            }
        }
    } else {
        for a in &leaves {
            level1.push(arr_of(&[a]));
            level1.push(map_of(b"a", &[a]));
        }
    }
    let mut docs: Vec<Vec<u8>> = vec![arr_of(&[]), map_of(b"", &[])];
    for a in &level1 {
        docs.push(arr_of(&[a]));
        docs.push(map_of(b"a", &[a]));
        for b in &level1 {
            docs.push(arr_of(&[a, b]));
            docs.push(map_of(b"ab", &[a, b]));
            docs.push(map_of(b"aa", &[a, b])); // duplicate key: the first one wins
        }
    }
    let ops = ["idx {} 0", "idx {} 1", "idx {} 2", "key {} 0", "key {} 1", "prop {} 61", "prop {} 62", "prop {} 63"];
    for doc in &docs {
        for i in 0..ops.len() {
            for j in 0..ops.len() {
                rec.case("c01x");
                rec.bump("exhaustive:c01");
                rec.op(&format!("init {}", hex0(doc)));
                let r = rec.op("root");
                let h = match r.split_whitespace().nth(1) {
                    Some(h) if r.starts_with("arr") || r.starts_with("obj") => h.to_string(),
                    _ => continue,
                };
                let a1 = rec.op(&ops[i].replace("{}", &h));
                let a2 = rec.op(&ops[j].replace("{}", &h));
                for sub in [a1, a2] {
                    let t: Vec<&str> = sub.split_whitespace().collect();
                    if t.len() == 3 && (t[0] == "arr" || t[0] == "obj") {
                        rec.op(&format!("idx {} 1", t[1]));
                        rec.op(&format!("prop {} 61", t[1]));
                        rec.op(&format!("idx {} 0", t[1]));
                    }
                }
                rec.op(&format!("len {}", h));
            }
        }
    }
}

/// every byte string up to `maxlen` over an alphabet of decision-relevant bytes (each container /
/// string / number marker with small lengths, a width-carrying marker of each kind, the reserved
/// marker, a plain character), each followed by a fixed battery of reads with repeats
fn gen_c08_exhaustive(rec: &mut Rec, maxlen: usize) {
    const ALPHA: [u8; 20] = [
        0x00, 0x7f, 0x80, 0x81, 0x82, 0x90, 0x91, 0x92, 0xa0, 0xa1, 0x61, 0xc0, 0xc1, 0xc2, 0xc3, 0xcc, 0xd9, 0xdc, 0xca, 0xff,
    ];
    fn handle_of(ans: &str) -> Option<String> {
        let t: Vec<&str> = ans.split_whitespace().collect();
        if t.len() == 3 && matches!(t[0], "str" | "arr" | "obj") {
            Some(t[1].to_string())
        } else {
            None
        }
    }
    for len in 1..=maxlen {
        let total = ALPHA.len().pow(len as u32);
        for code in 0..total {
            let mut c = code;
            let doc: Vec<u8> = (0..len)
                .map(|_| {
                    let b = ALPHA[c % ALPHA.len()];
                    c /= ALPHA.len();
                    b
                })
                .collect();
            rec.case("c08x");
            rec.bump(&format!("exhaustive:len{}", len));
            rec.op(&format!("init {}", hex0(&doc)));
            let r = rec.op("root");
            if let Some(h) = handle_of(&r) {
                let first = rec.op(&format!("idx {} 1", h));
                let zero = rec.op(&format!("idx {} 0", h));
                rec.op(&format!("key {} 0", h));
                rec.op(&format!("prop {} 61", h));
                rec.op(&format!("idx {} 1", h));
                rec.op(&format!("prop {} 61", h));
                rec.op(&format!("key {} 1", h));
                rec.op(&format!("len {}", h));
                rec.op(&format!("str {}", h));
                for sub in [zero, first] {
                    if let Some(hk) = handle_of(&sub) {
                        rec.op(&format!("idx {} 0", hk));
                        rec.op(&format!("prop {} 61", hk));
                        rec.op(&format!("idx {} 0", hk));
                        rec.op(&format!("str {}", hk));
                    }
                }
                rec.op(&format!("idx {} 0", h));
            }
        }
    }
}

fn size_bucket(n: usize) -> &'static str {
    match n {
        0 => "0",
        1..=8 => "1-8",
        9..=64 => "9-64",
        65..=1024 => "65-1k",
        1025..=16384 => "1k-16k",
        _ => ">16k",
    }
}

fn gen_c11(rec: &mut Rec, rng: &mut Rng, scale: u64) {
    // long values under names that are prefixes / extensions of one another, in every key order, looked up by
    // name before and after the other entries were visited (and names that are absent but prefix a key)
    {
        let long: Vec<u8> = (0..16386usize).map(|i| b'a' + (i % 26) as u8).collect();
        let mut sval = vec![0xdau8];
        sval.extend_from_slice(&(long.len() as u16).to_be_bytes());
        sval.extend_from_slice(&long);
        let mut aval = vec![0xdcu8];
        aval.extend_from_slice(&(16386u16).to_be_bytes());
        aval.extend(std::iter::repeat(0x01u8).take(16386));
        let entries: Vec<(&[u8], Vec<u8>)> = vec![(b"items_total", vec![0x02]), (b"items", aval), (b"it", sval), (b"title", vec![0xa1, b'z'])];
        for perm in [[0usize, 1, 2, 3], [1, 0, 2, 3], [2, 1, 0, 3], [3, 2, 1, 0], [0, 2, 1, 3], [1, 2, 0, 3]] {
            for visit_first in [false, true] {
                rec.case("c11");
                rec.bump("c11:prefix-names");
                let mut doc = vec![0x84u8];
                for &i in &perm {
                    mp_str(&mut doc, entries[i].0);
                    doc.extend_from_slice(&entries[i].1);
                }
                rec.op(&format!("init {}", hex0(&doc)));
                rec.op("root");
                if visit_first {
                    rec.op("idx h0 3");
                }
                for name in [&b"items"[..], b"it", b"items_total", b"item", b"i", b"items", b"title", b"titl", b"it"] {
                    let a = rec.op(&format!("prop h0 {}", hex0(name)));
                    if let Some(h) = a.split_whitespace().nth(1) {
                        if a.starts_with("arr") || a.starts_with("str") {
                            rec.op(&format!("len {}", h));
                            rec.op(&format!("a.len {}", h));
                        }
                    }
                    rec.op(&format!("aprop h0 {}", hex0(name)));
                }
            }
        }
    }
    nan_inside_cases(rec, "c11");
    // small objects with the empty key (2-byte entries) as the last value of the input: they have a length too
    for doc in [&[0x81u8, 0xa0, 0x07][..], &[0x83, 0xa0, 0x00, 0xa1, b'a', 0x01, 0xa1, b'b', 0x02], &[0x92, 0x09, 0x82, 0xa0, 0x04, 0xa1, b'k', 0x05],
                &[0x82, 0xa1, b'a', 0x93, 0x01, 0x02, 0x03, 0xa1, b'z', 0x82, 0xa0, 0x04, 0xa1, b'k', 0x05], &[0x82, 0xa0, 0xa0, 0xa1, b'x', 0xa0], &[0x8f, 0xa0, 0, 0xa0, 0, 0xa0, 0, 0xa0, 0, 0xa0, 0, 0xa0, 0, 0xa0, 0, 0xa0, 0, 0xa0, 0, 0xa0, 0, 0xa0, 0, 0xa0, 0, 0xa0, 0, 0xa0, 0, 0xa0, 0]] {
        rec.case("c11");
        rec.bump("c11:empty-key-at-end");
        rec.op(&format!("init {}", hex0(doc)));
        let r = rec.op("root");
        rec.op("len h0");
        rec.op("a.len h0");
        rec.op(&format!("prop h0 {}", hex0(b"")));
        rec.op("key h0 0");
        for i in 0..3 {
            let a = rec.op(&format!("idx h0 {}", i));
            if let Some(h) = a.split_whitespace().nth(1) {
                if a.starts_with("obj") || a.starts_with("arr") {
                    rec.op(&format!("len {}", h));
                    rec.op(&format!("a.len {}", h));
                    rec.op(&format!("prop {} {}", h, hex0(b"")));
                    rec.op(&format!("idx {} 1", h));
                }
            }
        }
        let _ = r;
    }
    let mut sizes: Vec<usize> = (0..=40).collect();
    sizes.extend_from_slice(&[16381, 16382, 16383, 16384, 16385, 65535, 65536, 70000]);
    let reps = if scale > 1 { 2 } else { 1 };
    for _ in 0..reps {
        for &n in &sizes {
            for kind in 0..3u64 {
                if n > 40 && scale == 1 && kind == 2 && n > 16385 {
                    continue; // big maps only in the thorough tier (slow to walk)
                }
                rec.case("c11");
                let inner = mp::gen_big(rng, n, kind);
                let nested = rng.chance(1, 2) || n <= 40;
                let doc = if nested { mp::wrap_nested(&inner) } else { inner };
                rec.bump(&format!("c11:kind{}:{}", kind, if n < 16383 { "below" } else if n == 16383 { "at" } else { "above" }));
                rec.op(&format!("init {}", hex0(&doc)));
                let r = rec.op("root");
                let mut targets: Vec<String> = Vec::new();
                if nested {
                    // by name, by index, nested in an array
                    let root = r.split_whitespace().nth(1).unwrap_or("h0").to_string();
                    let a = rec.op(&format!("prop {} {}", root, hex0(b"b")));
                    targets.push(a);
                    let a = rec.op(&format!("idx {} 1", root));
                    targets.push(a);
                    let arr = rec.op(&format!("idx {} 0", root));
                    if let Some(ah) = arr.split_whitespace().nth(1) {
                        let a = rec.op(&format!("idx {} 1", ah));
                        targets.push(a);
                    }
                    rec.op(&format!("key {} 1", root));
                    rec.op(&format!("a.key {} 1", root));
                } else {
                    targets.push(r);
                }
                for tline in targets {
                    let tk: Vec<&str> = tline.split_whitespace().collect();
                    if tk.len() != 3 {
                        continue;
                    }
                    let h = tk[1];
                    rec.op(&format!("len {}", h));
                    rec.op(&format!("a.len {}", h));
                    match tk[0] {
                        "str" => {
                            rec.op(&format!("str {}", h));
                            rec.op(&format!("a.str {}", h));
                        }
                        "arr" => {
                            if n > 0 {
                                rec.op(&format!("idx {} {}", h, n - 1));
                            }
                            rec.op(&format!("idx {} {}", h, n));
                            if n > 2 {
                                rec.op(&format!("idx {} {}", h, rng.below(n as u64)));
                            }
                        }
                        _ => {
                            if n > 0 {
                                rec.op(&format!("key {} {}", h, n - 1));
                                rec.op(&format!("a.key {} {}", h, n - 1));
                                rec.op(&format!("idx {} {}", h, n - 1));
                                let kname = format!("k{}", n - 1);
                                rec.op(&format!("prop {} {}", h, hex0(kname.as_bytes())));
                            }
                            rec.op(&format!("key {} {}", h, n));
                            rec.op(&format!("a.key {} {}", h, n));
                        }
                    }
                }
                // values with no length
                rec.op("len null");
                rec.op("len b1");
                rec.op("len n4000000000000000");
                rec.op("len e3");
                rec.op("a.len null");
            }
        }
    }
    // object keys around and beyond the inline-length limit, read through key-at-index at both levels
    for &n in &[16382usize, 16383, 16384, 16385, 70000] {
        for nested in [false, true] {
            rec.case("c11key");
            rec.bump("c11key");
            let long: Vec<u8> = (0..n).map(|i| b'a' + (i % 26) as u8).collect();
            let mut inner: Vec<u8> = vec![0x83, 0xa1, b'x', 0x01];
            if n < 65536 {
                inner.push(0xda);
                inner.extend_from_slice(&(n as u16).to_be_bytes());
            } else {
                inner.push(0xdb);
                inner.extend_from_slice(&(n as u32).to_be_bytes());
            }
            inner.extend_from_slice(&long);
            inner.extend_from_slice(&[0x02, 0xa1, b'z', 0x03]);
            let doc = if nested { mp::wrap_nested(&inner) } else { inner };
            rec.op(&format!("init {}", hex0(&doc)));
            let r = rec.op("root");
            let t = if nested {
                let root = r.split_whitespace().nth(1).unwrap_or("h0").to_string();
                rec.op(&format!("idx {} 1", root))
            } else {
                r
            };
            if let Some(h) = t.split_whitespace().nth(1) {
                for i in 0..4 {
                    rec.op(&format!("a.key {} {}", h, i));
                }
                let k = rec.op(&format!("key {} 1", h));
                if let Some(kh) = k.split_whitespace().nth(1) {
                    rec.op(&format!("len {}", kh));
                    rec.op(&format!("a.len {}", kh));
                    rec.op(&format!("a.str {}", kh));
                }
                rec.op(&format!("prop {} {}", h, hex0(&long)));
            }
        }
    }
    // a value read after a preceding sibling container was walked through to its last entry, itself a
    // container: [[1, [2, 3]], <value>, <value>] and {"p": {"q": {}}, "v": <value>, "w": <value>}
    for kind in 0..3u64 {
        for &n in &[5usize, 16383, 16384, 16385] {
            for objparent in [false, true] {
                rec.case("c11after");
                let inner = mp::gen_big(rng, n, kind);
                let mut doc: Vec<u8> = Vec::new();
                if objparent {
                    doc.extend_from_slice(&[0x83, 0xa1, b'p', 0x81, 0xa1, b'q', 0x80, 0xa1, b'v']);
                    doc.extend_from_slice(&inner);
                    doc.extend_from_slice(&[0xa1, b'w']);
                    doc.extend_from_slice(&inner);
                } else {
                    doc.extend_from_slice(&[0x93, 0x92, 0x01, 0x92, 0x02, 0x03]);
                    doc.extend_from_slice(&inner);
                    doc.extend_from_slice(&inner);
                }
                rec.bump(&format!("c11after:kind{}", kind));
                rec.op(&format!("init {}", hex0(&doc)));
                let r = rec.op("root");
                let root = r.split_whitespace().nth(1).unwrap_or("h0").to_string();
                let first = rec.op(&format!("idx {} 0", root));
                if let Some(fh) = first.split_whitespace().nth(1) {
                    // hand out every entry of the first container; the last one is a container
                    rec.op(&format!("idx {} 0", fh));
                    if !objparent {
                        rec.op(&format!("idx {} 1", fh));
                    }
                }
                for i in 1..3 {
                    let t = rec.op(&format!("idx {} {}", root, i));
                    let tk: Vec<&str> = t.split_whitespace().collect();
                    if tk.len() != 3 {
                        continue;
                    }
                    let h = tk[1];
                    rec.op(&format!("len {}", h));
                    rec.op(&format!("a.len {}", h));
                    match tk[0] {
                        "str" => {
                            rec.op(&format!("a.str {}", h));
                        }
                        "arr" => {
                            rec.op(&format!("idx {} {}", h, n - 1));
                            rec.op(&format!("idx {} {}", h, n));
                        }
                        _ => {
                            rec.op(&format!("a.key {} {}", h, n - 1));
                            rec.op(&format!("key {} {}", h, n));
                        }
                    }
                }
                if objparent {
                    rec.op(&format!("a.key {} 1", root));
                    rec.op(&format!("prop {} {}", root, hex0(b"w")));
                }
            }
        }
    }
    // several inputs one after the other on the same thread, each with a big value of the same kind at the
    // same position but another true length (anything remembered per handle or per position across inputs
    // shows here)
    for kind in 0..3u64 {
        for nested in [false, true] {
            rec.case("c11seq");
            let seq: &[usize] = if kind == 2 && scale == 1 { &[16383, 16385, 16384, 16390] } else { &[16383, 16385, 20000, 16384, 70000, 16383] };
            for &n in seq {
                let inner = mp::gen_big(rng, n, kind);
                let doc = if nested { mp::wrap_nested(&inner) } else { inner };
                rec.bump(&format!("c11seq:kind{}", kind));
                rec.op(&format!("init {}", hex0(&doc)));
                let r = rec.op("root");
                let t = if nested {
                    let root = r.split_whitespace().nth(1).unwrap_or("h0").to_string();
                    rec.op(&format!("idx {} 1", root))
                } else {
                    r
                };
                let tk: Vec<&str> = t.split_whitespace().collect();
                if tk.len() != 3 {
                    continue;
                }
                let h = tk[1];
                rec.op(&format!("a.len {}", h));
                rec.op(&format!("len {}", h));
                match tk[0] {
                    "str" => {
                        rec.op(&format!("a.str {}", h));
                    }
                    "arr" => {
                        rec.op(&format!("idx {} {}", h, n - 1));
                    }
                    _ => {
                        rec.op(&format!("a.key {} {}", h, n - 1));
                        rec.op(&format!("key {} {}", h, n));
                    }
                }
            }
        }
    }
}

// ---------------------------------------------------------------------------------- writes

#[derive(Clone, Debug)]
enum Open {
    Obj { len: u64, ins: u64 },
    Arr { len: u64, ins: u64 },
}

/// the generator's own zipper (only used to steer towards valid continuations)
struct Steer {
    stack: Vec<Open>,
    done: bool,
}

impl Steer {
    fn expects_key(&self) -> bool {
        matches!(self.stack.last(), Some(Open::Obj { ins, .. }) if ins % 2 == 0)
    }
    fn full(&self) -> bool {
        match self.stack.last() {
            Some(Open::Obj { len, ins }) => *ins == 2 * *len,
            Some(Open::Arr { len, ins }) => *ins == *len,
            None => self.done,
        }
    }
    fn wrote(&mut self) {
        match self.stack.last_mut() {
            Some(Open::Obj { ins, .. }) => *ins += 1,
            Some(Open::Arr { ins, .. }) => *ins += 1,
            None => self.done = true,
        }
    }
}

const I32S: &[i64] = &[
    0, 1, -1, 127, 128, -32, -33, -128, -129, 255, 256, 32767, 32768, -32768, -32769, 65535, 65536,
    2147483647, -2147483648, 1000000, -1000000,
];
const STR_LENS: &[usize] = &[0, 1, 5, 31, 32, 33, 255, 256, 257, 1000, 1024, 2048, 65535, 65536];

fn gen_str_payload(rng: &mut Rng, allow_big: bool) -> Vec<u8> {
    let n = if rng.chance(1, 3) {
        let l = *rng.pick(STR_LENS);
        if l > 3000 && !allow_big {
            rng.range(0, 40) as usize
        } else {
            l
        }
    } else {
        rng.range(0, 12) as usize
    };
    let s = rng.next();
    (0..n).map(|i| b'a' + ((s as usize + i * 7) % 26) as u8).collect()
}

/// arbitrary bytes (not UTF-8 in general): only ever handed to the provider-level entry points, which
/// copy bytes and never look at them
fn gen_raw_payload(rng: &mut Rng) -> Vec<u8> {
    let n = *rng.pick(&[1usize, 2, 3, 4, 7, 31, 32, 40]);
    let mut v: Vec<u8> = (0..n).map(|_| rng.below(256) as u8).collect();
    // make sure there is an ill-formed sequence: a lone continuation byte, a truncated lead byte, 0xff
    let k = rng.below(n as u64) as usize;
    v[k] = *rng.pick(&[0x80u8, 0xbf, 0xc3, 0xe2, 0xf0, 0xff, 0xc0]);
    if k + 1 < n {
        v[k + 1] = b'a';
    }
    v
}

fn f64_bits(rng: &mut Rng) -> u64 {
    match rng.below(8) {
        0 => 0x8000_0000_0000_0000,
        1 => 0x7ff8_0000_0000_0001,
        2 => 0xfff0_0000_0000_0000,
        3 => 0x3ff0_0000_0000_0000,
        4 => 0x0000_0000_0000_0001,
        _ => rng.next(),
    }
}

fn gen_writes(rec: &mut Rec, rng: &mut Rng, cases: u64, keep_going: bool) {
    // declared lengths that do not fit 32 bits (64-bit callers can pass them): the container is closed
    // only by as many entries as were declared, never by the length taken modulo 2^32
    if cfg!(target_pointer_width = "64") {
        for &(m, k) in &[(2u64, 0u64), (2, 1), (2, 2), (4, 1), (2, 15), (2, 16), (6, 0), (1, 0), (1, 1), (1, 2), (3, 1), (1, 16)] {
            for obj in [false, true] {
                for nested in [false, true] {
                    rec.case(if keep_going { "c03" } else { "c02" });
                    rec.bump("wide-declared-length");
                    rec.op("init c0");
                    if nested {
                        rec.op("w arr 2");
                    }
                    // multiples of 2^31 (a doubled or shifted count loses its top bit) and of 2^32, plus k
                    let l = m * (1u64 << 31) + k;
                    rec.op(&format!("w {} {}", if obj { "obj" } else { "arr" }, l));
                    for i in 0..k {
                        if obj {
                            rec.op(&format!("w str {}", hex0(format!("k{}", i).as_bytes())));
                        }
                        rec.op(&format!("w i32 {}", i));
                    }
                    rec.op(if obj { "w endobj" } else { "w endarr" });
                    rec.op("out?");
                    rec.op("w null");
                    rec.op("fin");
                }
            }
        }
    }
    // a write by an id this thread never interned (the pristine code panics before touching anything): whatever
    // the answer, it must not count as a written value
    for ctx in 0..3 {
        rec.case(if keep_going { "c03" } else { "c02" });
        rec.bump("unknown-interned-id");
        rec.op("init c0");
        match ctx {
            1 => {
                rec.op("w arr 2");
            }
            2 => {
                rec.op("w obj 1");
                rec.op("w str 6b");
            }
            _ => {}
        }
        rec.op("w istr 4242");
        rec.op("w i32 1");
        rec.op("w i32 2");
        rec.op(if ctx == 2 { "w endobj" } else { "w endarr" });
        rec.op("out?");
        rec.op("fin");
    }
    // strings by cached id where the handles are slices of one static string (same address, different lengths)
    {
        rec.case(if keep_going { "c03" } else { "c02" });
        rec.bump("cached-slices-of-one-static");
        let base = b"discountApplicationStrategy";
        rec.op("init c0");
        let a = rec.op(&format!("cachedp {} {}", hex0(base), base.len()));
        let b = rec.op(&format!("cachedp {} 8", hex0(base)));
        let c = rec.op(&format!("cachedp {} 0", hex0(base)));
        let id = |x: &str| x.strip_prefix("id ").unwrap_or("0").to_string();
        rec.op("w arr 4");
        rec.op(&format!("w istr {}", id(&a)));
        rec.op(&format!("w istr {}", id(&b)));
        rec.op(&format!("w istr {}", id(&c)));
        rec.op(&format!("w str {}", hex0(b"discount")));
        rec.op("w endarr");
        rec.op("fin");
    }
    for ci in 0..cases {
        rec.case(if keep_going { "c03" } else { "c02" });
        rec.op("init c0");
        if ci % 3 == 1 {
            // an earlier invocation on the same thread, abandoned mid-way (nested, rejected calls
            // in between): nothing of it may show in the document written next
            for _ in 0..rng.range(1, 4) {
                let l = match rng.below(6) {
                    0 => format!("w obj {}", rng.range(1, 3)),
                    1 => "w str 6b".to_string(),
                    2 => "w endarr".to_string(),
                    3 => format!("w i32 {}", rng.pick(I32S)),
                    _ => format!("w arr {}", rng.range(1, 3)),
                };
                rec.op(&l);
            }
            rec.bump("with-abandoned-earlier-invocation");
            rec.op("out?");
            rec.op("init c0");
        }
        if ci % 5 == 2 {
            // the api crate's closure-taking container writers and its own status mapping
            rec.op(&format!("awseq {}", (ci / 5) % 7));
            rec.op("out?");
            rec.op("init c0");
        }
        let mut interned: Vec<usize> = Vec::new();
        if rng.chance(1, 3) {
            for _ in 0..rng.range(1, 3) {
                let a = if rng.chance(1, 3) {
                    // bytes that are not UTF-8, through the provider-level entry point (reserve, then copy)
                    let p = gen_raw_payload(rng);
                    let a = rec.op(&format!("internreq {}", p.len()));
                    rec.op(&format!("interncopy {}", hex0(&p)));
                    a
                } else {
                    let p = gen_str_payload(rng, false);
                    rec.op(&format!("intern {}", hex0(&p)))
                };
                if let Some(id) = a.strip_prefix("id ").and_then(|x| x.parse().ok()) {
                    interned.push(id);
                }
            }
        }
        let mut st = Steer {
            stack: Vec::new(),
            done: false,
        };
        let n_ops = rng.range(3, if keep_going { 80 } else { 60 }) as usize;
        let deep = ci % 50 == 7;
        let allow_big = ci % 9 == 0;
        let mut steps = 0;
        while steps < n_ops || (!keep_going && !st.done && steps < n_ops + 400) {
            steps += 1;
            let valid = rng.chance(if keep_going { 60 } else { 85 }, 100) || (steps >= n_ops);
            let lvl = if rng.chance(1, 4) { "aw" } else { "w" };
            let line: String;
            if valid {
                if st.done {
                    // anything is invalid after completion: sometimes try anyway
                    if !keep_going {
                        break;
                    }
                    line = format!("{} null", lvl);
                } else if st.full() {
                    match st.stack.last() {
                        Some(Open::Obj { .. }) => line = "w endobj".to_string(),
                        _ => line = "w endarr".to_string(),
                    }
                } else if st.expects_key() {
                    line = match rng.below(5) {
                        0 if !interned.is_empty() => format!("w istr {}", rng.pick(&interned)),
                        1 => {
                            let p = gen_str_payload(rng, false);
                            format!("w alloc {}\u{1}w copy {}", p.len(), hex0(&p))
                        }
                        _ => format!("{} str {}", lvl, hex0(&gen_str_payload(rng, false))),
                    };
                } else {
                    let closing = steps >= n_ops;
                    let r = if closing { rng.below(6) } else { rng.below(if deep { 14 } else { 10 }) };
                    line = match r {
                        0 => format!("{} bool {}", lvl, if lvl == "w" { *rng.pick(&[0u64, 1, 2, 255, 256, 512, 65536, 0x8000_0000, 0xffff_ff00, 4294967295]) } else { rng.below(2) }),
                        1 => format!("{} null", lvl),
                        2 => format!("{} i32 {}", lvl, if rng.chance(2, 3) { *rng.pick(I32S) } else { (rng.next() as i32) as i64 }),
                        3 => format!("{} f64 {:016x}", lvl, f64_bits(rng)),
                        4 if lvl == "w" && rng.chance(1, 5) => format!("w str {}", hex0(&gen_raw_payload(rng))),
                        4 => format!("{} str {}", lvl, hex0(&gen_str_payload(rng, allow_big))),
                        5 if !interned.is_empty() => format!("w istr {}", rng.pick(&interned)),
                        5 => format!("{} null", lvl),
                        6 | 10 | 11 => {
                            let n = if closing { 0 } else { *rng.pick(&[0u64, 1, 1, 2, 2, 3, 15, 16, 17]) };
                            format!("w obj {}", n)
                        }
                        _ => {
                            let n = if closing { 0 } else { *rng.pick(&[0u64, 1, 2, 2, 3, 15, 16, 17, 40]) };
                            format!("w arr {}", n)
                        }
                    };
                }
            } else {
                // arbitrary op, likely rejected
                line = match rng.below(12) {
                    0 => "w endobj".to_string(),
                    1 => "w endarr".to_string(),
                    2 => format!("w obj {}", *rng.pick(&[0u64, 1, 65535, 65536, 4294967295])),
                    3 => format!("w arr {}", *rng.pick(&[0u64, 1, 65535, 65536, 4294967295])),
                    4 => format!("{} str {}", lvl, hex0(&gen_str_payload(rng, false))),
                    5 => format!("{} null", lvl),
                    6 => format!("{} i32 {}", lvl, rng.pick(I32S)),
                    7 => format!("w alloc {}", rng.below(40)),
                    8 if !interned.is_empty() => format!("w istr {}", rng.pick(&interned)),
                    9 => "fin".to_string(),
                    _ => format!("{} bool 1", lvl),
                };
            }
            for l in line.split('\u{1}') {
                let before = if keep_going { Some(rec.op("out?")) } else { None };
                let a = rec.op(l);
                let ok = a == "0" || a.starts_with("0 ");
                // steer
                let t: Vec<&str> = l.split_whitespace().collect();
                if ok && (t[0] == "w" || t[0] == "aw") {
                    match t[1] {
                        "obj" => {
                            st.wrote();
                            if st.stack.is_empty() {
                                st.done = false;
                            }
                            st.stack.push(Open::Obj {
                                len: t[2].parse().unwrap_or(0),
                                ins: 0,
                            });
                        }
                        "arr" => {
                            st.wrote();
                            if st.stack.is_empty() {
                                st.done = false;
                            }
                            st.stack.push(Open::Arr {
                                len: t[2].parse().unwrap_or(0),
                                ins: 0,
                            });
                        }
                        "endobj" | "endarr" => {
                            st.stack.pop();
                            if st.stack.is_empty() {
                                st.done = true;
                            }
                        }
                        "copy" => {}
                        _ => st.wrote(),
                    }
                }
                if let Some(b) = before {
                    if !ok && t[0] != "fin" && !(t.len() > 1 && t[1] == "copy") {
                        let after = rec.op("out?");
                        if after != b {
                            rec.oracle_failures.push(format!(
                                "rejected call changed the output: `{}` -> {} ; out before {} after {}",
                                l, a, b, after
                            ));
                        }
                    }
                }
            }
            if rng.chance(1, 10) {
                rec.op("out?");
            }
        }
        let f = rec.op("fin");
        let d = rec.op("outdoc?");
        rec.bump(if f.starts_with("0 ") { "fin:complete" } else { "fin:unfinished" });
        if f.starts_with("0 ") && !d.starts_with("doc ") {
            rec.oracle_failures
                .push(format!("output reported complete but not one well-formed value: {} / {}", f, d));
        }
        rec.bump(&format!("depth:{}", st.stack.len().min(9)));
    }
}

fn gen_writes_exhaustive(rec: &mut Rec, maxlen: usize) {
    // every sequence of length <= maxlen over a compact alphabet of the ten operations
    let alphabet: &[&str] = &[
        "w bool 1", "w null", "w i32 7", "w f64 3ff0000000000000", "w str 6b", "w istr 0",
        "w obj 0", "w obj 1", "w obj 2", "w endobj", "w arr 0", "w arr 1", "w arr 2", "w endarr",
    ];
    let mut idx = vec![0usize; 0];
    // iterative deepening over lengths; one case per sequence would be slow, so sequences are
    // separated by `init` (which C13 shows to be a full reset of the writer)
    rec.case("c03x");
    rec.op("intern 6b");
    let mut count = 0u64;
    for len in 1..=maxlen {
        idx.clear();
        idx.resize(len, 0);
        loop {
            rec.op("init c0");
            for &i in &idx {
                rec.op(alphabet[i]);
            }
            rec.op("fin");
            count += 1;
            // increment
            let mut p = len;
            loop {
                if p == 0 {
                    break;
                }
                p -= 1;
                idx[p] += 1;
                if idx[p] < alphabet.len() {
                    break;
                }
                idx[p] = 0;
                if p == 0 {
                    p = usize::MAX;
                    break;
                }
            }
            if p == usize::MAX {
                break;
            }
            // keep the exhaustive part bounded: for the longest length sample every 3rd
            if len >= 5 && count % 3 != 0 {
                continue;
            }
        }
    }
    rec.bump(&format!("exhaustive-seqs:{}", count));
}

// ---------------------------------------------------------------------------------- logs

fn gen_logs(rec: &mut Rec, rng: &mut Rng, cases: u64, thorough: bool) {
    let cap = 1001u64;
    for ci in 0..cases {
        rec.case("c05");
        rec.op("init c0");
        let n = rng.range(1, 25);
        for _ in 0..n {
            let len = match rng.below(14) {
                0 => 0,
                1 => 1,
                2 => cap - 1,
                3 => cap,
                4 => cap + 1,
                5 => cap * rng.range(2, 4),
                6 => cap * 2 + rng.range(0, 2),
                7 => rng.range(cap, 3 * cap),
                8 if thorough || ci % 20 == 0 => 1 << 20,
                // around the widths a length or offset could be narrowed to
                8 | 10 if ci % 5 == 1 => *rng.pick(&[255u64, 256, 257, 65535, 65536, 65537, 65536 + 1001, 131072 + 7]),
                9 => rng.range(400, 600),
                _ => rng.range(0, 300),
            };
            // a quarter of the messages are multi-byte text (seed >= 1000)
            let seed = if rng.chance(1, 4) { 1000 + rng.below(3) } else { rng.below(1000) };
            if rng.chance(1, 3) {
                rec.op(&format!("logreq {}", len));
                // the crash point between the two halves: what the host would read if the copy never came
                if rng.chance(1, 2) {
                    rec.op("logs?");
                }
                rec.op(&format!("logcopy {} {}", len, seed));
            } else if len < 5000 && rng.chance(1, 8) {
                rec.op(&format!("logunwind {} {}", len, seed));
            } else {
                rec.op(&format!("log {} {}", len, seed));
            }
            rec.op("logs?");
            // the other things an invocation does in between leave the log alone: writes (accepted and rejected),
            // finalisation (also of a complete output, also twice), reads, interning
            if rng.chance(1, 6) {
                for _ in 0..rng.range(1, 4) {
                    let l = match rng.below(8) {
                        0 => "w null".to_string(),
                        1 => "fin".to_string(),
                        2 => "w arr 1".to_string(),
                        3 => "root".to_string(),
                        4 => format!("intern {}", hex0(&mp::gen_key(rng))),
                        5 => "out?".to_string(),
                        6 => "w bool 1".to_string(),
                        _ => "fin".to_string(),
                    };
                    rec.op(&l);
                }
                rec.op("logs?");
            }
            // now and then a new invocation starts on the same thread: the ring starts empty again
            if rng.chance(1, 12) {
                rec.op("init c0");
                rec.op("logs?");
            }
        }
    }
    // messages that are nothing but white space (seed % 95 == 0 gives the byte 0x20) are messages too
    rec.case("c05ws");
    rec.op("init c0");
    for seed in [0u64, 95, 190, 950] {
        rec.op(&format!("log 1 {}", seed));
        rec.op("logs?");
    }
    rec.op("logreq 1");
    rec.op("logcopy 1 285");
    rec.op("logs?");
    rec.op("logunwind 1 380");
    rec.op("logs?");
    // plans for enormous lengths (no copy: the message would not fit in memory)
    rec.case("c05big");
    rec.op("init c0");
    for len in [1u64 << 31, (1u64 << 32) - 1, u64::MAX >> (64 - WIDTH as u64), 1001, 2002, 0] {
        rec.op(&format!("logreq {}", len));
        rec.op("logs?");
    }
}

// ---------------------------------------------------------------------------------- nan boxes

fn gen_boxes(rec: &mut Rec, rng: &mut Rng, scale: u64) {
    rec.case("c06");
    rec.op("maxlen?");
    let w = WIDTH as u64;
    let lens: Vec<u64> = {
        let mut v: Vec<u64> = (0..=40).collect();
        v.extend_from_slice(&[16380, 16381, 16382, 16383, 16384, 16385, 20000, 65535, 65536, (1 << 32) - 1]);
        if w == 64 {
            v.extend_from_slice(&[1 << 32, (1 << 46) - 1, 1 << 46, u64::MAX]);
        }
        v
    };
    let ptrs: Vec<u64> = {
        let mut v = vec![0u64, 1, 2, 0x12345678, (1 << 31) - 1, 1 << 31, (1u64 << 32) - 1];
        if w == 64 {
            v.extend_from_slice(&[1 << 32, (1 << 47) - 1, u64::MAX]);
        }
        v
    };
    for kind in ["str", "obj", "arr"] {
        for &l in &lens {
            for &p in &ptrs {
                let bits = rec.op(&format!("box {} {} {}", kind, p, l));
                rec.op(&format!("unbox {}", bits));
            }
        }
    }
    for c in 0..8 {
        let bits = rec.op(&format!("box err {}", c));
        rec.op(&format!("unbox {}", bits));
    }
    // what the api crate's kind / length accessors say about plain doubles of every sign, exponent class and
    // every value of the bits a box would keep its tag in: a number is a number, never a box of any kind
    {
        let mut nums: Vec<u64> = Vec::new();
        for sign in [0u64, 1] {
            for exp in [0u64, 1, 0x3ff, 0x403, 0x404, 0x433, 0x43e, 0x7fe, 0x7ff] {
                for tagbits in 0..16u64 {
                    for low in [0u64, 1, 0x3fff, (1 << 46) - 1] {
                        let bits = (sign << 63) | (exp << 52) | (tagbits << 46) | low;
                        if !f64::from_bits(bits).is_nan() {
                            nums.push(bits);
                        }
                    }
                }
            }
        }
        for f in [-17.0f64, -17.25, -3.14, -42.0, -100.0, -1.0, -0.0, f64::MIN, f64::NEG_INFINITY, -2.3641409746639015e-308, 17.0, 3.14] {
            nums.push(f.to_bits());
        }
        for _ in 0..(200 * scale) {
            let b = rng.next();
            if !f64::from_bits(b).is_nan() {
                nums.push(b);
            }
        }
        for b in nums {
            rec.op(&format!("a.kind n{:016x}", b));
            if b % 3 == 0 {
                rec.op(&format!("a.len n{:016x}", b));
            }
        }
    }
    for b in 0..2 {
        let bits = rec.op(&format!("box bool {}", b));
        rec.op(&format!("unbox {}", bits));
    }
    let bits = rec.op("box null");
    rec.op(&format!("unbox {}", bits));
    // decision-relevant bits exhaustively: sign x 13 prefix bits x 4 tag bits, a few payloads
    let shift = if w == 64 { 64 } else { 0 };
    let payloads: &[u128] = &[0, 1, (1u128 << 46) - 1, 0x2aaa_aaaa_aaaa, 5, 1u128 << 32, 16383u128 << 32, 1u128 << 45];
    let stride = if scale > 1 { 1 } else { 5 };
    let mut i = 0u64;
    for top in 0u128..(1 << 18) {
        i += 1;
        // all 2^18 only in the thorough tier; the quick tier keeps every pattern whose 13
        // prefix bits are all-ones or one-off from it (the decision boundary) plus a stride
        let prefix = (top >> 4) & 0x1fff;
        let near = prefix.count_ones() >= 12;
        if !near && i % (stride * 7) != 0 {
            continue;
        }
        let payload = payloads[(top % payloads.len() as u128) as usize];
        let hi: u128 = top << 46; // bits 46..63 of the f64 half
        let mut v: u128 = (hi | payload) << shift;
        if w == 64 && rng.chance(1, 2) {
            v |= rng.next() as u128; // low half is pointer bits on 64-bit
        }
        rec.op(&format!("unbox {:x}", v));
    }
    // random doubles
    for _ in 0..(3000 * scale) {
        let bits = match rng.below(5) {
            0 => rng.next() & 0x800f_ffff_ffff_ffff,
            1 => (rng.next() & 0x800f_ffff_ffff_ffff) | 0x7fe0_0000_0000_0000,
            _ => rng.next(),
        };
        let b = rec.op(&format!("box num {:016x}", bits));
        if b != "PANIC" && b != "bad-op" {
            rec.op(&format!("unbox {}", b));
        }
    }
    // random raw patterns
    for _ in 0..(3000 * scale) {
        let v: u128 = if w == 64 {
            ((rng.next() as u128) << 64) | rng.next() as u128
        } else {
            rng.next() as u128
        };
        let v = if rng.chance(1, 2) {
            v | ((0x7ffcu128 << 48) << shift)
        } else {
            v
        };
        rec.op(&format!("unbox {:x}", v));
    }
}

// ---------------------------------------------------------------------------------- typed

fn gen_tval(rng: &mut Rng, ty: &str, depth: usize) -> String {
    // ty grammar: unit|bool|i32|f64|str|opt(T)|vec(T)|map(T)
    if let Some(inner) = ty.strip_prefix("opt(").and_then(|s| s.strip_suffix(')')) {
        return if rng.chance(1, 3) {
            "N".to_string()
        } else {
            format!("S{}", gen_tval(rng, inner, depth + 1))
        };
    }
    if let Some(inner) = ty.strip_prefix("vec(").and_then(|s| s.strip_suffix(')')) {
        let simple = matches!(inner, "i32" | "bool" | "unit" | "opt(bool)");
        let n = match rng.below(8) {
            0 => 0,
            1 if depth == 0 => *rng.pick(&[15usize, 16, 17, 32, 33]),
            // now and then a long vector: header widths and the inline-length limit of the read side
            2 if depth == 0 && simple && rng.chance(1, 6) => *rng.pick(&[255usize, 256, 257, 1000]),
            _ => rng.range(0, 4) as usize,
        };
        let items: Vec<String> = (0..n).map(|_| gen_tval(rng, inner, depth + 1)).collect();
        return format!("[{}]", items.join(";"));
    }
    if let Some(inner) = ty.strip_prefix("map(").and_then(|s| s.strip_suffix(')')) {
        let n = match rng.below(8) {
            0 => 0,
            1 if depth == 0 => *rng.pick(&[15usize, 16, 17]),
            2 if depth == 0 && inner == "i32" && rng.chance(1, 8) => *rng.pick(&[255usize, 256, 257]),
            _ => rng.range(0, 4) as usize,
        };
        let mut keys: Vec<Vec<u8>> = Vec::new();
        while keys.len() < n {
            let k = if n > 8 {
                format!("k{}", keys.len()).into_bytes()
            } else if rng.chance(1, 50) {
                // a key beyond the inline-length limit; two of them share their first 16383 bytes
                let mut k = vec![b'k'; *rng.pick(&[16383usize, 16384, 16400])];
                k.push(b'a' + keys.len() as u8);
                k
            } else {
                mp::gen_key(rng)
            };
            if !keys.contains(&k) {
                keys.push(k);
            }
        }
        let items: Vec<String> = keys
            .iter()
            .map(|k| format!("{}={}", hex(k), gen_tval(rng, inner, depth + 1)))
            .collect();
        return format!("{{{}}}", items.join(";"));
    }
    match ty {
        "unit" => "u".to_string(),
        "bool" => format!("b{}", rng.below(2)),
        "i32" => format!(
            "i{}",
            if rng.chance(1, 2) {
                *rng.pick(I32S)
            } else {
                (rng.next() as i32) as i64
            }
        ),
        "f64" => {
            // finite doubles only (the property's quantifier)
            let mut b = f64_bits(rng);
            if !f64::from_bits(b).is_finite() {
                b = 0x4009_21fb_5444_2d18;
            }
            format!("f{:016x}", b)
        }
        "str" => {
            // now and then a string around and beyond the inline-length limit (2^14 - 1)
            let n = if rng.chance(1, 40) { *rng.pick(&[16382usize, 16383, 16384, 16385, 20000, 65536]) } else { gen_str_len_small(rng) };
            let s: Vec<u8> = (0..n).map(|_| b'a' + rng.below(26) as u8).collect();
            format!("s{}", hex(&s))
        }
        _ => panic!("gen_tval: {}", ty),
    }
}

fn gen_str_len_small(rng: &mut Rng) -> usize {
    match rng.below(10) {
        0 => 0,
        1 => 31,
        2 => 32,
        3 => 255,
        4 => 256,
        _ => rng.range(0, 9) as usize,
    }
}

/// read-side types that can consume what a given write-side type produced
fn de_alternatives(serty: &str) -> Vec<&'static str> {
    match serty {
        "vec(i32)" => vec!["arr0(i32)", "arr2(i32)", "arr3(i32)", "tup(i32,i32)", "vec(i64)", "vec(u8)", "arr32(i32)"],
        "vec(str)" => vec!["arr1(str)"],
        "vec(opt(bool))" => vec!["arr3(opt(bool))"],
        "vec(vec(i32))" => vec!["arr2(vec(i32))"],
        "map(i32)" => vec!["bmap(i32)", "map(u16)"],
        "map(vec(str))" => vec!["bmap(vec(str))"],
        "i32" => vec!["i8", "i16", "i64", "u8", "u16", "u32", "u64", "usize", "isize"],
        "opt(i32)" => vec!["opt(i8)"],
        "str" => vec!["char"],
        _ => vec![],
    }
}

fn gen_typed(rec: &mut Rec, rng: &mut Rng, cases: u64) {
    rec.case("c09");
    // known-shape reproducers first (F10)
    rec.op("serrt opt(unit) Su");
    rec.op("serrt opt(opt(i32)) SN");
    for i in 0..cases {
        if i % 400 == 399 {
            rec.case("c09");
        }
        let ty = *rng.pick(typed::SER_TYPE_NAMES);
        let v = gen_tval(rng, ty, 0);
        rec.bump(&format!("ty:{}", ty));
        let alts = de_alternatives(ty);
        if !alts.is_empty() && rng.chance(1, 3) {
            let d = *rng.pick(&alts);
            rec.op(&format!("serrt {}>{} {}", ty, d, v));
        } else {
            rec.op(&format!("serrt {} {}", ty, v));
        }
    }
    // large values: natively only (oracle leg), see typed::big_roundtrips
    let (n_big, fails) = typed::big_roundtrips(cases > 5000);
    for _ in 0..n_big {
        rec.bump("oracle:big-roundtrip");
    }
    for f in fails {
        rec.oracle_failures.push(format!("typed round trip of a large value: {}", f));
    }
    // mismatching (document, type) pairs: every write-side value against every type
    rec.case("c09mis");
    let mut docs: Vec<String> = Vec::new();
    let doc_srcs: &[&[u8]] = &[
        &[0xc0], &[0xc2], &[0xc3], &[0x00], &[0x07], &[0xff], &[0xcb, 0x3f, 0xf8, 0, 0, 0, 0, 0, 0],
        &[0xa0], &[0xa1, b'a'], &[0xa2, b'a', b'b'], &[0x90], &[0x91, 0x01], &[0x92, 0x01, 0x02],
        &[0x93, 0x01, 0x02, 0x03], &[0x92, 0x01, 0xa1, b'x'], &[0x80], &[0x81, 0xa1, b'a', 0x01],
        &[0x81, 0xa1, b'a', 0xc0], &[0x82, 0xa1, b'a', 0x01, 0xa1, b'b', 0x91, 0xa1, b'z'],
        // arrays whose bad element (fraction, out of range) is not the last one
        &[0x92, 0xcb, 0x3f, 0xf8, 0, 0, 0, 0, 0, 0, 0x02], &[0x93, 0x01, 0xcb, 0x3f, 0xf8, 0, 0, 0, 0, 0, 0, 0x02],
        &[0x92, 0xcf, 0xff, 0xff, 0xff, 0xff, 0xff, 0xff, 0xff, 0xff, 0x07], &[0x92, 0xd3, 0x80, 0, 0, 0, 0, 0, 0, 0, 0x01],
        &[0x92, 0xcd, 0x01, 0x2c, 0x07], &[0x93, 0xff, 0x00, 0x01], &[0x92, 0xcb, 0x46, 0x29, 0x3e, 0x59, 0x39, 0xa0, 0x8c, 0xea, 0x01],
        // strings whose text is a number (a string is never an integer, whatever it spells)
        &[0xa2, b'4', b'2'], &[0xa3, b'+', b'1', b'0'], &[0xa3, b'0', b'0', b'7'], &[0xa1, b'0'], &[0xa2, b'-', b'1'],
        &[0xab, b'-', b'2', b'1', b'4', b'7', b'4', b'8', b'3', b'6', b'4', b'8'], &[0xa3, b'2', b'5', b'5'], &[0xa3, b'1', b'.', b'0'],
        &[0x93, 0xa1, b'1', 0xa1, b'2', 0xa1, b'3'], &[0x82, 0xa1, b'a', 0xa3, b'+', b'1', b'0', 0xa1, b'b', 0xc0],
        &[0x92, 0xa1, b'1', 0x02], &[0xa4, b't', b'r', b'u', b'e'], &[0xa4, b'n', b'u', b'l', b'l'],
        &[0x91, 0xc0], &[0x91, 0x90], &[0x91, 0x80], &[0x93, 0xc3, 0xc0, 0xc0], &[0xcd, 0x01, 0x00],
        &[0xd0, 0x80], &[0xd1, 0x80, 0x00], &[0xce, 0xff, 0xff, 0xff, 0xff], &[0xcf, 0xff, 0xff, 0xff, 0xff, 0xff, 0xff, 0xff, 0xff],
        &[0xd3, 0x80, 0, 0, 0, 0, 0, 0, 0], &[0xca, 0x3f, 0xc0, 0, 0], &[0x92, 0x07, 0xa1, b'q'],
        &[0x93, 0x07, 0xa1, b'q', 0x91, 0xcb, 0x40, 0x09, 0x21, 0xfb, 0x54, 0x44, 0x2d, 0x18],
        &[0xa2, 0xc3, 0xa9], &[0x91, 0x81, 0xa1, b'k', 0x91, 0x05], &[0x81, 0xa1, b'k', 0x81, 0xa1, b'j', 0x01],
        &[0x92, 0x91, 0x01, 0x91, 0x02],
        // non-zero doubles far below 1 (not integers), a subnormal, minus zero, infinities
        &[0xcb, 0x3c, 0x80, 0, 0, 0, 0, 0, 0], &[0xcb, 0, 0, 0, 0, 0, 0, 0, 1], &[0xcb, 0x80, 0, 0, 0, 0, 0, 0, 0],
        &[0xcb, 0x7f, 0xf0, 0, 0, 0, 0, 0, 0], &[0xca, 0x00, 0x00, 0x00, 0x01], &[0x91, 0xcb, 0x3c, 0x80, 0, 0, 0, 0, 0, 0],
        &[0xcb, 0xbc, 0x80, 0, 0, 0, 0, 0, 0], &[0xcb, 0x43, 0xe0, 0, 0, 0, 0, 0, 0],
    ];
    for d in doc_srcs {
        docs.push(hex(d));
    }
    let mut all_types: Vec<&str> = typed::SER_TYPE_NAMES.to_vec();
    all_types.extend_from_slice(typed::DE_TYPE_NAMES);
    for d in &docs {
        for ty in &all_types {
            rec.op(&format!("de {} {}", ty, d));
        }
    }
}

fn gen_deint(rec: &mut Rec, rng: &mut Rng, random: u64) {
    rec.case("c10");
    let tys = ["i8", "i16", "i32", "i64", "u8", "u16", "u32", "u64", "usize", "isize"];
    let mut vals: Vec<u64> = Vec::new();
    let ulp = |b: u64, d: i64| -> u64 { (b as i64 + d) as u64 };
    for e in 0..=66i32 {
        for sign in [1.0f64, -1.0] {
            let p = sign * 2f64.powi(e);
            let b = p.to_bits();
            for d in [-2i64, -1, 0, 1, 2] {
                vals.push(ulp(b, d));
            }
            // halves and neighbours of the integer
            for delta in [-1.0f64, -0.5, 0.5, 1.0] {
                vals.push((p + delta).to_bits());
            }
        }
    }
    for x in [
        0.0f64, -0.0, 0.5, -0.5, 1.5, f64::INFINITY, f64::NEG_INFINITY, f64::MAX, f64::MIN,
        f64::MIN_POSITIVE, 5e-324, 127.0, 128.0, -128.0, -129.0, 255.0, 256.0, 32767.0, 32768.0,
        -32768.0, -32769.0, 65535.0, 65536.0, 2147483647.0, 2147483648.0, -2147483648.0,
        -2147483649.0, 4294967295.0, 4294967296.0, 9007199254740992.0, 9007199254740993.0,
        9223372036854775807.0, -9223372036854775808.0, 18446744073709551615.0, 1e300, -1e300,
        255.00000000000003, 254.99999999999997,
    ] {
        vals.push(x.to_bits());
    }
    vals.sort();
    vals.dedup();
    for ty in tys {
        for &v in &vals {
            if f64::from_bits(v).is_nan() {
                continue;
            }
            rec.op(&format!("deint {} {:016x}", ty, v));
        }
    }
    for _ in 0..random {
        let ty = *rng.pick(&tys);
        let v = match rng.below(4) {
            0 => {
                // integral values of random magnitude
                let bits = rng.range(1, 64);
                let i = (rng.next() >> (64 - bits)) as f64;
                (if rng.chance(1, 2) { -i } else { i }).to_bits()
            }
            1 => ((rng.next() >> 40) as f64 / 4.0).to_bits(),
            _ => rng.next(),
        };
        if f64::from_bits(v).is_nan() {
            continue;
        }
        rec.op(&format!("deint {} {:016x}", ty, v));
    }
}

// ---------------------------------------------------------------------------------- interning

fn gen_intern(rec: &mut Rec, rng: &mut Rng, cases: u64) {
    // lookups by one id in objects where the name sits at different positions, once and twice
    lookup_position_cases(rec, "c12");
    // many cached handles on one thread, loaded round after round in different orders: whatever the cache is
    // (a map, a table with fewer slots than handles), every handle answers the id it answered the first time
    for (label, n) in [("cached", if cases > 1000 { 5000usize } else { 700 }), ("cacheds", 300)] {
        rec.case("c12");
        rec.bump("many-cached-handles");
        rec.op("init c0");
        let names: Vec<String> = (0..n).map(|i| match i % 4 {
            0 => format!("f{}", i),
            1 => format!("field_{}", i),
            2 => format!("{}Code", (b'a' + (i % 26) as u8) as char).repeat(1 + i % 3) + &i.to_string(),
            _ => format!("k{}k", i * 7),
        }).collect();
        for round in 0..3 {
            for j in 0..n {
                let i = match round { 0 => j, 1 => n - 1 - j, _ => (j * 7 + 3) % n };
                rec.op(&format!("{} {}", label, hex0(names[i].as_bytes())));
                if round == 0 && j % 5 == 4 {
                    // interleave with the previous handle: A, B, A
                    rec.op(&format!("{} {}", label, hex0(names[i - 1].as_bytes())));
                }
            }
        }
    }
    // an id written in one invocation and written again in later ones, after other output of various lengths: what
    // the id writes never depends on where it was written before
    for pre in [0usize, 1, 6, 7, 8, 40, 300] {
        rec.case("c12");
        rec.bump("id-written-again-in-later-invocation");
        rec.op("init c0");
        let a = rec.op(&format!("intern {}", hex0(b"title")));
        let id = a.strip_prefix("id ").unwrap_or("0").to_string();
        rec.op("w obj 1");
        rec.op(&format!("w istr {}", id));
        rec.op("w i32 1");
        rec.op("w endobj");
        rec.op("fin");
        for round in 0..2 {
            rec.op("init c0");
            rec.op("w arr 4");
            rec.op(&format!("w str {}", hex0(&vec![b'p'; pre + round])));
            rec.op("w i32 7");
            rec.op(&format!("w istr {}", id));
            rec.op(&format!("w istr {}", id));
            rec.op("w endarr");
            rec.op("out?");
            rec.op("fin");
        }
    }
    // handles on slices of one static string: the same start address names different strings
    for base in ["discountApplicationStrategy", "ab", "xxxxxxxxxxxxxxxxxxxxxxxxxxxxxxxxxxxxxxxx"] {
        rec.case("c12");
        rec.bump("cached-slices-of-one-static");
        rec.op("init c0");
        let n = base.len();
        let mut ks: Vec<usize> = vec![n, 8.min(n), 0, 1, n - 1, n, 8.min(n)];
        ks.dedup();
        for &k in &ks {
            let a = rec.op(&format!("cachedp {} {}", hex0(base.as_bytes()), k));
            if let Some(id) = a.strip_prefix("id ") {
                // what the id writes is the slice, byte for byte
                rec.op("init c0");
                rec.op(&format!("w istr {}", id));
                rec.op("fin");
            }
        }
    }
    for ci in 0..cases {
        rec.case("c12");
        // document with known keys so lookups by id can hit
        let doc: &[u8] = &[
            0x84, 0xa1, b'a', 0x01, 0xa2, b'i', b'd', 0x92, 0x02, 0x03, 0xa4, b'n', b'a', b'm', b'e', 0xa1,
            b'z', 0xa0, 0xc3,
        ];
        rec.op(&format!("init {}", hex(doc)));
        let mut ids: Vec<(usize, Vec<u8>)> = Vec::new();
        let mut root = rec.op("root");
        let n = rng.range(4, 40);
        let mut thread = 0u32;
        for _ in 0..n {
            match rng.below(12) {
                0 | 1 | 2 => {
                    let k = if rng.chance(1, 3) {
                        // strings that overlap what is already in the interner's buffer: repeats,
                        // prefixes, suffixes and extensions of earlier strings, tiny periodic ones
                        let prev: Vec<u8> = ids.iter().rev().find(|(i, k)| *i != usize::MAX && !k.is_empty() && k.len() < 64).map(|(_, k)| k.clone()).unwrap_or_else(|| b"x".to_vec());
                        match rng.below(7) {
                            0 => [prev.clone(), prev.clone()].concat(),
                            1 => prev[..prev.len() / 2].to_vec(),
                            2 => [prev.clone(), prev[..1].to_vec()].concat(),
                            3 => [prev[prev.len() / 2..].to_vec(), prev.clone()].concat(),
                            4 => prev.clone(),
                            5 => vec![b'x'; rng.range(1, 5) as usize],
                            _ => [b"ab".to_vec(), b"ab".to_vec(), vec![b'a'; rng.below(2) as usize]].concat(),
                        }
                    } else if rng.chance(1, 8) {
                        // bytes that are not UTF-8 (interned through reserve + copy below)
                        gen_raw_payload(rng)
                    } else if rng.chance(1, 2) {
                        mp::gen_key(rng)
                    } else {
                        let len = match rng.below(6) {
                            0 => 0,
                            1 if ci % 10 == 0 => 1 << 20,
                            // around the widths a span length could be narrowed to (u8, u16) and beyond
                            1 | 3 if ci % 4 == 1 => *rng.pick(&[255usize, 256, 257, 65535, 65536, 65537, 65539, 70000, 131075]),
                            2 => 4096,
                            _ => rng.range(0, 300) as usize,
                        };
                        (0..len).map(|i| b'a' + (i % 26) as u8).collect()
                    };
                    let a = if k.len() > 200_000 || std::str::from_utf8(&k).is_err() || rng.chance(1, 2) {
                        let a = rec.op(&format!("internreq {}", k.len()));
                        // another intern may be requested before the copy only on another thread;
                        // on one thread the glue copies immediately
                        if k.len() > 200_000 {
                            // only a prefix is copied (the rest stays zero): keep the op line small
                            rec.op(&format!("interncopy {}", hex0(&k[..64])));
                            ids.push((usize::MAX, Vec::new()));
                            a
                        } else {
                            rec.op(&format!("interncopy {}", hex0(&k)));
                            a
                        }
                    } else {
                        rec.op(&format!("intern {}", hex0(&k)))
                    };
                    if let Some(id) = a.strip_prefix("id ").and_then(|x| x.parse::<usize>().ok()) {
                        if k.len() <= 200_000 {
                            ids.push((id, k));
                        }
                    }
                }
                3 => {
                    let k = mp::gen_key(rng);
                    if std::str::from_utf8(&k).is_ok() {
                        rec.op(&format!("{} {}", if rng.chance(1, 2) { "cached" } else { "cacheds" }, hex0(&k)));
                    }
                }
                4 | 5 if !ids.is_empty() => {
                    let (id, k) = rng.pick(&ids).clone();
                    if id != usize::MAX {
                        let sc = root.split_whitespace().nth(1).unwrap_or("null").to_string();
                        rec.op(&format!("iprop {} {}", sc, id));
                        rec.op(&format!("prop {} {}", sc, hex0(&k)));
                    }
                }
                6 | 7 if !ids.is_empty() => {
                    let (id, k) = rng.pick(&ids).clone();
                    if id != usize::MAX {
                        // writing by id == writing the bytes: two fresh single-string documents
                        rec.op("init c0");
                        rec.op(&format!("w istr {}", id));
                        let a = rec.op("fin");
                        rec.op("init c0");
                        rec.op(&format!("w str {}", hex0(&k)));
                        let b = rec.op("fin");
                        if a != b {
                            rec.oracle_failures.push(format!(
                                "write by id {} differs from write of the interned bytes: {} vs {}",
                                id, a, b
                            ));
                        }
                        rec.op(&format!("init {}", hex(doc)));
                        root = rec.op("root");
                    }
                }
                8 => {
                    // a new invocation on the same thread: ids survive
                    rec.op(&format!("init {}", hex(doc)));
                    root = rec.op("root");
                }
                9 if ci % 5 == 0 => {
                    // another thread has its own interner and cache
                    thread = if thread == 0 { 1 } else { 0 };
                    rec.op(&format!("thread {}", thread));
                    ids.clear();
                    rec.op(&format!("init {}", hex(doc)));
                    root = rec.op("root");
                    // ids interned on this thread before are unknown to the generator: restart list
                }
                _ => {
                    if let Some((id, _)) = ids.iter().find(|(id, _)| *id != usize::MAX) {
                        rec.op(&format!("w istr {}", id));
                        rec.op("out?");
                    }
                }
            }
        }
    }
}

// ---------------------------------------------------------------------------------- invocations

fn gen_activity(rng: &mut Rng, n: usize, interned: usize) -> Vec<String> {
    let mut v = Vec::new();
    for _ in 0..n {
        v.push(match rng.below(16) {
            0 => "root".to_string(),
            1 => format!("log {} {}", rng.range(0, 1500), rng.below(100)),
            2 => format!("w obj {}", rng.below(3)),
            3 => format!("w arr {}", rng.below(3)),
            4 => format!("w str {}", hex0(&mp::gen_key(rng))),
            5 => "w endobj".to_string(),
            6 => "w endarr".to_string(),
            7 => format!("w i32 {}", rng.pick(I32S)),
            8 => "fin".to_string(),
            9 => "out?".to_string(),
            10 => "logs?".to_string(),
            11 => "idx h0 0".to_string(),
            12 => format!("prop h0 {}", hex0(&mp::gen_key(rng))),
            13 if interned > 0 => format!("w istr {}", rng.below(interned as u64)),
            14 => format!("logreq {}", rng.range(0, 1200)),
            _ => "w null".to_string(),
        });
    }
    v
}

fn gen_invocations(rec: &mut Rec, rng: &mut Rng, cases: u64) {
    for _ in 0..cases {
        // phase A: several invocations on one thread
        let n_inv = rng.range(1, 4) as usize;
        let interns: Vec<Vec<u8>> = (0..rng.range(0, 3)).map(|_| mp::gen_key(rng)).collect();
        let mut invs: Vec<(Vec<u8>, Vec<String>)> = Vec::new();
        for k in 0..=n_inv {
            let mut doc = gen_doc(rng, false);
            let na = rng.range(2, 25) as usize;
            let mut acts = gen_activity(rng, na, interns.len());
            if k < n_inv && rng.chance(1, 3) {
                // an earlier invocation that leaves big buffers behind: more than the output's initial
                // capacity written (finished, or abandoned inside a container), a long input
                let big = *rng.pick(&[1025usize, 1100, 2048, 5000, 70000]);
                let payload: Vec<u8> = (0..big).map(|i| b'a' + (i % 23) as u8).collect();
                let mut pre = Vec::new();
                if rng.chance(1, 2) {
                    pre.push("w arr 3".to_string());
                }
                pre.push(format!("w str {}", hex0(&payload)));
                pre.append(&mut acts);
                acts = pre;
                if rng.chance(1, 2) {
                    let mut d = vec![0xdb];
                    d.extend_from_slice(&(big as u32).to_be_bytes());
                    d.extend_from_slice(&payload);
                    doc = d;
                }
            }
            invs.push((doc, acts));
        }
        if rng.chance(1, 5) {
            // every invocation of this thread reads a big root value of the same kind (another true length
            // each time) through the api-level accessors: nothing remembered from the previous input may show
            let kind = rng.below(2);
            for (doc, acts) in invs.iter_mut() {
                let n = *rng.pick(&[16383usize, 16384, 16385, 16390, 20000]);
                *doc = mp::gen_big(rng, n, kind);
                let mut pre = vec!["root".to_string(), "a.len h0".to_string(), "len h0".to_string()];
                if kind == 0 {
                    pre.push("a.str h0".to_string());
                } else {
                    pre.push(format!("idx h0 {}", n - 1));
                }
                pre.append(acts);
                *acts = pre;
            }
        }
        if rng.chance(1, 8) {
            // earlier invocations whose reads fail deep inside a value that has to be stepped over, then a
            // valid deeply nested input (anything that is budgeted per thread and not given back shows here)
            let n = invs.len();
            for (j, (doc, acts)) in invs.iter_mut().enumerate() {
                if j + 1 < n {
                    *doc = deep_doc(*rng.pick(&[40usize, 100, 127]), true);
                } else {
                    *doc = deep_doc(*rng.pick(&[30usize, 60, 100, 120]), false);
                }
                let mut pre = vec!["root".to_string(), "idx h0 1".to_string(), "idx h0 1".to_string()];
                pre.append(acts);
                *acts = pre;
            }
        }
        if rng.chance(1, 6) {
            // an earlier invocation with a zero-length input that still writes and logs
            invs[0].0 = Vec::new();
        }
        let mut interns = interns;
        if rng.chance(1, 5) {
            // every invocation looks the same interned name up; earlier inputs have it at position p,
            // the last one has it twice, at q < p and at p: nothing remembered about where it was found may show
            let k = b"kk".to_vec();
            interns.push(k.clone());
            let id = interns.len() - 1;
            let p = rng.range(1, 4) as usize;
            let q = rng.below(p as u64) as usize;
            let n = invs.len();
            for (j, (doc, acts)) in invs.iter_mut().enumerate() {
                *doc = if j + 1 < n { keyed_map(p + 1, &k, &[p]) } else { keyed_map(p + 2, &k, &[q, p]) };
                let mut pre = vec!["root".to_string(), format!("iprop h0 {}", id), format!("prop h0 {}", hex0(&k)), format!("idx h0 {}", p), format!("iprop h0 {}", id)];
                pre.append(acts);
                *acts = pre;
            }
        }
        let mut via_json = false;
        if rng.chance(1, 6) {
            // invocations started through the api crate's `Context::new_with_input` with inputs that are equal as
            // JSON values or nearly so (0.0 / -0.0, 1 / 1.0, the same keys with another value, the very same
            // document twice): each one must see its own input
            via_json = true;
            let variants: [&[u8]; 6] = [
                &[0x82, 0xa1, b'a', 0xcb, 0, 0, 0, 0, 0, 0, 0, 0, 0xa1, b'b', 0x01],
                &[0x82, 0xa1, b'a', 0xcb, 0x80, 0, 0, 0, 0, 0, 0, 0, 0xa1, b'b', 0x01],
                &[0x82, 0xa1, b'a', 0x00, 0xa1, b'b', 0x01],
                &[0x82, 0xa1, b'a', 0xcb, 0x3f, 0xf0, 0, 0, 0, 0, 0, 0, 0xa1, b'b', 0x01],
                &[0x82, 0xa1, b'a', 0x01, 0xa1, b'b', 0x01],
                &[0x82, 0xa1, b'a', 0xcb, 0, 0, 0, 0, 0, 0, 0, 0, 0xa1, b'b', 0x02],
            ];
            let first = rng.below(6) as usize;
            for (j, (doc, acts)) in invs.iter_mut().enumerate() {
                let v = match j % 3 {
                    0 => first,
                    1 => first ^ 1,
                    _ => rng.below(6) as usize,
                };
                *doc = variants[v].to_vec();
                let mut pre = vec!["root".to_string(), format!("prop h0 {}", hex0(b"a")), format!("prop h0 {}", hex0(b"b")), "idx h0 0".to_string()];
                pre.append(acts);
                *acts = pre;
            }
        }
        let early: Vec<String> = if rng.chance(1, 8) {
            // calls made on the thread before its first initialisation
            let na = rng.range(1, 6) as usize;
            gen_activity(rng, na, 0).into_iter().filter(|a| a.starts_with("w ") || a.starts_with("log ")).collect()
        } else {
            Vec::new()
        };
        rec.case("c13");
        for a in &early {
            rec.op(a);
        }
        // interning may happen at any time; here before and between invocations
        let mut pending = interns.clone();
        let mut last_answers: Vec<String> = Vec::new();
        for (i, (doc, acts)) in invs.iter().enumerate() {
            if i == 0 || rng.chance(1, 2) {
                for k in pending.drain(..) {
                    rec.op(&format!("intern {}", hex0(&k)));
                }
            }
            if i == invs.len() - 1 {
                for k in pending.drain(..) {
                    rec.op(&format!("intern {}", hex0(&k)));
                }
            }
            rec.op(&format!("{} {}", if via_json { "ainit" } else { "init" }, hex0(doc)));
            let mut answers = Vec::new();
            for a in acts {
                answers.push(rec.op(a));
            }
            answers.push(rec.op("out?"));
            answers.push(rec.op("logs?"));
            answers.push(rec.op("fin"));
            last_answers = answers;
        }
        // phase B: the last invocation alone on fresh threads after the same interns
        rec.case("c13solo");
        for k in &interns {
            rec.op(&format!("intern {}", hex0(k)));
        }
        let (doc, acts) = invs.last().unwrap();
        rec.op(&format!("init {}", hex0(doc)));
        let mut answers = Vec::new();
        for a in acts {
            answers.push(rec.op(a));
        }
        answers.push(rec.op("out?"));
        answers.push(rec.op("logs?"));
        answers.push(rec.op("fin"));
        if answers != last_answers {
            let idx = answers
                .iter()
                .zip(last_answers.iter())
                .position(|(a, b)| a != b)
                .unwrap_or(0);
            rec.oracle_failures.push(format!(
                "invocation after history differs from the same invocation on a fresh thread at step {}: `{}` vs `{}`",
                idx,
                last_answers.get(idx).cloned().unwrap_or_default(),
                answers.get(idx).cloned().unwrap_or_default()
            ));
        }
    }
}

// ---------------------------------------------------------------------------------- allocator

/// the provider's exported allocator as the property-name glue uses it: requests of every small size and
/// around powers of two, interleaved with reads of an input (so that live allocations, the input and the
/// reader's arena coexist)
fn gen_alloc(rec: &mut Rec, rng: &mut Rng, cases: u64) {
    rec.case("c04alloc");
    rec.op(&format!("init {}", hex0(&gen_doc(rng, false))));
    for n in 0..=40usize {
        rec.op(&format!("palloc {}", n));
    }
    for i in 0..cases {
        rec.case("c04alloc");
        rec.bump("alloc:history");
        rec.op(&format!("init {}", hex0(&gen_doc(rng, false))));
        rec.op("root");
        for _ in 0..rng.range(3, 30) {
            let n = match rng.below(8) {
                0 => 0,
                1 => 1,
                2 => rng.range(2, 16) as usize,
                3 => *rng.pick(&[255usize, 256, 257, 1023, 1024, 1025, 4096, 65535, 65536, 65537]),
                4 => (1usize << rng.range(1, 20)) + rng.below(3) as usize - 1,
                _ => rng.range(1, 300) as usize,
            };
            rec.op(&format!("palloc {}", n));
            if rng.chance(1, 4) {
                rec.op(&format!("prop h0 {}", hex0(&mp::gen_key(rng))));
            }
            if rng.chance(1, 10) && i % 2 == 0 {
                rec.op(&format!("init {}", hex0(&gen_doc(rng, false))));
                rec.op("root");
            }
        }
    }
}

// ---------------------------------------------------------------------------------- threads

fn gen_thread_script(rng: &mut Rng, n: usize) -> Vec<String> {
    let mut v = vec![format!("init {}", hex0(&gen_doc(rng, false)))];
    let mut pending_log: Option<(u64, u64)> = None;
    let mut pending_alloc: Option<Vec<u8>> = None;
    let mut pending_intern: Option<Vec<u8>> = None;
    for _ in 0..n {
        // a pending split operation is completed with priority
        if let Some((len, seed)) = pending_log.take() {
            v.push(format!("logcopy {} {}", len, seed));
            v.push("logs?".to_string());
            continue;
        }
        if let Some(p) = pending_alloc.take() {
            v.push(format!("w copy {}", hex0(&p)));
            v.push("out?".to_string());
            continue;
        }
        if let Some(p) = pending_intern.take() {
            v.push(format!("interncopy {}", hex0(&p)));
            continue;
        }
        match rng.below(12) {
            10 => {
                // a cached id handle shared by every thread (a guest's `static`), from a small pool so that
                // threads load the same handles in different orders
                let k = *rng.pick(&["alpha", "beta", "gamma", "id"]);
                v.push(format!("cacheds {}", hex0(k.as_bytes())));
            }
            11 => {
                let k = *rng.pick(&["alpha", "beta", "name"]);
                v.push(format!("intern {}", hex0(k.as_bytes())));
            }
            0 => v.push("root".to_string()),
            1 => v.push("idx h0 0".to_string()),
            2 => {
                let len = *rng.pick(&[0u64, 1, 3, 5, 500, 1000, 1001, 1002, 1500]);
                let seed = rng.below(100);
                v.push(format!("logreq {}", len));
                pending_log = Some((len, seed));
            }
            3 => {
                let p = gen_str_payload(rng, false);
                v.push(format!("w alloc {}", p.len()));
                pending_alloc = Some(p);
            }
            4 => {
                let p = mp::gen_key(rng);
                v.push(format!("internreq {}", p.len()));
                pending_intern = Some(p);
            }
            5 => v.push(format!("w arr {}", rng.range(1, 3))),
            6 => v.push(format!("w i32 {}", rng.pick(I32S))),
            7 => v.push(format!("log {} {}", rng.range(0, 1200), rng.below(50))),
            8 => v.push("logs?".to_string()),
            _ => v.push("out?".to_string()),
        }
    }
    if let Some((len, seed)) = pending_log.take() {
        v.push(format!("logcopy {} {}", len, seed));
    }
    if let Some(p) = pending_alloc.take() {
        v.push(format!("w copy {}", hex0(&p)));
    }
    if let Some(p) = pending_intern.take() {
        v.push(format!("interncopy {}", hex0(&p)));
    }
    v.push("logs?".to_string());
    v.push("out?".to_string());
    v
}

fn run_schedule(rec: &mut Rec, scripts: &[Vec<String>], sched: &[usize]) -> Vec<Vec<String>> {
    let mut pos = vec![0usize; scripts.len()];
    let mut obs: Vec<Vec<String>> = vec![Vec::new(); scripts.len()];
    let mut cur = usize::MAX;
    for &t in sched {
        if pos[t] >= scripts[t].len() {
            continue;
        }
        if cur != t {
            rec.op(&format!("thread {}", t));
            cur = t;
        }
        let a = rec.op(&scripts[t][pos[t]]);
        obs[t].push(a);
        pos[t] += 1;
    }
    obs
}

fn check_solo(rec: &mut Rec, scripts: &[Vec<String>], obs: &[Vec<String>], what: &str) {
    for (t, s) in scripts.iter().enumerate() {
        rec.case("c14solo");
        rec.op(&format!("thread {}", t));
        let mut solo = Vec::new();
        for l in s {
            solo.push(rec.op(l));
        }
        if solo != obs[t] {
            let idx = solo.iter().zip(obs[t].iter()).position(|(a, b)| a != b).unwrap_or(0);
            rec.oracle_failures.push(format!(
                "{}: thread {} observed `{}` at its step {} (`{}`) but `{}` when running alone",
                what,
                t,
                obs[t].get(idx).cloned().unwrap_or_default(),
                idx,
                s.get(idx).cloned().unwrap_or_default(),
                solo.get(idx).cloned().unwrap_or_default()
            ));
        }
    }
}

fn gen_threads(rec: &mut Rec, rng: &mut Rng, cases: u64, thorough: bool) {
    // the deterministic 3-step reproducer first: A requests a plan, B requests a plan, A copies
    {
        let scripts = vec![
            vec!["init c0".to_string(), "logreq 3".to_string(), "logcopy 3 1".to_string(), "logs?".to_string()],
            vec!["init c0".to_string(), "logreq 5".to_string(), "logcopy 5 2".to_string(), "logs?".to_string()],
        ];
        rec.case("c14");
        let obs = run_schedule(rec, &scripts, &[0, 1, 0, 1, 0, 0, 1, 1]);
        check_solo(rec, &scripts, &obs, "schedule A.req B.req A.copy");
    }
    // the same shape for interning: B's (large, storage-growing) intern request falls between A's
    // request and A's copy; A then writes its string by id
    for big in [64usize, 4096, 65536, 1 << 20] {
        let scripts = vec![
            vec!["init c0".to_string(), "internreq 5".to_string(), format!("interncopy {}", hex0(b"hello")), "w istr 0".to_string(), "out?".to_string()],
            vec!["init c0".to_string(), format!("internreq {}", big), format!("interncopy {}", hex0(&[b'z'; 48])), "w istr 0".to_string(), "fin".to_string()],
        ];
        rec.case("c14");
        let obs = run_schedule(rec, &scripts, &[0, 1, 0, 1, 0, 0, 0, 1, 1, 1]);
        check_solo(rec, &scripts, &obs, "schedule A.internreq B.internreq A.interncopy");
    }
    // one thread performs a guest's documented first step (`init_panic_handler`), another thread's own code
    // panics and recovers: that thread's log, output and copy plans are what they are without the first thread
    {
        let a = vec!["init c0".to_string(), "panicinit".to_string(), "log 5 1".to_string(), "logs?".to_string()];
        let b = vec!["init c0".to_string(), "log 7 2".to_string(), "panicrecover".to_string(), "logs?".to_string(), "logreq 3".to_string(), "w null".to_string(), "fin".to_string(), "panicrecover".to_string(), "logs?".to_string()];
        let scripts = vec![a, b];
        for sched in [vec![0usize, 0, 1, 1, 1, 1, 1, 1, 1, 1, 1, 0, 0], vec![1, 1, 0, 0, 1, 1, 1, 1, 1, 1, 1, 0, 0], vec![0, 0, 0, 0, 1, 1, 1, 1, 1, 1, 1, 1, 1]] {
            rec.case("c14");
            rec.bump("panic-hook-across-threads");
            let obs = run_schedule(rec, &scripts, &sched);
            check_solo(rec, &scripts, &obs, "a recovered panic after another thread called init_panic_handler");
        }
    }
    // one thread makes a provider call that panics (an interned id it never got; caught by its caller): the other
    // thread's invocation goes on as if alone
    {
        let a = vec!["init c0".to_string(), format!("intern {}", hex0(b"k")), "w istr 4242".to_string(), "w null".to_string(), "fin".to_string()];
        let b = vec!["init c0".to_string(), "w arr 2".to_string(), "w i32 1".to_string(), "log 9 3".to_string(), "w i32 2".to_string(), "w endarr".to_string(), "fin".to_string(), "logs?".to_string()];
        let scripts = vec![a, b];
        for sched in [vec![1usize, 1, 1, 0, 0, 0, 1, 1, 0, 0, 1, 1, 1], vec![0, 0, 1, 1, 0, 1, 1, 1, 0, 0, 1, 1, 1]] {
            rec.case("c14");
            rec.bump("panicking-call-on-another-thread");
            let obs = run_schedule(rec, &scripts, &sched);
            check_solo(rec, &scripts, &obs, "another thread made a provider call that panics");
        }
    }
    // long values (their length is not in the handle: every query goes back to the provider) held by A while
    // B starts invocations, reads, writes and interns in between
    for (kind, n) in [(0u64, 16383usize), (0, 20000), (1, 16384), (1, 16390)] {
        let big = mp::gen_big(rng, n, kind);
        let mut a = vec![format!("init {}", hex0(&big)), "root".to_string(), "len h0".to_string(), "a.len h0".to_string()];
        if kind == 0 {
            a.push("str h0".to_string());
            a.push("a.str h0".to_string());
        } else {
            a.push(format!("idx h0 {}", n - 1));
            a.push("len h0".to_string());
        }
        a.push("a.len h0".to_string());
        let b = vec![
            format!("init {}", hex0(&gen_doc(rng, false))),
            "root".to_string(),
            format!("init {}", hex0(&[0x92, 0x01, 0xa1, b'x'])),
            "root".to_string(),
            "idx h0 1".to_string(),
            "w null".to_string(),
            "fin".to_string(),
        ];
        let scripts = vec![a.clone(), b.clone()];
        for sched in [
            vec![0usize, 0, 1, 0, 1, 0, 1, 0, 1, 0, 1, 0, 1, 1, 0, 0],
            vec![0, 0, 0, 1, 1, 1, 0, 0, 1, 1, 1, 1, 0, 0, 0, 0],
            vec![1, 0, 0, 1, 0, 1, 1, 0, 1, 1, 0, 1, 0, 0, 0, 0],
        ] {
            rec.case("c14");
            rec.bump("long-value-across-threads");
            let obs = run_schedule(rec, &scripts, &sched);
            check_solo(rec, &scripts, &obs, "long value held while another thread starts invocations");
        }
    }
    // random schedules
    for _ in 0..cases {
        let nt = if rng.chance(1, 3) { 3 } else { 2 };
        let scripts: Vec<Vec<String>> = (0..nt).map(|_| { let n = rng.range(2, 8) as usize; gen_thread_script(rng, n) }).collect();
        let total: usize = scripts.iter().map(|s| s.len()).sum();
        let mut sched = Vec::new();
        for _ in 0..(total * 3) {
            sched.push(rng.below(nt as u64) as usize);
        }
        for t in 0..nt {
            for _ in 0..scripts[t].len() {
                sched.push(t);
            }
        }
        rec.case("c14");
        let obs = run_schedule(rec, &scripts, &sched);
        check_solo(rec, &scripts, &obs, "random schedule");
    }
    // exhaustive interleavings of two short scripts
    let lens: &[(usize, usize)] = if thorough { &[(4, 4), (5, 3), (5, 4)] } else { &[(3, 3)] };
    for &(la, lb) in lens {
        let mk = |seed: u64, n: usize| -> Vec<String> {
            let mut v = vec!["init c0".to_string()];
            let all = [
                format!("logreq {}", 3 + seed),
                format!("logcopy {} {}", 3 + seed, seed),
                format!("w alloc {}", 2 + seed),
                format!("w copy {}", hex0(&vec![b'a' + seed as u8; 2 + seed as usize])),
                "logs?".to_string(),
            ];
            v.extend(all.iter().take(n - 1).cloned());
            v
        };
        let scripts = vec![mk(0, la), mk(1, lb)];
        // enumerate all interleavings as bitmasks
        let total = la + lb;
        let mut count = 0u64;
        for mask in 0u32..(1 << total) {
            if mask.count_ones() as usize != lb {
                continue;
            }
            let sched: Vec<usize> = (0..total).map(|i| ((mask >> i) & 1) as usize).collect();
            rec.case("c14x");
            let obs = run_schedule(rec, &scripts, &sched);
            // solo observations are computed once per script pair below; compare against the first
            if count == 0 {
                check_solo(rec, &scripts, &obs, "exhaustive interleaving (first)");
            }
            count += 1;
            // every interleaving must give each thread the same observations as the first one
            rec.bump("interleavings");
            let key = format!("{:?}", obs);
            if count == 1 {
                rec.hist.insert("first-obs-len".to_string(), key.len() as u64);
                INTERLEAVE_REF.with(|r| *r.borrow_mut() = key);
            } else {
                let same = INTERLEAVE_REF.with(|r| *r.borrow() == key);
                if !same {
                    rec.oracle_failures.push(format!(
                        "interleaving {:?} of scripts {:?} gives different per-thread observations",
                        sched, scripts
                    ));
                }
            }
        }
    }
}

thread_local! {
    static INTERLEAVE_REF: std::cell::RefCell<String> = std::cell::RefCell::new(String::new());
}
