//! MessagePack: raw document generator (every marker, non-minimal widths), mutators,
//! and an independent eager decoder used as the harness-side oracle.

use crate::util::*;

#[derive(Clone, Debug, PartialEq)]
pub enum Doc {
    Nil,
    Bool(bool),
    Int(i128),
    F32(u32),
    F64(u64),
    Str(Vec<u8>),
    Arr(Vec<Doc>),
    Map(Vec<(Doc, Doc)>),
}

pub fn show_doc(d: &Doc, sort_maps: bool) -> String {
    match d {
        Doc::Nil => "nil".into(),
        Doc::Bool(b) => if *b { "t" } else { "f" }.into(),
        Doc::Int(i) => format!("i{}", i),
        Doc::F32(b) => format!("g{:08x}", b),
        Doc::F64(b) => format!("d{:016x}", b),
        Doc::Str(s) => format!("s{}", hex0(s)),
        Doc::Arr(xs) => format!(
            "[{}]",
            xs.iter()
                .map(|x| show_doc(x, sort_maps))
                .collect::<Vec<_>>()
                .join(",")
        ),
        Doc::Map(ps) => {
            let mut items: Vec<String> = ps
                .iter()
                .map(|(k, v)| format!("{}:{}", show_doc(k, sort_maps), show_doc(v, sort_maps)))
                .collect();
            if sort_maps {
                items.sort();
            }
            format!("{{{}}}", items.join(","))
        }
    }
}

// ------------------------------------------------------------------ decoder (oracle)

fn be(b: &[u8], p: usize, n: usize) -> Option<u64> {
    if p.checked_add(n)? > b.len() {
        return None;
    }
    let mut v = 0u64;
    for i in 0..n {
        v = (v << 8) | b[p + i] as u64;
    }
    Some(v)
}

/// Sequential decoder of the supported subset. Returns (doc, end).
pub fn decode_at(b: &[u8], p: usize, depth: usize) -> Option<(Doc, usize)> {
    if depth > 4096 {
        return None;
    }
    let m = *b.get(p)?;
    let p1 = p + 1;
    let strd = |start: usize, len: usize| -> Option<(Doc, usize)> {
        let end = start.checked_add(len)?;
        if end > b.len() {
            return None;
        }
        Some((Doc::Str(b[start..end].to_vec()), end))
    };
    let arr = |mut q: usize, len: usize| -> Option<(Doc, usize)> {
        if len > b.len() {
            return None;
        }
        let mut xs = Vec::with_capacity(len);
        for _ in 0..len {
            let (d, e) = decode_at(b, q, depth + 1)?;
            xs.push(d);
            q = e;
        }
        Some((Doc::Arr(xs), q))
    };
    let map = |mut q: usize, len: usize| -> Option<(Doc, usize)> {
        if len > b.len() {
            return None;
        }
        let mut ps = Vec::with_capacity(len);
        for _ in 0..len {
            let (k, e) = decode_at(b, q, depth + 1)?;
            let (v, e2) = decode_at(b, e, depth + 1)?;
            ps.push((k, v));
            q = e2;
        }
        Some((Doc::Map(ps), q))
    };
    match m {
        0x00..=0x7f => Some((Doc::Int(m as i128), p1)),
        0xe0..=0xff => Some((Doc::Int((m as i8) as i128), p1)),
        0xc0 => Some((Doc::Nil, p1)),
        0xc2 => Some((Doc::Bool(false), p1)),
        0xc3 => Some((Doc::Bool(true), p1)),
        0xcc => Some((Doc::Int(be(b, p1, 1)? as i128), p1 + 1)),
        0xcd => Some((Doc::Int(be(b, p1, 2)? as i128), p1 + 2)),
        0xce => Some((Doc::Int(be(b, p1, 4)? as i128), p1 + 4)),
        0xcf => Some((Doc::Int(be(b, p1, 8)? as i128), p1 + 8)),
        0xd0 => Some((Doc::Int((be(b, p1, 1)? as u8 as i8) as i128), p1 + 1)),
        0xd1 => Some((Doc::Int((be(b, p1, 2)? as u16 as i16) as i128), p1 + 2)),
        0xd2 => Some((Doc::Int((be(b, p1, 4)? as u32 as i32) as i128), p1 + 4)),
        0xd3 => Some((Doc::Int((be(b, p1, 8)? as i64) as i128), p1 + 8)),
        0xca => Some((Doc::F32(be(b, p1, 4)? as u32), p1 + 4)),
        0xcb => Some((Doc::F64(be(b, p1, 8)?), p1 + 8)),
        0xa0..=0xbf => strd(p1, (m - 0xa0) as usize),
        0xd9 => strd(p1 + 1, be(b, p1, 1)? as usize),
        0xda => strd(p1 + 2, be(b, p1, 2)? as usize),
        0xdb => strd(p1 + 4, be(b, p1, 4)? as usize),
        0x90..=0x9f => arr(p1, (m - 0x90) as usize),
        0xdc => arr(p1 + 2, be(b, p1, 2)? as usize),
        0xdd => arr(p1 + 4, be(b, p1, 4)? as usize),
        0x80..=0x8f => map(p1, (m - 0x80) as usize),
        0xde => map(p1 + 2, be(b, p1, 2)? as usize),
        0xdf => map(p1 + 4, be(b, p1, 4)? as usize),
        _ => None,
    }
}

pub fn decode_all(b: &[u8]) -> Option<Doc> {
    let (d, e) = decode_at(b, 0, 0)?;
    if e == b.len() {
        Some(d)
    } else {
        None
    }
}

// ------------------------------------------------------------------ raw generator

pub struct GenCfg {
    pub max_depth: usize,
    pub max_children: usize,
    pub allow_nan: bool,
}

fn put_be(out: &mut Vec<u8>, v: u64, n: usize) {
    for i in (0..n).rev() {
        out.push((v >> (8 * i)) as u8);
    }
}

const BOUNDARY_U: &[u64] = &[
    0, 1, 127, 128, 255, 256, 32767, 32768, 65535, 65536, 0x7fff_ffff, 0x8000_0000, 0xffff_ffff,
    0x1_0000_0000, (1 << 53) - 1, 1 << 53, (1 << 53) + 1, (1 << 53) + 2, (1 << 53) + 3,
    (1 << 62) + 1, i64::MAX as u64, (i64::MAX as u64) + 1, u64::MAX - 1, u64::MAX,
    0xffff_ffff_ffff_fbff, 0xffff_ffff_ffff_fc00, 0xffff_ffff_ffff_f7ff, 0x0020_0000_0000_0001,
    0x0040_0000_0000_0001, 0x0040_0000_0000_0002, 0x0040_0000_0000_0003,
];

pub fn gen_int(rng: &mut Rng, out: &mut Vec<u8>) {
    let v: u64 = if rng.chance(1, 2) {
        *rng.pick(BOUNDARY_U)
    } else {
        let bits = rng.range(1, 64);
        rng.next() >> (64 - bits)
    };
    match rng.below(10) {
        0 => out.push((v % 128) as u8),
        1 => out.push(0xe0 | (v % 32) as u8),
        2 => {
            out.push(0xcc);
            put_be(out, v, 1)
        }
        3 => {
            out.push(0xcd);
            put_be(out, v, 2)
        }
        4 => {
            out.push(0xce);
            put_be(out, v, 4)
        }
        5 => {
            out.push(0xcf);
            put_be(out, v, 8)
        }
        6 => {
            out.push(0xd0);
            put_be(out, v, 1)
        }
        7 => {
            out.push(0xd1);
            put_be(out, v, 2)
        }
        8 => {
            out.push(0xd2);
            put_be(out, v, 4)
        }
        _ => {
            out.push(0xd3);
            // also negative boundary values
            let v = if rng.chance(1, 2) { v.wrapping_neg() } else { v };
            put_be(out, v, 8)
        }
    }
}

pub fn gen_float(rng: &mut Rng, out: &mut Vec<u8>, allow_nan: bool) {
    if rng.chance(1, 2) {
        // f32
        let mut bits = rng.next() as u32;
        match rng.below(6) {
            0 => bits &= 0x807f_ffff,                  // subnormal
            1 => bits = (bits & 0x8000_0000) | 0x7f80_0000, // inf
            2 => bits &= 0x8000_0000,                  // +-0
            _ => {}
        }
        if f32::from_bits(bits).is_nan() && !allow_nan {
            bits &= 0xbfff_ffff; // clear an exponent bit
            if f32::from_bits(bits).is_nan() {
                bits = 0x3f80_0000;
            }
        }
        out.push(0xca);
        put_be(out, bits as u64, 4);
    } else {
        let mut bits = rng.next();
        match rng.below(6) {
            0 => bits &= 0x800f_ffff_ffff_ffff,
            1 => bits = (bits & (1 << 63)) | 0x7ff0_0000_0000_0000,
            2 => bits &= 1 << 63,
            _ => {}
        }
        if f64::from_bits(bits).is_nan() && !allow_nan {
            bits &= 0xbfff_ffff_ffff_ffff;
            if f64::from_bits(bits).is_nan() {
                bits = 0x3ff0_0000_0000_0000;
            }
        }
        out.push(0xcb);
        put_be(out, bits, 8);
    }
}

pub fn put_str_hdr(rng: &mut Rng, out: &mut Vec<u8>, len: usize, minimal: bool) {
    let mut opts: Vec<u8> = Vec::new();
    if len < 32 {
        opts.push(0);
    }
    if len < 256 {
        opts.push(1);
    }
    if len < 65536 {
        opts.push(2);
    }
    opts.push(3);
    let c = if minimal { opts[0] } else { *rng.pick(&opts) };
    match c {
        0 => out.push(0xa0 | len as u8),
        1 => {
            out.push(0xd9);
            put_be(out, len as u64, 1)
        }
        2 => {
            out.push(0xda);
            put_be(out, len as u64, 2)
        }
        _ => {
            out.push(0xdb);
            put_be(out, len as u64, 4)
        }
    }
}

pub fn put_arr_hdr(rng: &mut Rng, out: &mut Vec<u8>, len: usize, minimal: bool) {
    let mut opts: Vec<u8> = Vec::new();
    if len < 16 {
        opts.push(0);
    }
    if len < 65536 {
        opts.push(1);
    }
    opts.push(2);
    let c = if minimal { opts[0] } else { *rng.pick(&opts) };
    match c {
        0 => out.push(0x90 | len as u8),
        1 => {
            out.push(0xdc);
            put_be(out, len as u64, 2)
        }
        _ => {
            out.push(0xdd);
            put_be(out, len as u64, 4)
        }
    }
}

pub fn put_map_hdr(rng: &mut Rng, out: &mut Vec<u8>, len: usize, minimal: bool) {
    let mut opts: Vec<u8> = Vec::new();
    if len < 16 {
        opts.push(0);
    }
    if len < 65536 {
        opts.push(1);
    }
    opts.push(2);
    let c = if minimal { opts[0] } else { *rng.pick(&opts) };
    match c {
        0 => out.push(0x80 | len as u8),
        1 => {
            out.push(0xde);
            put_be(out, len as u64, 2)
        }
        _ => {
            out.push(0xdf);
            put_be(out, len as u64, 4)
        }
    }
}

pub const KEYS: &[&str] = &["a", "b", "id", "key", "name", "ab", "", "k\u{e9}", "title", "x"];

pub fn gen_key(rng: &mut Rng) -> Vec<u8> {
    if rng.chance(1, 30) {
        return Vec::new(); // the empty string is a legal key (and a legal name to ask for)
    }
    if rng.chance(4, 5) {
        rng.pick(KEYS).as_bytes().to_vec()
    } else {
        let n = *rng.pick(&[1usize, 2, 5, 31, 32, 33, 40]);
        (0..n).map(|_| b'a' + rng.below(26) as u8).collect()
    }
}

pub fn gen_str_len(rng: &mut Rng) -> usize {
    match rng.below(12) {
        0 => 0,
        1 => 15,
        2 => 16,
        3 => 31,
        4 => 32,
        5 => 255,
        6 => 256,
        7 => rng.range(0, 40) as usize,
        _ => rng.range(0, 12) as usize,
    }
}

pub fn gen_value(rng: &mut Rng, cfg: &GenCfg, depth: usize, out: &mut Vec<u8>) {
    let leaf = depth >= cfg.max_depth;
    let k = if leaf { rng.below(6) } else { rng.below(10) };
    match k {
        0 => out.push(0xc0),
        1 => out.push(if rng.chance(1, 2) { 0xc2 } else { 0xc3 }),
        2 | 3 => gen_int(rng, out),
        4 => gen_float(rng, out, cfg.allow_nan),
        5 => {
            let n = gen_str_len(rng);
            put_str_hdr_r(rng, out, n);
            for _ in 0..n {
                out.push(b'a' + rng.below(26) as u8);
            }
        }
        6 | 7 => {
            let n = match rng.below(8) {
                0 => 0,
                1 => 15.min(cfg.max_children),
                2 => 16.min(cfg.max_children),
                3 => 17.min(cfg.max_children),
                _ => rng.range(0, cfg.max_children.min(5) as u64) as usize,
            };
            put_arr_hdr_r(rng, out, n);
            for _ in 0..n {
                gen_value(rng, cfg, depth + 1 + if n > 6 { cfg.max_depth } else { 0 }, out);
            }
        }
        _ => {
            let n = match rng.below(8) {
                0 => 0,
                1 => 15.min(cfg.max_children),
                2 => 16.min(cfg.max_children),
                _ => rng.range(0, cfg.max_children.min(5) as u64) as usize,
            };
            put_map_hdr_r(rng, out, n);
            for _ in 0..n {
                let key = gen_key(rng);
                put_str_hdr_r(rng, out, key.len());
                out.extend_from_slice(&key);
                gen_value(rng, cfg, depth + 1 + if n > 6 { cfg.max_depth } else { 0 }, out);
            }
        }
    }
}

/// One big container/string crossing a header-width or the 2^14-1 inline limit.
pub fn gen_big(rng: &mut Rng, n: usize, kind: u64) -> Vec<u8> {
    let mut out = Vec::new();
    match kind % 3 {
        0 => {
            put_str_hdr(rng, &mut out, n, true);
            for i in 0..n {
                out.push(b'a' + (i % 26) as u8);
            }
        }
        1 => {
            put_arr_hdr(rng, &mut out, n, true);
            for i in 0..n {
                if i % 1000 == 7 {
                    // a nested value now and then
                    out.extend_from_slice(&[0x92, 0x01, 0xa1, b'z']);
                } else {
                    out.push((i % 128) as u8);
                }
            }
        }
        _ => {
            put_map_hdr(rng, &mut out, n, true);
            for i in 0..n {
                let key = format!("k{}", i);
                put_str_hdr(rng, &mut out, key.len(), true);
                out.extend_from_slice(key.as_bytes());
                out.push((i % 128) as u8);
            }
        }
    }
    out
}

/// Wrap a document so the big value is reached nested / by name / by index.
pub fn wrap_nested(inner: &[u8]) -> Vec<u8> {
    // {"a": [nil, <inner>], "b": <inner>}
    let mut out = vec![0x82, 0xa1, b'a', 0x92, 0xc0];
    out.extend_from_slice(inner);
    out.extend_from_slice(&[0xa1, b'b']);
    out.extend_from_slice(inner);
    out
}

pub fn mutate(rng: &mut Rng, doc: &[u8]) -> Vec<u8> {
    let mut d = doc.to_vec();
    if d.is_empty() {
        return vec![rng.next() as u8];
    }
    match rng.below(9) {
        0 => {
            let n = rng.below(d.len() as u64) as usize;
            d.truncate(n);
        }
        1 => {
            let i = rng.below(d.len() as u64) as usize;
            d[i] ^= 1 << rng.below(8);
        }
        2 => {
            let i = rng.below(d.len() as u64) as usize;
            d[i] = *rng.pick(&[
                0xc1u8, 0xc4, 0xc5, 0xc6, 0xc7, 0xd4, 0xd8, 0xdb, 0xdd, 0xdf, 0xd9, 0xda, 0xdc,
                0xde, 0xca, 0xcb, 0xff, 0x9f, 0x8f, 0xbf,
            ]);
        }
        3 => {
            // tamper with a length field: find a marker with a length and bump it
            let idxs: Vec<usize> = (0..d.len())
                .filter(|&i| matches!(d[i], 0xd9..=0xdf | 0x80..=0xbf))
                .collect();
            if let Some(&i) = idxs.get(rng.below(idxs.len().max(1) as u64) as usize) {
                match d[i] {
                    0x80..=0xbf => {
                        let low = d[i] & 0x0f;
                        d[i] = (d[i] & 0xf0) | (low.wrapping_add(*rng.pick(&[1u8, 2, 15])) & 0x0f);
                    }
                    _ => {
                        if i + 1 < d.len() {
                            d[i + 1] = *rng.pick(&[0xffu8, 0x7f, 0x80, 0x00, 0x01]);
                        }
                    }
                }
            }
        }
        4 => {
            // splice: copy a random slice somewhere else
            let a = rng.below(d.len() as u64) as usize;
            let l = rng.range(1, 6) as usize;
            let b = rng.below(d.len() as u64) as usize;
            let slice: Vec<u8> = d[a..(a + l).min(d.len())].to_vec();
            for (j, x) in slice.iter().enumerate() {
                if b + j < d.len() {
                    d[b + j] = *x;
                }
            }
        }
        5 => {
            // NaN float somewhere
            let i = rng.below(d.len() as u64) as usize;
            let nan: &[u8] = if rng.chance(1, 2) {
                &[0xca, 0x7f, 0xc0, 0x00, 0x00]
            } else {
                &[0xcb, 0xff, 0xf8, 0, 0, 0, 0, 0, 1]
            };
            d.splice(i..i, nan.iter().copied());
            d.truncate(doc.len().max(nan.len()));
        }
        6 => {
            // non-string key: replace a fixstr marker by an int
            let idxs: Vec<usize> = (0..d.len()).filter(|&i| (0xa0..=0xbf).contains(&d[i])).collect();
            if let Some(&i) = idxs.get(rng.below(idxs.len().max(1) as u64) as usize) {
                d[i] = 0x05;
            }
        }
        7 => {
            let i = rng.below(d.len() as u64 + 1) as usize;
            d.insert(i.min(d.len()), rng.next() as u8);
        }
        _ => {
            let i = rng.below(d.len() as u64) as usize;
            d.remove(i);
        }
    }
    d
}

pub fn put_str_hdr_r(rng: &mut Rng, out: &mut Vec<u8>, len: usize) {
    let m = rng.chance(2, 3);
    put_str_hdr(rng, out, len, m)
}
pub fn put_arr_hdr_r(rng: &mut Rng, out: &mut Vec<u8>, len: usize) {
    let m = rng.chance(2, 3);
    put_arr_hdr(rng, out, len, m)
}
pub fn put_map_hdr_r(rng: &mut Rng, out: &mut Vec<u8>, len: usize) {
    let m = rng.chance(2, 3);
    put_map_hdr(rng, out, len, m)
}
