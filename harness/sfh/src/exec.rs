//! Executes one protocol line against the real crates on the current OS thread.

use crate::mp;
use crate::typed;
use crate::util::*;
use shopify_function_provider as prov;
use shopify_function_wasm_api as api;
use shopify_function_wasm_api_core::read::{ErrorCode, NanBox, Val, ValueRef};
use std::collections::HashMap;
use std::panic::{catch_unwind, AssertUnwindSafe};

pub const WIDTH: u32 = usize::BITS;

pub struct Exec {
    /// handle k -> raw NaN-box bits as the provider returned them
    pub handles: Vec<Val>,
    ptr_to_handle: HashMap<usize, usize>,
    last_alloc: usize,
    last_alloc_ok: bool,
    last_log_area: usize,
    last_intern_ptr: usize,
    /// api-level ids handed out on this thread, by number (the newtype is opaque)
    api_ids: std::collections::HashMap<usize, api::InternedStringId>,
    /// live allocations made through `palloc`: (address, length, pattern salt)
    allocs: Vec<(usize, usize, u8)>,
    zero_size_answer: Option<usize>,
    last_intern_len: usize,
    last_alloc_len: usize,
}

pub fn err_code(e: ErrorCode) -> usize {
    match e {
        ErrorCode::DecodeError => 0,
        ErrorCode::NotAnObject => 1,
        ErrorCode::ByteArrayOutOfBounds => 2,
        ErrorCode::ReadError => 3,
        ErrorCode::NotAnArray => 4,
        ErrorCode::IndexOutOfBounds => 5,
        ErrorCode::NotIndexable => 6,
        _ => 7,
    }
}

fn err_from_code(c: usize) -> Option<ErrorCode> {
    ErrorCode::from_repr(c)
}

fn write_err_code(e: &api::write::Error) -> usize {
    use api::write::Error::*;
    match e {
        IoError => 1,
        ExpectedKey => 2,
        ObjectLengthError => 3,
        ValueAlreadyWritten => 4,
        NotAnObject => 5,
        ValueNotFinished => 6,
        ArrayLengthError => 7,
        NotAnArray => 8,
        Unknown => 99,
        _ => 98,
    }
}

fn wr(r: Result<(), api::write::Error>) -> String {
    match r {
        Ok(()) => "0".to_string(),
        Err(e) => write_err_code(&e).to_string(),
    }
}

pub fn quiet<T>(f: impl FnOnce() -> T) -> Result<T, ()> {
    catch_unwind(AssertUnwindSafe(f)).map_err(|_| ())
}

impl Exec {
    pub fn new() -> Self {
        Exec {
            handles: Vec::new(),
            ptr_to_handle: HashMap::new(),
            last_alloc: 0,
            last_alloc_ok: false,
            last_log_area: 0,
            last_intern_ptr: 0,
            allocs: Vec::new(),
            zero_size_answer: None,
            api_ids: std::collections::HashMap::new(),
            last_intern_len: 0,
            last_alloc_len: 0,
        }
    }

    fn handle_for(&mut self, ptr: usize, bits: Val) -> usize {
        if let Some(k) = self.ptr_to_handle.get(&ptr) {
            // keep the most recent bits (identical in practice)
            self.handles[*k] = bits;
            return *k;
        }
        let k = self.handles.len();
        self.handles.push(bits);
        self.ptr_to_handle.insert(ptr, k);
        k
    }

    /// canonical rendering of a value returned by a read call
    pub fn fmtval(&mut self, bits: Val) -> String {
        let nb = NanBox::from_bits(bits);
        match quiet(|| nb.try_decode()) {
            Err(()) => "PANIC".to_string(),
            Ok(Err(_)) => "decode-error".to_string(),
            Ok(Ok(v)) => match v {
                ValueRef::Null => "null".to_string(),
                ValueRef::Bool(b) => format!("bool {}", b as u8),
                ValueRef::Number(n) => format!("num {:016x}", n.to_bits()),
                ValueRef::String { ptr, len } => {
                    let k = self.handle_for(ptr, bits);
                    format!("str h{} {}", k, len)
                }
                ValueRef::Object { ptr, len } => {
                    let k = self.handle_for(ptr, bits);
                    format!("obj h{} {}", k, len)
                }
                ValueRef::Array { ptr, len } => {
                    let k = self.handle_for(ptr, bits);
                    format!("arr h{} {}", k, len)
                }
                ValueRef::Error(e) => format!("err {}", err_code(e)),
            },
        }
    }

    /// scope token -> bits
    fn scope(&self, tok: &str) -> Option<Val> {
        if let Some(k) = tok.strip_prefix('h') {
            let k: usize = k.parse().ok()?;
            return self.handles.get(k).copied();
        }
        match tok {
            "null" => return Some(NanBox::null().to_bits()),
            "b0" => return Some(NanBox::bool(false).to_bits()),
            "b1" => return Some(NanBox::bool(true).to_bits()),
            _ => {}
        }
        if let Some(h) = tok.strip_prefix('n') {
            let bits = u64::from_str_radix(h, 16).ok()?;
            let f = f64::from_bits(bits);
            if f.is_nan() {
                return None;
            }
            return Some(NanBox::number(f).to_bits());
        }
        if let Some(c) = tok.strip_prefix('e') {
            let c: usize = c.parse().ok()?;
            return Some(NanBox::error(err_from_code(c)?).to_bits());
        }
        // null-pointer boxes: zs<len> zo<len> za<len>
        if let Some(l) = tok.strip_prefix("zs") {
            return Some(NanBox::string(0, l.parse().ok()?).to_bits());
        }
        if let Some(l) = tok.strip_prefix("zo") {
            return Some(NanBox::obj(0, l.parse().ok()?).to_bits());
        }
        if let Some(l) = tok.strip_prefix("za") {
            return Some(NanBox::array(0, l.parse().ok()?).to_bits());
        }
        if let Some(h) = tok.strip_prefix('x') {
            return Val::from_str_radix(h, 16).ok();
        }
        None
    }

    pub fn run_line(&mut self, line: &str) -> String {
        let toks: Vec<&str> = line.split_whitespace().collect();
        if toks.is_empty() {
            return "bad-op".to_string();
        }
        match quiet(|| self.dispatch(&toks)) {
            Ok(Some(s)) => s,
            Ok(None) => "bad-op".to_string(),
            Err(()) => "PANIC".to_string(),
        }
    }

    fn dispatch(&mut self, t: &[&str]) -> Option<String> {
        match t[0] {
            "width" => {
                let w: u32 = t.get(1)?.parse().ok()?;
                Some(if w == WIDTH {
                    format!("width {}", w)
                } else {
                    format!("width-mismatch impl={}", WIDTH)
                })
            }
            "init" => {
                let bytes = unhex(t.get(1)?)?;
                prov::initialize_from_msgpack_bytes(bytes);
                self.handles.clear();
                self.ptr_to_handle.clear();
                self.last_alloc = 0;
                self.last_alloc_ok = false;
                self.last_log_area = 0;
                Some("ok".to_string())
            }
            "ainit" => {
                // api level: Context::new_with_input(json) — the document is handed over as JSON and must
                // arrive in the provider as the bytes given here (the generator only sends documents that
                // are their own canonical encoding)
                let bytes = unhex(t.get(1)?)?;
                let doc = mp::decode_all(&bytes)?;
                let json = doc_to_json(&doc)?;
                let _ = api::Context::new_with_input(json);
                self.handles.clear();
                self.ptr_to_handle.clear();
                self.last_alloc = 0;
                self.last_alloc_ok = false;
                self.last_log_area = 0;
                let (base, ilen) = prov::verif::input_base();
                let got = unsafe { std::slice::from_raw_parts(base as *const u8, ilen) };
                if got == &bytes[..] {
                    Some("ok".to_string())
                } else {
                    Some(format!("INPUT-DIFFERS the provider holds {}", show_bytes(got)))
                }
            }
            "root" => {
                let v = prov::read::shopify_function_input_get();
                Some(self.fmtval(v))
            }
            "prop" => {
                let s = self.scope(t.get(1)?)?;
                let q = unhex(t.get(2)?)?;
                let v = prov::read::shopify_function_input_get_obj_prop(
                    s,
                    q.as_ptr() as usize,
                    q.len(),
                );
                Some(self.fmtval(v))
            }
            "aprop" => {
                // api level: Value::get_obj_prop(&str)
                let s = self.scope(t.get(1)?)?;
                let q = unhex(t.get(2)?)?;
                let val = api::Value::verif_from_bits(s);
                let qs = unsafe { std::str::from_utf8_unchecked(&q) };
                let r = val.get_obj_prop(qs);
                Some(self.fmtval(r.verif_to_bits()))
            }
            "iprop" => {
                let s = self.scope(t.get(1)?)?;
                let id: usize = t.get(2)?.parse().ok()?;
                let v = prov::read::shopify_function_input_get_interned_obj_prop(s, id);
                Some(self.fmtval(v))
            }
            "idx" => {
                let s = self.scope(t.get(1)?)?;
                let i: usize = t.get(2)?.parse().ok()?;
                let v = prov::read::shopify_function_input_get_at_index(s, i);
                Some(self.fmtval(v))
            }
            "key" => {
                let s = self.scope(t.get(1)?)?;
                let i: usize = t.get(2)?.parse().ok()?;
                let v = prov::read::shopify_function_input_get_obj_key_at_index(s, i);
                Some(self.fmtval(v))
            }
            "len" => {
                let s = self.scope(t.get(1)?)?;
                let n = prov::read::shopify_function_input_get_val_len(s);
                Some(if n == usize::MAX {
                    "-1".to_string()
                } else {
                    n.to_string()
                })
            }
            "str" => {
                // provider level string read: length query + address + bytes
                let s = self.scope(t.get(1)?)?;
                let ptr = match NanBox::from_bits(s).try_decode() {
                    Ok(ValueRef::String { ptr, .. })
                    | Ok(ValueRef::Array { ptr, .. })
                    | Ok(ValueRef::Object { ptr, .. }) => ptr,
                    _ => return Some("nostr".to_string()),
                };
                let n = prov::read::shopify_function_input_get_val_len(s);
                let addr = prov::read::shopify_function_input_get_utf8_str_addr(ptr);
                if addr == 0 {
                    return Some("nostr".to_string());
                }
                let (base, ilen) = prov::verif::input_base();
                let off = addr.wrapping_sub(base);
                if off <= ilen && n <= ilen - off {
                    let bytes = unsafe { std::slice::from_raw_parts(addr as *const u8, n) };
                    Some(format!("s off={} {}", off, show_bytes(bytes)))
                } else {
                    Some(format!("s off={} len={} OUTSIDE-INPUT", off, n))
                }
            }
            // ---- api level accessors on a Value built from the same bits
            "a.kind" => {
                let s = self.scope(t.get(1)?)?;
                let v = api::Value::verif_from_bits(s);
                Some(format!(
                    "bool={} null={} num={} obj={} arr={} err={}",
                    match v.as_bool() {
                        Some(b) => (b as u8).to_string(),
                        None => "-".into(),
                    },
                    v.is_null() as u8,
                    match v.as_number() {
                        Some(n) => format!("{:016x}", n.to_bits()),
                        None => "-".into(),
                    },
                    v.is_obj() as u8,
                    v.is_array() as u8,
                    match v.as_error() {
                        Some(e) => err_code(e).to_string(),
                        None => "-".into(),
                    }
                ))
            }
            "a.len" => {
                let s = self.scope(t.get(1)?)?;
                let v = api::Value::verif_from_bits(s);
                let f = |o: Option<usize>| match o {
                    Some(n) => n.to_string(),
                    None => "-".to_string(),
                };
                Some(format!("alen={} olen={}", f(v.array_len()), f(v.obj_len())))
            }
            "a.str" => {
                let s = self.scope(t.get(1)?)?;
                // guard: refuse to let the api allocate/copy a string the provider places outside the input
                if let Ok(ValueRef::String { ptr, .. }) = NanBox::from_bits(s).try_decode() {
                    let n = prov::read::shopify_function_input_get_val_len(s);
                    let addr = prov::read::shopify_function_input_get_utf8_str_addr(ptr);
                    let (base, ilen) = prov::verif::input_base();
                    let off = addr.wrapping_sub(base);
                    if addr != 0 && !(off <= ilen && n <= ilen - off) {
                        return Some(format!("s off={} len={} OUTSIDE-INPUT", off, n));
                    }
                }
                if let Ok(ValueRef::String { ptr: 0, .. }) = NanBox::from_bits(s).try_decode() {
                    return None; // a null string pointer is never dereferenced by the harness
                }
                let v = api::Value::verif_from_bits(s);
                Some(match v.as_string() {
                    Some(st) => format!("some {}", show_bytes(st.as_bytes())),
                    None => "none".to_string(),
                })
            }
            "a.key" => {
                let s = self.scope(t.get(1)?)?;
                let i: usize = t.get(2)?.parse().ok()?;
                let v = api::Value::verif_from_bits(s);
                Some(match v.get_obj_key_at_index(i) {
                    Some(st) => format!("some {}", show_bytes(st.as_bytes())),
                    None => "none".to_string(),
                })
            }
            // ---- writes
            "w" | "aw" => self.write_op(t),
            // fixed call sequences through the api crate's closure-taking container writers: every write
            // status as the api crate reports it (its own mapping of the provider's numeric codes)
            "logunwind" => {
                // a message logged through the api crate from a destructor that runs while a panic of the embedding
                // code unwinds (and is caught): it is logged like any other
                struct Guard(Vec<u8>);
                impl Drop for Guard {
                    fn drop(&mut self) {
                        let ms = unsafe { std::str::from_utf8_unchecked(&self.0) };
                        let mut c = api::Context;
                        c.log(ms);
                    }
                }
                let len: usize = t.get(1)?.parse().ok()?;
                let seed: u64 = t.get(2)?.parse().ok()?;
                let m = msg_bytes(len, seed);
                let r = std::panic::catch_unwind(move || {
                    let _g = Guard(m);
                    if std::hint::black_box(true) {
                        panic!("a panic of the embedding code with a logging destructor on the stack");
                    }
                });
                Some(if r.is_err() { "ok".to_string() } else { "no-panic".to_string() })
            }
            "panicinit" => {
                // the documented first step of a guest: natively it installs nothing
                api::init_panic_handler();
                Some("ok".to_string())
            }
            "panicrecover" => {
                // this thread's own code panics and recovers: nothing of the provider's is involved
                let r = std::panic::catch_unwind(|| {
                    if std::hint::black_box(true) {
                        panic!("a panic of the embedding code, caught by it");
                    }
                });
                Some(if r.is_err() { "recovered".to_string() } else { "no-panic".to_string() })
            }
            "palloc" => {
                // the exported allocator, called the way the trampoline's glue calls it
                extern "C" {
                    #[link_name = "_shopify_function_alloc"]
                    fn sf_alloc(size: usize) -> *mut std::ffi::c_void;
                }
                let n: usize = t.get(1)?.parse().ok()?;
                let p = unsafe { sf_alloc(n) } as usize;
                if n == 0 {
                    // nothing may be written through it; any non-null answer will do (the code uses address 1)
                    if p != 0 {
                        self.zero_size_answer = Some(p);
                    }
                    return Some(if p != 0 { "sentinel".to_string() } else { "zero-size request answered with null".to_string() });
                }
                if p == 0 || p < 4096 || Some(p) == self.zero_size_answer {
                    return Some(format!("BAD request of {} bytes answered with {}", n, if p == 0 { "null" } else { "the zero-size sentinel / a reserved low address" }));
                }
                let (ibase, ilen) = prov::verif::input_base();
                if p < ibase + ilen && ibase < p + n {
                    return Some("BAD overlaps the input".to_string());
                }
                for &(q, m, salt) in &self.allocs {
                    if p < q + m && q < p + n {
                        return Some("BAD overlaps a live allocation".to_string());
                    }
                    let ok = (0..m).all(|i| unsafe { *((q + i) as *const u8) } == (i as u8).wrapping_mul(31).wrapping_add(salt));
                    if !ok {
                        return Some("BAD an earlier allocation lost its contents".to_string());
                    }
                }
                let salt = (self.allocs.len() as u8).wrapping_mul(17).wrapping_add(3);
                for i in 0..n {
                    unsafe { *((p + i) as *mut u8) = (i as u8).wrapping_mul(31).wrapping_add(salt) };
                }
                if self.allocs.len() < 64 {
                    self.allocs.push((p, n, salt));
                }
                Some("fresh".to_string())
            }
            "awseq" => {
                use api::write::Error as E;
                let k: usize = t.get(1)?.parse().ok()?;
                let mut c = api::Context;
                let r: Result<(), E> = match k {
                    0 => c.write_array(|c| { let _ = c.write_object(|_| Err(E::IoError), 1); Ok(()) }, 1),
                    1 => c.write_object(|c| { c.write_utf8_str("k")?; let _ = c.write_array(|_| Err(E::IoError), 1); Ok(()) }, 1),
                    2 => c.write_object(|c| c.write_bool(true), 1),
                    3 => c.write_object(|_| Ok(()), 1),
                    4 => c.write_array(|_| Ok(()), 1),
                    5 => { let _ = c.write_bool(true); c.write_bool(false) }
                    6 => { let _ = c.write_array(|_| Err(E::IoError), 1); c.finalize_output_and_return().map(|_| ()) }
                    _ => return None,
                };
                Some(wr(r))
            }
            "fin" => {
                let (st, bytes) =
                    prov::write::shopify_function_output_finalize_and_return_msgpack_bytes();
                Some(format!("{} {}", st as usize, show_bytes(&bytes)))
            }
            "out?" => {
                let bytes = prov::verif::output_snapshot();
                Some(show_bytes(&bytes))
            }
            "outdoc?" => {
                // independent eager decode of the output bytes (oracle side, C02)
                let bytes = prov::verif::output_snapshot();
                Some(match mp::decode_all(&bytes) {
                    Some(d) => format!("doc {}", mp::show_doc(&d, false)),
                    None => "not-a-document".to_string(),
                })
            }
            // ---- logs
            "log" => {
                let len: usize = t.get(1)?.parse().ok()?;
                let seed: u64 = t.get(2)?.parse().ok()?;
                let m = msg_bytes(len, seed);
                let ms = unsafe { std::str::from_utf8_unchecked(&m) };
                let mut c = api::Context;
                c.log(ms);
                Some("ok".to_string())
            }
            "logreq" => {
                let len: usize = t.get(1)?.parse().ok()?;
                let area = prov::log::shopify_function_log_new_utf8_str(len) as usize;
                self.last_log_area = area;
                Some(format!("plan {}", self.show_plan(area)))
            }
            "logcopy" => {
                let len: usize = t.get(1)?.parse().ok()?;
                let seed: u64 = t.get(2)?.parse().ok()?;
                let m = msg_bytes(len, seed);
                let area = self.last_log_area;
                if area == 0 {
                    return Some("no-plan".to_string());
                }
                let shown = self.show_plan(area);
                let a = unsafe { *(area as *const [usize; 5]) };
                // exactly what the native glue does after the provider call
                let (src, d1, l1, d2, l2) = (a[0], a[1], a[2], a[3], a[4]);
                let (_, _, _, _, base, cap) = prov::verif::log_snapshot();
                let inside = |d: usize, l: usize| l == 0 || (d >= base && d - base + l <= cap);
                if src + l1 + l2 > m.len() || !inside(d1, l1) || !inside(d2, l2) {
                    return Some(format!("copied {} REFUSED-UNSAFE", shown));
                }
                unsafe {
                    std::ptr::copy(m.as_ptr().add(src), d1 as *mut u8, l1);
                    std::ptr::copy(m.as_ptr().add(src).add(l1), d2 as *mut u8, l2);
                }
                Some(format!("copied {}", shown))
            }
            "logs?" => {
                let (s1, s2, o1, o2, _base, cap) = prov::verif::log_snapshot();
                let (l1, l2) = prov::verif::log_read_lens();
                let mut all = s1.clone();
                all.extend_from_slice(&s2);
                Some(format!(
                    "seg {} {} {} {} cap={} {}",
                    o1,
                    l1,
                    match o2 {
                        Some(o) => o.to_string(),
                        None => "null".to_string(),
                    },
                    l2,
                    cap,
                    show_bytes(&all)
                ))
            }
            // ---- interning
            "intern" | "vintern" => {
                let b = unhex(t.get(1)?)?;
                let s = unsafe { std::str::from_utf8_unchecked(&b) };
                let id = if t[0] == "vintern" {
                    // the convenience method on a value
                    api::Value::verif_from_bits(NanBox::null().to_bits()).intern_utf8_str(s)
                } else {
                    api::Context.intern_utf8_str(s)
                };
                self.api_ids.insert(id_num(id), id);
                Some(format!("id {}", id_num(id)))
            }
            "aroot" => {
                // api level: Context::input_get
                match api::Context.input_get() {
                    Ok(v) => Some(self.fmtval(v.verif_to_bits())),
                    Err(_) => Some("context-error".to_string()),
                }
            }
            "aiprop" => {
                // api level: Value::get_interned_obj_prop with an id the api crate handed out on this thread
                // (any other number goes through the provider entry point, as `iprop` does)
                let s = self.scope(t.get(1)?)?;
                let id: usize = t.get(2)?.parse().ok()?;
                let v = match self.api_ids.get(&id) {
                    Some(aid) => api::Value::verif_from_bits(s).get_interned_obj_prop(*aid).verif_to_bits(),
                    None => prov::read::shopify_function_input_get_interned_obj_prop(s, id),
                };
                Some(self.fmtval(v))
            }
            "internreq" => {
                let n: usize = t.get(1)?.parse().ok()?;
                let r = prov::shopify_function_intern_utf8_str(n);
                let id = (r >> usize::BITS) as usize;
                self.last_intern_ptr = r as usize;
                self.last_intern_len = n;
                Some(format!("id {}", id))
            }
            "interncopy" => {
                let b = unhex(t.get(1)?)?;
                if self.last_intern_ptr == 0 {
                    return Some("no-dst".to_string());
                }
                if b.len() > self.last_intern_len {
                    return Some("copy-too-long".to_string());
                }
                unsafe { std::ptr::copy(b.as_ptr(), self.last_intern_ptr as *mut u8, b.len()) };
                self.last_intern_ptr = 0;
                Some("ok".to_string())
            }
            "cached" => {
                let b = unhex(t.get(1)?)?;
                let s: &'static str = Box::leak(String::from_utf8(b).ok()?.into_boxed_str());
                let c = api::CachedInternedStringId::new(s);
                let id1 = c.load();
                let id2 = c.load();
                if id1 != id2 {
                    return Some("cache-unstable".to_string());
                }
                Some(format!("id {}", id_num(id1)))
            }
            "cachedp" => {
                // handles on slices of ONE static string (same start address, different lengths): each is its own string
                let b = unhex(t.get(1)?)?;
                let k: usize = t.get(2)?.parse().ok()?;
                let text = String::from_utf8(b).ok()?;
                static BASES: std::sync::OnceLock<std::sync::Mutex<std::collections::HashMap<String, &'static str>>> = std::sync::OnceLock::new();
                let base: &'static str = {
                    let mut m = BASES.get_or_init(|| std::sync::Mutex::new(std::collections::HashMap::new())).lock().ok()?;
                    *m.entry(text.clone()).or_insert_with(|| Box::leak(text.clone().into_boxed_str()))
                };
                if k > base.len() || !base.is_char_boundary(k) {
                    return None;
                }
                let c = api::CachedInternedStringId::new(&base[..k]);
                let id1 = c.load();
                let id2 = c.load();
                if id1 != id2 {
                    return Some("cache-unstable".to_string());
                }
                self.api_ids.insert(id_num(id1), id1);
                Some(format!("id {}", id_num(id1)))
            }
            "cacheds" => {
                // the same through a handle that lives for the whole process and is shared by every thread,
                // as the `static`s a guest declares are
                let b = unhex(t.get(1)?)?;
                let text = String::from_utf8(b).ok()?;
                static HANDLES: std::sync::OnceLock<std::sync::Mutex<std::collections::HashMap<String, &'static api::CachedInternedStringId>>> = std::sync::OnceLock::new();
                let h: &'static api::CachedInternedStringId = {
                    let mut m = HANDLES.get_or_init(|| std::sync::Mutex::new(std::collections::HashMap::new())).lock().ok()?;
                    *m.entry(text.clone()).or_insert_with(|| {
                        let s: &'static str = Box::leak(text.clone().into_boxed_str());
                        Box::leak(Box::new(api::CachedInternedStringId::new(s)))
                    })
                };
                let id1 = h.load();
                let id2 = h.load();
                if id1 != id2 {
                    return Some("cache-unstable".to_string());
                }
                Some(format!("id {}", id_num(id1)))
            }
            // ---- nan boxes (pure)
            "box" => {
                let kind = *t.get(1)?;
                let v = match kind {
                    "null" => NanBox::null(),
                    "bool" => NanBox::bool(t.get(2)?.parse::<u8>().ok()? != 0),
                    "err" => NanBox::error(err_from_code(t.get(2)?.parse().ok()?)?),
                    "num" => {
                        NanBox::number(f64::from_bits(u64::from_str_radix(t.get(2)?, 16).ok()?))
                    }
                    "str" | "obj" | "arr" => {
                        let p: usize = t.get(2)?.parse().ok()?;
                        let l: usize = t.get(3)?.parse().ok()?;
                        match kind {
                            "str" => NanBox::string(p, l),
                            "obj" => NanBox::obj(p, l),
                            _ => NanBox::array(p, l),
                        }
                    }
                    _ => return None,
                };
                Some(format!("{:x}", v.to_bits()))
            }
            "unbox" => {
                let bits = Val::from_str_radix(t.get(1)?, 16).ok()?;
                Some(match NanBox::from_bits(bits).try_decode() {
                    Err(_) => "decode-error".to_string(),
                    Ok(v) => match v {
                        ValueRef::Null => "null".to_string(),
                        ValueRef::Bool(b) => format!("bool {}", b as u8),
                        ValueRef::Number(n) => format!("num {:016x}", n.to_bits()),
                        ValueRef::String { ptr, len } => format!("str {} {}", ptr, len),
                        ValueRef::Object { ptr, len } => format!("obj {} {}", ptr, len),
                        ValueRef::Array { ptr, len } => format!("arr {} {}", ptr, len),
                        ValueRef::Error(e) => format!("err {}", err_code(e)),
                    },
                })
            }
            "maxlen?" => Some(format!("{}", NanBox::MAX_VALUE_LENGTH)),
            // ---- typed layer
            "deint" => {
                let ty = *t.get(1)?;
                let bits = u64::from_str_radix(t.get(2)?, 16).ok()?;
                let mut doc = vec![0xcbu8];
                doc.extend_from_slice(&bits.to_be_bytes());
                prov::initialize_from_msgpack_bytes(doc);
                self.handles.clear();
                self.ptr_to_handle.clear();
                let root = api::Value::verif_from_bits(prov::read::shopify_function_input_get());
                typed::deint(ty, &root)
            }
            "serrt" => {
                let ty = *t.get(1)?;
                let val = *t.get(2)?;
                prov::initialize_from_msgpack_bytes(vec![0xc0]);
                self.handles.clear();
                self.ptr_to_handle.clear();
                typed::serrt(ty, val)
            }
            "de" => {
                let ty = *t.get(1)?;
                let doc = unhex(t.get(2)?)?;
                prov::initialize_from_msgpack_bytes(doc);
                self.handles.clear();
                self.ptr_to_handle.clear();
                let root = api::Value::verif_from_bits(prov::read::shopify_function_input_get());
                typed::de(ty, &root)
            }
            _ => None,
        }
    }

    fn show_plan(&self, area: usize) -> String {
        let a = unsafe { *(area as *const [usize; 5]) };
        let (_, _, _, _, base, _cap) = prov::verif::log_snapshot();
        let off = |p: usize| {
            if p == 0 {
                "null".to_string()
            } else {
                (p.wrapping_sub(base) as isize).to_string()
            }
        };
        format!("{} {} {} {} {}", a[0], off(a[1]), a[2], off(a[3]), a[4])
    }

    fn write_op(&mut self, t: &[&str]) -> Option<String> {
        let apilevel = t[0] == "aw";
        let mut c = api::Context;
        let what = *t.get(1)?;
        Some(match what {
            "bool" => {
                let n: u32 = t.get(2)?.parse().ok()?;
                if apilevel {
                    wr(c.write_bool(n != 0))
                } else {
                    (prov::write::shopify_function_output_new_bool(n) as usize).to_string()
                }
            }
            "null" => {
                if apilevel {
                    wr(c.write_null())
                } else {
                    (prov::write::shopify_function_output_new_null() as usize).to_string()
                }
            }
            "i32" => {
                let n: i32 = t.get(2)?.parse().ok()?;
                if apilevel {
                    wr(c.write_i32(n))
                } else {
                    (prov::write::shopify_function_output_new_i32(n) as usize).to_string()
                }
            }
            "f64" => {
                let f = f64::from_bits(u64::from_str_radix(t.get(2)?, 16).ok()?);
                if apilevel {
                    wr(c.write_f64(f))
                } else {
                    (prov::write::shopify_function_output_new_f64(f) as usize).to_string()
                }
            }
            "str" => {
                let b = unhex(t.get(2)?)?;
                if apilevel {
                    let s = unsafe { std::str::from_utf8_unchecked(&b) };
                    wr(c.write_utf8_str(s))
                } else {
                    // the native glue, spelled out at provider level
                    let r = prov::write::shopify_function_output_new_utf8_str(b.len());
                    let st = (r >> usize::BITS) as usize;
                    let dst = r as usize;
                    if st == 0 {
                        unsafe { std::ptr::copy(b.as_ptr(), dst as *mut u8, b.len()) };
                    }
                    st.to_string()
                }
            }
            "alloc" => {
                let n: usize = t.get(2)?.parse().ok()?;
                let r = prov::write::shopify_function_output_new_utf8_str(n);
                let st = (r >> usize::BITS) as usize;
                self.last_alloc = r as usize;
                self.last_alloc_ok = st == 0;
                self.last_alloc_len = n;
                format!(
                    "{} {}",
                    st,
                    if self.last_alloc == 0 {
                        "null"
                    } else {
                        "dst"
                    }
                )
            }
            "copy" => {
                let b = unhex(t.get(2)?)?;
                if self.last_alloc == 0 || !self.last_alloc_ok {
                    "no-dst".to_string()
                } else if b.len() > self.last_alloc_len {
                    "copy-too-long".to_string()
                } else {
                    unsafe { std::ptr::copy(b.as_ptr(), self.last_alloc as *mut u8, b.len()) };
                    self.last_alloc = 0;
                    "ok".to_string()
                }
            }
            "istr" => {
                let id: usize = t.get(2)?.parse().ok()?;
                match (apilevel, self.api_ids.get(&id)) {
                    (true, Some(aid)) => wr(c.write_interned_utf8_str(*aid)),
                    _ => (prov::write::shopify_function_output_new_interned_utf8_str(id) as usize).to_string(),
                }
            }
            "obj" => {
                let n: usize = t.get(2)?.parse().ok()?;
                (prov::write::shopify_function_output_new_object(n) as usize).to_string()
            }
            "endobj" => {
                (prov::write::shopify_function_output_finish_object() as usize).to_string()
            }
            "arr" => {
                let n: usize = t.get(2)?.parse().ok()?;
                (prov::write::shopify_function_output_new_array(n) as usize).to_string()
            }
            "endarr" => (prov::write::shopify_function_output_finish_array() as usize).to_string(),
            _ => return None,
        })
    }
}

fn doc_to_json(d: &mp::Doc) -> Option<serde_json::Value> {
    use serde_json::Value as J;
    Some(match d {
        mp::Doc::Nil => J::Null,
        mp::Doc::Bool(b) => J::Bool(*b),
        mp::Doc::Int(i) => {
            if *i >= 0 {
                J::Number(serde_json::Number::from(u64::try_from(*i).ok()?))
            } else {
                J::Number(serde_json::Number::from(i64::try_from(*i).ok()?))
            }
        }
        mp::Doc::F32(_) => return None,
        mp::Doc::F64(b) => J::Number(serde_json::Number::from_f64(f64::from_bits(*b))?),
        mp::Doc::Str(s) => J::String(String::from_utf8(s.clone()).ok()?),
        mp::Doc::Arr(a) => J::Array(a.iter().map(doc_to_json).collect::<Option<Vec<_>>>()?),
        mp::Doc::Map(m) => {
            let mut o = serde_json::Map::new();
            for (k, v) in m {
                match k {
                    mp::Doc::Str(s) => {
                        o.insert(String::from_utf8(s.clone()).ok()?, doc_to_json(v)?);
                    }
                    _ => return None,
                }
            }
            J::Object(o)
        }
    })
}

pub fn id_num(id: api::InternedStringId) -> usize {
    // InternedStringId's field is private; Debug prints `InternedStringId(n)`
    let s = format!("{:?}", id);
    s.trim_start_matches("InternedStringId(")
        .trim_end_matches(')')
        .parse()
        .unwrap_or(usize::MAX)
}
