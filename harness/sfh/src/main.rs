//! sfh — correspondence harness for shopify-function-wasm-api (core / provider / api crates).
//!
//!   sfh run  < ops.txt > impl.txt          execute an operation file against the real crates
//!   sfh gen <prop> <tier> <seed> <ops-out> <impl-out>   generate operations online (the generator
//!                                          looks at the implementation's answers to know which
//!                                          handles exist) and record ops + answers
mod exec;
mod gen;
mod mp;
mod sweeps;
mod typed;
mod util;

use std::collections::HashMap;
use std::io::{BufRead, Write};
use std::sync::mpsc::{channel, Receiver, Sender};

struct Worker {
    tx: Sender<Option<String>>,
    rx: Receiver<String>,
    join: Option<std::thread::JoinHandle<()>>,
}

/// Runs protocol lines; `thread <t>` selects the OS thread the following lines run on
/// (baton passing: exactly one worker runs at a time), `case <id>` drops all workers so
/// every case starts on fresh threads (fresh thread-locals).
pub struct Engine {
    workers: HashMap<u32, Worker>,
    cur: u32,
}

impl Engine {
    pub fn new() -> Self {
        Engine {
            workers: HashMap::new(),
            cur: 0,
        }
    }

    fn drop_workers(&mut self) {
        for (_, mut w) in self.workers.drain() {
            let _ = w.tx.send(None);
            if let Some(j) = w.join.take() {
                let _ = j.join();
            }
        }
    }

    fn worker(&mut self, t: u32) -> &Worker {
        self.workers.entry(t).or_insert_with(|| {
            let (tx, wrx) = channel::<Option<String>>();
            let (wtx, rx) = channel::<String>();
            let join = std::thread::Builder::new()
                .stack_size(256 << 20)
                .spawn(move || {
                    let mut ex = exec::Exec::new();
                    while let Ok(Some(line)) = wrx.recv() {
                        let ans = ex.run_line(&line);
                        if wtx.send(ans).is_err() {
                            break;
                        }
                    }
                })
                .expect("spawn");
            Worker {
                tx,
                rx,
                join: Some(join),
            }
        })
    }

    pub fn line(&mut self, line: &str) -> String {
        let l = line.trim();
        if let Some(id) = l.strip_prefix("case ") {
            self.drop_workers();
            self.cur = 0;
            return format!("case {}", id.trim());
        }
        if let Some(t) = l.strip_prefix("thread ") {
            return match t.trim().parse::<u32>() {
                Ok(t) => {
                    self.cur = t;
                    format!("thread {}", t)
                }
                Err(_) => "bad-op".to_string(),
            };
        }
        if l.is_empty() || l.starts_with('#') {
            return l.to_string();
        }
        let cur = self.cur;
        let w = self.worker(cur);
        if w.tx.send(Some(l.to_string())).is_err() {
            return "DEAD".to_string();
        }
        match w.rx.recv() {
            Ok(a) => a,
            Err(_) => "DEAD".to_string(),
        }
    }
}

impl Drop for Engine {
    fn drop(&mut self) {
        self.drop_workers();
    }
}

fn main() {
    std::panic::set_hook(Box::new(|_| {}));
    let args: Vec<String> = std::env::args().collect();
    match args.get(1).map(|s| s.as_str()) {
        Some("run") => {
            let stdin = std::io::stdin();
            let stdout = std::io::stdout();
            let mut out = std::io::BufWriter::new(stdout.lock());
            let mut eng = Engine::new();
            for line in stdin.lock().lines() {
                let line = match line {
                    Ok(l) => l,
                    Err(_) => break,
                };
                let a = eng.line(&line);
                let _ = writeln!(out, "{}", a);
            }
        }
        Some("gen") => {
            let prop = args.get(2).expect("prop");
            let tier = args.get(3).expect("tier");
            let seed: u64 = args.get(4).expect("seed").parse().expect("seed int");
            let ops_path = args.get(5).expect("ops path");
            let impl_path = args.get(6).expect("impl path");
            let mut rec = gen::Rec::new(ops_path, impl_path);
            gen::generate(prop, tier, seed, &mut rec);
            rec.finish();
        }
        _ => {
            eprintln!("usage: sfh run | sfh gen <prop> <tier> <seed> <ops> <impl>");
            std::process::exit(2);
        }
    }
}
