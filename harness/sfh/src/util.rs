//! Small shared helpers: PRNG, hex, hashing, deterministic message bytes.

#[derive(Clone)]
pub struct Rng(pub u64);

impl Rng {
    pub fn new(seed: u64) -> Self {
        let mut r = Rng(seed ^ 0x9E37_79B9_7F4A_7C15);
        if r.0 == 0 {
            r.0 = 0x1234_5678_9ABC_DEF1;
        }
        for _ in 0..4 {
            r.next();
        }
        r
    }
    pub fn next(&mut self) -> u64 {
        // xorshift64*
        let mut x = self.0;
        x ^= x >> 12;
        x ^= x << 25;
        x ^= x >> 27;
        self.0 = x;
        x.wrapping_mul(0x2545_F491_4F6C_DD1D)
    }
    pub fn below(&mut self, n: u64) -> u64 {
        if n == 0 {
            0
        } else {
            self.next() % n
        }
    }
    pub fn range(&mut self, lo: u64, hi: u64) -> u64 {
        lo + self.below(hi - lo + 1)
    }
    pub fn chance(&mut self, num: u64, den: u64) -> bool {
        self.below(den) < num
    }
    pub fn pick<'a, T>(&mut self, xs: &'a [T]) -> &'a T {
        &xs[self.below(xs.len() as u64) as usize]
    }
}

pub fn hex(bytes: &[u8]) -> String {
    let mut s = String::with_capacity(bytes.len() * 2);
    for b in bytes {
        s.push_str(&format!("{:02x}", b));
    }
    s
}

pub fn unhex(s: &str) -> Option<Vec<u8>> {
    if s == "-" {
        return Some(Vec::new());
    }
    if s.len() % 2 != 0 {
        return None;
    }
    let mut v = Vec::with_capacity(s.len() / 2);
    let b = s.as_bytes();
    for i in (0..b.len()).step_by(2) {
        let h = (b[i] as char).to_digit(16)?;
        let l = (b[i + 1] as char).to_digit(16)?;
        v.push((h * 16 + l) as u8);
    }
    Some(v)
}

/// hex of an empty byte string is written `-` so that every token is non-empty
pub fn hex0(bytes: &[u8]) -> String {
    if bytes.is_empty() {
        "-".to_string()
    } else {
        hex(bytes)
    }
}

pub fn fnv64(bytes: &[u8]) -> u64 {
    let mut h: u64 = 0xcbf29ce484222325;
    for b in bytes {
        h ^= *b as u64;
        h = h.wrapping_mul(0x100000001b3);
    }
    h
}

/// `<len>:<hex>` for short byte strings, `<len>:#<fnv64>` for long ones.
pub fn show_bytes(bytes: &[u8]) -> String {
    if bytes.len() <= 96 {
        format!("{}:{}", bytes.len(), hex0(bytes))
    } else {
        format!("{}:#{:016x}", bytes.len(), fnv64(bytes))
    }
}

/// The deterministic message used by `log <len> <seed>` (both sides compute it).
pub fn msg_bytes(len: usize, seed: u64) -> Vec<u8> {
    if seed >= 1000 {
        // multi-byte text: `seed % 3` ASCII letters, then as many three-byte characters (U+20AC) as fit,
        // then ASCII padding — valid UTF-8 whose character boundaries fall anywhere relative to the ring
        let lead = (seed % 3) as usize;
        let full = len.saturating_sub(lead) / 3 * 3;
        return (0..len)
            .map(|i| {
                if i < lead {
                    b'a'
                } else {
                    let j = i - lead;
                    if j < full {
                        [0xe2u8, 0x82, 0xac][j % 3]
                    } else {
                        b'z'
                    }
                }
            })
            .collect();
    }
    (0..len)
        .map(|i| {
            let i = i as u64;
            // printable-ish ASCII keeps the bytes valid UTF-8 for the api-level `&str`
            (32 + (seed + i * 7 + i / 89) % 95) as u8
        })
        .collect()
}
