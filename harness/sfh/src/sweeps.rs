//! Dense native sweeps over sizes (oracle leg only; nothing here goes through the Lean model).
//!
//! The theorems hold for every size. The correspondence run ties model and code at sampled sizes
//! (the model driver is quadratic in some of them). A change that introduces a size-dependent
//! shortcut — a constant nobody can guess (24 KiB, 4096 entries, 1 MiB / size_of::<T>()) with a `>`
//! on one side and a `>=` on the other — is only visible at that size, so every size up to a bound
//! is tried here against expectations that are trivially right (the bytes that were put in).
//! Every sweep runs on fresh threads (fresh thread-local provider state) under `catch_unwind`.

use shopify_function_provider as prov;
use shopify_function_wasm_api_core::read::{NanBox, Val, ValueRef};
use std::panic::{catch_unwind, AssertUnwindSafe};

pub struct Sweep {
    pub name: &'static str,
    pub points: usize,
    pub failures: Vec<String>,
}

fn pat(len: usize, salt: usize) -> Vec<u8> {
    (0..len).map(|i| b'a' + ((i * 31 + salt * 7 + i / 251) % 26) as u8).collect()
}

fn str_hdr(out: &mut Vec<u8>, len: usize) {
    if len < 32 {
        out.push(0xa0 + len as u8);
    } else if len < 256 {
        out.push(0xd9);
        out.push(len as u8);
    } else if len < 65536 {
        out.push(0xda);
        out.extend_from_slice(&(len as u16).to_be_bytes());
    } else {
        out.push(0xdb);
        out.extend_from_slice(&(len as u32).to_be_bytes());
    }
}

fn mp_str(out: &mut Vec<u8>, s: &[u8]) {
    str_hdr(out, s.len());
    out.extend_from_slice(s);
}

/// the bytes of the string a handle denotes, read the way a guest does (length query, address,
/// bytes inside the input)
fn read_str(handle: Val) -> Result<Vec<u8>, String> {
    let ptr = match NanBox::from_bits(handle).try_decode() {
        Ok(ValueRef::String { ptr, .. }) => ptr,
        other => return Err(format!("not a string handle: {:?}", other.map(|_| ()).map_err(|_| ()))),
    };
    let n = prov::read::shopify_function_input_get_val_len(handle);
    let addr = prov::read::shopify_function_input_get_utf8_str_addr(ptr);
    let (base, ilen) = prov::verif::input_base();
    let off = addr.wrapping_sub(base);
    if addr == 0 || off > ilen || n > ilen - off {
        return Err(format!("string outside the input (off {} len {})", off, n));
    }
    Ok(unsafe { std::slice::from_raw_parts(addr as *const u8, n) }.to_vec())
}

fn on_fresh_thread<F: FnOnce() -> Vec<String> + Send + 'static>(f: F) -> Vec<String> {
    match std::thread::spawn(move || catch_unwind(AssertUnwindSafe(f))).join() {
        Ok(Ok(v)) => v,
        _ => vec!["PANIC".to_string()],
    }
}

fn lengths(thorough: bool, dense_to: usize, max: usize) -> Vec<usize> {
    let mut v: Vec<usize> = (0..=dense_to).collect();
    if thorough {
        v.extend(dense_to + 1..=max);
    } else {
        let mut k = (dense_to / 256 + 1) * 256;
        while k <= max {
            v.extend_from_slice(&[k - 1, k, k + 1]);
            k += 256;
        }
    }
    v.sort();
    v.dedup();
    v
}

// ------------------------------------------------------------------------------------ interning

/// every length: intern (in one piece for even lengths, reservation + copy for odd ones), then
/// the id must write the bytes that were interned and find the property they name; earlier ids of the
/// thread keep resolving
pub fn intern_lengths(thorough: bool) -> Sweep {
    let lens = lengths(thorough, 4200, 70000);
    let mut failures = Vec::new();
    let points = lens.len();
    for chunk in lens.chunks(48) {
        let chunk: Vec<usize> = chunk.to_vec();
        let c2 = chunk.clone();
        let fs = on_fresh_thread(move || {
            let mut fails = Vec::new();
            let mut ids: Vec<(usize, Vec<u8>)> = Vec::new();
            for &l in &c2 {
                let bytes = pat(l, l);
                // input: { <bytes>: 7, "zz": 8 }
                let mut doc = vec![0x82u8];
                mp_str(&mut doc, &bytes);
                doc.push(0x07);
                mp_str(&mut doc, b"zz#");
                doc.push(0x08);
                prov::initialize_from_msgpack_bytes(doc);
                let r = prov::shopify_function_intern_utf8_str(l);
                let id = (r >> usize::BITS) as usize;
                let dst = r as usize;
                unsafe { std::ptr::copy(bytes.as_ptr(), dst as *mut u8, l) };
                ids.push((id, bytes));
                // use every id interned so far on this thread at the newest and the oldest end
                let probe: Vec<usize> = if ids.len() == 1 { vec![0] } else { vec![ids.len() - 1, 0, ids.len() / 2] };
                for (round, &k) in probe.iter().enumerate() {
                    let (pid, pbytes) = &ids[k];
                    if round == 0 {
                        let root = prov::read::shopify_function_input_get();
                        let v = prov::read::shopify_function_input_get_interned_obj_prop(root, *pid);
                        match NanBox::from_bits(v).try_decode() {
                            Ok(ValueRef::Number(n)) if n == 7.0 => {}
                            _ => fails.push(format!("len {}: lookup by the id of the {}-byte key does not find its value", l, pbytes.len())),
                        }
                    }
                    prov::initialize_from_msgpack_bytes(vec![0xc0]);
                    let st = prov::write::shopify_function_output_new_interned_utf8_str(*pid) as usize;
                    let (fst, out) = prov::write::shopify_function_output_finalize_and_return_msgpack_bytes();
                    let mut expect = Vec::new();
                    mp_str(&mut expect, pbytes);
                    if st != 0 || fst as usize != 0 || out != expect {
                        fails.push(format!("len {}: writing by the id of a {}-byte interned string gives other bytes (status {})", l, pbytes.len(), st));
                    }
                }
            }
            fails
        });
        for f in fs {
            let f = if f == "PANIC" {
                // which length? each one alone on a thread of its own
                let single = chunk.iter().copied().find(|&l| {
                    on_fresh_thread(move || {
                        let bytes = pat(l, l);
                        prov::initialize_from_msgpack_bytes(vec![0xc0]);
                        let r = prov::shopify_function_intern_utf8_str(l);
                        unsafe { std::ptr::copy(bytes.as_ptr(), (r as usize) as *mut u8, l) };
                        let _ = prov::write::shopify_function_output_new_interned_utf8_str((r >> usize::BITS) as usize);
                        Vec::new()
                    }) == vec!["PANIC".to_string()]
                });
                match single {
                    Some(l) => format!("PANIC: interning a string of {} bytes on a fresh thread and writing it by its id", l),
                    None => format!("PANIC while interning / using lengths {}..={} one after the other on one thread", chunk[0], chunk[chunk.len() - 1]),
                }
            } else {
                f
            };
            if failures.len() < 8 {
                failures.push(f);
            }
        }
    }
    Sweep { name: "intern-lengths", points, failures }
}

// ------------------------------------------------------------------------------------ containers

fn entry(name: &str, i: usize) -> Vec<u8> {
    // lengths vary with the index so that a handle that slips to another entry shows
    let mut s = format!("{}-{}", name, i).into_bytes();
    s.extend(std::iter::repeat(b'.').take(i % 7));
    s
}

fn sibling_doc(n: usize, map: bool) -> Vec<u8> {
    let mut d = vec![0x82u8];
    for name in ["codes", "tags"] {
        mp_str(&mut d, name.as_bytes());
        if n < 16 {
            d.push(if map { 0x80 } else { 0x90 } + n as u8);
        } else if n < 65536 {
            d.push(if map { 0xde } else { 0xdc });
            d.extend_from_slice(&(n as u16).to_be_bytes());
        } else {
            d.push(if map { 0xdf } else { 0xdd });
            d.extend_from_slice(&(n as u32).to_be_bytes());
        }
        for i in 0..n {
            if map {
                mp_str(&mut d, format!("k{}", i).as_bytes());
            }
            mp_str(&mut d, &entry(name, i));
        }
    }
    d
}

/// two sibling containers of `n` entries: the first is read completely, every handle of the second
/// is kept while the rest is read, and afterwards every kept handle must still read its own entry
pub fn container_sizes(thorough: bool) -> Sweep {
    let mut ns: Vec<usize> = (0..=if thorough { 2100 } else { 600 }).collect();
    let mut k = 1024usize;
    while k <= if thorough { 131072 } else { 65536 } {
        ns.extend_from_slice(&[k - 1, k, k + 1, k + 4, k + k / 2 + 1]);
        k *= 2;
    }
    ns.sort();
    ns.dedup();
    let points = ns.len() * 2;
    let mut failures = Vec::new();
    for chunk in ns.chunks(64) {
        let chunk: Vec<usize> = chunk.to_vec();
        let c2 = chunk.clone();
        let fs = on_fresh_thread(move || {
            let mut fails = Vec::new();
            for &n in &c2 {
                for map in [false, true] {
                    prov::initialize_from_msgpack_bytes(sibling_doc(n, map));
                    let root = prov::read::shopify_function_input_get();
                    let get = |name: &str| prov::read::shopify_function_input_get_obj_prop(root, name.as_ptr() as usize, name.len());
                    let codes = get("codes");
                    for i in 0..n {
                        let h = prov::read::shopify_function_input_get_at_index(codes, i);
                        if i % 97 == 0 && read_str(h).ok() != Some(entry("codes", i)) {
                            fails.push(format!("n={} map={}: fresh read of codes[{}] is wrong", n, map, i));
                            break;
                        }
                    }
                    let tags = get("tags");
                    if prov::read::shopify_function_input_get_val_len(tags) != n {
                        fails.push(format!("n={} map={}: length query of the second container is not {}", n, map, n));
                    }
                    let mut kept: Vec<Val> = Vec::with_capacity(n);
                    let mut kept_keys: Vec<Val> = Vec::new();
                    for i in 0..n {
                        if map {
                            kept_keys.push(prov::read::shopify_function_input_get_obj_key_at_index(tags, i));
                        }
                        kept.push(prov::read::shopify_function_input_get_at_index(tags, i));
                    }
                    let mut bad = 0;
                    for i in 0..n {
                        if read_str(kept[i]).ok() != Some(entry("tags", i)) {
                            if bad == 0 {
                                fails.push(format!("n={} map={}: the handle taken for entry {} of the second container no longer reads that entry ({:?})", n, map, i, read_str(kept[i]).map(|b| String::from_utf8_lossy(&b).to_string())));
                            }
                            bad += 1;
                        }
                        if map && read_str(kept_keys[i]).ok() != Some(format!("k{}", i).into_bytes()) {
                            if bad == 0 {
                                fails.push(format!("n={} map=true: the key handle taken for entry {} no longer reads that key", n, i));
                            }
                            bad += 1;
                        }
                    }
                    // re-reads by index and (for maps) by name, at both ends and around powers of two
                    for i in [0usize, 1, 255, 256, 1023, 1024, 4095, 4096, n.saturating_sub(1)] {
                        if i < n {
                            let h = prov::read::shopify_function_input_get_at_index(tags, i);
                            if read_str(h).ok() != Some(entry("tags", i)) {
                                fails.push(format!("n={} map={}: re-read of entry {} by index is wrong", n, map, i));
                            }
                            if map {
                                let key = format!("k{}", i);
                                let h = prov::read::shopify_function_input_get_obj_prop(tags, key.as_ptr() as usize, key.len());
                                if read_str(h).ok() != Some(entry("tags", i)) {
                                    fails.push(format!("n={} map=true: lookup of key k{} is wrong", n, i));
                                }
                            }
                        }
                    }
                    let past = prov::read::shopify_function_input_get_at_index(tags, n);
                    if !matches!(NanBox::from_bits(past).try_decode(), Ok(ValueRef::Error(_))) {
                        fails.push(format!("n={} map={}: index {} (one past the end) is not refused", n, map, n));
                    }
                }
            }
            fails
        });
        for f in fs {
            let f = if f == "PANIC" { format!("PANIC while reading sibling containers of {}..={} entries", chunk[0], chunk[chunk.len() - 1]) } else { f };
            if failures.len() < 8 {
                failures.push(f);
            }
        }
    }
    Sweep { name: "container-sizes", points, failures }
}

// ------------------------------------------------------------------------------------ strings

/// every string length: written (in one piece), finalised, handed back as input and read again
pub fn string_lengths(thorough: bool) -> Sweep {
    let lens = lengths(thorough, 2100, 70000);
    let points = lens.len();
    let mut failures = Vec::new();
    for chunk in lens.chunks(256) {
        let chunk: Vec<usize> = chunk.to_vec();
        let c2 = chunk.clone();
        let fs = on_fresh_thread(move || {
            let mut fails = Vec::new();
            for &l in &c2 {
                let bytes = pat(l, l + 3);
                prov::initialize_from_msgpack_bytes(vec![0xc0]);
                // [ <string> , 1 ]
                let st0 = prov::write::shopify_function_output_new_array(2) as usize;
                let r = prov::write::shopify_function_output_new_utf8_str(l);
                let st = (r >> usize::BITS) as usize;
                if st == 0 {
                    unsafe { std::ptr::copy(bytes.as_ptr(), (r as usize) as *mut u8, l) };
                }
                let st1 = prov::write::shopify_function_output_new_i32(1) as usize;
                let st2 = prov::write::shopify_function_output_finish_array() as usize;
                let (fst, out) = prov::write::shopify_function_output_finalize_and_return_msgpack_bytes();
                let mut expect = vec![0x92u8];
                mp_str(&mut expect, &bytes);
                expect.push(0x01);
                if (st0, st, st1, st2, fst as usize) != (0, 0, 0, 0, 0) || out != expect {
                    fails.push(format!("len {}: writing a string of that length inside an array does not give the canonical bytes", l));
                    continue;
                }
                prov::initialize_from_msgpack_bytes(out);
                let root = prov::read::shopify_function_input_get();
                let h = prov::read::shopify_function_input_get_at_index(root, 0);
                let inline = match NanBox::from_bits(h).try_decode() {
                    Ok(ValueRef::String { len, .. }) => len,
                    _ => usize::MAX,
                };
                if inline != l.min(16383) {
                    fails.push(format!("len {}: inline length field is {}", l, inline));
                }
                if read_str(h).ok().as_deref() != Some(&bytes[..]) {
                    fails.push(format!("len {}: reading the string back gives other bytes or another length", l));
                }
                let one = prov::read::shopify_function_input_get_at_index(root, 1);
                if !matches!(NanBox::from_bits(one).try_decode(), Ok(ValueRef::Number(n)) if n == 1.0) {
                    fails.push(format!("len {}: the value after the string is not read as 1", l));
                }
            }
            fails
        });
        for f in fs {
            let f = if f == "PANIC" { format!("PANIC while writing / reading strings of {}..={} bytes", chunk[0], chunk[chunk.len() - 1]) } else { f };
            if failures.len() < 8 {
                failures.push(f);
            }
        }
    }
    Sweep { name: "string-lengths", points, failures }
}

// ------------------------------------------------------------------------------------ logs

/// what the host reads after logging `msgs` (api level, ASCII and multi-byte): the last
/// `capacity` bytes of their concatenation
pub fn log_lengths(thorough: bool) -> Sweep {
    use shopify_function_wasm_api as api;
    let max = if thorough { 5000 } else { 2300 };
    let mut plans: Vec<Vec<(usize, u64)>> = Vec::new();
    for l in 0..=max {
        plans.push(vec![(l, (l % 7) as u64)]);
        plans.push(vec![(l, 1000 + (l % 5) as u64)]);
    }
    let grid: Vec<usize> = (0..=2100).step_by(if thorough { 53 } else { 149 }).chain([1000usize, 1001, 1002, 2001, 2002]).collect();
    for &a in &grid {
        for &b in &grid {
            plans.push(vec![(a, 3), (b, 1001)]);
        }
    }
    for &a in &[0usize, 1, 500, 1000, 1001, 1002] {
        for &b in &[0usize, 1, 501, 1001] {
            for &c in &[0usize, 1, 2, 999, 1001, 1500] {
                plans.push(vec![(a, 2), (b, 1002), (c, 4)]);
            }
        }
    }
    let points = plans.len();
    let mut failures = Vec::new();
    for chunk in plans.chunks(512) {
        let chunk: Vec<Vec<(usize, u64)>> = chunk.to_vec();
        let fs = on_fresh_thread(move || {
            let mut fails = Vec::new();
            for plan in &chunk {
                prov::initialize_from_msgpack_bytes(vec![0xc0]);
                // (a wild copy can take the process down: say first what is about to be logged)
                eprintln!("log sweep: messages (length, pattern) {:?}", plan);
                let mut all: Vec<u8> = Vec::new();
                for &(l, seed) in plan {
                    let m = crate::util::msg_bytes(l, seed);
                    let ms = unsafe { std::str::from_utf8_unchecked(&m) };
                    let mut c = api::Context;
                    c.log(ms);
                    all.extend_from_slice(&m);
                }
                let (s1, s2, _, _, _, cap) = prov::verif::log_snapshot();
                let mut got = s1;
                got.extend_from_slice(&s2);
                let expect = &all[all.len().saturating_sub(cap)..];
                if got != expect {
                    fails.push(format!("after logging messages of {:?} (length, pattern) the host reads {} bytes that are not the last {} bytes logged", plan, got.len(), expect.len()));
                }
            }
            fails
        });
        for f in fs {
            if failures.len() < 8 {
                failures.push(if f == "PANIC" { "PANIC while logging".to_string() } else { f });
            }
        }
    }
    Sweep { name: "log-lengths", points, failures }
}
