#[doc(hidden)]
pub mod __private18 {
    #[doc(hidden)]
    pub use crate::private::*;
}
