#[doc(hidden)]
pub mod __private228 {
    #[doc(hidden)]
    pub use crate::private::*;
}
