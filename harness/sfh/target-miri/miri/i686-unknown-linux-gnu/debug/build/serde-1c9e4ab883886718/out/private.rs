#[doc(hidden)]
pub mod __private228 {
    #[doc(hidden)]
    pub use crate::private::*;
}
use serde_core::__private228 as serde_core_private;
