import SfVerif.Model.Proto
import SfVerif.Model.Tramp
import SfVerif.Gen.Glue
/-! `sfdriver --width <32|64>`: reads protocol lines on stdin, answers from the Lean model. -/
open SfVerif

def hexVal (c : Char) : Option Nat :=
  if '0' ≤ c ∧ c ≤ '9' then some (c.toNat - 48)
  else if 'a' ≤ c ∧ c ≤ 'f' then some (c.toNat - 87)
  else if 'A' ≤ c ∧ c ≤ 'F' then some (c.toNat - 55)
  else none

def parseHexNat (s : String) : Option Nat :=
  if s.isEmpty then none else
  s.toList.foldl (fun acc c => match acc, hexVal c with
    | some a, some d => some (a * 16 + d)
    | _, _ => none) (some 0)

def parseHexBytesAux : List Char → Array UInt8 → Option (Array UInt8)
  | [], acc => some acc
  | [_], _ => none
  | a :: b :: rest, acc =>
    match hexVal a, hexVal b with
    | some h, some l => parseHexBytesAux rest (acc.push (UInt8.ofNat (h * 16 + l)))
    | _, _ => none

def parseHexBytes (s : String) : Option Bytes :=
  if s == "-" then some #[] else parseHexBytesAux s.toList #[]

def parseInt (s : String) : Option Int := s.toInt?

def parseScope (s : String) : Option ScopeTok :=
  if s == "null" then some .null
  else if s == "b0" then some .b0
  else if s == "b1" then some .b1
  else if s.startsWith "zs" then (s.drop 2).toString.toNat?.map ScopeTok.zs
  else if s.startsWith "zo" then (s.drop 2).toString.toNat?.map ScopeTok.zo
  else if s.startsWith "za" then (s.drop 2).toString.toNat?.map ScopeTok.za
  else if s.startsWith "h" then (s.drop 1).toString.toNat?.map ScopeTok.h
  else if s.startsWith "n" then (parseHexNat (s.drop 1).toString).map ScopeTok.num
  else if s.startsWith "e" then (s.drop 1).toString.toNat?.map ScopeTok.err
  else if s.startsWith "x" then (parseHexNat (s.drop 1).toString).map ScopeTok.raw
  else none

/-! type expressions -/

def intTy (w : Nat) (name : String) : Option Ty :=
  let s (bits : Nat) : Ty := .int (-(2 ^ (bits - 1) : Nat)) ((2 ^ (bits - 1) : Nat) - 1)
  let u (bits : Nat) : Ty := .int 0 ((2 ^ bits : Nat) - 1)
  match name with
  | "i8" => some (s 8) | "i16" => some (s 16) | "i32" => some (s 32) | "i64" => some (s 64)
  | "u8" => some (u 8) | "u16" => some (u 16) | "u32" => some (u 32) | "u64" => some (u 64)
  | "usize" => some (u w) | "isize" => some (s w)
  | _ => none

/-- split `a,b(c,d),e` at top-level commas -/
def splitTop (cs : List Char) : List (List Char) :=
  let rec go : List Char → Nat → List Char → List (List Char) → List (List Char)
    | [], _, cur, acc => (cur.reverse :: acc).reverse
    | c :: rest, depth, cur, acc =>
      if c == ',' && depth == 0 then go rest depth [] (cur.reverse :: acc)
      else if c == '(' then go rest (depth + 1) (c :: cur) acc
      else if c == ')' then go rest (depth - 1) (c :: cur) acc
      else go rest depth (c :: cur) acc
  go cs 0 [] []

partial def parseTy (w : Nat) (s : String) : Option Ty :=
  match s with
  | "unit" => some .unit
  | "bool" => some .bool
  | "f64" => some .f64
  | "str" => some .str
  | "char" => some .char
  | _ =>
    match intTy w s with
    | some t => some t
    | none =>
      if !s.endsWith ")" then none else
      match s.splitOn "(" with
      | [] => none
      | head :: _ =>
        let inner := ((s.drop (head.length + 1)).toString.dropEnd 1).toString
        if head == "opt" then (parseTy w inner).map Ty.opt
        else if head == "vec" then (parseTy w inner).map Ty.vec
        else if head == "map" || head == "bmap" then (parseTy w inner).map Ty.map
        else if head == "tup" then
          let parts := (splitTop inner.toList).map String.ofList
          (parts.mapM (parseTy w)).map Ty.tup
        else if head.startsWith "arr" then
          match (head.drop 3).toString.toNat? with
          | some n => (parseTy w inner).map (Ty.arrN n)
          | none => none
        else none

/-! typed values: u | b0 | b1 | i<dec> | f<16hex> | s<hex> | N | S<v> | [v;v] | {hex=v;hex=v} -/

partial def parseTVal : List Char → Option (TVal × List Char)
  | 'u' :: r => some (.unit, r)
  | 'b' :: '0' :: r => some (.bool false, r)
  | 'b' :: '1' :: r => some (.bool true, r)
  | 'N' :: r => some (.none, r)
  | 'S' :: r => (parseTVal r).map (fun (v, r') => (.some v, r'))
  | 'i' :: r =>
    let ds := r.takeWhile (fun c => c == '-' || c.isDigit)
    (parseInt (String.ofList ds)).map (fun z => (.int z, r.drop ds.length))
  | 'f' :: r =>
    let ds := r.takeWhile (fun c => (hexVal c).isSome)
    if ds.length != 16 then none else (parseHexNat (String.ofList ds)).map (fun b => (.f64 b, r.drop 16))
  | 's' :: r =>
    let ds := r.takeWhile (fun c => (hexVal c).isSome)
    (parseHexBytesAux ds #[]).map (fun bs => (.str bs, r.drop ds.length))
  | '[' :: ']' :: r => some (.seq [], r)
  | '[' :: r =>
    let rec items (cs : List Char) (acc : List TVal) : Option (List TVal × List Char) :=
      match parseTVal cs with
      | none => none
      | some (v, ';' :: r') => items r' (v :: acc)
      | some (v, ']' :: r') => some ((v :: acc).reverse, r')
      | some _ => none
    (items r []).map (fun (vs, r') => (.seq vs, r'))
  | '{' :: '}' :: r => some (.map [], r)
  | '{' :: r =>
    let rec pairs (cs : List Char) (acc : List (Bytes × TVal)) : Option (List (Bytes × TVal) × List Char) :=
      let ks := cs.takeWhile (fun c => (hexVal c).isSome)
      match parseHexBytesAux ks #[], cs.drop ks.length with
      | some k, '=' :: r1 =>
        (match parseTVal r1 with
         | some (v, ';' :: r') => pairs r' ((k, v) :: acc)
         | some (v, '}' :: r') => some (((k, v) :: acc).reverse, r')
         | _ => none)
      | _, _ => none
    (pairs r []).map (fun (ps, r') => (.map ps, r'))
  | _ => none

def parseWTok (ws : List String) : Option WTok :=
  match ws with
  | ["bool", n] => n.toNat?.map WTok.bool
  | ["null"] => some .null
  | ["i32", z] => (parseInt z).map WTok.i32
  | ["f64", b] => (parseHexNat b).map WTok.f64
  | ["str", h] => (parseHexBytes h).map WTok.str
  | ["alloc", n] => n.toNat?.map WTok.alloc
  | ["copy", h] => (parseHexBytes h).map WTok.copy
  | ["istr", n] => n.toNat?.map WTok.istr
  | ["obj", n] => n.toNat?.map WTok.obj
  | ["endobj"] => some .endobj
  | ["arr", n] => n.toNat?.map WTok.arr
  | ["endarr"] => some .endarr
  | _ => none

def orBad (o : Option Op) : Op := o.getD .bad

def parseOp (w : Nat) (toks : List String) : Op :=
  match toks with
  | ["width", n] => orBad (n.toNat?.map Op.width)
  | ["init", h] => orBad ((parseHexBytes h).map Op.init)
  | ["ainit", h] => orBad ((parseHexBytes h).map Op.init)
  | ["root"] => .root
  | ["aroot"] => .root
  | ["prop", s, q] => orBad (do let s ← parseScope s; let q ← parseHexBytes q; pure (Op.prop s q))
  | ["aprop", s, q] => orBad (do let s ← parseScope s; let q ← parseHexBytes q; pure (Op.prop s q))
  | ["iprop", s, i] => orBad (do let s ← parseScope s; let i ← i.toNat?; pure (Op.iprop s i))
  | ["aiprop", s, i] => orBad (do let s ← parseScope s; let i ← i.toNat?; pure (Op.iprop s i))
  | ["idx", s, i] => orBad (do let s ← parseScope s; let i ← i.toNat?; pure (Op.idx s i))
  | ["key", s, i] => orBad (do let s ← parseScope s; let i ← i.toNat?; pure (Op.key s i))
  | ["len", s] => orBad ((parseScope s).map Op.len)
  | ["str", s] => orBad ((parseScope s).map Op.str)
  | ["a.kind", s] => orBad ((parseScope s).map Op.akind)
  | ["a.len", s] => orBad ((parseScope s).map Op.alen)
  | ["a.str", s] => orBad ((parseScope s).map Op.astr)
  | ["a.key", s, i] => orBad (do let s ← parseScope s; let i ← i.toNat?; pure (Op.akey s i))
  | "w" :: rest => orBad ((parseWTok rest).map (Op.w false))
  | "aw" :: rest => orBad ((parseWTok rest).map (Op.w true))
  | ["fin"] => .fin
  | ["out?"] => .outq
  | ["outdoc?"] => .outdoc
  | ["log", l, s] => orBad (do let l ← l.toNat?; let s ← s.toNat?; pure (Op.log l s))
  | ["logreq", n] => orBad (n.toNat?.map Op.logreq)
  | ["logcopy", l, s] => orBad (do let l ← l.toNat?; let s ← s.toNat?; pure (Op.logcopy l s))
  | ["logs?"] => .logsq
  | ["intern", h] => orBad ((parseHexBytes h).map Op.intern)
  | ["vintern", h] => orBad ((parseHexBytes h).map Op.intern)
  | ["internreq", n] => orBad (n.toNat?.map Op.internreq)
  | ["interncopy", h] => orBad ((parseHexBytes h).map Op.interncopy)
  | ["cached", h] => orBad ((parseHexBytes h).map Op.cached)
  | ["cachedp", h, k] => orBad (do let b ← parseHexBytes h; let k ← k.toNat?; if k ≤ b.size then pure (Op.cached (b.extract 0 k)) else none)
  | ["cacheds", h] => orBad ((parseHexBytes h).map Op.cached)
  | ["box", "null"] => .boxNull
  | ["box", "bool", n] => orBad (n.toNat?.map (fun n => Op.boxBool (n != 0)))
  | ["box", "err", n] => orBad (n.toNat?.map Op.boxErr)
  | ["box", "num", b] => orBad ((parseHexNat b).map Op.boxNum)
  | ["box", "str", p, l] => orBad (do let p ← p.toNat?; let l ← l.toNat?; pure (Op.boxPtr 0 p l))
  | ["box", "obj", p, l] => orBad (do let p ← p.toNat?; let l ← l.toNat?; pure (Op.boxPtr 1 p l))
  | ["box", "arr", p, l] => orBad (do let p ← p.toNat?; let l ← l.toNat?; pure (Op.boxPtr 2 p l))
  | ["unbox", v] => orBad ((parseHexNat v).map Op.unbox)
  | ["maxlen?"] => .maxlen
  | ["deint", ty, b] =>
    orBad (do let t ← intTy w ty; let b ← parseHexNat b; pure (Op.deint t b))
  | ["de", ty, d] => orBad (do let t ← parseTy w ty; let d ← parseHexBytes d; pure (Op.de t d))
  | ["serrt", ty, v] =>
    let dety := match ty.splitOn ">" with
      | [_, d] => d
      | _ => ty
    orBad (do
      let t ← parseTy w dety
      let (v, rest) ← parseTVal v.toList
      if rest.isEmpty then pure (Op.serrt v t) else none)
  | _ => .bad

/-! ### trampoline side: `tramp …` (acceptance logic) and `glue …` (mini-Wasm interpreter) lines -/

def strOfName (n : List Nat) : String := String.ofList (n.map Char.ofNat)
def nameOfStr (s : String) : List Nat := s.toList.map Char.toNat

def vtCode (s : String) : Nat :=
  if s == "i32" then 0 else if s == "i64" then 1 else if s == "f32" then 2 else if s == "f64" then 3 else 9

def kindCode (s : String) : Nat :=
  if s == "func" then 0 else if s == "memory" then 1 else if s == "global" then 2 else if s == "table" then 3 else 4

def kindName (k : Nat) : String :=
  if k = 0 then "func" else if k = 1 then "memory" else if k = 2 then "global" else if k = 3 then "table" else "other"

def parseImp (s : String) : Option Tramp.Imp :=
  match s.splitOn "|" with
  | [m, n, k, ps, rs] =>
    some { module := nameOfStr m, name := nameOfStr n, kind := kindCode k,
           params := (ps.splitOn ",").filter (· != "") |>.map vtCode,
           results := (rs.splitOn ",").filter (· != "") |>.map vtCode }
  | _ => none

def rejectName (c : Nat) : String :=
  if c = 0 then "multi-memory" else if c = 1 then "unexpected-import" else if c = 2 then "unsupported-module"
  else if c = 3 then "bad-signature" else if c = 4 then "not-a-function" else "other-error"

def runTramp (toks : List String) : String :=
  match toks with
  | [memsTok, impsTok] =>
    (match (memsTok.drop 5).toString.toNat?, (impsTok.drop 8).toString with
     | some mems, impsStr =>
       let imps := if impsStr == "-" then some [] else (impsStr.splitOn ";").mapM parseImp
       (match imps with
        | none => "bad-op"
        | some imps =>
          match Tramp.apply { ownMems := mems, imports := imps } with
          | .noop => "noop"
          | .reject c => s!"reject {rejectName c}"
          | .rewrite s =>
            let names := s.imports.map (fun i => s!"{strOfName i.module}|{strOfName i.name}|{kindName i.kind}")
            s!"rewrite own_mems={s.ownMems} imports={";".intercalate (sortStrings names)}")
     | _, _ => "bad-op")
  | _ => "bad-op"

def memOfSparse (chunks : List (Nat × Bytes)) : Wasm.Mem :=
  { size := 65536,
    byte := fun a =>
      match chunks.find? (fun c => c.1 ≤ a ∧ a < c.1 + c.2.size) with
      | some (base, bs) => bs[a - base]!
      | none => 0 }

def parseSparse (s : String) : Option (List (Nat × Bytes)) :=
  if s == "-" then some [] else
  (s.splitOn ",").mapM (fun c => match c.splitOn ":" with
    | [a, h] => do let a ← a.toNat?; let b ← parseHexBytes h; pure (a, b)
    | _ => none)

def memHash (m : Wasm.Mem) : Nat :=
  ((List.range 65536).foldl (fun (h : UInt64) a => (h ^^^ (m.byte a).toUInt64) * 0x100000001b3) 0xcbf29ce484222325).toNat

def vOfType (t v : Nat) : Wasm.V := if t = 1 then .i64 v else if t = 3 then .f64 v else .i32 (v % 2 ^ 32)
def vNat : Wasm.V → Nat
  | .i32 x => x | .i64 x => x | .f64 x => x

def logProviderName : List Nat := nameOfStr "_shopify_function_log_new_utf8_str"

def runGlue (toks : List String) : String :=
  match toks with
  | [mi, ki, argsT, hT, planT, gT, pT] =>
    let r : Option String := do
      let mi ← mi.toNat?
      let ki ← ki.toNat?
      let m ← SfVerif.Gen.glueModules[mi]?
      let f ← (m.apiExports.find? (fun e => e.1 == ki)).map (·.2)
      let fn ← m.funcs[f]?
      let argStr := (argsT.drop 5).toString
      let args ← (if argStr == "" then some [] else (argStr.splitOn ",").mapM String.toNat?)
      let hStr := (hT.drop 2).toString
      let resp ← (if hStr == "-" then some [] else
        (hStr.splitOn ",").mapM (fun c => match c.splitOn ":" with
          | [n, v] => v.toNat?.map (fun v => (nameOfStr n, v))
          | _ => none))
      let planStr := (planT.drop 5).toString
      let plan ← (if planStr == "-" then some [] else (planStr.splitOn ",").mapM String.toNat?)
      let g ← parseSparse (gT.drop 2).toString
      let p ← parseSparse (pT.drop 2).toString
      let host : Wasm.Host := fun name _ prov =>
        let v := ((resp.find? (fun r => r.1 == name)).map (·.2)).getD 0
        let rts := ((m.funcs.find? (fun fn => match fn.imp with | some (_, n) => n == name | none => false)).map (·.results)).getD []
        let prov' : Wasm.Mem :=
          if name == logProviderName && !plan.isEmpty then
            let words : List UInt8 := plan.flatMap (fun w => [UInt8.ofNat (w % 256), UInt8.ofNat (w / 256 % 256), UInt8.ofNat (w / 65536 % 256), UInt8.ofNat (w / 16777216 % 256)])
            let base := v % 2 ^ 32
            { prov with byte := fun a => if base ≤ a ∧ a < base + 20 then words[a - base]! else prov.byte a }
          else prov
        some (rts.map (fun t => vOfType t v), prov')
      let stack := ((fn.params.zip args).map (fun (t, v) => vOfType t v)).reverse
      let st : Wasm.St := { prov := memOfSparse p, guest := memOfSparse g, stack := stack, locals := [], calls := [] }
      pure (match Wasm.exec host m.funcs 16 (.call f) st with
        | .ok s' =>
          let ret := match s'.stack with | v :: _ => toString (vNat v) | [] => "-"
          let calls := s'.calls.reverse.map (fun (n, as) => s!"{strOfName n}({",".intercalate (as.map (fun a => toString (vNat a)))})")
          s!"ret={ret} g={hexNat (memHash s'.guest) 16} p={hexNat (memHash s'.prov) 16} calls={";".intercalate calls}"
        | .trap => "trap"
        | .fuel => "out-of-fuel")
    r.getD "bad-op"
  | _ => "bad-op"

partial def loop (w : Nat) (h : IO.FS.Stream) (out : IO.FS.Stream) (s : Sys) : IO Unit := do
  let line ← h.getLine
  if line.isEmpty then return ()
  let l := line.trimAscii.toString
  if l.startsWith "case " then
    out.putStrLn l
    loop w h out {}
  else if l.startsWith "thread " then
    match (l.drop 7).toString.trimAscii.toString.toNat? with
    | some t => out.putStrLn s!"thread {t}"; loop w h out { s with cur := t }
    | none => out.putStrLn "bad-op"; loop w h out s
  else if l.isEmpty || l.startsWith "#" then
    out.putStrLn l
    loop w h out s
  else if l.startsWith "tramp " then
    out.putStrLn (runTramp ((l.drop 6).toString.splitOn " "))
    loop w h out s
  else if l.startsWith "glue " then
    out.putStrLn (runGlue ((l.drop 5).toString.splitOn " "))
    loop w h out s
  else if l.startsWith "logunwind " then
    -- the same as `log`: where the message was logged from does not matter
    let (s', _) := s.step w (parseOp w ((("log " ++ (l.drop 10).toString).splitOn " ").filter (fun t => !t.isEmpty)))
    out.putStrLn "ok"
    loop w h out s'
  else if l == "panicinit" then
    out.putStrLn "ok"; loop w h out s
  else if l == "panicrecover" then
    -- a panic of the embedding code that it catches itself touches nothing of the provider's
    out.putStrLn "recovered"; loop w h out s
  else if l.startsWith "palloc " then
    -- the provider's allocator (what the property-name glue copies into): the sentinel for a
    -- zero-sized request, otherwise a fresh region of that many writable bytes
    match (l.drop 7).toString.trimAscii.toString.toNat? with
    | some 0 => out.putStrLn "sentinel"; loop w h out s
    | some _ => out.putStrLn "fresh"; loop w h out s
    | none => out.putStrLn "bad-op"; loop w h out s
  else if l.startsWith "awseq " then
    -- a fixed call sequence through the api crate's closure-taking writers = these provider-level calls;
    -- the answer is the status of the last one
    let calls : List String := match (l.drop 6).toString.trimAscii.toString with
      | "0" => ["w arr 1", "w obj 1", "w endarr"]
      | "1" => ["w obj 1", "w str 6b", "w arr 1", "w endobj"]
      | "2" => ["w obj 1", "w bool 1"]
      | "3" => ["w obj 1", "w endobj"]
      | "4" => ["w arr 1", "w endarr"]
      | "5" => ["w bool 1", "w bool 0"]
      | "6" => ["w arr 1", "fin"]
      | _ => []
    if calls.isEmpty then
      out.putStrLn "bad-op"
      loop w h out s
    else
      let (s', a) := calls.foldl (fun (acc : Sys × String) c =>
        (acc.1.step w (parseOp w ((c.splitOn " ").filter (fun t => !t.isEmpty))))) (s, "")
      out.putStrLn ((a.splitOn " ").headD "")
      loop w h out s'
  else
    let toks := (l.splitOn " ").filter (fun t => !t.isEmpty)
    let (s', a) := s.step w (parseOp w toks)
    out.putStrLn a
    loop w h out s'

def main (args : List String) : IO UInt32 := do
  let w := match args with
    | ["--width", n] => n.toNat?.getD 64
    | _ => 64
  let stdin ← IO.getStdin
  let stdout ← IO.getStdout
  loop w stdin stdout {}
  return 0
