-- This module serves as the root of the `SfVerif` library.
-- Import modules here that should be built as part of the library.
import SfVerif.Basic
