import SfVerif.Model.Typed
/-! The canonical MessagePack encoding of a value tree, exactly as the writer emits it
    (`rmp`'s most compact integer encoding, f64 as 9 bytes, str/array/map headers by length). -/
namespace SfVerif

def encStr (bs : Bytes) : List UInt8 := encStrLen bs.size ++ bs.toList

mutual
def TVal.enc : TVal → List UInt8
  | .unit => encNil
  | .none => encNil
  | .bool b => encBool b
  | .int z => encSint z
  | .f64 b => encF64 b
  | .str bs => encStr bs
  | .chr bs => encStr bs
  | .some v => v.enc
  | .seq vs => encArrLen vs.length ++ TVal.encList vs
  | .tup vs => encArrLen vs.length ++ TVal.encList vs
  | .map ps => encMapLen ps.length ++ TVal.encPairs ps
def TVal.encList : List TVal → List UInt8
  | [] => []
  | v :: vs => v.enc ++ TVal.encList vs
def TVal.encPairs : List (Bytes × TVal) → List UInt8
  | [] => []
  | (k, v) :: ps => (encStr k ++ v.enc) ++ TVal.encPairs ps
end

end SfVerif
