import SfVerif.Spec.Read
/-! Read-call histories: the model's run and the specification's run. -/
namespace SfVerif

/-- a read call on a previously returned handle (or the root fetch) -/
inductive ROp where
  | root
  | atIndex (h : Handle) (i : Nat)
  | keyAt (h : Handle) (i : Nat)
  | prop (h : Handle) (q : Bytes)
  | len (h : Handle)
  | strOff (h : Handle)
  deriving Repr

inductive RAns where
  | val (v : RVal)
  | len (n : Option Nat)
  | off (o : Option Nat)
  deriving DecidableEq, Repr

def ROp.handle? : ROp → Option Handle
  | .root => none
  | .atIndex h _ => some h
  | .keyAt h _ => some h
  | .prop h _ => some h
  | .len h => some h
  | .strOff h => some h

/-- number of root allocations after the call -/
def ROp.nextRoots (b : Bytes) (op : ROp) (n : Nat) : Nat :=
  match op with
  | .root => if (readHdr b 0).isSome then n + 1 else n    -- a failed root fetch allocates nothing
  | _ => n

/-- the handle an answer hands out, if any -/
def RAns.handles : RAns → List Handle
  | .val (.str h _) => [h]
  | .val (.arr h _) => [h]
  | .val (.obj h _) => [h]
  | _ => []

/-- one read call on the model -/
def Ctx.rstep (c : Ctx) : ROp → Ctx × RAns
  | .root => let r := c.inputGet; (r.1, .val r.2)
  | .atIndex h i => let r := c.getAtIndex (.node h) i; (r.1, .val r.2)
  | .keyAt h i => let r := c.getKeyAtIndex (.node h) i; (r.1, .val r.2)
  | .prop h q => let r := c.getObjProp (.node h) q; (r.1, .val r.2)
  | .len h => (c, .len (c.getValLen (.node h)))
  | .strOff h => (c, .off (c.strOffset h))

def Ctx.rrun (c : Ctx) : List ROp → List RAns × Ctx
  | [] => ([], c)
  | op :: ops => let r := c.rstep op; let rest := r.1.rrun ops; (r.2 :: rest.1, rest.2)

namespace Spec

/-- the specified answer: a function of the document, the call, and — only to *name* a fresh root
    handle — how many root fetches came before -/
def answer (b : Bytes) (nroots : Nat) : ROp → RAns
  | .root => .val (valueAt b nroots [])
  | .atIndex h i => .val (getAtIndex b h i)
  | .keyAt h i => .val (getKeyAtIndex b h i)
  | .prop h q => .val (getObjProp b h q)
  | .len h => .len (getValLen b h)
  | .strOff h => .off (strOffset b h)

def run (b : Bytes) (nroots : Nat) : List ROp → List RAns
  | [] => []
  | op :: ops => answer b nroots op :: run b (op.nextRoots b nroots) ops

/-- the client only uses handles it was given: each call's handle occurs in an earlier answer -/
def respects (b : Bytes) (nroots : Nat) (issued : List Handle) : List ROp → Prop
  | [] => True
  | op :: ops =>
    (match op.handle? with | some h => h ∈ issued | none => True) ∧
    respects b (op.nextRoots b nroots) ((answer b nroots op).handles ++ issued) ops

end Spec
end SfVerif
