import SfVerif.Spec.Read
/-! Read-call histories: the model's run and the specification's run. -/
namespace SfVerif

/-- a read call: the root fetch, or a call whose `scope` argument is a previously returned handle
    (`.node h`) or any other value the guest holds — null, a boolean, a number, an error value, a
    forged bit pattern (`.lit d`, see `Scope`) -/
inductive ROp where
  | root
  | atIndex (s : Scope) (i : Nat)
  | keyAt (s : Scope) (i : Nat)
  | prop (s : Scope) (q : Bytes)
  | len (s : Scope)
  | strOff (h : Handle)
  deriving Repr

def Scope.handle? : Scope → Option Handle
  | .node h => some h
  | .lit _ => none

inductive RAns where
  | val (v : RVal)
  | len (n : Option Nat)
  | off (o : Option Nat)
  deriving DecidableEq, Repr

def ROp.handle? : ROp → Option Handle
  | .root => none
  | .atIndex s _ => s.handle?
  | .keyAt s _ => s.handle?
  | .prop s _ => s.handle?
  | .len s => s.handle?
  | .strOff h => some h

/-- number of root allocations after the call -/
def ROp.nextRoots (b : Bytes) (op : ROp) (n : Nat) : Nat :=
  match op with
  | .root => if (readHdr b 0).isSome then n + 1 else n    -- a failed root fetch allocates nothing
  | _ => n

/-- the handle an answer hands out, if any -/
def RAns.handles : RAns → List Handle
  | .val (.str h _) => [h]
  | .val (.arr h _) => [h]
  | .val (.obj h _) => [h]
  | _ => []

/-- one read call on the model -/
def Ctx.rstep (c : Ctx) : ROp → Ctx × RAns
  | .root => let r := c.inputGet; (r.1, .val r.2)
  | .atIndex s i => let r := c.getAtIndex s i; (r.1, .val r.2)
  | .keyAt s i => let r := c.getKeyAtIndex s i; (r.1, .val r.2)
  | .prop s q => let r := c.getObjProp s q; (r.1, .val r.2)
  | .len s => (c, .len (c.getValLen s))
  | .strOff h => (c, .off (c.strOffset h))

def Ctx.rrun (c : Ctx) : List ROp → List RAns × Ctx
  | [] => ([], c)
  | op :: ops => let r := c.rstep op; let rest := r.1.rrun ops; (r.2 :: rest.1, rest.2)

namespace Spec

open SfVerif.Gen in
/-- a scope that is not a handle is answered by its kind alone: a pointer kind can only carry a
    null pointer (`ReadError`), any other decodable value is the wrong kind, an undecodable bit
    pattern gets the entry point's decode error -/
def litAnswer (d : NanBox.Decoded) (acceptArr : Bool) (wrongKind undecodable : Nat) : RVal :=
  match d with
  | .ok (.object _ _) => .err ErrorCode_ReadError
  | .ok (.array _ _) => if acceptArr then .err ErrorCode_ReadError else .err wrongKind
  | .ok _ => .err wrongKind
  | _ => .err undecodable

/-- the specified answer: a function of the document, the call, and — only to *name* a fresh root
    handle — how many root fetches came before -/
def answer (b : Bytes) (nroots : Nat) : ROp → RAns
  | .root => .val (valueAt b nroots [])
  | .atIndex (.node h) i => .val (getAtIndex b h i)
  | .atIndex (.lit d) _ => .val (litAnswer d true Gen.ErrorCode_NotIndexable Gen.ErrorCode_ReadError)
  | .keyAt (.node h) i => .val (getKeyAtIndex b h i)
  | .keyAt (.lit d) _ => .val (litAnswer d false Gen.ErrorCode_NotAnObject Gen.ErrorCode_ReadError)
  | .prop (.node h) q => .val (getObjProp b h q)
  | .prop (.lit d) _ => .val (litAnswer d false Gen.ErrorCode_NotAnObject Gen.ErrorCode_DecodeError)
  | .len (.node h) => .len (getValLen b h)
  | .len (.lit _) => .len none
  | .strOff h => .off (strOffset b h)

def run (b : Bytes) (nroots : Nat) : List ROp → List RAns
  | [] => []
  | op :: ops => answer b nroots op :: run b (op.nextRoots b nroots) ops

/-- the client only uses handles it was given: each call's handle occurs in an earlier answer -/
def respects (b : Bytes) (nroots : Nat) (issued : List Handle) : List ROp → Prop
  | [] => True
  | op :: ops =>
    (match op.handle? with | some h => h ∈ issued | none => True) ∧
    respects b (op.nextRoots b nroots) ((answer b nroots op).handles ++ issued) ops

end Spec
end SfVerif
