import SfVerif.Spec.Eager
import SfVerif.Model.Reader
/-! Specification of a property lookup in the object whose pairs start at `pos`: walk the pairs in
    order; the first pair whose key bytes equal `q` (and whose value header reads) is the answer;
    an unreadable pair before any match is an error; no match is "missing" (`null`).
    Values are skipped only in order to reach a later pair. -/
namespace SfVerif

inductive PropRes where
  | err
  | missing
  | found (i ke : Nat)          -- index of the pair, offset of its value
  deriving DecidableEq, Repr

def specProp (b : Bytes) (f : Nat) (q : Bytes) : Nat → Nat → Nat → PropRes
  | 0, _, _ => .missing
  | k+1, pos, idx =>
    match readHdr b pos with
    | some (.scalar (.str ko kl) ke) =>
      (match readHdr b ke with
       | none => .err
       | some _ =>
         if keyEq b ko kl q then .found idx ke
         else if k = 0 then .missing
         else match skip b f ke with
              | none => .err
              | some e => specProp b f q k e (idx + 1))
    | _ => .err

end SfVerif
