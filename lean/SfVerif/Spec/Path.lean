import SfVerif.Spec.Eager
import SfVerif.Model.Reader
/-! Where the eager decoder finds the value a handle denotes: a handle is a path of child steps
    from the root value at offset 0; the position of each child is found by skipping, in order,
    the children before it. Uniform fuel `size + 1` (nesting can never exceed the byte count). -/
namespace SfVerif

def eagerFuel (b : Bytes) : Nat := b.size + 1

/-- offset of pair `i`'s key header in the map at `pos` -/
def specKeyPos (b : Bytes) (pos i : Nat) : Option Nat :=
  match readHdr b pos with
  | some (.map len body) => if i < len then skipPairs b (eagerFuel b) i body else none
  | _ => none

/-- byte offset of the child of the value at `pos` that `step` denotes -/
def specChild (b : Bytes) (pos : Nat) : PStep → Option Nat
  | .elem i =>
    (match readHdr b pos with
     | some (.arr len body) => if i < len then skipN b (eagerFuel b) i body else none
     | _ => none)
  | .key i => specKeyPos b pos i
  | .val i =>
    (match specKeyPos b pos i with
     | some s => (match readHdr b s with
       | some (.scalar (.str _ _) ke) => some ke
       | _ => none)
     | none => none)

/-- pair `i` of the map at `pos` as the sequential decoder finds it: key header offset, key
    string extent, value offset and value header — `none` when the walk cannot get there, the key
    is not a string, or the value's header cannot be read -/
def specPair (b : Bytes) (pos i : Nat) : Option (Nat × Nat × Nat × Nat × Hdr) :=
  match specKeyPos b pos i with
  | some kp =>
    (match readHdr b kp with
     | some (.scalar (.str ko kl) ke) =>
       (match readHdr b ke with
        | some hd => some (kp, ko, kl, ke, hd)
        | none => none)
     | _ => none)
  | none => none

/-- byte offset of the value at `path` below the value at `pos` -/
def specPath (b : Bytes) (pos : Nat) : Path → Option Nat
  | [] => some pos
  | s :: rest =>
    match specChild b pos s with
    | none => none
    | some p => specPath b p rest

end SfVerif
