import SfVerif.Spec.Grammar
/-! The language of the document grammar: the call sequences that build a complete document are
    exactly the token strings of trees. `Tree` forgets scalar payloads (the grammar does too). -/
namespace SfVerif

inductive Tree where
  | scalar
  | string
  | obj (vals : List Tree)        -- one value per pair; every key is a string
  | arr (elems : List Tree)
  deriving Repr

mutual
/-- the write calls that describe a tree -/
def Tree.toks : Tree → List Tok
  | .scalar => [.scalar]
  | .string => [.string]
  | .obj vs => .beginObj vs.length :: (Tree.pairToks vs ++ [.endObj])
  | .arr xs => .beginArr xs.length :: (Tree.elemToks xs ++ [.endArr])
def Tree.pairToks : List Tree → List Tok
  | [] => []
  | v :: vs => .string :: (v.toks ++ Tree.pairToks vs)
def Tree.elemToks : List Tree → List Tok
  | [] => []
  | x :: xs => x.toks ++ Tree.elemToks xs
end

/-- an open container together with the subtrees already completed inside it -/
inductive CFrame where
  | obj (len : Nat) (done : List Tree) (haveKey : Bool)
  | arr (len : Nat) (done : List Tree)
  deriving Repr

/-- the document being built, with its content -/
inductive CG where
  | empty
  | inside (inner : CFrame) (outer : List CFrame)
  | complete (t : Tree)
  deriving Repr

/-- the grammar frame of the innermost container -/
def CFrame.erase : CFrame → Frame
  | .obj len done hk => .obj len done.length hk
  | .arr len done => .arr len done.length

/-- the grammar frame of a container that has an open child (its slot is already claimed) -/
def CFrame.eraseOuter : CFrame → Frame
  | .obj len done _ => .obj len (done.length + 1) false
  | .arr len done => .arr len (done.length + 1)

def CG.erase : CG → G
  | .empty => .empty
  | .inside f fs => .inside f.erase (fs.map CFrame.eraseOuter)
  | .complete _ => .complete

/-- the tokens written so far inside one frame -/
def CFrame.emitted : CFrame → List Tok
  | .obj len done hk => .beginObj len :: (Tree.pairToks done ++ (if hk then [.string] else []))
  | .arr len done => .beginArr len :: Tree.elemToks done

/-- all tokens written so far (outermost frame first) -/
def CG.emitted : CG → List Tok
  | .empty => []
  | .inside f fs => (fs.reverse.flatMap CFrame.emitted) ++ f.emitted
  | .complete t => t.toks

/-- a completed subtree arrives in its parent -/
def CFrame.receive (t : Tree) : CFrame → CFrame
  | .obj len done _ => .obj len (done ++ [t]) false
  | .arr len done => .arr len (done ++ [t])

/-- a frame with an open child is an object waiting for a value or an array -/
def CFrame.outerOK : CFrame → Prop
  | .obj _ _ hk => hk = true
  | .arr _ _ => True

def CG.wf : CG → Prop
  | .inside _ fs => ∀ f ∈ fs, f.outerOK
  | _ => True

/-- closing the innermost container with tree `t` -/
def CG.close (t : Tree) : List CFrame → CG
  | [] => .complete t
  | f :: fs => .inside (f.receive t) fs

/-- one accepted call on the content zipper (`none`: the grammar rejects it) -/
def CG.step (cg : CG) (tok : Tok) : Option CG :=
  match tok, cg with
  | .scalar, .empty => some (.complete .scalar)
  | .string, .empty => some (.complete .string)
  | .scalar, .inside (.obj len done true) fs => some (.inside (.obj len (done ++ [.scalar]) false) fs)
  | .string, .inside (.obj len done true) fs => some (.inside (.obj len (done ++ [.string]) false) fs)
  | .string, .inside (.obj len done false) fs => if done.length < len then some (.inside (.obj len done true) fs) else none
  | .scalar, .inside (.arr len done) fs => if done.length < len then some (.inside (.arr len (done ++ [.scalar])) fs) else none
  | .string, .inside (.arr len done) fs => if done.length < len then some (.inside (.arr len (done ++ [.string])) fs) else none
  | .beginObj n, .empty => some (.inside (.obj n [] false) [])
  | .beginArr n, .empty => some (.inside (.arr n []) [])
  | .beginObj n, .inside (.obj len done true) fs => some (.inside (.obj n [] false) (.obj len done true :: fs))
  | .beginArr n, .inside (.obj len done true) fs => some (.inside (.arr n []) (.obj len done true :: fs))
  | .beginObj n, .inside (.arr len done) fs => if done.length < len then some (.inside (.obj n [] false) (.arr len done :: fs)) else none
  | .beginArr n, .inside (.arr len done) fs => if done.length < len then some (.inside (.arr n []) (.arr len done :: fs)) else none
  | .endObj, .inside (.obj len done false) fs => if done.length = len then some (CG.close (.obj done) fs) else none
  | .endArr, .inside (.arr len done) fs => if done.length = len then some (CG.close (.arr done) fs) else none
  | _, _ => none

end SfVerif
