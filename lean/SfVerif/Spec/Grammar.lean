import SfVerif.Model.Writer
/-! The document grammar as a *zipper*: the path of open containers from the innermost outwards,
    each with how much of it has been written. This is the specification the write state machine
    is refined to: no interleaved key/value counter, no "claimed slot" convention — an object frame
    records completed pairs and whether a key is waiting for its value. Status codes are the ones
    `api/README.md` documents for each mistake. -/
namespace SfVerif
open SfVerif.Gen

inductive Frame where
  | obj (len pairs : Nat) (haveKey : Bool)
  | arr (len items : Nat)
  deriving DecidableEq, Repr

/-- the document being built -/
inductive G where
  | empty                                        -- nothing written yet
  | inside (inner : Frame) (outer : List Frame)  -- inside at least one open container
  | complete                                     -- the root value has been closed
  deriving DecidableEq, Repr

/-- what a write call offers, as the grammar sees it -/
inductive Tok where
  | scalar            -- bool, null, i32, f64
  | string
  | beginObj (len : Nat)
  | beginArr (len : Nat)
  | endObj
  | endArr
  deriving DecidableEq, Repr

def WOp.tok : WOp → Tok
  | .bool _ => .scalar
  | .null => .scalar
  | .i32 _ => .scalar
  | .f64 _ => .scalar
  | .strAlloc _ => .string
  | .obj l => .beginObj l
  | .endObj => .endObj
  | .arr l => .beginArr l
  | .endArr => .endArr

/-- after the innermost container has been closed: back in its parent, or the document is complete -/
def G.close : List Frame → G
  | [] => .complete
  | f :: fs => .inside f fs

/-- put one value (`isString`: it is a string) into the innermost frame: the frame with the value
    accounted for, or the documented error -/
def Frame.put (isString : Bool) : Frame → Except Nat Frame
  | .obj len pairs false =>                         -- a key is due
    if !isString then .error WriteResult_ExpectedKey
    else if pairs ≥ len then .error WriteResult_ObjectLengthError
    else .ok (.obj len pairs true)
  | .obj len pairs true => .ok (.obj len (pairs + 1) false)   -- the value for the waiting key
  | .arr len items =>
    if items ≥ len then .error WriteResult_ArrayLengthError
    else .ok (.arr len (items + 1))

/-- a scalar or string offered at the current position -/
def G.value (g : G) (isString : Bool) : G × Nat :=
  match g with
  | .empty => (.complete, WriteResult_Ok)
  | .complete => (g, WriteResult_ValueAlreadyWritten)
  | .inside f fs =>
    match f.put isString with
    | .ok f' => (.inside f' fs, WriteResult_Ok)
    | .error e => (g, e)

/-- one write call against the grammar: the document afterwards and the status -/
def G.step (g : G) (t : Tok) : G × Nat :=
  match t with
  | .scalar => g.value false
  | .string => g.value true
  | .beginObj len =>
    (match g with
     | .empty => (.inside (.obj len 0 false) [], WriteResult_Ok)
     | .complete => (g, WriteResult_ValueAlreadyWritten)
     | .inside f fs =>
       match f.put false with
       | .ok f' => (.inside (.obj len 0 false) (f' :: fs), WriteResult_Ok)
       | .error e => (g, e))
  | .beginArr len =>
    (match g with
     | .empty => (.inside (.arr len 0) [], WriteResult_Ok)
     | .complete => (g, WriteResult_ValueAlreadyWritten)
     | .inside f fs =>
       match f.put false with
       | .ok f' => (.inside (.arr len 0) (f' :: fs), WriteResult_Ok)
       | .error e => (g, e))
  | .endObj =>
    (match g with
     | .inside (.obj len pairs haveKey) fs =>
       if haveKey = false ∧ pairs = len then (G.close fs, WriteResult_Ok)
       else (g, WriteResult_ObjectLengthError)
     | _ => (g, WriteResult_NotAnObject))
  | .endArr =>
    (match g with
     | .inside (.arr len items) fs =>
       if items = len then (G.close fs, WriteResult_Ok)
       else (g, WriteResult_ArrayLengthError)
     | _ => (g, WriteResult_NotAnArray))

/-- run a call sequence against the grammar: statuses in call order and the final document -/
def G.run (g : G) : List Tok → List Nat × G
  | [] => ([], g)
  | t :: ts => let (g', r) := g.step t; let (rs, gf) := g'.run ts; (r :: rs, gf)

end SfVerif
