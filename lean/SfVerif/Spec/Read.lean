import SfVerif.Spec.Path
import SfVerif.Spec.Prop
import SfVerif.Model.Ctx
/-! What every read entry point must answer, as a function of the document bytes, the position
    asked for (a handle = root allocation + path of child steps) and the call's arguments — and of
    nothing else: no node tree, no parsed prefix, no history. Positions are found by the eager
    sequential walk (`specPath`), values are the headers found there. -/
namespace SfVerif
open SfVerif.Gen

namespace Spec

/-- the boxed value for the position `path` (root allocation `root` only names the handle) -/
def valueAt (b : Bytes) (root : Nat) (path : Path) : RVal :=
  match specPath b 0 path with
  | none => .err ErrorCode_ReadError
  | some p =>
    match readHdr b p with
    | none => .err ErrorCode_ReadError
    | some hd => Ctx.encodeNode { root := root, path := path } (mkNode hd)

/-- the header of the value a handle denotes -/
def hdrAt (b : Bytes) (h : Handle) : Option Hdr :=
  match specPath b 0 h.path with
  | none => none
  | some p => readHdr b p

/-- `shopify_function_input_get_at_index` on a handle -/
def getAtIndex (b : Bytes) (h : Handle) (i : Nat) : RVal :=
  match hdrAt b h with
  | some (.arr len _) => if i < len then valueAt b h.root (h.path ++ [.elem i]) else .err ErrorCode_IndexOutOfBounds
  | some (.map len _) => if i < len then valueAt b h.root (h.path ++ [.val i]) else .err ErrorCode_IndexOutOfBounds
  | some (.scalar _ _) => .err ErrorCode_NotIndexable
  | none => .err ErrorCode_ReadError

/-- `shopify_function_input_get_obj_key_at_index` on a handle: the key of pair `i`, provided
    the sequential decoder finds that pair (string key, readable value header) -/
def getKeyAtIndex (b : Bytes) (h : Handle) (i : Nat) : RVal :=
  match specPath b 0 h.path with
  | none => .err ErrorCode_ReadError
  | some p =>
    match readHdr b p with
    | some (.map len _) =>
      if i < len then
        (match specPair b p i with
         | some _ => valueAt b h.root (h.path ++ [.key i])
         | none => .err ErrorCode_ReadError)
      else .err ErrorCode_IndexOutOfBounds
    | some _ => .err ErrorCode_NotAnObject
    | none => .err ErrorCode_ReadError

/-- `shopify_function_input_get_obj_prop` on a handle: first pair in document order whose key
    bytes equal the name; `null` when there is none -/
def getObjProp (b : Bytes) (h : Handle) (q : Bytes) : RVal :=
  match hdrAt b h with
  | some (.map len body) =>
    (match specProp b (eagerFuel b) q len body 0 with
     | .found i _ => valueAt b h.root (h.path ++ [.val i])
     | .missing => .null
     | .err => .err ErrorCode_ReadError)
  | some _ => .err ErrorCode_NotAnObject
  | none => .err ErrorCode_ReadError

/-- `shopify_function_input_get_val_len` on a handle: the declared length in the header -/
def getValLen (b : Bytes) (h : Handle) : Option Nat :=
  match hdrAt b h with
  | some hd => some (mkNode hd).valueLength
  | none => none

/-- where the bytes of the string a handle denotes start -/
def strOffset (b : Bytes) (h : Handle) : Option Nat :=
  match hdrAt b h with
  | some (.scalar (.str off _) _) => some off
  | _ => none

end Spec
end SfVerif
