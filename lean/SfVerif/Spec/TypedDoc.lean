import SfVerif.Model.Typed
import SfVerif.Model.Doc
/-! Document-level specification of the typed layer: the document a value's serialisation
    builds, and deserialisation read off a decoded document tree. -/
namespace SfVerif

mutual
/-- the document the accepted write calls of `v.ser` describe -/
def TVal.doc : TVal → Doc
  | .unit => .nil
  | .bool b => .bool b
  | .int z => .int z
  | .f64 b => .f64 b
  | .str bs => .str bs
  | .chr bs => .str bs
  | .none => .nil
  | .some v => v.doc
  | .seq vs => .arr (TVal.docs vs)
  | .tup vs => .arr (TVal.docs vs)
  | .map ps => .map (TVal.docPairs ps)
def TVal.docs : List TVal → List Doc
  | [] => []
  | v :: vs => v.doc :: TVal.docs vs
def TVal.docPairs : List (Bytes × TVal) → List (Doc × Doc)
  | [] => []
  | (k, v) :: ps => (.str k, v.doc) :: TVal.docPairs ps
end

/-- the double the reader reports for a number document (`none`: not a number, or a NaN) -/
def Doc.num? : Doc → Option Nat
  | .int z => some (F64.ofInt z)
  | .f32 b => if F64.isNaN (F64.ofF32 b) then none else some (F64.ofF32 b)
  | .f64 b => if F64.isNaN b then none else some b
  | _ => none

mutual
/-- `Deserialize::deserialize` read off the decoded tree -/
def deDoc : Ty → Doc → Option TVal
  | .unit, d => (match d with | .nil => some .unit | _ => none)
  | .bool, d => (match d with | .bool b => some (.bool b) | _ => none)
  | .f64, d => (match d.num? with | some b => some (.f64 b) | none => none)
  | .int lo hi, d =>
    (match d.num? with
     | some b => (match deInt lo hi b with | some z => some (.int z) | none => none)
     | none => none)
  | .str, d => (match d with | .str bs => some (.str bs) | _ => none)
  | .char, d => (match d with | .str bs => if utf8Chars bs = 1 then some (.chr bs) else none | _ => none)
  | .opt t, d => (match d with | .nil => some .none | d => (match deDoc t d with | some x => some (.some x) | none => none))
  | .vec t, d => (match d with | .arr xs => (match deDocs t xs with | some vs => some (.seq vs) | none => none) | _ => none)
  | .arrN n t, d =>
    (match d with
     | .arr xs => if xs.length ≠ n then none else (match deDocs t xs with | some vs => some (.seq vs) | none => none)
     | _ => none)
  | .tup ts, d =>
    (match d with
     | .arr xs => if xs.length ≠ ts.length then none else (match deDocTuple ts xs with | some vs => some (.tup vs) | none => none)
     | _ => none)
  | .map t, d => (match d with | .map ps => (match deDocPairs t ps with | some qs => some (.map qs) | none => none) | _ => none)
def deDocs : Ty → List Doc → Option (List TVal)
  | _, [] => some []
  | t, d :: ds =>
    match deDoc t d with
    | none => none
    | some v => match deDocs t ds with | none => none | some vs => some (v :: vs)
def deDocTuple : List Ty → List Doc → Option (List TVal)
  | [], _ => some []
  | _ :: _, [] => none
  | t :: ts, d :: ds =>
    match deDoc t d with
    | none => none
    | some v => match deDocTuple ts ds with | none => none | some vs => some (v :: vs)
def deDocPairs : Ty → List (Doc × Doc) → Option (List (Bytes × TVal))
  | _, [] => some []
  | t, (k, d) :: ps =>
    match k with
    | .str kb =>
      (match deDoc t d with
       | none => none
       | some v => match deDocPairs t ps with | none => none | some qs => some ((kb, v) :: qs))
    | _ => none
end

end SfVerif
