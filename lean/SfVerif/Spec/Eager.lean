import SfVerif.Model.MsgPack
/-! The eager, sequential walk over the supported MessagePack subset: where does the value that
    starts at `pos` end? (`none`: it cannot be decoded — truncated, unsupported marker, a map key
    that is not a string, a declared length that cannot fit.) This is the specification the lazy
    reader is measured against. The fuel bounds the nesting depth. -/
namespace SfVerif

mutual
def skip (b : Bytes) : Nat → Nat → Option Nat
  | 0, _ => none
  | f+1, pos =>
    match readHdr b pos with
    | none => none
    | some (.scalar _ e) => some e
    | some (.arr len body) => skipN b f len body
    | some (.map len body) => skipPairs b f len body
def skipN (b : Bytes) : Nat → Nat → Nat → Option Nat
  | _, 0, pos => some pos
  | f, k+1, pos =>
    match skip b f pos with
    | none => none
    | some e => skipN b f k e
def skipPairs (b : Bytes) : Nat → Nat → Nat → Option Nat
  | _, 0, pos => some pos
  | f, k+1, pos =>
    match readHdr b pos with
    | some (.scalar (.str _ _) ke) =>
      (match skip b f ke with
       | none => none
       | some e => skipPairs b f k e)
    | _ => none
end

end SfVerif
