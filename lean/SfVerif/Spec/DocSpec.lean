import SfVerif.Model.Doc
import SfVerif.Model.Ctx
/-! What a reader sees of a fully decoded document tree (`Model/Doc.decodeAll`): the most direct
    reading of "what a full eager decode of the document gives for that position". -/
namespace SfVerif
open SfVerif.Gen

mutual
/-- every map key in the tree is a string (the supported subset) -/
def Doc.keysStr : Doc → Bool
  | .arr xs => Doc.keysStrList xs
  | .map ps => Doc.keysStrPairs ps
  | _ => true
def Doc.keysStrList : List Doc → Bool
  | [] => true
  | d :: ds => d.keysStr && Doc.keysStrList ds
def Doc.keysStrPairs : List (Doc × Doc) → Bool
  | [] => true
  | (k, v) :: ps => (match k with | .str _ => true | _ => false) && v.keysStr && Doc.keysStrPairs ps
end

/-- the double a number document is reported as (nearest double of an integer, exact widening
    of a float32) -/
def Doc.numBits? : Doc → Option Nat
  | .int z => some (F64.ofInt z)
  | .f32 v => some (F64.ofF32 v)
  | .f64 v => some v
  | _ => none

/-- the boxed value a read call returns for a document node reached through handle `h` -/
def Doc.box (h : Handle) : Doc → RVal
  | .nil => .null
  | .bool x => .bool x
  | .int z => if F64.isNaN (F64.ofInt z) then .err ErrorCode_ReadError else .num (F64.ofInt z)
  | .f32 v => if F64.isNaN (F64.ofF32 v) then .err ErrorCode_ReadError else .num (F64.ofF32 v)
  | .f64 v => if F64.isNaN v then .err ErrorCode_ReadError else .num v
  | .str bs => .str h bs.size
  | .arr xs => .arr h xs.length
  | .map ps => .obj h ps.length

/-- the child a path step denotes in the tree -/
def Doc.child? : Doc → PStep → Option Doc
  | .arr xs, .elem i => xs[i]?
  | .map ps, .key i => (match ps[i]? with | some (k, _) => some k | none => none)
  | .map ps, .val i => (match ps[i]? with | some (_, v) => some v | none => none)
  | _, _ => none

def Doc.getPath? : Doc → Path → Option Doc
  | d, [] => some d
  | d, s :: rest => match d.child? s with | none => none | some c => c.getPath? rest

end SfVerif

namespace SfVerif
open SfVerif.Gen

/-- first pair whose key is the string `q`: (index, value) -/
def Doc.findProp (q : Bytes) : List (Doc × Doc) → Nat → Option (Nat × Doc)
  | [], _ => none
  | (k, v) :: rest, idx =>
    match k with
    | .str bs => if bs = q then some (idx, v) else Doc.findProp q rest (idx + 1)
    | _ => Doc.findProp q rest (idx + 1)

namespace DocSpec

/-- `get_at_index` read off the decoded node `c` that handle `h` denotes -/
def getAtIndex (c : Doc) (h : Handle) (i : Nat) : RVal :=
  match c with
  | .arr xs => (match xs[i]? with
    | some x => x.box { root := h.root, path := h.path ++ [.elem i] }
    | none => .err ErrorCode_IndexOutOfBounds)
  | .map ps => (match ps[i]? with
    | some (_, v) => v.box { root := h.root, path := h.path ++ [.val i] }
    | none => .err ErrorCode_IndexOutOfBounds)
  | _ => .err ErrorCode_NotIndexable

def getKeyAtIndex (c : Doc) (h : Handle) (i : Nat) : RVal :=
  match c with
  | .map ps => (match ps[i]? with
    | some (k, _) => k.box { root := h.root, path := h.path ++ [.key i] }
    | none => .err ErrorCode_IndexOutOfBounds)
  | _ => .err ErrorCode_NotAnObject

def getObjProp (c : Doc) (h : Handle) (q : Bytes) : RVal :=
  match c with
  | .map ps => (match Doc.findProp q ps 0 with
    | some (i, v) => v.box { root := h.root, path := h.path ++ [.val i] }
    | none => .null)
  | _ => .err ErrorCode_NotAnObject

def getValLen (c : Doc) : Nat :=
  match c with
  | .str bs => bs.size
  | .arr xs => xs.length
  | .map ps => ps.length
  | _ => 0

end DocSpec
end SfVerif
