import SfVerif.Lemmas.Intern2
/-! The interner's storage discipline: spans lie one after the other inside the buffer, so a copy into
    one span (the pending intern destination) never changes what another id resolves to. -/
namespace SfVerif
open SfVerif.Gen

/-- spans lie inside the buffer, one after the other -/
def Consec (s : Interner) : Prop :=
  ∀ (i off len : Nat), s.spans[i]? = some (off, len) →
    off + len ≤ s.buf.size ∧ ∀ (j off' len' : Nat), j < i → s.spans[j]? = some (off', len') → off' + len' ≤ off

theorem consec_empty : Consec {} := by
  intro i off len h; simp at h

theorem extract_blitAt_disjoint (dst : Array UInt8) (off : Nat) (src : Bytes) (a l : Nat)
    (h : off + src.size ≤ dst.size) (hd : a + l ≤ off ∨ off + src.size ≤ a) :
    (blitAt dst off src).extract a (a + l) = dst.extract a (a + l) := by
  apply Array.ext_getElem?
  intro i
  simp only [Array.getElem?_extract, blitAt_size _ _ _ h]
  by_cases hi : i < min (a + l) dst.size - a
  · rw [if_pos hi, if_pos hi, blitAt_getElem? _ _ _ _ h]
    have : a + i < a + l := by omega
    by_cases c1 : a + i < off
    · rw [if_pos c1]
    · rw [if_neg c1]
      have : ¬ a + i < off + src.size := by omega
      rw [if_neg this]
  · rw [if_neg hi, if_neg hi]

theorem preallocate_spans (s : Interner) (n : Nat) :
    (s.preallocate n).1.spans = s.spans.push (s.buf.size, n) := rfl

theorem preallocate_buf (s : Interner) (n : Nat) :
    (s.preallocate n).1.buf = s.buf ++ Array.replicate n 0 := rfl

theorem preallocate_consec (s : Interner) (n : Nat) (h : Consec s) : Consec (s.preallocate n).1 := by
  intro i off len hi
  rw [preallocate_spans] at hi
  rw [preallocate_buf]
  simp only [Array.size_append, Array.size_replicate]
  by_cases hlt : i < s.spans.size
  · rw [Array.getElem?_push_lt hlt] at hi
    have hh := h i off len (by rw [Array.getElem?_eq_getElem hlt]; exact hi)
    refine ⟨by omega, ?_⟩
    intro j off' len' hj hs
    have hjl : j < s.spans.size := by omega
    rw [preallocate_spans, Array.getElem?_push_lt hjl] at hs
    exact hh.2 j off' len' hj (by rw [Array.getElem?_eq_getElem hjl]; exact hs)
  · by_cases heq : i = s.spans.size
    · subst heq
      simp at hi
      obtain ⟨h1, h2⟩ := hi
      subst h1; subst h2
      refine ⟨by omega, ?_⟩
      intro j off' len' hj hs
      rw [preallocate_spans, Array.getElem?_push_lt hj] at hs
      exact (h j off' len' (by rw [Array.getElem?_eq_getElem hj]; exact hs)).1
    · have : (s.spans.push (s.buf.size, n))[i]? = none := by
        apply Array.getElem?_eq_none; simp; omega
      rw [this] at hi; cases hi

theorem copyAt_consec (s : Interner) (off : Nat) (bs : Bytes) (h : Consec s) (hb : off + bs.size ≤ s.buf.size) :
    Consec (s.copyAt off bs) := by
  intro i o l hi
  have := h i o l hi
  simp only [Interner.copyAt, blitAt_size _ _ _ hb]
  exact this

/-- a new reservation leaves every earlier id as it was -/
theorem get?_preallocate_old (s : Interner) (n id : Nat) (h : Consec s) (hid : id < s.spans.size) :
    (s.preallocate n).1.get? id = s.get? id := by
  unfold Interner.get?
  rw [preallocate_spans, preallocate_buf, Array.getElem?_push_lt hid]
  have hs : s.spans[id]? = some s.spans[id] := by simp [hid]
  rw [hs]
  have hb := (h id s.spans[id].1 s.spans[id].2 (by rw [hs])).1
  simp only []
  congr 1
  rw [Array.extract_append]
  have : s.spans[id].1 + s.spans[id].2 - s.buf.size = 0 := by omega
  rw [this]
  simp

/-- the id just reserved resolves to zeros of the requested length until the copy arrives -/
theorem get?_preallocate_new (s : Interner) (n : Nat) :
    (s.preallocate n).1.spans[s.spans.size]? = some (s.buf.size, n) := by
  rw [preallocate_spans]; simp

/-- a copy into the span `(off, n)` at index `k` leaves every other id as it was -/
theorem get?_copyAt_other (s : Interner) (h : Consec s) (k off n : Nat) (bs : Bytes)
    (hk : s.spans[k]? = some (off, n)) (hbs : bs.size ≤ n) (id : Nat)
    (hne : s.spans[id]? = some (off, n) → n = 0) :
    (s.copyAt off bs).get? id = s.get? id := by
  unfold Interner.get?
  simp only [Interner.copyAt]
  cases hs : s.spans[id]? with
  | none => rfl
  | some p =>
    obtain ⟨o, l⟩ := p
    simp only []
    congr 1
    have hkb := h k off n hk
    have hib := h id o l hs
    have hfit : off + bs.size ≤ s.buf.size := by omega
    by_cases hz : bs.size = 0
    · -- an empty copy changes nothing
      have : blitAt s.buf off bs = s.buf := by
        apply Array.ext_getElem?
        intro i
        rw [blitAt_getElem? _ _ _ _ hfit]
        by_cases c1 : i < off
        · rw [if_pos c1]
        · rw [if_neg c1]
          have : ¬ i < off + bs.size := by omega
          rw [if_neg this]
      rw [this]
    · apply extract_blitAt_disjoint _ _ _ _ _ hfit
      rcases Nat.lt_trichotomy id k with hlt | heq | hgt
      · left; exact hkb.2 id o l hlt hs
      · subst heq
        rw [hk] at hs
        cases hs
        have := hne hk
        omega
      · right
        have := hib.2 k off n hgt hk
        omega

/-- a copy of exactly the reserved length makes the reserved id resolve to the copied bytes -/
theorem get?_copyAt_self (s : Interner) (h : Consec s) (k off : Nat) (bs : Bytes)
    (hk : s.spans[k]? = some (off, bs.size)) :
    (s.copyAt off bs).get? k = some bs := by
  unfold Interner.get?
  simp only [Interner.copyAt, hk]
  congr 1
  have hfit := (h k off bs.size hk).1
  apply Array.ext_getElem?
  intro i
  simp only [Array.getElem?_extract, blitAt_size _ _ _ hfit]
  by_cases hi : i < bs.size
  · have h1 : i < min (off + bs.size) s.buf.size - off := by omega
    rw [if_pos h1, blitAt_getElem? _ _ _ _ hfit]
    have c1 : ¬ off + i < off := by omega
    have c2 : off + i < off + bs.size := by omega
    rw [if_neg c1, if_pos c2]
    congr 1; omega
  · have h1 : ¬ i < min (off + bs.size) s.buf.size - off := by omega
    rw [if_neg h1]
    exact (Array.getElem?_eq_none (by omega)).symm

end SfVerif
