import SfVerif.Lemmas.Ext2
/-! `updateAt`: applying an operation to the node a handle denotes, seen from the root. -/
namespace SfVerif

theorem NodeList.updateRev_spec (g : Node → Node × Got) (p : Path) :
    ∀ (l : NodeList) (j : Nat) (l' : NodeList) (r : Got), l.updateRev j p g = some (l', r) →
      ∃ c c', l.getRev? j = some c ∧ c.updateAt p g = some (c', r) ∧ l'.getRev? j = some c' ∧
        l'.length = l.length ∧ ∀ j', j' ≠ j → l'.getRev? j' = l.getRev? j'
  | .nil, j, l', r, h => by simp [NodeList.updateRev] at h
  | .snoc init last, j, l', r, h => by
    have ih := NodeList.updateRev_spec g p init
    cases j with
    | zero =>
      simp only [NodeList.updateRev] at h
      cases hu : last.updateAt p g with
      | none => rw [hu] at h; cases h
      | some x =>
        obtain ⟨last', r'⟩ := x
        rw [hu] at h; simp only [Option.some.injEq, Prod.mk.injEq] at h
        obtain ⟨rfl, rfl⟩ := h
        refine ⟨last, last', rfl, hu, rfl, rfl, ?_⟩
        intro j' hj'
        cases j' with
        | zero => exact absurd rfl hj'
        | succ j' => rfl
    | succ j =>
      simp only [NodeList.updateRev] at h
      cases hu : init.updateRev j p g with
      | none => rw [hu] at h; cases h
      | some x =>
        obtain ⟨init', r'⟩ := x
        rw [hu] at h; simp only [Option.some.injEq, Prod.mk.injEq] at h
        obtain ⟨rfl, rfl⟩ := h
        obtain ⟨c, c', h1, h2, h3, h4, h5⟩ := ih j init' r' hu
        refine ⟨c, c', h1, h2, h3, by simp [NodeList.length, h4], ?_⟩
        intro j' hj'
        cases j' with
        | zero => rfl
        | succ j' => exact h5 j' (by omega)

theorem PairList.updateRev_spec (g : Node → Node × Got) (p : Path) :
    ∀ (l : PairList) (j : Nat) (l' : PairList) (r : Got), l.updateRev j p g = some (l', r) →
      ∃ ko kl c c', l.getRev? j = some (ko, kl, c) ∧ c.updateAt p g = some (c', r) ∧
        l'.getRev? j = some (ko, kl, c') ∧
        l'.length = l.length ∧ ∀ j', j' ≠ j → l'.getRev? j' = l.getRev? j'
  | .nil, j, l', r, h => by simp [PairList.updateRev] at h
  | .snoc init ko kl last, j, l', r, h => by
    have ih := PairList.updateRev_spec g p init
    cases j with
    | zero =>
      simp only [PairList.updateRev] at h
      cases hu : last.updateAt p g with
      | none => rw [hu] at h; cases h
      | some x =>
        obtain ⟨last', r'⟩ := x
        rw [hu] at h; simp only [Option.some.injEq, Prod.mk.injEq] at h
        obtain ⟨rfl, rfl⟩ := h
        refine ⟨ko, kl, last, last', rfl, hu, rfl, rfl, ?_⟩
        intro j' hj'
        cases j' with
        | zero => exact absurd rfl hj'
        | succ j' => rfl
    | succ j =>
      simp only [PairList.updateRev] at h
      cases hu : init.updateRev j p g with
      | none => rw [hu] at h; cases h
      | some x =>
        obtain ⟨init', r'⟩ := x
        rw [hu] at h; simp only [Option.some.injEq, Prod.mk.injEq] at h
        obtain ⟨rfl, rfl⟩ := h
        obtain ⟨ko', kl', c, c', h1, h2, h3, h4, h5⟩ := ih j init' r' hu
        refine ⟨ko', kl', c, c', h1, h2, h3, by simp [PairList.length, h4], ?_⟩
        intro j' hj'
        cases j' with
        | zero => rfl
        | succ j' => exact h5 j' (by omega)

/-- what `updateAt` does, seen from above: the node at `path` is replaced by `g`'s result, its
    answer is returned, everything else is as before -/
theorem updateAt_spec (g : Node → Node × Got) (hg : ∀ m, Ext m (g m).1) :
    ∀ (path : Path) (n n' : Node) (got : Got), n.updateAt path g = some (n', got) →
      Ext n n' ∧ ∃ m, n.getPath? path = some m ∧ got = (g m).2 ∧ n'.getPath? path = some (g m).1 := by
  intro path
  induction path with
  | nil =>
    intro n n' got h
    simp only [Node.updateAt, Option.some.injEq] at h
    have h1 : (g n).1 = n' := by rw [h]
    have h2 : (g n).2 = got := by rw [h]
    refine ⟨by rw [← h1]; exact hg n, n, rfl, h2.symm, by rw [← h1]; rfl⟩
  | cons s rest ih =>
    intro n n' got h
    cases s with
    | key i => simp [Node.updateAt] at h
    | elem i =>
      cases n with
      | scalar v => simp [Node.updateAt] at h
      | obj len ps e => simp [Node.updateAt] at h
      | arr len es e =>
        simp only [Node.updateAt] at h
        by_cases hi : i < es.length
        · rw [if_pos hi] at h
          cases hu : es.updateRev (es.length - 1 - i) rest g with
          | none => rw [hu] at h; cases h
          | some x =>
            obtain ⟨es', r⟩ := x
            rw [hu] at h; simp only [Option.some.injEq, Prod.mk.injEq] at h
            obtain ⟨rfl, rfl⟩ := h
            obtain ⟨c, c', h1, h2, h3, h4, h5⟩ := NodeList.updateRev_spec g rest es _ es' r hu
            obtain ⟨hext, m, hm1, hm2, hm3⟩ := ih c c' r h2
            have hgi : es.get? i = some c := by unfold NodeList.get?; rw [if_pos hi]; exact h1
            have hgi' : es'.get? i = some c' := by unfold NodeList.get?; rw [h4, if_pos hi]; exact h3
            refine ⟨Ext.arr ?_, m, ?_, hm2, ?_⟩
            · intro k x hx
              have hk := NodeList.get?_lt hx
              by_cases hki : k = i
              · subst hki; rw [hgi] at hx; simp at hx; subst hx; exact ⟨c', hgi', hext⟩
              · refine ⟨x, ?_, Ext.refl x⟩
                unfold NodeList.get? at hx ⊢
                rw [h4, if_pos hk]; rw [if_pos hk] at hx
                rw [h5 _ (by omega)]; exact hx
            · simp only [Node.getPath?, Node.child?, hgi]; exact hm1
            · simp only [Node.getPath?, Node.child?, hgi']; exact hm3
        · rw [if_neg hi] at h; cases h
    | val i =>
      cases n with
      | scalar v => simp [Node.updateAt] at h
      | arr len es e => simp [Node.updateAt] at h
      | obj len ps e =>
        simp only [Node.updateAt] at h
        by_cases hi : i < ps.length
        · rw [if_pos hi] at h
          cases hu : ps.updateRev (ps.length - 1 - i) rest g with
          | none => rw [hu] at h; cases h
          | some x =>
            obtain ⟨ps', r⟩ := x
            rw [hu] at h; simp only [Option.some.injEq, Prod.mk.injEq] at h
            obtain ⟨rfl, rfl⟩ := h
            obtain ⟨ko, kl, c, c', h1, h2, h3, h4, h5⟩ := PairList.updateRev_spec g rest ps _ ps' r hu
            obtain ⟨hext, m, hm1, hm2, hm3⟩ := ih c c' r h2
            have hgi : ps.get? i = some (ko, kl, c) := by unfold PairList.get?; rw [if_pos hi]; exact h1
            have hgi' : ps'.get? i = some (ko, kl, c') := by unfold PairList.get?; rw [h4, if_pos hi]; exact h3
            refine ⟨Ext.obj ?_, m, ?_, hm2, ?_⟩
            · intro k ko' kl' x hx
              have hk := PairList.get?_lt hx
              by_cases hki : k = i
              · subst hki; rw [hgi] at hx; simp at hx; obtain ⟨rfl, rfl, rfl⟩ := hx; exact ⟨c', hgi', hext⟩
              · refine ⟨x, ?_, Ext.refl x⟩
                unfold PairList.get? at hx ⊢
                rw [h4, if_pos hk]; rw [if_pos hk] at hx
                rw [h5 _ (by omega)]; exact hx
            · simp only [Node.getPath?, Node.child?, hgi]; exact hm1
            · simp only [Node.getPath?, Node.child?, hgi']; exact hm3
        · rw [if_neg hi] at h; cases h

end SfVerif
