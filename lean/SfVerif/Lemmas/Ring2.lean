import SfVerif.Lemmas.Ring
namespace SfVerif.Ring
open SfVerif SfVerif.Logs

theorem take_drop_getElem? (msg : List UInt8) (a k j : Nat) :
    ((msg.drop a).take k)[j]? = if j < k then msg[a + j]? else none := by
  simp only [List.getElem?_take, List.getElem?_drop]

theorem take_drop_length (msg : List UInt8) (a k : Nat) (h : a + k ≤ msg.length) :
    ((msg.drop a).take k).length = k := by
  simp; omega

/-- the physical contents after a log call: the retained tail of the message lands at
    `offset, offset+1, …` (mod cap); everything else is untouched -/
theorem log_buf_getElem? (cap : Nat) (l : Logs) (msg : List UInt8) (h : Inv cap l) (p : Nat) (hp : p < cap) :
    (log cap l msg).buf[p]? =
      if (p + cap - l.offset) % cap < min msg.length cap
      then msg[msg.length - min msg.length cap + (p + cap - l.offset) % cap]?
      else l.buf[p]? := by
  rw [log_buf cap l msg h]
  obtain ⟨hc, hb, ho, hl, hlo⟩ := h
  have hmn : min msg.length cap ≤ cap := Nat.min_le_right _ _
  have hmm : min msg.length cap ≤ msg.length := Nat.min_le_left _ _
  have hmod : (p + cap - l.offset) % cap = if p < l.offset then p + cap - l.offset else p - l.offset := by
    rw [mod3 _ cap hc (by omega)]; ifs_omega
  rw [hmod]
  by_cases hfit : min msg.length cap ≤ cap - l.offset
  · simp only [hfit, if_true]
    rw [blit_getElem? _ _ _ _ (by rw [take_drop_length _ _ _ (by omega)]; omega)]
    rw [take_drop_length _ _ _ (by omega), take_drop_getElem?]
    by_cases h1 : p < l.offset
    · have hx : ¬ (p + cap - l.offset < min msg.length cap) := by omega
      simp only [h1, if_true, hx, if_false]
    · by_cases h2 : p < l.offset + min msg.length cap
      · have hx : p - l.offset < min msg.length cap := by omega
        simp only [h1, h2, hx, if_true, if_false]
      · have hx : ¬ (p - l.offset < min msg.length cap) := by omega
        simp only [h1, h2, hx, if_false]
  · simp only [hfit, if_false]
    have hl1 : ((msg.drop (msg.length - min msg.length cap)).take (cap - l.offset)).length = cap - l.offset :=
      take_drop_length _ _ _ (by omega)
    have hl2 : ((msg.drop (msg.length - min msg.length cap + (cap - l.offset))).take
        (min msg.length cap - (cap - l.offset))).length = min msg.length cap - (cap - l.offset) :=
      take_drop_length _ _ _ (by omega)
    have hbl : (blit l.buf l.offset ((msg.drop (msg.length - min msg.length cap)).take (cap - l.offset))).length = cap := by
      rw [blit_length _ _ _ (by rw [hl1]; omega)]; exact hb
    rw [blit_getElem? _ _ _ _ (by rw [hl2, hbl]; omega), hl2]
    rw [blit_getElem? _ _ _ _ (by rw [hl1]; omega), hl1]
    simp only [take_drop_getElem?, Nat.zero_add, Nat.sub_zero, Nat.not_lt_zero, if_false]
    by_cases h1 : p < min msg.length cap - (cap - l.offset)
    · have h2 : p < l.offset := by omega
      have hx : p + cap - l.offset < min msg.length cap := by omega
      simp only [h1, h2, hx, if_true]
      congr 1; omega
    · by_cases h2 : p < l.offset
      · have hx : ¬ (p + cap - l.offset < min msg.length cap) := by omega
        simp only [h1, h2, hx, if_true, if_false]
      · have h3 : p < l.offset + (cap - l.offset) := by omega
        have h4 : p - l.offset < cap - l.offset := by omega
        have hx : p - l.offset < min msg.length cap := by omega
        simp only [h1, h2, h3, h4, hx, if_true, if_false]


theorem mod3_or (x c : Nat) (hc : 0 < c) (h : x < 3 * c) :
    (x < c ∧ x % c = x) ∨ (c ≤ x ∧ x < 2 * c ∧ x % c = x - c) ∨ (2 * c ≤ x ∧ x % c = x - 2 * c) := by
  have := mod3 x c hc h
  by_cases h1 : x < c
  · left; rw [if_pos h1] at this; exact ⟨h1, this⟩
  · by_cases h2 : x < 2 * c
    · right; left; rw [if_neg h1, if_pos h2] at this; exact ⟨by omega, h2, this⟩
    · right; right; rw [if_neg h1, if_neg h2] at this; exact ⟨by omega, this⟩

/-- pure arithmetic of the ring indices (`A` new write offset, `Q` physical index of logical
    index `i` of the new contents, `J` distance of `Q` from the old write offset, `R` physical
    index of the old logical index that survives at `i`); each `%` is resolved by one `omega`
    call that sees a single three-way disjunction -/
theorem ring_index (c o L n' i : Nat) (hc : 0 < c) (ho : o < c) (hL : L ≤ c) (hLo : L < c → o = L)
    (hn : n' ≤ c) (hi : i < min (L + n') c) :
    (i < min (L + n') c - n' →
      ¬ (((((o + n') % c + c - min (L + n') c + i) % c) + c - o) % c < n') ∧
      ((o + n') % c + c - min (L + n') c + i) % c = (o + c - L + (L + n' - min (L + n') c + i)) % c) ∧
    (¬ (i < min (L + n') c - n') →
      ((((o + n') % c + c - min (L + n') c + i) % c) + c - o) % c = i - (min (L + n') c - n')) := by
  have hAlt : (o + n') % c < c := Nat.mod_lt _ hc
  by_cases hs : L + n' ≤ c
  · have hmin : min (L + n') c = L + n' := by omega
    rw [hmin] at hi ⊢
    by_cases hf : L < c
    · have hoL := hLo hf
      subst hoL
      have hQ : ((o + n') % c + c - (o + n') + i) % c = i := by
        have hA : (o + n') % c = o + n' ∨ ((o + n') % c = 0 ∧ o + n' = c) := by
          have := mod3_or (o + n') c hc (by omega); omega
        have := mod3_or ((o + n') % c + c - (o + n') + i) c hc (by omega)
        omega
      rw [hQ]
      constructor
      · intro h1
        have hJ : (i + c - o) % c = i + c - o := by
          have := mod3_or (i + c - o) c hc (by omega); omega
        have hR : (o + c - o + (o + n' - (o + n') + i)) % c = i := by
          have := mod3_or (o + c - o + (o + n' - (o + n') + i)) c hc (by omega); omega
        rw [hJ, hR]; exact ⟨by omega, rfl⟩
      · intro h1
        have hJ : (i + c - o) % c = i - o := by
          have := mod3_or (i + c - o) c hc (by omega); omega
        rw [hJ]; omega
    · have hLc : L = c := by omega
      have hn0 : n' = 0 := by omega
      subst hn0
      have hA0 : (o + 0) % c = o := by rw [Nat.add_zero]; exact Nat.mod_eq_of_lt ho
      rw [hA0]
      constructor
      · intro _
        refine ⟨by omega, ?_⟩
        congr 1
        omega
      · intro h1; omega
  · have hmin : min (L + n') c = c := by omega
    rw [hmin] at hi ⊢
    by_cases hf : L < c
    · have hoL := hLo hf
      subst hoL
      have hA : (o + n') % c = o + n' - c := by
        have := mod3_or (o + n') c hc (by omega); omega
      rw [hA]
      constructor
      · intro h1
        have hQ : (o + n' - c + c - c + i) % c = o + n' - c + i := by
          have := mod3_or (o + n' - c + c - c + i) c hc (by omega); omega
        have hJ : (o + n' - c + i + c - o) % c = n' + i := by
          have := mod3_or (o + n' - c + i + c - o) c hc (by omega); omega
        have hR : (o + c - o + (o + n' - c + i)) % c = o + n' - c + i := by
          have := mod3_or (o + c - o + (o + n' - c + i)) c hc (by omega); omega
        rw [hQ, hJ, hR]; exact ⟨by omega, rfl⟩
      · intro h1
        have hQ : (o + n' - c + c - c + i) % c = o + n' - c + i ∨
            ((o + n' - c + c - c + i) % c = o + n' - c + i - c ∧ c ≤ o + n' - c + i) := by
          have := mod3_or (o + n' - c + c - c + i) c hc (by omega); omega
        rcases hQ with hQ | ⟨hQ, hge⟩
        · rw [hQ]
          have : o + n' - c + i < c := by rw [← hQ]; exact Nat.mod_lt _ hc
          have := mod3_or (o + n' - c + i + c - o) c hc (by omega); omega
        · rw [hQ]
          have := mod3_or (o + n' - c + i - c + c - o) c hc (by omega); omega
    · have hLc : L = c := by omega
      subst hLc
      have hA : (o + n') % L = o + n' ∧ o + n' < L ∨ ((o + n') % L = o + n' - L ∧ L ≤ o + n') := by
        have := mod3_or (o + n') L hc (by omega); omega
      constructor
      · intro h1
        have hR : (o + L - L + (L + n' - L + i)) % L = (o + n' + i) % L := by congr 1; omega
        rw [hR]
        rcases hA with ⟨hA, hlt⟩ | ⟨hA, hge⟩
        · rw [hA]
          have hQ : (o + n' + L - L + i) % L = (o + n' + i) % L := by congr 1; omega
          rw [hQ]
          refine ⟨?_, rfl⟩
          have hq := mod3_or (o + n' + i) L hc (by omega)
          have hqlt : (o + n' + i) % L < L := Nat.mod_lt _ hc
          rcases hq with ⟨h0, hq⟩ | ⟨h0, h0', hq⟩ | ⟨h0, hq⟩
          · rw [hq]
            have := mod3_or (o + n' + i + L - o) L hc (by omega); omega
          · rw [hq]
            have := mod3_or (o + n' + i - L + L - o) L hc (by omega); omega
          · omega
        · rw [hA]
          have hQ : (o + n' - L + L - L + i) % L = o + n' + i - L := by
            have := mod3_or (o + n' - L + L - L + i) L hc (by omega); omega
          have hR2 : (o + n' + i) % L = o + n' + i - L := by
            have := mod3_or (o + n' + i) L hc (by omega); omega
          rw [hQ, hR2]
          refine ⟨?_, rfl⟩
          have := mod3_or (o + n' + i - L + L - o) L hc (by omega); omega
      · intro h1
        rcases hA with ⟨hA, hlt⟩ | ⟨hA, hge⟩
        · rw [hA]
          have hQ : (o + n' + L - L + i) % L = o + n' + i - L := by
            have := mod3_or (o + n' + L - L + i) L hc (by omega); omega
          rw [hQ]
          have := mod3_or (o + n' + i - L + L - o) L hc (by omega); omega
        · rw [hA]
          have hq := mod3_or (o + n' - L + L - L + i) L hc (by omega)
          rcases hq with ⟨h0, hq⟩ | ⟨h0, h0', hq⟩ | ⟨h0, hq⟩
          · rw [hq]
            have := mod3_or (o + n' - L + L - L + i + L - o) L hc (by omega); omega
          · rw [hq]
            have := mod3_or (o + n' - L + L - L + i - L + L - o) L hc (by omega); omega
          · omega


/-- **the step theorem**: after logging `msg`, what the host reads is the last `cap` bytes of
    (what it read before) followed by `msg` -/
theorem log_read (cap : Nat) (l : Logs) (msg : List UInt8) (h : Inv cap l) :
    Logs.read cap (log cap l msg) = lastN cap (Logs.read cap l ++ msg) := by
  have hinv' := log_inv cap l msg h
  obtain ⟨h1, h2, _, _⟩ := append_spec cap l msg.length h
  have hoff : (log cap l msg).offset = (l.offset + min msg.length cap) % cap := by rw [log_eq]; exact h1
  have hlen : (log cap l msg).len = min (l.len + min msg.length cap) cap := by rw [log_eq]; exact h2
  have hrl := read_length cap l h
  have hrl' := read_length cap _ hinv'
  have hinv := h
  obtain ⟨hc, hb, ho, hl, hlo⟩ := h
  have hmn : min msg.length cap ≤ cap := Nat.min_le_right _ _
  have hmm : min msg.length cap ≤ msg.length := Nat.min_le_left _ _
  apply List.ext_getElem?
  intro i
  rw [lastN_getElem?]
  simp only [List.length_append, hrl]
  by_cases hi : i < (log cap l msg).len
  · rw [read_getElem? cap _ hinv' i hi, hoff, hlen]
    rw [hlen] at hi
    have hq : ((l.offset + min msg.length cap) % cap + cap - min (l.len + min msg.length cap) cap + i) % cap < cap :=
      Nat.mod_lt _ hc
    rw [log_buf_getElem? cap l msg hinv _ hq]
    obtain ⟨hold, hnew⟩ := ring_index cap l.offset l.len (min msg.length cap) i hc ho hl hlo hmn hi
    by_cases hcase : i < min (l.len + min msg.length cap) cap - min msg.length cap
    · obtain ⟨hnot, hQR⟩ := hold hcase
      rw [if_neg hnot, hQR]
      have hk : l.len + min msg.length cap - min (l.len + min msg.length cap) cap + i < l.len := by omega
      rw [← read_getElem? cap l hinv _ hk]
      have hidx : l.len + msg.length - cap + i = l.len + min msg.length cap - min (l.len + min msg.length cap) cap + i := by
        omega
      rw [hidx, List.getElem?_append_left (by rw [hrl]; exact hk)]
    · have hJ := hnew hcase
      have hJlt : i - (min (l.len + min msg.length cap) cap - min msg.length cap) < min msg.length cap := by omega
      rw [hJ, if_pos hJlt]
      have hidx : l.len ≤ l.len + msg.length - cap + i := by omega
      rw [List.getElem?_append_right (by rw [hrl]; exact hidx), hrl]
      congr 1
      omega
  · have h1' : (Logs.read cap (log cap l msg))[i]? = none := by
      apply List.getElem?_eq_none; rw [hrl']; omega
    rw [h1']
    symm
    apply List.getElem?_eq_none
    simp only [List.length_append, hrl]
    rw [hlen] at hi
    omega

theorem init_inv (cap : Nat) (hc : 0 < cap) : Inv cap (Logs.init cap) := by
  refine ⟨hc, by simp [Logs.init], hc, by simp [Logs.init], by simp [Logs.init]⟩

theorem init_read (cap : Nat) : Logs.read cap (Logs.init cap) = [] := by
  by_cases hc : 0 < cap <;> simp [Logs.read, Logs.readPtrs, Logs.init, hc]

theorem lastN_lastN_append (cap : Nat) (xs ys : List UInt8) :
    lastN cap (lastN cap xs ++ ys) = lastN cap (xs ++ ys) := by
  apply List.ext_getElem?
  intro i
  simp only [lastN_getElem?, List.length_append, lastN_length, List.getElem?_append, lastN_getElem?]
  by_cases h : xs.length ≤ cap
  · have : min cap xs.length = xs.length := by omega
    simp only [this]
    have h0 : xs.length - cap = 0 := by omega
    simp [h0]
  · have hm : min cap xs.length = cap := by omega
    simp only [hm]
    split
    · rename_i h1
      rw [if_pos (by omega)]
      congr 1; omega
    · rename_i h1
      rw [if_neg (by omega)]
      congr 1; omega

/-- at every read point (every prefix of a history is a history): the host reads the last
    `cap` bytes of everything logged so far, in order -/
theorem read_is_tail (cap : Nat) (hc : 0 < cap) (msgs : List (List UInt8)) :
    Inv cap (msgs.foldl (log cap) (Logs.init cap)) ∧
    Logs.read cap (msgs.foldl (log cap) (Logs.init cap)) = lastN cap msgs.flatten := by
  suffices H : ∀ (l : Logs) (pre : List UInt8), Inv cap l → Logs.read cap l = lastN cap pre →
      Inv cap (msgs.foldl (log cap) l) ∧
      Logs.read cap (msgs.foldl (log cap) l) = lastN cap (pre ++ msgs.flatten) by
    have := H (Logs.init cap) [] (init_inv cap hc) (by rw [init_read]; simp [lastN])
    simpa using this
  induction msgs with
  | nil => intro l pre hi hr; simpa using ⟨hi, hr⟩
  | cons m rest ih =>
    intro l pre hi hr
    simp only [List.foldl_cons, List.flatten_cons]
    have := ih (log cap l m) (pre ++ m) (log_inv cap l m hi)
      (by rw [log_read cap l m hi, hr, lastN_lastN_append])
    simpa [List.append_assoc] using this

end SfVerif.Ring
