import SfVerif.Lemmas.Tramp1
/-! What the walk over the IMPORTS table keeps, adds and settles. -/
namespace SfVerif.Tramp
open SfVerif.Gen

theorem renameFn_module (o n : List Nat) (j : Imp) : (renameFn o n j).module = j.module := by
  unfold renameFn; split <;> rfl
theorem renameFn_kind (o n : List Nat) (j : Imp) : (renameFn o n j).kind = j.kind := by
  unfold renameFn; split <;> rfl

/-- modules and kinds of kept imports are unchanged; everything added is a provider import -/
theorem applyPairs_modules : ∀ (pairs : List (List Nat × List Nat)) (imps added : List Imp) (nm : Bool)
    (imps' added' : List Imp) (nm' : Bool),
    applyPairs pairs imps added nm = .ok (imps', added', nm') →
    (∀ a ∈ added, a.module = provider) →
    (∀ j ∈ imps', ∃ i ∈ imps, i.module = j.module ∧ i.kind = j.kind) ∧ (∀ a ∈ added', a.module = provider) := by
  intro pairs
  induction pairs with
  | nil =>
    intro imps added nm imps' added' nm' h hadd
    simp [applyPairs] at h
    obtain ⟨rfl, rfl, _⟩ := h
    exact ⟨fun j hj => ⟨j, hj, rfl, rfl⟩, hadd⟩
  | cons p rest ih =>
    intro imps added nm imps' added' nm' h hadd
    obtain ⟨orig, new⟩ := p
    obtain ⟨i1, a1, n1, hs, hr⟩ := applyPairs_cons_ok h
    rcases stepOne_ok hs with ⟨ps, rs, k, _, rfl, rfl, _⟩ | ⟨_, _, rfl, rfl, rfl⟩
    · have := ih _ _ _ _ _ _ hr (by
        intro a ha
        rcases List.mem_append.mp ha with ha | ha
        · exact hadd a ha
        · split at ha
          · cases ha
          · simp only [List.mem_map] at ha; obtain ⟨_, _, rfl⟩ := ha; rfl)
      refine ⟨?_, this.2⟩
      intro j hj
      obtain ⟨i', hi', hm⟩ := this.1 j hj
      exact ⟨i', (List.mem_filter.mp hi').1, hm⟩
    · have := ih _ _ _ _ _ _ hr hadd
      refine ⟨?_, this.2⟩
      intro j hj
      obtain ⟨i', hi', hm⟩ := this.1 j hj
      simp only [List.mem_map] at hi'
      obtain ⟨i0, hi0, rfl⟩ := hi'
      exact ⟨i0, hi0, by rw [← hm.1, renameFn_module], by rw [← hm.2, renameFn_kind]⟩

/-- a kept import is an original one or was renamed to the new name of a table entry -/
theorem applyPairs_names : ∀ (pairs : List (List Nat × List Nat)) (imps added : List Imp) (nm : Bool)
    (imps' added' : List Imp) (nm' : Bool),
    applyPairs pairs imps added nm = .ok (imps', added', nm') →
    ∀ j ∈ imps', j ∈ imps ∨ (j.module = provider ∧ ∃ p ∈ pairs, expectedSig? p.1 = none ∧ j.name = p.2) := by
  intro pairs
  induction pairs with
  | nil =>
    intro imps added nm imps' added' nm' h j hj
    simp [applyPairs] at h
    obtain ⟨rfl, _, _⟩ := h
    exact Or.inl hj
  | cons p rest ih =>
    intro imps added nm imps' added' nm' h j hj
    obtain ⟨orig, new⟩ := p
    obtain ⟨i1, a1, n1, hs, hr⟩ := applyPairs_cons_ok h
    rcases ih _ _ _ _ _ _ hr j hj with hj1 | ⟨hm, p, hp, hn⟩
    · rcases stepOne_ok hs with ⟨ps, rs, k, _, rfl, _, _⟩ | ⟨hnone, _, rfl, _, _⟩
      · exact Or.inl (List.mem_filter.mp hj1).1
      · simp only [List.mem_map] at hj1
        obtain ⟨i0, hi0, rfl⟩ := hj1
        unfold renameFn
        by_cases hapi : i0.isApi orig = true
        · right
          rw [if_pos hapi]
          refine ⟨?_, (orig, new), List.mem_cons_self, hnone, rfl⟩
          simp only [Imp.isApi, Bool.and_eq_true, beq_iff_eq] at hapi
          exact hapi.1
        · rw [if_neg hapi]; exact Or.inl hi0
    · exact Or.inr ⟨hm, p, List.mem_cons_of_mem _ hp, hn⟩

/-- an added import is a provider function import whose name is one of the helper names -/
theorem applyPairs_added : ∀ (pairs : List (List Nat × List Nat)) (imps added : List Imp) (nm : Bool)
    (imps' added' : List Imp) (nm' : Bool),
    applyPairs pairs imps added nm = .ok (imps', added', nm') →
    ∀ a ∈ added', a ∈ added ∨
      (a.module = provider ∧ a.kind = 0 ∧ ((∃ p ∈ pairs, a.name ∈ addsFor p.1) ∨ a.name = allocName)) := by
  intro pairs
  induction pairs with
  | nil =>
    intro imps added nm imps' added' nm' h a ha
    simp [applyPairs] at h
    obtain ⟨_, rfl, _⟩ := h
    exact Or.inl ha
  | cons p rest ih =>
    intro imps added nm imps' added' nm' h a ha
    obtain ⟨orig, new⟩ := p
    obtain ⟨i1, a1, n1, hs, hr⟩ := applyPairs_cons_ok h
    rcases ih _ _ _ _ _ _ hr a ha with ha1 | ⟨hm, hk, hn⟩
    · rcases stepOne_ok hs with ⟨ps, rs, k, _, _, rfl, _⟩ | ⟨_, _, _, rfl, _⟩
      · rcases List.mem_append.mp ha1 with ha2 | ha2
        · exact Or.inl ha2
        · right
          split at ha2
          · cases ha2
          · simp only [List.mem_map] at ha2
            obtain ⟨x, hx, rfl⟩ := ha2
            refine ⟨rfl, rfl, ?_⟩
            rcases mem_addsForOcc hx with hx | hx
            · exact Or.inl ⟨(orig, new), List.mem_cons_self, hx⟩
            · exact Or.inr hx
      · exact Or.inl ha1
    · right
      refine ⟨hm, hk, ?_⟩
      rcases hn with ⟨p, hp, hx⟩ | hx
      · exact Or.inl ⟨p, List.mem_cons_of_mem _ hp, hx⟩
      · exact Or.inr hx

/-- entry `o` has nothing left to do on `imps` -/
def Done (o : List Nat) (imps : List Imp) : Prop :=
  ∀ i ∈ imps, i.isApi o = true → (expectedSig? o).isSome = true ∧ i.kind ≠ 0

theorem isApi_rename {o n o' : List Nat} {j : Imp} (hne : n ≠ o') (h : (renameFn o n j).isApi o' = true) :
    j.isApi o' = true ∧ renameFn o n j = j := by
  unfold renameFn at h ⊢
  by_cases hapi : j.isApi o = true
  · rw [if_pos hapi] at h
    simp only [Imp.isApi, Bool.and_eq_true, beq_iff_eq] at h
    exact absurd h.2 hne
  · rw [if_neg hapi] at h ⊢
    exact ⟨h, rfl⟩

/-- later entries do not undo an entry that is done, as long as no new name equals its name -/
theorem applyPairs_done_kept : ∀ (pairs : List (List Nat × List Nat)) (imps added : List Imp) (nm : Bool)
    (imps' added' : List Imp) (nm' : Bool),
    applyPairs pairs imps added nm = .ok (imps', added', nm') →
    ∀ o, (∀ q ∈ pairs, q.2 ≠ o) → Done o imps → Done o imps' := by
  intro pairs
  induction pairs with
  | nil =>
    intro imps added nm imps' added' nm' h o _ hd
    simp [applyPairs] at h
    obtain ⟨rfl, _, _⟩ := h
    exact hd
  | cons p rest ih =>
    intro imps added nm imps' added' nm' h o hq hd
    obtain ⟨orig, new⟩ := p
    obtain ⟨i1, a1, n1, hs, hr⟩ := applyPairs_cons_ok h
    apply ih _ _ _ _ _ _ hr o (fun q hq' => hq q (List.mem_cons_of_mem _ hq'))
    rcases stepOne_ok hs with ⟨ps, rs, k, _, rfl, _, _⟩ | ⟨_, _, rfl, _, _⟩
    · intro i hi hapi
      exact hd i (List.mem_filter.mp hi).1 hapi
    · intro i hi hapi
      simp only [List.mem_map] at hi
      obtain ⟨i0, hi0, rfl⟩ := hi
      obtain ⟨h1, h2⟩ := isApi_rename (hq (orig, new) List.mem_cons_self) hapi
      rw [h2]
      exact hd i0 hi0 h1

/-- after the walk every entry of the table is done -/
theorem applyPairs_all_done : ∀ (pairs : List (List Nat × List Nat)) (imps added : List Imp) (nm : Bool)
    (imps' added' : List Imp) (nm' : Bool),
    applyPairs pairs imps added nm = .ok (imps', added', nm') →
    (∀ p ∈ pairs, ∀ q ∈ pairs, q.2 ≠ p.1) →
    ∀ p ∈ pairs, Done p.1 imps' := by
  intro pairs
  induction pairs with
  | nil => intro _ _ _ _ _ _ _ _ p hp; cases hp
  | cons p0 rest ih =>
    intro imps added nm imps' added' nm' h hdist p hp
    obtain ⟨orig, new⟩ := p0
    obtain ⟨i1, a1, n1, hs, hr⟩ := applyPairs_cons_ok h
    rcases List.mem_cons.mp hp with rfl | hp'
    · -- the head entry: done right after its own step, kept by the rest
      apply applyPairs_done_kept _ _ _ _ _ _ _ hr orig
        (fun q hq => hdist (orig, new) List.mem_cons_self q (List.mem_cons_of_mem _ hq))
      rcases stepOne_ok hs with ⟨ps, rs, k, hsig, rfl, _, _⟩ | ⟨hsig, hall, rfl, _, _⟩
      · intro i hi hapi
        obtain ⟨hi1, hi2⟩ := List.mem_filter.mp hi
        refine ⟨by rw [hsig]; rfl, ?_⟩
        intro hk
        simp [hapi, hk] at hi2
      · intro i hi hapi
        simp only [List.mem_map] at hi
        obtain ⟨i0, hi0, rfl⟩ := hi
        exfalso
        have hne : new ≠ orig := hdist (orig, new) List.mem_cons_self (orig, new) List.mem_cons_self
        obtain ⟨h1, h2⟩ := isApi_rename hne hapi
        unfold renameFn at h2
        rw [if_pos h1] at h2
        have : ({ i0 with name := new } : Imp).name = i0.name := by rw [h2]
        simp only [Imp.isApi, Bool.and_eq_true, beq_iff_eq] at h1
        simp only at this
        exact hne (this.trans h1.2)
    · exact ih _ _ _ _ _ _ hr
        (fun p hp q hq => hdist p (List.mem_cons_of_mem _ hp) q (List.mem_cons_of_mem _ hq)) p hp'

/-- when every entry is done the walk changes nothing -/
theorem applyPairs_settled : ∀ (pairs : List (List Nat × List Nat)) (imps added : List Imp) (nm : Bool),
    (∀ p ∈ pairs, Done p.1 imps) → applyPairs pairs imps added nm = .ok (imps, added, nm) := by
  intro pairs
  induction pairs with
  | nil => intro imps added nm _; rfl
  | cons p rest ih =>
    intro imps added nm hd
    obtain ⟨orig, new⟩ := p
    have hd0 := hd (orig, new) List.mem_cons_self
    have hstep : stepOne orig new imps added nm = .ok (imps, added, nm) := by
      unfold stepOne
      cases hsig : expectedSig? orig with
      | some x =>
        obtain ⟨ps, rs⟩ := x
        have hocc : imps.filter (fun i => i.isApi orig && i.kind == 0) = [] := by
          rw [List.filter_eq_nil_iff]
          intro i hi hc
          simp only [Bool.and_eq_true, beq_iff_eq] at hc
          exact (hd0 i hi hc.1).2 hc.2
        simp only [hocc, List.any_nil, List.isEmpty_nil]
        rfl
      | none =>
        have hnone : ∀ i ∈ imps, i.isApi orig = false := by
          intro i hi
          cases hc : i.isApi orig with
          | false => rfl
          | true => have := (hd0 i hi hc).1; rw [hsig] at this; cases this
        have hany : imps.any (fun i => i.isApi orig && i.kind != 0) = false := by
          rw [List.any_eq_false]
          intro i hi
          simp [hnone i hi]
        have hmap : imps.map (fun j => if j.isApi orig then { j with name := new } else j) = imps := by
          have : imps.map (fun j => if j.isApi orig then { j with name := new } else j) = imps.map id :=
            List.map_congr_left (fun j hj => by simp [hnone j hj])
          rw [this, List.map_id]
        simp only [hany, hmap]
        rfl
    unfold applyPairs
    rw [hstep]
    exact ih imps added nm (fun p hp => hd p (List.mem_cons_of_mem _ hp))

end SfVerif.Tramp
