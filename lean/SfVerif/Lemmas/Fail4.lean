import SfVerif.Lemmas.Fail3
/-! Property lookup, error direction: when `specProp` says the lookup hits undecodable bytes
    before any match, `get_object_property` answers `ReadError` and leaves a correct partial view. -/
namespace SfVerif
open SfVerif.Gen

/-- one iteration of the property search loop, in full -/
theorem objPropStep_total {b : Bytes} {f body len : Nat} {q : Bytes} (hbody : body ≤ b.size) (hf : b.size - body < f)
    {pairs : PairList} {e : Nat} (hst : ObjSt b body len pairs e) (j : Nat) :
    (∃ cur pairs'', skipPairs b f pairs.length body = some cur ∧ pairs''.length = pairs.length ∧
        PreP b body pairs'' cur ∧
        objPropLoop b f len q pairs e (j+1) =
          (match readHdr b cur with
           | some (.scalar (.str ko kl) ke) =>
             (match readHdr b ke with
              | none => (.obj len pairs'' cur, .err ErrorCode_ReadError)
              | some h =>
                if keyEq b ko kl q then
                  (.obj len (.snoc pairs'' ko kl (mkNode h)) (h.endOr ke), .at pairs.length)
                else objPropLoop b f len q (.snoc pairs'' ko kl (mkNode h)) (h.endOr ke) j)
           | _ => (.obj len pairs'' cur, .err ErrorCode_ReadError))) ∨
    (skipPairs b f pairs.length body = none ∧ ∃ pairs', objPropLoop b f len q pairs e (j+1) = (.obj len pairs' e, .err ErrorCode_ReadError) ∧
        ObjSt b body len pairs' e) := by
  rcases obj_frontier hbody hf hst with ⟨cur, pairs'', h1, h2, h3, h4⟩ | ⟨h1, init, ko, kl, last, last', rfl, hfin, hst'⟩
  · left
    refine ⟨cur, pairs'', h1, h2, h3, ?_⟩
    rcases h4 with ⟨rfl, rfl, rfl⟩ | ⟨init, ko, kl, last, last', oe, rfl, hfin, rfl, hoe⟩
    · rw [objPropLoop]
      show (match readHdr b cur with
          | some (.scalar (.str ko kl) ke) =>
            (match readHdr b ke with
             | none => ((Node.obj len .nil cur, Got.err ErrorCode_ReadError) : Node × Got)
             | some h =>
               if keyEq b ko kl q then (.obj len (.snoc .nil ko kl (mkNode h)) (h.endOr ke), .at ((PairList.snoc .nil ko kl (mkNode h)).length - 1))
               else objPropLoop b f len q (.snoc .nil ko kl (mkNode h)) (h.endOr ke) j)
          | _ => (.obj len .nil cur, .err ErrorCode_ReadError)) = _
      hdr_cases (readHdr b cur)
    · rw [objPropLoop]; simp only [hfin, hoe, PairList.length, Nat.add_sub_cancel]; hdr_cases (readHdr b cur)
  · right
    exact ⟨h1, _, by rw [objPropLoop]; simp only [hfin], hst'⟩

theorem objPropLoop_err {b : Bytes} {f body len : Nat} {q : Bytes} (hbody : body ≤ b.size) (hf : b.size - body < f) :
    ∀ (k : Nat) (pairs : PairList) (e : Nat), ObjSt b body len pairs e → pairs.length + k + 1 ≤ len →
      (skipPairs b f pairs.length body = none ∨
        ∃ cur, skipPairs b f pairs.length body = some cur ∧ specProp b f q (k+1) cur pairs.length = .err) →
      ∃ pairs' e', objPropLoop b f len q pairs e (k+1) = (.obj len pairs' e', .err ErrorCode_ReadError) ∧
        ObjSt b body len pairs' e' := by
  intro k
  induction k with
  | zero =>
    intro pairs e hst hm herr
    rcases objPropStep_total (q := q) hbody hf hst 0 with ⟨cur, pairs'', h1, h2, h3, h4⟩ | ⟨_, pairs', h2, h3⟩
    · rcases herr with herr | ⟨cur', hc', hsp⟩
      · rw [h1] at herr; cases herr
      · rw [h1] at hc'; simp at hc'; subst hc'
        rw [h4]
        rw [specProp] at hsp
        split
        · rename_i ko kl ke hk
          simp only [hk] at hsp
          cases hh : readHdr b ke with
          | none => exact ⟨pairs'', cur, rfl, Or.inl ⟨h3, by omega⟩⟩
          | some h =>
            simp only [hh] at hsp
            exfalso
            by_cases hkey : keyEq b ko kl q = true
            · simp [hkey] at hsp
            · simp [hkey] at hsp
        · exact ⟨pairs'', cur, rfl, Or.inl ⟨h3, by omega⟩⟩
    · exact ⟨pairs', e, h2, h3⟩
  | succ k ih =>
    intro pairs e hst hm herr
    rcases objPropStep_total (q := q) hbody hf hst (k+1) with ⟨cur, pairs'', h1, h2, h3, h4⟩ | ⟨_, pairs', h2, h3⟩
    · rcases herr with herr | ⟨cur', hc', hsp⟩
      · rw [h1] at herr; cases herr
      · rw [h1] at hc'; simp at hc'; subst hc'
        rw [h4]
        rw [specProp] at hsp
        split
        · rename_i ko kl ke hk
          simp only [hk] at hsp
          cases hh : readHdr b ke with
          | none => exact ⟨pairs'', cur, rfl, Or.inl ⟨h3, by omega⟩⟩
          | some h =>
            simp only [hh] at hsp ⊢
            by_cases hkey : keyEq b ko kl q = true
            · simp [hkey] at hsp
            · simp only [hkey, Bool.false_eq_true, if_false, Nat.succ_ne_zero] at hsp ⊢
              have hst' := objSt_push (len := len) h3 (by omega) hk hh
              have hlen' : (PairList.snoc pairs'' ko kl (mkNode h)).length = pairs.length + 1 := by
                simp [PairList.length, h2]
              apply ih (.snoc pairs'' ko kl (mkNode h)) (h.endOr ke) hst' (by rw [hlen']; omega)
              rw [hlen']
              have hsk1 : skipPairs b f (pairs.length + 1) body = skipPairs b f 1 cur := by
                rw [skipPairs_add, h1]
              cases hs : skip b f ke with
              | none => left; rw [hsk1, skipPairs_none hk hs]
              | some z =>
                right
                rw [hs] at hsp
                exact ⟨z, by rw [hsk1, skipPairs_some hk hs, skipPairs_zero], hsp⟩
        · exact ⟨pairs'', cur, rfl, Or.inl ⟨h3, by omega⟩⟩
    · exact ⟨pairs', e, h2, h3⟩

/-- **`get_object_property(q)`, error direction** -/
theorem objProp_err {b : Bytes} {f pos len body : Nat} {q : Bytes} (hh : readHdr b pos = some (.map len body))
    (hf : b.size - body < f) {pairs : PairList} {e : Nat} (hinv : Inv b pos (.obj len pairs e))
    (herr : specProp b f q len body 0 = .err) :
    ∃ pairs' e', objProp b f len pairs e q = (.obj len pairs' e', .err ErrorCode_ReadError) ∧
      Inv b pos (.obj len pairs' e') := by
  have hbody := (readHdr_map_gt hh).2.1
  have hst := inv_objSt hh hinv
  unfold objProp
  rcases hst with ⟨hpre, hle⟩ | ⟨init, s, ko0, kl0, last, rfl, hpre, hk0, hle, hc, hl⟩
  · obtain ⟨hS, hN⟩ := spec_over_prefix (q := q) hpre hf (len - pairs.length)
    rw [show pairs.length + (len - pairs.length) = len by omega] at hS hN
    cases hfk : pairs.findKey b q with
    | some i =>
      obtain ⟨ko, kl, c, ke, e', _, _, hsp⟩ := hS i hfk
      rw [herr] at hsp; cases hsp
    | none =>
      have hsp := hN hfk
      by_cases hr : len - pairs.length = 0
      · rw [if_pos hr, herr] at hsp; cases hsp
      · rw [if_neg hr] at hsp
        obtain ⟨k, hk⟩ : ∃ k, len - pairs.length = k + 1 := ⟨len - pairs.length - 1, by omega⟩
        rw [hk] at hsp ⊢
        have hcur := (preP_facts hpre).2.2 f hf
        obtain ⟨pairs', e', hres, hst'⟩ := objPropLoop_err (q := q) hbody hf k pairs e (Or.inl ⟨hpre, hle⟩) (by omega)
          (Or.inr ⟨e, hcur, by rw [← hsp]; exact herr⟩)
        exact ⟨pairs', e', hres, objSt_inv hh hst'⟩
  · obtain ⟨hS, hN⟩ := spec_over_prefix (q := q) hpre hf (len - init.length)
    rw [show init.length + (len - init.length) = len by omega] at hS hN
    obtain ⟨hv0, hv⟩ := inv_hdr hl
    have hsf := preP_facts hpre
    cases hfi : init.findKey b q with
    | some i0 =>
      obtain ⟨ko, kl, c, ke, e', _, _, hsp⟩ := hS i0 hfi
      rw [herr] at hsp; cases hsp
    | none =>
      have hsp := hN hfi
      have hr : ¬ (len - init.length = 0) := by omega
      rw [if_neg hr] at hsp
      obtain ⟨k, hk⟩ : ∃ k, len - init.length = k + 1 := ⟨len - init.length - 1, by omega⟩
      rw [hk] at hsp
      by_cases hmq : keyEq b ko0 kl0 q = true
      · rw [specProp_found hk0 hv hmq, herr] at hsp; cases hsp
      · have hmq' : keyEq b ko0 kl0 q = false := by simpa using hmq
        simp only [PairList.findKey_snoc_miss hfi hmq']
        cases k with
        | zero => rw [specProp_last hk0 hv hmq', herr] at hsp; cases hsp
        | succ k =>
          have hlen : len - (PairList.snoc init ko0 kl0 last).length = k + 1 := by simp [PairList.length]; omega
          have hlen2 : (PairList.snoc init ko0 kl0 last).length = init.length + 1 := by simp [PairList.length]
          have hsk1 : skipPairs b f (init.length + 1) body = skipPairs b f 1 s := preP_skipPairs hpre hf 1
          rw [hlen]
          have hfailhyp : skipPairs b f (PairList.snoc init ko0 kl0 last).length body = none ∨
              ∃ cur, skipPairs b f (PairList.snoc init ko0 kl0 last).length body = some cur ∧
                specProp b f q (k+1) cur (PairList.snoc init ko0 kl0 last).length = .err := by
            rw [hlen2]
            cases hs : skip b f e with
            | none => left; rw [hsk1, skipPairs_none hk0 hs]
            | some z =>
              right
              refine ⟨z, by rw [hsk1, skipPairs_some hk0 hs, skipPairs_zero], ?_⟩
              rw [← specProp_next hk0 hv hmq' hs, ← hsp]; exact herr
          obtain ⟨pairs', e', hres, hst'⟩ := objPropLoop_err (q := q) hbody hf k (.snoc init ko0 kl0 last) e
            (Or.inr ⟨init, s, ko0, kl0, last, rfl, hpre, hk0, hle, hc, hl⟩) (by rw [hlen2]; omega) hfailhyp
          exact ⟨pairs', e', hres, objSt_inv hh hst'⟩

end SfVerif
