import SfVerif.Gen.WriterStep
/-! The model's `Writer.step` is equal to the step assembled from what each provider write
    function in provider/src/write.rs consults (state-machine method) and emits (rmp encoder and
    its argument), regenerated on every run. -/
namespace SfVerif
open SfVerif.Gen

theorem gen_writerStep_eq (w : Writer) (op : WOp) : writerStepGen w op = w.step op := by
  cases op <;> rfl

end SfVerif
