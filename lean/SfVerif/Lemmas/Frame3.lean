import SfVerif.Lemmas.Frame2
import SfVerif.Lemmas.Zipper
/-! The writer at the level of a whole thread: its grammar-relevant state satisfies the writer
    invariant at every point of every history of protocol operations. -/
namespace SfVerif
open SfVerif.Gen

theorem winv_congr {w w' : Writer} (hs : w'.st = w.st) (hk : w'.stack = w.stack) (h : WInv w) : WInv w' :=
  ⟨hs ▸ h.stOk, hk ▸ h.stackOk, fun e => hk ▸ h.startEmpty (hs ▸ e), fun e => hk ▸ h.doneEmpty (hs ▸ e)⟩

theorem winv_copyAt (w : Writer) (off : Nat) (bs : Bytes) (h : WInv w) : WInv (w.copyAt off bs) :=
  winv_congr (w := w) (w' := w.copyAt off bs) rfl rfl h

theorem winv_of_eq {a b : Writer} (e : a = b) (h : WInv b) : WInv a := e ▸ h

theorem winv_step (w : Writer) (op : WOp) (h : WInv w) : WInv (w.step op).1 := (step_refines w h op).2.2

theorem winv_writeStr (w : Writer) (bs : Bytes) (h : WInv w) : WInv (w.writeStr bs).1 := by
  unfold Writer.writeStr
  have h1 := winv_step w (.strAlloc bs.size) h
  generalize w.step (.strAlloc bs.size) = r at h1
  obtain ⟨w', r', o⟩ := r
  cases o with
  | none => exact h1
  | some off => exact winv_copyAt _ _ _ h1

theorem winv_runAOps : ∀ (ops : List AOp) (w : Writer), WInv w → WInv (runAOps w ops).1
  | [], w, h => h
  | .w op :: rest, w, h => by
    rw [runAOps]
    have h1 := winv_step w op h
    generalize w.step op = r at h1
    obtain ⟨w', r', o⟩ := r
    simp only []
    split
    · exact h1
    · exact winv_runAOps rest w' h1
  | .str bs :: rest, w, h => by
    rw [runAOps]
    have h1 := winv_writeStr w bs h
    generalize w.writeStr bs = r at h1
    obtain ⟨w', r'⟩ := r
    simp only []
    split
    · exact h1
    · exact winv_runAOps rest w' h1

namespace Thread

/-- close a goal about the thread's writer after one writer step -/
macro "wstep" op:term : tactic =>
  `(tactic| (simp only [step]
             have h1 := winv_step _ $op ‹WInv _›
             generalize Writer.step _ $op = r at h1 ⊢
             obtain ⟨wr, r', o⟩ := r
             exact h1))

/-- every protocol operation keeps the writer invariant -/
theorem step_winv (w : Nat) (t : Thread) (op : Op) (h : WInv t.ctx.writer) : WInv (t.step w op).1.ctx.writer := by
  cases op
  case bad => exact h
  case width n => exact h
  case init bs => exact winv_fresh
  case root =>
    simp only [step, fmtVal_ctx]
    exact winv_of_eq (Ctx.inputGet_keeps _).2.1 h
  case prop s q =>
    simp only [step]
    split
    · exact h
    · simp only [fmtVal_ctx]; exact winv_of_eq (Ctx.getObjProp_keeps _ _ _).2.1 h
  case iprop s id =>
    simp only [step]
    split
    · exact h
    · split
      · exact h
      · rename_i r hr
        simp only [fmtVal_ctx]; exact winv_of_eq (Ctx.getInternedObjProp_keeps _ _ _ _ hr).2.1 h
  case idx s i =>
    simp only [step]
    split
    · exact h
    · simp only [fmtVal_ctx]; exact winv_of_eq (Ctx.getAtIndex_keeps _ _ _).2.1 h
  case key s i =>
    simp only [step]
    split
    · exact h
    · simp only [fmtVal_ctx]; exact winv_of_eq (Ctx.getKeyAtIndex_keeps _ _ _).2.1 h
  case len s => simp only [step]; split <;> exact h
  case str s =>
    simp only [step]
    split
    · exact h
    · split
      · split <;> exact h
      · exact h
  case akind s => simp only [step]; split <;> exact h
  case alen s => simp only [step]; split <;> exact h
  case astr s =>
    simp only [step]
    split
    · exact h
    · split
      · split <;> exact h
      · exact h
      · exact h
  case akey s i =>
    simp only [step]
    split
    · exact h
    · split
      · split
        · split
          · exact winv_of_eq (Ctx.getKeyAtIndex_keeps _ _ _).2.1 h
          · exact winv_of_eq (Ctx.getKeyAtIndex_keeps _ _ _).2.1 h
        · exact winv_of_eq (Ctx.getKeyAtIndex_keeps _ _ _).2.1 h
      · exact h
  case w api tok =>
    cases tok
    case bool n =>
      simp only [step]
      split
      · exact h
      · have h1 := winv_step _ (.bool (n != 0)) h
        generalize Writer.step _ (.bool (n != 0)) = r at h1 ⊢
        obtain ⟨wr, r', o⟩ := r
        exact h1
    case null => wstep .null
    case i32 z => wstep (.i32 z)
    case f64 b => wstep (.f64 b)
    case str bs =>
      simp only [step]
      have h1 := winv_writeStr _ bs h
      generalize Writer.writeStr _ bs = r at h1 ⊢
      obtain ⟨wr, r'⟩ := r
      exact h1
    case alloc n => wstep (.strAlloc n)
    case copy bs =>
      simp only [step]
      split
      · exact h
      · split
        · exact h
        · exact winv_copyAt _ _ _ h
    case istr id =>
      simp only [step]
      split
      · exact h
      · rename_i bs hb
        have h1 := winv_writeStr _ bs h
        generalize Writer.writeStr _ bs = r at h1 ⊢
        obtain ⟨wr, r'⟩ := r
        exact h1
    case obj n => wstep (.obj n)
    case endobj => wstep .endObj
    case arr n => wstep (.arr n)
    case endarr => wstep .endArr
  case fin => exact h
  case outq => exact h
  case outdoc => exact h
  case log len seed => exact h
  case logreq n => exact h
  case logcopy len seed =>
    simp only [step]
    split
    · exact h
    · split <;> exact h
  case logsq => exact h
  case intern bs => exact h
  case internreq n => exact h
  case interncopy bs =>
    simp only [step]
    split
    · exact h
    · split <;> exact h
  case cached bs =>
    simp only [step]
    split <;> exact h
  case boxPtr k p l => exact h
  case boxBool b => exact h
  case boxNull => exact h
  case boxErr c => simp only [step]; split <;> exact h
  case boxNum b => simp only [step]; split <;> exact h
  case unbox v => exact h
  case maxlen => exact h
  case deint ty b =>
    simp only [step]
    exact winv_of_eq (deRoot_keeps _ _).2.1 winv_fresh
  case de ty d =>
    simp only [step]
    exact winv_of_eq (deRoot_keeps _ _).2.1 winv_fresh
  case serrt v d =>
    simp only [step]
    split
    · simp only []
      exact winv_of_eq (deRoot_keeps _ _).2.1 winv_fresh
    · exact winv_runAOps _ _ winv_fresh

theorem run_winv (w : Nat) : ∀ (ops : List Op) (t : Thread), WInv t.ctx.writer → WInv (Thread.run w t ops).1.ctx.writer
  | [], _, h => h
  | op :: rest, t, h => run_winv w rest (t.step w op).1 (step_winv w t op h)

end Thread
end SfVerif
