import SfVerif.Lemmas.Lazy4
/-! Indexed access to an object (value or key of pair `i`) refines the eager walk. -/
namespace SfVerif

theorem PairList.get?_snoc_last (init : PairList) (ko kl : Nat) (n : Node) :
    (PairList.snoc init ko kl n).get? init.length = some (ko, kl, n) := by
  simp [PairList.get?, PairList.length, PairList.getRev?]

theorem PairList.get?_snoc_lt (init : PairList) (ko kl : Nat) (n : Node) (k : Nat) (h : k < init.length) :
    (PairList.snoc init ko kl n).get? k = init.get? k := by
  have h1 : k < (PairList.snoc init ko kl n).length := by simp [PairList.length]; omega
  have h2 : (PairList.snoc init ko kl n).length - 1 - k = (init.length - 1 - k) + 1 := by
    simp [PairList.length]; omega
  unfold PairList.get?
  rw [if_pos h1, if_pos h, h2, PairList.getRev?]

theorem skipPairs_split {b : Bytes} {f : Nat} : ∀ (a r p x : Nat), skipPairs b f (a + r) p = some x →
    ∃ y, skipPairs b f a p = some y ∧ skipPairs b f r y = some x := by
  intro a
  induction a with
  | zero => intro r p x h; exact ⟨p, skipPairs_zero, by simpa using h⟩
  | succ a ih =>
    intro r p x h
    rw [show a + 1 + r = (a + r) + 1 by omega] at h
    obtain ⟨ko, kl, ke, y, hk, hy, hrest⟩ := skipPairs_succ_inv h
    obtain ⟨z, hz, hz2⟩ := ih r y x hrest
    exact ⟨z, by rw [skipPairs_some hk hy]; exact hz, hz2⟩

/-- the in-progress state of an object's processed prefix (the two object cases of `Inv`) -/
def ObjSt (b : Bytes) (body len : Nat) (pairs : PairList) (e : Nat) : Prop :=
  (PreP b body pairs e ∧ pairs.length ≤ len) ∨
  (∃ init s ko kl last, pairs = .snoc init ko kl last ∧ PreP b body init s ∧
    readHdr b s = some (.scalar (.str ko kl) e) ∧ init.length + 1 ≤ len ∧
    last.isComposite = true ∧ Inv b e last)

theorem inv_objSt {b : Bytes} {pos len body : Nat} {pairs : PairList} {e : Nat}
    (hh : readHdr b pos = some (.map len body)) (h : Inv b pos (.obj len pairs e)) : ObjSt b body len pairs e := by
  cases h with
  | objClosed hh' hle hp => rw [hh] at hh'; simp at hh'; obtain ⟨_, rfl⟩ := hh'; exact Or.inl ⟨hp, hle⟩
  | objOpened hh' hle hp hk hc hl =>
    rw [hh] at hh'; simp at hh'; obtain ⟨_, rfl⟩ := hh'
    exact Or.inr ⟨_, _, _, _, _, rfl, hp, hk, hle, hc, hl⟩

theorem objSt_inv {b : Bytes} {pos len body : Nat} {pairs : PairList} {e : Nat}
    (hh : readHdr b pos = some (.map len body)) (h : ObjSt b body len pairs e) : Inv b pos (.obj len pairs e) := by
  rcases h with ⟨hp, hle⟩ | ⟨init, s, ko, kl, last, rfl, hp, hk, hle, hc, hl⟩
  · exact Inv.objClosed hh hle hp
  · exact Inv.objOpened hh hle hp hk hc hl

/-- one iteration of the scanning loop of `ObjectRef::get_at_index` -/
theorem objStep_ok {b : Bytes} {f body len : Nat} (hbody : body ≤ b.size) (hf : b.size - body < f)
    {pairs : PairList} {e : Nat} (hst : ObjSt b body len pairs e)
    {cur ko kl ke : Nat} {h' : Hdr} (hcur : skipPairs b f pairs.length body = some cur)
    (hk : readHdr b cur = some (.scalar (.str ko kl) ke)) (hh' : readHdr b ke = some h') (j : Nat) :
    ∃ pairs'', pairs''.length = pairs.length ∧ PreP b body pairs'' cur ∧
      objGetLoop b f len pairs e (j+1) = objGetLoop b f len (.snoc pairs'' ko kl (mkNode h')) (h'.endOr ke) j := by
  rcases hst with ⟨hp, hle0⟩ | ⟨init, s, ko0, kl0, last, rfl, hp, hk0, hle0, hc, hl⟩
  · have hpf := preP_facts hp
    have hce : cur = e := by
      have := hpf.2.2 f hf; rw [hcur] at this; simpa using this
    subst hce
    cases hp with
    | nil =>
      refine ⟨.nil, rfl, PreP.nil, ?_⟩
      rw [objGetLoop]; simp only [hk, hh']
    | snoc hinit hk1 hdone =>
      rename_i init s ko1 kl1 ke1 last
      have hsf := preP_facts hinit
      have hke1 := readHdr_scalar_gt hk1
      have hdf := done_facts hdone
      have hskip : skip b f ke1 = some cur := hdf.2.2 f (by omega)
      obtain ⟨last', hfin, hdone'⟩ := finish_done b f ke1 last cur (done_inv hdone) hskip
      refine ⟨.snoc init ko1 kl1 last', by simp [PairList.length], PreP.snoc hinit hk1 hdone', ?_⟩
      have : (if last.isComposite = true then some cur else none).getD cur = cur := by split <;> rfl
      rw [objGetLoop]; simp only [hfin, this, hk, hh']
  · have hsf := preP_facts hp
    have hcur' : skipPairs b f (init.length + 1) body = some cur := by simpa [PairList.length] using hcur
    obtain ⟨y, hy, hrest⟩ := skipPairs_split init.length 1 body cur hcur'
    have hye : y = s := by have := hsf.2.2 f hf; rw [hy] at this; simpa using this
    subst hye
    obtain ⟨ko', kl', ke', z, hk', hz, hz2⟩ := skipPairs_succ_inv hrest
    rw [hk0] at hk'; simp at hk'; obtain ⟨_, _, rfl⟩ := hk'
    rw [skipPairs_zero] at hz2; simp at hz2; subst hz2
    obtain ⟨last', hfin, hdone'⟩ := finish_done b f e last z hl hz
    refine ⟨.snoc init ko0 kl0 last', by simp [PairList.length], PreP.snoc hp hk0 hdone', ?_⟩
    rw [objGetLoop]; simp only [hfin, hc, if_true, Option.getD_some, hk, hh']

theorem objSt_push {b : Bytes} {body len : Nat} {pairs : PairList} {cur ko kl ke : Nat} {h' : Hdr}
    (hp : PreP b body pairs cur) (hm : pairs.length + 1 ≤ len)
    (hk : readHdr b cur = some (.scalar (.str ko kl) ke)) (hh' : readHdr b ke = some h') :
    ObjSt b body len (.snoc pairs ko kl (mkNode h')) (h'.endOr ke) := by
  cases h' with
  | scalar v x =>
    exact Or.inl ⟨PreP.snoc hp hk (Done.scalar hh'), by simpa [PairList.length] using hm⟩
  | arr l bd =>
    exact Or.inr ⟨pairs, cur, ko, kl, _, rfl, hp, hk, hm, rfl, fresh_inv hh'⟩
  | map l bd =>
    exact Or.inr ⟨pairs, cur, ko, kl, _, rfl, hp, hk, hm, rfl, fresh_inv hh'⟩

/-- **the object scanning loop refines the eager walk** -/
theorem objGetLoop_ok {b : Bytes} {f body len : Nat} (hbody : body ≤ b.size) (hf : b.size - body < f) :
    ∀ (k : Nat) (pairs : PairList) (e : Nat), ObjSt b body len pairs e → pairs.length + k + 1 ≤ len →
      ∀ p ko kl ke h, skipPairs b f (pairs.length + k) body = some p →
        readHdr b p = some (.scalar (.str ko kl) ke) → readHdr b ke = some h →
        ∃ pairs' e', objGetLoop b f len pairs e (k+1) = (.obj len pairs' e', .at (pairs.length + k)) ∧
          ObjSt b body len pairs' e' ∧ pairs'.length = pairs.length + k + 1 ∧
          ∃ c, pairs'.get? (pairs.length + k) = some (ko, kl, c) ∧ Inv b ke c := by
  intro k
  induction k with
  | zero =>
    intro pairs e hst hm p ko kl ke h hp hk hh
    obtain ⟨pairs'', hl, hpre, hstep⟩ := objStep_ok hbody hf hst (by simpa using hp) hk hh 0
    refine ⟨.snoc pairs'' ko kl (mkNode h), h.endOr ke, ?_, objSt_push hpre (by omega) hk hh,
      by simp [PairList.length, hl], ?_⟩
    · rw [hstep, objGetLoop]; simp [PairList.length, hl]
    · refine ⟨mkNode h, ?_, fresh_inv hh⟩
      have := PairList.get?_snoc_last pairs'' ko kl (mkNode h)
      rw [hl] at this; simpa using this
  | succ k ih =>
    intro pairs e hst hm p ko kl ke h hp hk hh
    have hp' : skipPairs b f (pairs.length + (k + 1)) body = some p := by simpa [Nat.add_assoc] using hp
    obtain ⟨cur, hcur, hrest⟩ := skipPairs_split pairs.length (k+1) body p hp'
    obtain ⟨ko', kl', ke', y, hk', hy, _⟩ := skipPairs_succ_inv hrest
    obtain ⟨h', hh'⟩ := skip_some_hdr hy
    obtain ⟨pairs'', hl, hpre, hstep⟩ := objStep_ok hbody hf hst hcur hk' hh' (k+1)
    have hst' := objSt_push (len := len) hpre (by omega) hk' hh'
    have hlen' : (PairList.snoc pairs'' ko' kl' (mkNode h')).length = pairs.length + 1 := by
      simp [PairList.length, hl]
    obtain ⟨pairs', e', hres, hst'', hlen'', c, hc, hinv⟩ :=
      ih (.snoc pairs'' ko' kl' (mkNode h')) (h'.endOr ke') hst' (by rw [hlen']; omega) p ko kl ke h
        (by rw [hlen']; rw [show pairs.length + 1 + k = pairs.length + (k + 1) by omega]; exact hp') hk hh
    refine ⟨pairs', e', ?_, hst'', by rw [hlen'', hlen']; omega, c, ?_, hinv⟩
    · rw [hstep, hres, hlen']; congr 2; omega
    · rw [hlen'] at hc; rw [show pairs.length + (k + 1) = pairs.length + 1 + k by omega]; exact hc

/-- every pair of a complete prefix: its key header and a complete view of its value -/
theorem preP_get {b : Bytes} {p0 : Nat} {pairs : PairList} {s : Nat} (h : PreP b p0 pairs s) :
    ∀ i, i < pairs.length → ∃ ko kl c p ke e', pairs.get? i = some (ko, kl, c) ∧
      readHdr b p = some (.scalar (.str ko kl) ke) ∧ Done b ke c e' ∧ p0 ≤ p ∧
      ∀ f, b.size - p0 < f → skipPairs b f i p0 = some p := by
  refine PreP.rec
    (motive_1 := fun _ _ _ _ => True)
    (motive_2 := fun _ _ _ _ => True)
    (motive_3 := fun p0 pairs s _ => ∀ i, i < pairs.length → ∃ ko kl c p ke e', pairs.get? i = some (ko, kl, c) ∧
      readHdr b p = some (.scalar (.str ko kl) ke) ∧ Done b ke c e' ∧ p0 ≤ p ∧
      ∀ f, b.size - p0 < f → skipPairs b f i p0 = some p)
    ?_ ?_ ?_ ?_ ?_ ?_ ?_ h
  · intros; trivial
  · intros; trivial
  · intros; trivial
  · intros; trivial
  · intros; trivial
  · intro p0 i hi; simp [PairList.length] at hi
  · intro p0 init s ko kl ke n s' hinit hk hdone ih _ i hi
    by_cases hlt : i < init.length
    · obtain ⟨ko', kl', c, p, ke', e', hc, hk', hd, hp, hsk⟩ := ih i hlt
      exact ⟨ko', kl', c, p, ke', e', by rw [PairList.get?_snoc_lt _ _ _ _ _ hlt]; exact hc, hk', hd, hp, hsk⟩
    · have hieq : i = init.length := by simp [PairList.length] at hi; omega
      subst hieq
      have hpf := preP_facts hinit
      exact ⟨ko, kl, n, s, ke, s', PairList.get?_snoc_last init ko kl n, hk, hdone, hpf.1, hpf.2.2⟩

/-- **`get_at_index(i)` / `get_obj_key_at_index(i)` on an object refine the eager walk** -/
theorem objGet_ok {b : Bytes} {f pos len body : Nat} (hh : readHdr b pos = some (.map len body))
    (hf : b.size - body < f) {pairs : PairList} {e : Nat} (hinv : Inv b pos (.obj len pairs e))
    {i : Nat} (hi : i < len) {p ko kl ke : Nat} {h : Hdr} (hp : skipPairs b f i body = some p)
    (hk : readHdr b p = some (.scalar (.str ko kl) ke)) (hhv : readHdr b ke = some h) :
    ∃ pairs' e', objGet b f len pairs e i = (.obj len pairs' e', .at i) ∧ Inv b pos (.obj len pairs' e') ∧
      ∃ c, pairs'.get? i = some (ko, kl, c) ∧ Inv b ke c := by
  have hbody := (readHdr_map_gt hh).2.1
  have hst := inv_objSt hh hinv
  unfold objGet
  rw [if_neg (by omega)]
  by_cases hfast : i < pairs.length
  · rw [if_pos hfast]
    refine ⟨pairs, e, rfl, hinv, ?_⟩
    rcases hst with ⟨hpre, _⟩ | ⟨init, s, ko0, kl0, last, rfl, hpre, hk0, _, _, hl⟩
    · obtain ⟨ko', kl', c, p', ke', e', hc, hk', hd, _, hsk⟩ := preP_get hpre i hfast
      have : p' = p := by have := hsk f hf; rw [hp] at this; simpa using this.symm
      subst this
      rw [hk] at hk'; simp at hk'; obtain ⟨⟨rfl, rfl⟩, rfl⟩ := hk'
      exact ⟨c, hc, done_inv hd⟩
    · by_cases hlt : i < init.length
      · obtain ⟨ko', kl', c, p', ke', e', hc, hk', hd, _, hsk⟩ := preP_get hpre i hlt
        have : p' = p := by have := hsk f hf; rw [hp] at this; simpa using this.symm
        subst this
        rw [hk] at hk'; simp at hk'; obtain ⟨⟨rfl, rfl⟩, rfl⟩ := hk'
        exact ⟨c, by rw [PairList.get?_snoc_lt _ _ _ _ _ hlt]; exact hc, done_inv hd⟩
      · have hieq : i = init.length := by simp [PairList.length] at hfast; omega
        subst hieq
        have := (preP_facts hpre).2.2 f hf
        rw [hp] at this; simp at this; subst this
        rw [hk] at hk0; simp at hk0; obtain ⟨⟨rfl, rfl⟩, rfl⟩ := hk0
        exact ⟨last, PairList.get?_snoc_last init ko kl last, hl⟩
  · rw [if_neg hfast]
    have hkk : i + 1 - pairs.length = (i - pairs.length) + 1 := by omega
    rw [hkk]
    obtain ⟨pairs', e', hres, hst', _, c, hc, hcinv⟩ :=
      objGetLoop_ok hbody hf (i - pairs.length) pairs e hst (by omega) p ko kl ke h
        (by rw [show pairs.length + (i - pairs.length) = i by omega]; exact hp) hk hhv
    rw [show pairs.length + (i - pairs.length) = i by omega] at hres hc
    exact ⟨pairs', e', hres, objSt_inv hh hst', c, hc, hcinv⟩

end SfVerif
