import SfVerif.Lemmas.Intern1b
namespace SfVerif
open SfVerif.Gen
namespace Thread

theorem istate_ctx (t : Thread) (c : Ctx) (h : c.interner = t.ctx.interner) :
    ({ t with ctx := c } : Thread).istate = t.istate := by
  simp [istate, h]

theorem step_istate (w : Nat) (t : Thread) (op : Op) :
    (t.step w op).1.istate = t.istate.step op := by
  cases op
  case bad => rfl
  case width n => rfl
  case init bs => rfl
  case root =>
    simp only [step, IState.step, fmtVal_istate]
    exact istate_ctx _ _ (Ctx.inputGet_interner _)
  case prop s q =>
    simp only [step, IState.step]
    split
    · rfl
    · simp only [fmtVal_istate]; exact istate_ctx _ _ (Ctx.getObjProp_interner _ _ _)
  case iprop s id =>
    simp only [step, IState.step]
    split
    · rfl
    · split
      · rfl
      · rename_i r hr
        simp only [fmtVal_istate]; exact istate_ctx _ _ (Ctx.getInternedObjProp_interner _ _ _ _ hr)
  case idx s i =>
    simp only [step, IState.step]
    split
    · rfl
    · simp only [fmtVal_istate]; exact istate_ctx _ _ (Ctx.getAtIndex_interner _ _ _)
  case key s i =>
    simp only [step, IState.step]
    split
    · rfl
    · simp only [fmtVal_istate]; exact istate_ctx _ _ (Ctx.getKeyAtIndex_interner _ _ _)
  case len s => simp only [step, IState.step]; split <;> rfl
  case str s =>
    simp only [step, IState.step]
    split
    · rfl
    · split
      · split <;> rfl
      · rfl
  case akind s => simp only [step, IState.step]; split <;> rfl
  case alen s => simp only [step, IState.step]; split <;> rfl
  case astr s =>
    simp only [step, IState.step]
    split
    · rfl
    · split
      · split <;> rfl
      · rfl
      · rfl
  case akey s i =>
    simp only [step, IState.step]
    split
    · rfl
    · split
      · split
        · split
          · exact istate_ctx _ _ (Ctx.getKeyAtIndex_interner _ _ _)
          · exact istate_ctx _ _ (Ctx.getKeyAtIndex_interner _ _ _)
        · exact istate_ctx _ _ (Ctx.getKeyAtIndex_interner _ _ _)
      · rfl
  case w api tok =>
    cases tok
    case bool n => simp only [step, IState.step]; split <;> rfl
    case null => rfl
    case i32 z => rfl
    case f64 b => rfl
    case str bs => rfl
    case alloc n => rfl
    case copy bs =>
      simp only [step, IState.step]
      split
      · rfl
      · split <;> rfl
    case istr id =>
      simp only [step, IState.step]
      split <;> rfl
    case obj n => rfl
    case endobj => rfl
    case arr n => rfl
    case endarr => rfl
  case fin => rfl
  case outq => rfl
  case outdoc => rfl
  case log len seed => rfl
  case logreq n => rfl
  case logcopy len seed =>
    simp only [step, IState.step]
    split
    · rfl
    · split <;> rfl
  case logsq => rfl
  case intern bs => rfl
  case internreq n => rfl
  case interncopy bs =>
    simp only [step, IState.step, istate]
    cases hl : t.lastIntern with
    | none => simp [hl]
    | some p =>
      obtain ⟨off, n⟩ := p
      by_cases hb : bs.size > n
      · simp [hb, hl]
      · simp [hb]
  case cached bs =>
    simp only [step, IState.step, istate]
    cases hf : t.cache.find? (fun p => p.1 == bs) with
    | none => rfl
    | some p => rfl
  case boxPtr k p l => rfl
  case boxBool b => rfl
  case boxNull => rfl
  case boxErr c => simp only [step, IState.step]; split <;> rfl
  case boxNum b => simp only [step, IState.step]; split <;> rfl
  case unbox v => rfl
  case maxlen => rfl
  case deint ty b =>
    simp only [step, IState.step, istate]
    rw [deRoot_interner]; rfl
  case de ty d =>
    simp only [step, IState.step, istate]
    rw [deRoot_interner]; rfl
  case serrt v d =>
    simp only [step, IState.step, istate]
    split
    · simp only []
      rw [deRoot_interner]; rfl
    · rfl

end Thread
end SfVerif
