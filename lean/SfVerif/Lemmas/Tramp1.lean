import SfVerif.Model.Tramp
/-! Facts about the walk over the IMPORTS table (`stepOne`, `applyPairs`). -/
namespace SfVerif.Tramp
open SfVerif.Gen

def renameFn (orig new : List Nat) (j : Imp) : Imp := if j.isApi orig then { j with name := new } else j

/-- what one table entry does when it succeeds -/
theorem stepOne_ok {orig new : List Nat} {imps added : List Imp} {nm : Bool} {imps' added' : List Imp} {nm' : Bool}
    (h : stepOne orig new imps added nm = .ok (imps', added', nm')) :
    (∃ ps rs k, expectedSig? orig = some (ps, rs) ∧
        imps' = imps.filter (fun i => !(i.isApi orig && i.kind == 0)) ∧
        added' = added ++ (if k = 0 then [] else (addsForOcc orig k).map (fun a => { module := provider, name := a, kind := 0 })) ∧
        (∀ i ∈ imps, i.isApi orig = true → i.kind = 0 → i.params = ps ∧ i.results = rs)) ∨
    (expectedSig? orig = none ∧ (∀ i ∈ imps, i.isApi orig = true → i.kind = 0) ∧
        imps' = imps.map (renameFn orig new) ∧ added' = added ∧ nm' = nm) := by
  unfold stepOne at h
  split at h
  · rename_i ps rs hsig
    left
    simp only [] at h
    split at h
    · cases h
    · rename_i hany
      have hsigs : ∀ i ∈ imps, i.isApi orig = true → i.kind = 0 → i.params = ps ∧ i.results = rs := by
        intro i hi h1 h2
        have : ¬ (i.params ≠ ps ∨ i.results ≠ rs) := by
          intro hbad
          apply hany
          rw [List.any_eq_true]
          exact ⟨i, List.mem_filter.mpr ⟨hi, by simp [h1, h2]⟩, by simpa using hbad⟩
        constructor
        · exact Classical.not_not.mp (fun hh => this (Or.inl hh))
        · exact Classical.not_not.mp (fun hh => this (Or.inr hh))
      split at h
      · rename_i hemp
        simp only [Except.ok.injEq, Prod.mk.injEq] at h
        obtain ⟨rfl, rfl, rfl⟩ := h
        refine ⟨ps, rs, 0, hsig, ?_, by simp, hsigs⟩
        -- nothing to filter
        have hnone : ∀ i ∈ imps, (i.isApi orig && i.kind == 0) = false := by
          intro i hi
          cases hc : (i.isApi orig && i.kind == 0) with
          | false => rfl
          | true =>
            have : i ∈ imps.filter (fun i => i.isApi orig && i.kind == 0) := List.mem_filter.mpr ⟨hi, hc⟩
            rw [List.isEmpty_iff.mp hemp] at this; cases this
        symm
        apply List.filter_eq_self.mpr
        intro i hi
        simp [hnone i hi]
      · rename_i hne
        simp only [Except.ok.injEq, Prod.mk.injEq] at h
        obtain ⟨rfl, rfl, rfl⟩ := h
        refine ⟨ps, rs, (imps.filter (fun i => i.isApi orig && i.kind == 0)).length, hsig, rfl, ?_, hsigs⟩
        have : (imps.filter (fun i => i.isApi orig && i.kind == 0)).length ≠ 0 := by
          intro h0
          apply hne
          rw [List.isEmpty_iff]
          exact List.eq_nil_of_length_eq_zero h0
        rw [if_neg this]
  · rename_i hsig
    right
    split at h
    · cases h
    · rename_i hany
      simp only [Except.ok.injEq, Prod.mk.injEq] at h
      obtain ⟨rfl, rfl, rfl⟩ := h
      refine ⟨?_, ?_, rfl, rfl, rfl⟩
      · exact hsig
      · intro i hi h1
        cases hk : i.kind with
        | zero => rfl
        | succ k =>
          exfalso
          apply hany
          rw [List.any_eq_true]
          exact ⟨i, hi, by simp [h1, hk]⟩

theorem applyPairs_cons_ok {orig new : List Nat} {rest : List (List Nat × List Nat)} {imps added : List Imp} {nm : Bool}
    {r : List Imp × List Imp × Bool} (h : applyPairs ((orig, new) :: rest) imps added nm = .ok r) :
    ∃ i1 a1 n1, stepOne orig new imps added nm = .ok (i1, a1, n1) ∧ applyPairs rest i1 a1 n1 = .ok r := by
  unfold applyPairs at h
  split at h
  · cases h
  · rename_i i1 a1 n1 hs
    exact ⟨i1, a1, n1, hs, h⟩

/-- elements of the per-entry additions -/
theorem mem_addsForOcc {orig : List Nat} {k : Nat} {x : List Nat} (h : x ∈ addsForOcc orig k) :
    x ∈ addsFor orig ∨ x = allocName := by
  unfold addsForOcc at h
  rcases List.mem_append.mp h with h | h
  · left
    rw [List.mem_flatten] at h
    obtain ⟨l, hl, hx⟩ := h
    rw [List.mem_replicate] at hl
    rw [hl.2] at hx
    exact (List.mem_filter.mp hx).1
  · right
    split at h
    · simpa using h
    · cases h

end SfVerif.Tramp
