import SfVerif.Lemmas.Ext1
import SfVerif.Lemmas.Lazy2
/-! every reader operation extends the node it is applied to -/
namespace SfVerif
open SfVerif.Gen

def FinExt (b : Bytes) (f : Nat) : Prop := ∀ n, Ext n (Node.finish b f n).1

theorem arrFinLoop_ext {b : Bytes} {f : Nat} (IH : FinExt b f) (len : Nat) :
    ∀ k elems e, ∃ elems' e' r, arrFinLoop b f len elems e k = (.arr len elems' e', r) ∧ ExtL elems elems' := by
  intro k
  induction k with
  | zero => intro elems e; exact ⟨elems, e, _, arrFinLoop_zero .., ExtL.refl _⟩
  | succ k ih =>
    intro elems e
    rw [arrFinLoop]
    cases hh : readHdr b e with
    | none => exact ⟨elems, e, _, rfl, ExtL.refl _⟩
    | some h =>
      simp only []
      cases hfin : Node.finish b f (mkNode h) with
      | mk n' r =>
        cases r with
        | err => exact ⟨elems, e, _, rfl, ExtL.refl _⟩
        | ok oe =>
          simp only []
          obtain ⟨elems', e', r, hl, hx⟩ := ih (.snoc elems n') (oe.getD (h.endOr e))
          exact ⟨elems', e', r, hl, (ExtL.grow elems n').trans hx⟩

theorem objFinLoop_ext {b : Bytes} {f : Nat} (IH : FinExt b f) (len : Nat) :
    ∀ k pairs e, ∃ pairs' e' r, objFinLoop b f len pairs e k = (.obj len pairs' e', r) ∧ ExtP pairs pairs' := by
  intro k
  induction k with
  | zero => intro pairs e; exact ⟨pairs, e, _, objFinLoop_zero .., ExtP.refl _⟩
  | succ k ih =>
    intro pairs e
    rw [objFinLoop]
    split
    · rename_i ko kl ke hk
      cases hh : readHdr b ke with
      | none => exact ⟨pairs, e, _, rfl, ExtP.refl _⟩
      | some h =>
        simp only []
        cases hfin : Node.finish b f (mkNode h) with
        | mk n' r =>
          cases r with
          | err => exact ⟨pairs, e, _, rfl, ExtP.refl _⟩
          | ok oe =>
            simp only []
            obtain ⟨pairs', e', r, hl, hx⟩ := ih (.snoc pairs ko kl n') (oe.getD (h.endOr ke))
            exact ⟨pairs', e', r, hl, (ExtP.grow pairs ko kl n').trans hx⟩
    · exact ⟨pairs, e, _, rfl, ExtP.refl _⟩

theorem finish_ext (b : Bytes) : ∀ f, FinExt b f := by
  intro f
  induction f with
  | zero =>
    intro n
    cases n with
    | scalar v => rw [Node.finish]; exact Ext.refl _
    | arr len es e => rw [Node.finish]; exact Ext.refl _; intro v; simp
    | obj len ps e => rw [Node.finish]; exact Ext.refl _; intro v; simp
  | succ f IH =>
    intro n
    cases n with
    | scalar v => rw [Node.finish]; exact Ext.refl _
    | arr len es e =>
      cases es with
      | nil =>
        rw [Node.finish]
        obtain ⟨elems', e', r, hl, hx⟩ := arrFinLoop_ext IH len len .nil e
        rw [hl]; exact Ext.arr hx
      | snoc init last =>
        rw [Node.finish]
        cases hfin : Node.finish b f last with
        | mk last' r =>
          have hlast : Ext last last' := by have := IH last; rw [hfin] at this; exact this
          cases r with
          | err => exact Ext.arr (ExtL.last init hlast)
          | ok oe =>
            simp only []
            obtain ⟨elems', e', r, hl, hx⟩ := arrFinLoop_ext IH len (len - (init.length + 1)) (.snoc init last') (oe.getD e)
            rw [hl]; exact Ext.arr ((ExtL.last init hlast).trans hx)
    | obj len ps e =>
      cases ps with
      | nil =>
        rw [Node.finish]
        obtain ⟨pairs', e', r, hl, hx⟩ := objFinLoop_ext IH len len .nil e
        rw [hl]; exact Ext.obj hx
      | snoc init ko kl last =>
        rw [Node.finish]
        cases hfin : Node.finish b f last with
        | mk last' r =>
          have hlast : Ext last last' := by have := IH last; rw [hfin] at this; exact this
          cases r with
          | err => exact Ext.obj (ExtP.last init ko kl hlast)
          | ok oe =>
            simp only []
            obtain ⟨pairs', e', r, hl, hx⟩ := objFinLoop_ext IH len (len - (init.length + 1)) (.snoc init ko kl last') (oe.getD e)
            rw [hl]; exact Ext.obj ((ExtP.last init ko kl hlast).trans hx)

end SfVerif

namespace SfVerif
open SfVerif.Gen

theorem arrGetLoop_ext (b : Bytes) (f len : Nat) :
    ∀ k elems e, ∃ elems' e' g, arrGetLoop b f len elems e k = (.arr len elems' e', g) ∧ ExtL elems elems' := by
  intro k
  induction k with
  | zero => intro elems e; exact ⟨elems, e, _, by rw [arrGetLoop], ExtL.refl _⟩
  | succ k ih =>
    intro elems e
    have hstep : ∀ (els : NodeList) (e0 : Nat), ∃ elems' e' g,
        (match readHdr b e0 with
         | none => ((Node.arr len els e0, Got.err ErrorCode_ReadError) : Node × Got)
         | some h => arrGetLoop b f len (.snoc els (mkNode h)) (h.endOr e0) k) = (.arr len elems' e', g) ∧
        ExtL els elems' := by
      intro els e0
      cases hh : readHdr b e0 with
      | none => exact ⟨els, e0, _, rfl, ExtL.refl _⟩
      | some h =>
        obtain ⟨elems', e', g, hl, hx⟩ := ih (.snoc els (mkNode h)) (h.endOr e0)
        exact ⟨elems', e', g, hl, (ExtL.grow els _).trans hx⟩
    cases elems with
    | nil =>
      rw [arrGetLoop]
      exact hstep .nil e
    | snoc init last =>
      rw [arrGetLoop]
      cases hfin : Node.finish b f last with
      | mk last' r =>
        have hlast : Ext last last' := by have := finish_ext b f last; rw [hfin] at this; exact this
        cases r with
        | err => exact ⟨_, e, _, rfl, ExtL.last init hlast⟩
        | ok oe =>
          obtain ⟨elems', e', g, hl, hx⟩ := hstep (.snoc init last') (oe.getD e)
          exact ⟨elems', e', g, hl, (ExtL.last init hlast).trans hx⟩

theorem arrGet_ext (b : Bytes) (f len : Nat) (elems : NodeList) (e i : Nat) :
    ∃ elems' e' g, arrGet b f len elems e i = (.arr len elems' e', g) ∧ ExtL elems elems' := by
  unfold arrGet
  split
  · exact ⟨elems, e, _, rfl, ExtL.refl _⟩
  · split
    · exact ⟨elems, e, _, rfl, ExtL.refl _⟩
    · exact arrGetLoop_ext b f len _ elems e

theorem objGetLoop_ext (b : Bytes) (f len : Nat) :
    ∀ k pairs e, ∃ pairs' e' g, objGetLoop b f len pairs e k = (.obj len pairs' e', g) ∧ ExtP pairs pairs' := by
  intro k
  induction k with
  | zero => intro pairs e; exact ⟨pairs, e, _, by rw [objGetLoop], ExtP.refl _⟩
  | succ k ih =>
    intro pairs e
    have hstep : ∀ (ps : PairList) (e0 : Nat), ∃ pairs' e' g,
        (match readHdr b e0 with
         | some (.scalar (.str ko kl) ke) =>
           (match readHdr b ke with
            | none => ((Node.obj len ps e0, Got.err ErrorCode_ReadError) : Node × Got)
            | some h => objGetLoop b f len (.snoc ps ko kl (mkNode h)) (h.endOr ke) k)
         | _ => (.obj len ps e0, .err ErrorCode_ReadError)) = (.obj len pairs' e', g) ∧
        ExtP ps pairs' := by
      intro ps e0
      split
      · rename_i ko kl ke hk
        cases hh : readHdr b ke with
        | none => exact ⟨ps, e0, _, rfl, ExtP.refl _⟩
        | some h =>
          obtain ⟨pairs', e', g, hl, hx⟩ := ih (.snoc ps ko kl (mkNode h)) (h.endOr ke)
          exact ⟨pairs', e', g, hl, (ExtP.grow ps _ _ _).trans hx⟩
      · exact ⟨ps, e0, _, rfl, ExtP.refl _⟩
    cases pairs with
    | nil =>
      rw [objGetLoop]
      exact hstep .nil e
    | snoc init ko kl last =>
      rw [objGetLoop]
      cases hfin : Node.finish b f last with
      | mk last' r =>
        have hlast : Ext last last' := by have := finish_ext b f last; rw [hfin] at this; exact this
        cases r with
        | err => exact ⟨_, e, _, rfl, ExtP.last init ko kl hlast⟩
        | ok oe =>
          obtain ⟨pairs', e', g, hl, hx⟩ := hstep (.snoc init ko kl last') (oe.getD e)
          exact ⟨pairs', e', g, hl, (ExtP.last init ko kl hlast).trans hx⟩

theorem objGet_ext (b : Bytes) (f len : Nat) (pairs : PairList) (e i : Nat) :
    ∃ pairs' e' g, objGet b f len pairs e i = (.obj len pairs' e', g) ∧ ExtP pairs pairs' := by
  unfold objGet
  split
  · exact ⟨pairs, e, _, rfl, ExtP.refl _⟩
  · split
    · exact ⟨pairs, e, _, rfl, ExtP.refl _⟩
    · exact objGetLoop_ext b f len _ pairs e

theorem objPropLoop_ext (b : Bytes) (f len : Nat) (q : Bytes) :
    ∀ k pairs e, ∃ pairs' e' g, objPropLoop b f len q pairs e k = (.obj len pairs' e', g) ∧ ExtP pairs pairs' := by
  intro k
  induction k with
  | zero => intro pairs e; exact ⟨pairs, e, _, by rw [objPropLoop], ExtP.refl _⟩
  | succ k ih =>
    intro pairs e
    have hstep : ∀ (ps : PairList) (e0 : Nat), ∃ pairs' e' g,
        (match readHdr b e0 with
         | some (.scalar (.str ko kl) ke) =>
           (match readHdr b ke with
            | none => ((Node.obj len ps e0, Got.err ErrorCode_ReadError) : Node × Got)
            | some h =>
              let pairs' := PairList.snoc ps ko kl (mkNode h)
              if keyEq b ko kl q then (.obj len pairs' (h.endOr ke), .at (pairs'.length - 1))
              else objPropLoop b f len q pairs' (h.endOr ke) k)
         | _ => (.obj len ps e0, .err ErrorCode_ReadError)) = (.obj len pairs' e', g) ∧
        ExtP ps pairs' := by
      intro ps e0
      split
      · rename_i ko kl ke hk
        cases hh : readHdr b ke with
        | none => exact ⟨ps, e0, _, rfl, ExtP.refl _⟩
        | some h =>
          simp only []
          by_cases hkey : keyEq b ko kl q = true
          · rw [if_pos hkey]; exact ⟨_, _, _, rfl, ExtP.grow ps _ _ _⟩
          · rw [if_neg hkey]
            obtain ⟨pairs', e', g, hl, hx⟩ := ih (.snoc ps ko kl (mkNode h)) (h.endOr ke)
            exact ⟨pairs', e', g, hl, (ExtP.grow ps _ _ _).trans hx⟩
      · exact ⟨ps, e0, _, rfl, ExtP.refl _⟩
    cases pairs with
    | nil =>
      rw [objPropLoop]
      exact hstep .nil e
    | snoc init ko kl last =>
      rw [objPropLoop]
      cases hfin : Node.finish b f last with
      | mk last' r =>
        have hlast : Ext last last' := by have := finish_ext b f last; rw [hfin] at this; exact this
        cases r with
        | err => exact ⟨_, e, _, rfl, ExtP.last init ko kl hlast⟩
        | ok oe =>
          obtain ⟨pairs', e', g, hl, hx⟩ := hstep (.snoc init ko kl last') (oe.getD e)
          exact ⟨pairs', e', g, hl, (ExtP.last init ko kl hlast).trans hx⟩

theorem objProp_ext (b : Bytes) (f len : Nat) (pairs : PairList) (e : Nat) (q : Bytes) :
    ∃ pairs' e' g, objProp b f len pairs e q = (.obj len pairs' e', g) ∧ ExtP pairs pairs' := by
  unfold objProp
  split
  · exact ⟨pairs, e, _, rfl, ExtP.refl _⟩
  · exact objPropLoop_ext b f len q _ pairs e

/-- **the three mutating entry points only extend the node** -/
theorem getAtIndex_ext (b : Bytes) (f : Nat) (n : Node) (i : Nat) : Ext n (n.getAtIndex b f i).1 := by
  cases n with
  | scalar v => exact Ext.refl _
  | arr len es e =>
    obtain ⟨es', e', g, h, hx⟩ := arrGet_ext b f len es e i
    simp only [Node.getAtIndex, h]; exact Ext.arr hx
  | obj len ps e =>
    obtain ⟨ps', e', g, h, hx⟩ := objGet_ext b f len ps e i
    simp only [Node.getAtIndex, h]; exact Ext.obj hx

theorem getKeyAtIndex_ext (b : Bytes) (f : Nat) (n : Node) (i : Nat) : Ext n (n.getKeyAtIndex b f i).1 := by
  cases n with
  | scalar v => exact Ext.refl _
  | arr len es e => exact Ext.refl _
  | obj len ps e =>
    obtain ⟨ps', e', g, h, hx⟩ := objGet_ext b f len ps e i
    simp only [Node.getKeyAtIndex, h]; exact Ext.obj hx

theorem getProp_ext (b : Bytes) (f : Nat) (n : Node) (q : Bytes) : Ext n (n.getProp b f q).1 := by
  cases n with
  | scalar v => exact Ext.refl _
  | arr len es e => exact Ext.refl _
  | obj len ps e =>
    obtain ⟨ps', e', g, h, hx⟩ := objProp_ext b f len ps e q
    simp only [Node.getProp, h]; exact Ext.obj hx

end SfVerif
