import SfVerif.Model.Reader
import SfVerif.Spec.Eager
import SfVerif.Lemmas.Hdr
/-! The invariant relating a lazily parsed node to the bytes, and the agreement of a finished
    node with the eager walk. -/
namespace SfVerif

def Node.isComposite : Node → Bool
  | .arr .. => true
  | .obj .. => true
  | _ => false

mutual
/-- `Done b pos n e`: `n` is a complete, correct view of the value at `pos`, which ends at `e` -/
inductive Done (b : Bytes) : Nat → Node → Nat → Prop
  | scalar {pos v e} : readHdr b pos = some (.scalar v e) → Done b pos (.scalar v) e
  | arr {pos len body elems e} : readHdr b pos = some (.arr len body) → elems.length = len →
      Pre b body elems e → Done b pos (.arr len elems e) e
  | obj {pos len body pairs e} : readHdr b pos = some (.map len body) → pairs.length = len →
      PreP b body pairs e → Done b pos (.obj len pairs e) e
/-- all of `elems` are Done and consecutive from `p0`; the next child starts at `s` -/
inductive Pre (b : Bytes) : Nat → NodeList → Nat → Prop
  | nil {p0} : Pre b p0 .nil p0
  | snoc {p0 init s n s'} : Pre b p0 init s → Done b s n s' → Pre b p0 (.snoc init n) s'
/-- the same for pairs: each key is a string header, its value is Done -/
inductive PreP (b : Bytes) : Nat → PairList → Nat → Prop
  | nil {p0} : PreP b p0 .nil p0
  | snoc {p0 init s ko kl ke n s'} : PreP b p0 init s →
      readHdr b s = some (.scalar (.str ko kl) ke) → Done b ke n s' → PreP b p0 (.snoc init ko kl n) s'
end

/-- `Inv b pos n`: `n` is a correct *partial* view of the value at `pos` -/
inductive Inv (b : Bytes) : Nat → Node → Prop
  | scalar {pos v e} : readHdr b pos = some (.scalar v e) → Inv b pos (.scalar v)
  | arrClosed {pos len body elems e} : readHdr b pos = some (.arr len body) → elems.length ≤ len →
      Pre b body elems e → Inv b pos (.arr len elems e)
  | arrOpened {pos len body init last e} : readHdr b pos = some (.arr len body) → init.length + 1 ≤ len →
      Pre b body init e → last.isComposite = true → Inv b e last → Inv b pos (.arr len (.snoc init last) e)
  | objClosed {pos len body pairs e} : readHdr b pos = some (.map len body) → pairs.length ≤ len →
      PreP b body pairs e → Inv b pos (.obj len pairs e)
  | objOpened {pos len body init s ko kl ke last} : readHdr b pos = some (.map len body) →
      init.length + 1 ≤ len → PreP b body init s → readHdr b s = some (.scalar (.str ko kl) ke) →
      last.isComposite = true → Inv b ke last → Inv b pos (.obj len (.snoc init ko kl last) ke)

/-! ### unfolding lemmas for the eager walk -/

theorem skip_scalar {b : Bytes} {f pos v e} (h : readHdr b pos = some (.scalar v e)) :
    skip b (f+1) pos = some e := by rw [skip, h]
theorem skip_arr {b : Bytes} {f pos len body} (h : readHdr b pos = some (.arr len body)) :
    skip b (f+1) pos = skipN b f len body := by rw [skip, h]
theorem skip_map {b : Bytes} {f pos len body} (h : readHdr b pos = some (.map len body)) :
    skip b (f+1) pos = skipPairs b f len body := by rw [skip, h]
theorem skip_none {b : Bytes} {f pos} (h : readHdr b pos = none) :
    skip b (f+1) pos = none := by rw [skip, h]
theorem skipN_zero {b : Bytes} {f pos} : skipN b f 0 pos = some pos := by rw [skipN]
theorem skipN_some {b : Bytes} {f k pos e} (h : skip b f pos = some e) :
    skipN b f (k+1) pos = skipN b f k e := by rw [skipN, h]
theorem skipN_none {b : Bytes} {f k pos} (h : skip b f pos = none) :
    skipN b f (k+1) pos = none := by rw [skipN, h]
theorem skipPairs_zero {b : Bytes} {f pos} : skipPairs b f 0 pos = some pos := by rw [skipPairs]
theorem skipPairs_some {b : Bytes} {f k pos ko kl ke e} (h : readHdr b pos = some (.scalar (.str ko kl) ke))
    (hs : skip b f ke = some e) : skipPairs b f (k+1) pos = skipPairs b f k e := by
  rw [skipPairs, h]; simp only [hs]
theorem skipPairs_none {b : Bytes} {f k pos ko kl ke} (h : readHdr b pos = some (.scalar (.str ko kl) ke))
    (hs : skip b f ke = none) : skipPairs b f (k+1) pos = none := by
  rw [skipPairs, h]; simp only [hs]

theorem skipN_succ_inv {b : Bytes} {f k s e} (h : skipN b f (k+1) s = some e) :
    ∃ y, skip b f s = some y ∧ skipN b f k y = some e := by
  cases hsk : skip b f s with
  | none => rw [skipN_none hsk] at h; simp at h
  | some y => rw [skipN_some hsk] at h; exact ⟨y, rfl, h⟩

theorem skipPairs_succ_inv {b : Bytes} {f k s e} (h : skipPairs b f (k+1) s = some e) :
    ∃ ko kl ke y, readHdr b s = some (.scalar (.str ko kl) ke) ∧ skip b f ke = some y ∧
      skipPairs b f k y = some e := by
  rw [skipPairs] at h
  split at h
  · rename_i ko kl ke hk
    split at h
    · simp at h
    · rename_i y hy
      exact ⟨ko, kl, ke, y, hk, hy, h⟩
  · simp at h

/-! ### a finished node agrees with the eager walk -/

/-- if the eager walk succeeds on a Done node it returns Done's end (for every fuel) -/
theorem done_skip_agree {b : Bytes} {pos n e} (h : Done b pos n e) :
    ∀ f x, skip b f pos = some x → x = e := by
  refine Done.rec
    (motive_1 := fun pos n e _ => ∀ f x, skip b f pos = some x → x = e)
    (motive_2 := fun p0 elems s _ => ∀ f r x, skipN b f (elems.length + r) p0 = some x → skipN b f r s = some x)
    (motive_3 := fun p0 pairs s _ => ∀ f r x, skipPairs b f (pairs.length + r) p0 = some x → skipPairs b f r s = some x)
    ?_ ?_ ?_ ?_ ?_ ?_ ?_ h
  · intro pos v e hh f x hs
    cases f with
    | zero => simp [skip] at hs
    | succ f => rw [skip_scalar hh] at hs; simp at hs; exact hs.symm
  · intro pos len body elems e hh hlen _ ih f x hs
    cases f with
    | zero => simp [skip] at hs
    | succ f =>
      rw [skip_arr hh] at hs
      have := ih f 0 x (by simpa [hlen] using hs)
      rw [skipN_zero] at this; simp at this; exact this.symm
  · intro pos len body pairs e hh hlen _ ih f x hs
    cases f with
    | zero => simp [skip] at hs
    | succ f =>
      rw [skip_map hh] at hs
      have := ih f 0 x (by simpa [hlen] using hs)
      rw [skipPairs_zero] at this; simp at this; exact this.symm
  · intro p0 f r x hs; simpa [NodeList.length] using hs
  · intro p0 init s n s' _ _ ih1 ih2 f r x hs
    have h1 : skipN b f (init.length + (r + 1)) p0 = some x := by
      simpa [NodeList.length, Nat.add_assoc, Nat.add_comm 1 r] using hs
    have h2 := ih1 f (r+1) x h1
    obtain ⟨y, hy, hrest⟩ := skipN_succ_inv h2
    have := ih2 f y hy
    subst this; exact hrest
  · intro p0 f r x hs; simpa [PairList.length] using hs
  · intro p0 init s ko kl ke n s' _ hk _ ih1 ih2 f r x hs
    have h1 : skipPairs b f (init.length + (r + 1)) p0 = some x := by
      simpa [PairList.length, Nat.add_assoc, Nat.add_comm 1 r] using hs
    have h2 := ih1 f (r+1) x h1
    obtain ⟨ko', kl', ke', y, hk', hy, hrest⟩ := skipPairs_succ_inv h2
    rw [hk] at hk'
    simp at hk'
    obtain ⟨_, _, rfl⟩ := hk'
    have := ih2 f y hy
    subst this; exact hrest

/-- skipping over a Done prefix lands on its `next` -/
theorem pre_peel {b : Bytes} {p0 elems s} (h : Pre b p0 elems s) :
    ∀ f r x, skipN b f (elems.length + r) p0 = some x → skipN b f r s = some x := by
  refine Pre.rec
    (motive_1 := fun pos n e _ => ∀ f x, skip b f pos = some x → x = e)
    (motive_2 := fun p0 elems s _ => ∀ f r x, skipN b f (elems.length + r) p0 = some x → skipN b f r s = some x)
    (motive_3 := fun p0 pairs s _ => ∀ f r x, skipPairs b f (pairs.length + r) p0 = some x → skipPairs b f r s = some x)
    ?_ ?_ ?_ ?_ ?_ ?_ ?_ h
  · intro pos v e hh f x hs; exact done_skip_agree (Done.scalar hh) f x hs
  · intro pos len body elems e hh hlen hp _ f x hs; exact done_skip_agree (Done.arr hh hlen hp) f x hs
  · intro pos len body pairs e hh hlen hp _ f x hs; exact done_skip_agree (Done.obj hh hlen hp) f x hs
  · intro p0 f r x hs; simpa [NodeList.length] using hs
  · intro p0 init s n s' _ hd ih1 _ f r x hs
    have h1 : skipN b f (init.length + (r + 1)) p0 = some x := by
      simpa [NodeList.length, Nat.add_assoc, Nat.add_comm 1 r] using hs
    have h2 := ih1 f (r+1) x h1
    obtain ⟨y, hy, hrest⟩ := skipN_succ_inv h2
    have := done_skip_agree hd f y hy
    subst this; exact hrest
  · intro p0 f r x hs; simpa [PairList.length] using hs
  · intro p0 init s ko kl ke n s' _ hk hd ih1 _ f r x hs
    have h1 : skipPairs b f (init.length + (r + 1)) p0 = some x := by
      simpa [PairList.length, Nat.add_assoc, Nat.add_comm 1 r] using hs
    have h2 := ih1 f (r+1) x h1
    obtain ⟨ko', kl', ke', y, hk', hy, hrest⟩ := skipPairs_succ_inv h2
    rw [hk] at hk'
    simp at hk'
    obtain ⟨_, _, rfl⟩ := hk'
    have := done_skip_agree hd f y hy
    subst this; exact hrest

theorem preP_peel {b : Bytes} {p0 pairs s} (h : PreP b p0 pairs s) :
    ∀ f r x, skipPairs b f (pairs.length + r) p0 = some x → skipPairs b f r s = some x := by
  refine PreP.rec
    (motive_1 := fun pos n e _ => ∀ f x, skip b f pos = some x → x = e)
    (motive_2 := fun p0 elems s _ => ∀ f r x, skipN b f (elems.length + r) p0 = some x → skipN b f r s = some x)
    (motive_3 := fun p0 pairs s _ => ∀ f r x, skipPairs b f (pairs.length + r) p0 = some x → skipPairs b f r s = some x)
    ?_ ?_ ?_ ?_ ?_ ?_ ?_ h
  · intro pos v e hh f x hs; exact done_skip_agree (Done.scalar hh) f x hs
  · intro pos len body elems e hh hlen hp _ f x hs; exact done_skip_agree (Done.arr hh hlen hp) f x hs
  · intro pos len body pairs e hh hlen hp _ f x hs; exact done_skip_agree (Done.obj hh hlen hp) f x hs
  · intro p0 f r x hs; simpa [NodeList.length] using hs
  · intro p0 init s n s' _ hd ih1 _ f r x hs
    have h1 : skipN b f (init.length + (r + 1)) p0 = some x := by
      simpa [NodeList.length, Nat.add_assoc, Nat.add_comm 1 r] using hs
    have h2 := ih1 f (r+1) x h1
    obtain ⟨y, hy, hrest⟩ := skipN_succ_inv h2
    have := done_skip_agree hd f y hy
    subst this; exact hrest
  · intro p0 f r x hs; simpa [PairList.length] using hs
  · intro p0 init s ko kl ke n s' _ hk hd ih1 _ f r x hs
    have h1 : skipPairs b f (init.length + (r + 1)) p0 = some x := by
      simpa [PairList.length, Nat.add_assoc, Nat.add_comm 1 r] using hs
    have h2 := ih1 f (r+1) x h1
    obtain ⟨ko', kl', ke', y, hk', hy, hrest⟩ := skipPairs_succ_inv h2
    rw [hk] at hk'
    simp at hk'
    obtain ⟨_, _, rfl⟩ := hk'
    have := done_skip_agree hd f y hy
    subst this; exact hrest

theorem done_inv {b : Bytes} {pos n e} (h : Done b pos n e) : Inv b pos n := by
  cases h with
  | scalar hh => exact Inv.scalar hh
  | arr hh hl hp => exact Inv.arrClosed hh (by omega) hp
  | obj hh hl hp => exact Inv.objClosed hh (by omega) hp

end SfVerif
