import SfVerif.Lemmas.Codec1
import SfVerif.Spec.Enc
/-! Decoding what the encoders wrote: scalars and strings, in any context. -/
namespace SfVerif

theorem u8_toNat_ofNat (k : Nat) (h : k < 256) : (UInt8.ofNat k).toNat = k := by
  simp [UInt8.toNat_ofNat']; omega

theorem append_cons_assoc (pre : List UInt8) (m : UInt8) (rest post : List UInt8) :
    pre ++ (m :: rest) ++ post = (pre ++ [m]) ++ rest ++ post := by simp

/-- decoding a value whose first byte is the immediate marker `m` -/
theorem dec_imm (pre post : List UInt8) (m : UInt8) (d : Doc) (f : Nat) (h : markerOf m.toNat = .imm d) :
    decodeAt (pre ++ [m] ++ post).toArray (f + 1) pre.length = some (d, pre.length + 1) := by
  rw [decodeAt]
  have : (pre ++ [m] ++ post).toArray[pre.length]? = some m := by simp
  rw [this]
  simp only [h]

theorem dec_nil (pre post : List UInt8) (f : Nat) :
    decodeAt (pre ++ encNil ++ post).toArray (f + 1) pre.length = some (.nil, pre.length + 1) :=
  dec_imm pre post 0xc0 .nil f (by rfl)

theorem dec_bool (pre post : List UInt8) (v : Bool) (f : Nat) :
    decodeAt (pre ++ encBool v ++ post).toArray (f + 1) pre.length = some (.bool v, pre.length + 1) := by
  cases v
  · exact dec_imm pre post 0xc2 (.bool false) f (by rfl)
  · exact dec_imm pre post 0xc3 (.bool true) f (by rfl)

/-- a marker followed by an `n`-byte big-endian payload -/
theorem dec_payload (pre post : List UInt8) (m : UInt8) (n v : Nat) (f : Nat)
    (hn : n = 1 ∨ n = 2 ∨ n = 4 ∨ n = 8) :
    (pre ++ (m :: beBytes n v) ++ post).toArray[pre.length]? = some m ∧
    beRead (pre ++ (m :: beBytes n v) ++ post).toArray (pre.length + 1) n = some (v % 2 ^ (8 * n)) := by
  refine ⟨by simp, ?_⟩
  rw [append_cons_assoc]
  have := beRead_mid (pre ++ [m]) post n v hn
  simpa using this

theorem dec_f64 (pre post : List UInt8) (bits : Nat) (hb : bits < 2 ^ 64) (f : Nat) :
    decodeAt (pre ++ encF64 bits ++ post).toArray (f + 1) pre.length = some (.f64 bits, pre.length + 9) := by
  obtain ⟨h1, h2⟩ := dec_payload pre post 0xcb 8 bits f (by simp)
  rw [decodeAt]
  simp only [encF64] at h1 h2 ⊢
  rw [h1]
  have hm : markerOf (0xcb : UInt8).toNat = .f64 := by rfl
  simp only [hm, h2]
  rw [Nat.mod_eq_of_lt (by simpa using hb)]

theorem dec_uint (pre post : List UInt8) (m : UInt8) (n v : Nat) (f : Nat)
    (hn : n = 1 ∨ n = 2 ∨ n = 4 ∨ n = 8) (hm : markerOf m.toNat = .uint n) (hv : v < 2 ^ (8 * n)) :
    decodeAt (pre ++ (m :: beBytes n v) ++ post).toArray (f + 1) pre.length = some (.int v, pre.length + 1 + n) := by
  obtain ⟨h1, h2⟩ := dec_payload pre post m n v f hn
  rw [decodeAt, h1]
  simp only [hm, h2]
  rw [Nat.mod_eq_of_lt hv]

theorem dec_sintN (pre post : List UInt8) (m : UInt8) (n : Nat) (z : Int) (f : Nat)
    (hn : n = 1 ∨ n = 2 ∨ n = 4 ∨ n = 8) (hm : markerOf m.toNat = .sint n)
    (hlo : -(2 ^ (8 * n - 1) : Nat) ≤ z) (hhi : z < 0) :
    decodeAt (pre ++ (m :: beBytes n (z + (2 ^ (8 * n) : Nat)).toNat) ++ post).toArray (f + 1) pre.length =
      some (.int z, pre.length + 1 + n) := by
  obtain ⟨h1, h2⟩ := dec_payload pre post m n (z + (2 ^ (8 * n) : Nat)).toNat f hn
  rw [decodeAt, h1]
  simp only [hm, h2]
  congr 2
  -- two's complement: the payload is z + 2^(8n), in the upper half
  rcases hn with rfl | rfl | rfl | rfl <;>
    (simp only [toSigned, Nat.reduceMul, Nat.reducePow, Nat.reduceSub] at hlo ⊢
     congr 1
     split <;> omega)

end SfVerif
