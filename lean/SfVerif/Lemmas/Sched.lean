import SfVerif.Model.Proto
/-! Schedules of several threads: one scheduled step changes only the acting thread, and every
    thread's observations and final state are those of its own script run alone. (Shared by the
    C14 theorems and by the per-thread form of C05.) -/
namespace SfVerif.Props.C14
open SfVerif SfVerif.Gen

/-- what thread `t` observes in a run: its own answers, in order -/
def obs (t : Nat) (as : List (Nat × String)) : List String :=
  as.filterMap (fun p => if p.1 = t then some p.2 else none)

/-- the operations thread `t` performs in a schedule -/
def script (t : Nat) (sched : Sys.Sched) : List Op :=
  sched.filterMap (fun p => if p.1 = t then some p.2 else none)

theorem get_set_same (s : Sys) (t : Nat) (th : Thread) : (s.set t th).get t = th := by
  simp [Sys.get, Sys.set]

theorem get_set_other (s : Sys) (t u : Nat) (th : Thread) (h : u ≠ t) : (s.set t th).get u = s.get u := by
  simp only [Sys.get, Sys.set]
  have h1 : ((t, th) :: s.threads.filter (fun p => p.1 != t)).find? (fun p => p.1 == u)
      = (s.threads.filter (fun p => p.1 != t)).find? (fun p => p.1 == u) := by
    rw [List.find?_cons_of_neg]; simp; exact fun h' => h h'.symm
  rw [h1, List.find?_filter]
  have h2 : (fun (a : Nat × Thread) => decide ((a.1 != t) = true ∧ (a.1 == u) = true)) = (fun a => a.1 == u) := by
    funext p
    by_cases hp : p.1 = u
    · simp [hp, h]
    · simp [hp]
  rw [h2]

theorem get_cur (s : Sys) (t u : Nat) : ({ s with cur := t } : Sys).get u = s.get u := rfl

/-- one scheduled step changes only the acting thread, and that thread steps exactly as it would alone -/
theorem step_local (w : Nat) (s : Sys) (t : Nat) (op : Op) :
    let r := ({ s with cur := t } : Sys).step w op
    r.1.get t = ((s.get t).step w op).1 ∧ r.2 = ((s.get t).step w op).2 ∧
    ∀ u, u ≠ t → r.1.get u = s.get u := by
  simp only [Sys.step]
  refine ⟨?_, ?_, ?_⟩
  · rw [get_set_same]; rfl
  · rfl
  · intro u hu; rw [get_set_other _ _ _ _ hu]; rfl

/-- generalised over the starting system: thread `t`'s observations and final state are those
    of running its own script alone from its own starting state -/
theorem noninterference_from (w : Nat) (t : Nat) :
    ∀ (sched : Sys.Sched) (s : Sys),
      obs t (Sys.runSched w s sched).2 = (Thread.run w (s.get t) (script t sched)).2 ∧
      (Sys.runSched w s sched).1.get t = (Thread.run w (s.get t) (script t sched)).1 := by
  intro sched
  induction sched with
  | nil => intro s; simp [Sys.runSched, obs, script, Thread.run]
  | cons hd rest ih =>
    intro s
    obtain ⟨u, op⟩ := hd
    have hl := step_local w s u op
    simp only at hl
    obtain ⟨h1, h2, h3⟩ := hl
    have ihs := ih (({ s with cur := u } : Sys).step w op).1
    by_cases hut : u = t
    · subst hut
      simp only [Sys.runSched, obs, script, List.filterMap_cons, if_true, Thread.run]
      rw [h1] at ihs
      simp only [obs, script] at ihs
      refine ⟨?_, ?_⟩
      · rw [ihs.1, h2]
      · exact ihs.2
    · have hne : t ≠ u := fun h => hut h.symm
      simp only [Sys.runSched, obs, script, List.filterMap_cons, if_neg hut]
      rw [h3 t hne] at ihs
      simp only [obs, script] at ihs
      exact ihs

end SfVerif.Props.C14
