import SfVerif.Lemmas.DeDoc2
/-! one-step unfoldings of the typed deserialiser (`deTy` is defined by well-founded recursion) -/
namespace SfVerif

theorem deTy_unit (c : Ctx) (rv : RVal) : deTy c .unit rv = (c, match rv with | .null => some .unit | _ => none) := by
  cases rv <;> simp [deTy]
theorem deTy_bool (c : Ctx) (rv : RVal) : deTy c .bool rv = (c, match rv with | .bool x => some (.bool x) | _ => none) := by
  cases rv <;> simp [deTy]
theorem deTy_f64 (c : Ctx) (rv : RVal) : deTy c .f64 rv = (c, match rv with | .num x => some (.f64 x) | _ => none) := by
  cases rv <;> simp [deTy]
/-- the integer a double deserialises to, as a value -/
def deIntVal (lo hi : Int) (b : Nat) : Option TVal :=
  match deInt lo hi b with
  | some z => some (.int z)
  | none => none

theorem deTy_int' (c : Ctx) (lo hi : Int) (rv : RVal) : deTy c (.int lo hi) rv =
    (c, match rv with
        | .num b => deIntVal lo hi b
        | _ => none) := by
  cases rv <;> simp [deTy, deIntVal]
  rename_i x; cases deInt lo hi x <;> rfl

theorem deDoc_int (lo hi : Int) (d : Doc) : deDoc (.int lo hi) d =
    (match d.num? with
     | some b => deIntVal lo hi b
     | none => none) := by
  simp only [deDoc, deIntVal]
  cases d.num? with
  | none => rfl
  | some b => simp only []; cases deInt lo hi b <;> rfl

theorem deTy_int (c : Ctx) (lo hi : Int) (rv : RVal) : deTy c (.int lo hi) rv =
    (c, match rv with
        | .num b => (match deInt lo hi b with | some z => some (.int z) | none => none)
        | _ => none) := by
  cases rv <;> simp [deTy]
  rename_i x; cases deInt lo hi x <;> rfl
theorem deTy_str (c : Ctx) (rv : RVal) : deTy c .str rv =
    (c, match rv with
        | .str h _ => (match c.stringAt h with | some bs => some (.str bs) | none => none)
        | _ => none) := by
  cases rv <;> simp [deTy]
  rename_i h l; cases c.stringAt h <;> rfl
theorem deTy_char (c : Ctx) (rv : RVal) : deTy c .char rv =
    (c, match rv with
        | .str h _ => (match c.stringAt h with
           | some bs => if utf8Chars bs = 1 then some (.chr bs) else none
           | none => none)
        | _ => none) := by
  cases rv <;> simp [deTy]
  rename_i h l; cases c.stringAt h <;> rfl
theorem deTy_opt_null (c : Ctx) (t : Ty) : deTy c (.opt t) .null = (c, some .none) := by
  simp [deTy]
theorem deTy_opt (c : Ctx) (t : Ty) (rv : RVal) (h : rv ≠ .null) : deTy c (.opt t) rv =
    (match deTy c t rv with
     | (c', some x) => (c', some (.some x))
     | (c', none) => (c', none)) := by
  cases rv <;> first | exact absurd rfl h | (simp [deTy]; split <;> simp_all)
theorem deTy_vec_arr (c : Ctx) (t : Ty) (h : Handle) (len : Nat) : deTy c (.vec t) (.arr h len) =
    (match deElems c t (.arr h len) 0 len with
     | (c', some xs) => (c', some (.seq xs))
     | (c', none) => (c', none)) := by
  simp [deTy]; split <;> simp_all
theorem deTy_vec_other (c : Ctx) (t : Ty) (rv : RVal) (h : ∀ hh l, rv ≠ .arr hh l) : deTy c (.vec t) rv = (c, none) := by
  cases rv <;> first | exact absurd rfl (h _ _) | simp [deTy]
theorem deTy_arrN_arr (c : Ctx) (n : Nat) (t : Ty) (h : Handle) (len : Nat) : deTy c (.arrN n t) (.arr h len) =
    (if len ≠ n then (c, none)
     else match deElems c t (.arr h len) 0 len with
          | (c', some xs) => (c', some (.seq xs))
          | (c', none) => (c', none)) := by
  simp [deTy]; split <;> (try rfl); all_goals (split <;> simp_all)
theorem deTy_arrN_other (c : Ctx) (n : Nat) (t : Ty) (rv : RVal) (h : ∀ hh l, rv ≠ .arr hh l) : deTy c (.arrN n t) rv = (c, none) := by
  cases rv <;> first | exact absurd rfl (h _ _) | simp [deTy]
theorem deTy_tup_arr (c : Ctx) (ts : List Ty) (h : Handle) (len : Nat) : deTy c (.tup ts) (.arr h len) =
    (if len ≠ ts.length then (c, none)
     else match deTuple c ts (.arr h len) 0 with
          | (c', some xs) => (c', some (.tup xs))
          | (c', none) => (c', none)) := by
  simp [deTy]; split <;> (try rfl); all_goals (split <;> simp_all)
theorem deTy_tup_other (c : Ctx) (ts : List Ty) (rv : RVal) (h : ∀ hh l, rv ≠ .arr hh l) : deTy c (.tup ts) rv = (c, none) := by
  cases rv <;> first | exact absurd rfl (h _ _) | simp [deTy]
theorem deTy_map_obj (c : Ctx) (t : Ty) (h : Handle) (len : Nat) : deTy c (.map t) (.obj h len) =
    (match dePairs c t (.obj h len) 0 len with
     | (c', some ps) => (c', some (.map ps))
     | (c', none) => (c', none)) := by
  simp [deTy]; split <;> simp_all
theorem deTy_map_other (c : Ctx) (t : Ty) (rv : RVal) (h : ∀ hh l, rv ≠ .obj hh l) : deTy c (.map t) rv = (c, none) := by
  cases rv <;> first | exact absurd rfl (h _ _) | simp [deTy]

end SfVerif
