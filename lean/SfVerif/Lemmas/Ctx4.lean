import SfVerif.Lemmas.Ctx3
/-! The entry points on a valid handle. -/
namespace SfVerif
open SfVerif.Gen

theorem fuel_eq (c : Ctx) : c.fuel = eagerFuel c.input := rfl

theorem getAtIndex_node_ok {c : Ctx} (hc : CInv c) (hwf : WF c.input) {h : Handle} {m : Node}
    (hm : c.nodeAt? h = some m) (i : Nat) :
    (c.getAtIndex (.node h) i).2 = Spec.getAtIndex c.input h i ∧
    ReadStepOK c (c.getAtIndex (.node h) i).1 (c.getAtIndex (.node h) i).2 := by
  obtain ⟨pos, hd, hpos, hh, hinv, hgood, hhdr, hshape⟩ := nodeAt_spec hc hwf hm
  cases hd with
  | arr len body =>
    obtain ⟨es, e, rfl⟩ := inv_arr_form hinv hh
    have hdisp : c.getAtIndex (.node h) i =
        c.nodeOp h (fun n => n.getAtIndex c.input (eagerFuel c.input) i) PStep.elem := by
      simp [Ctx.getAtIndex, Ctx.dispatch, hm, Ctx.kindOf, Ctx.idxStep, fuel_eq]
    rw [hdisp]
    by_cases hi : i < len
    · obtain ⟨m', cp, cn, hres, hinv', hsc, hchild, hcinv⟩ := getAtIndex_arr_ok hgood hinv hh hi
      have := nodeOp_child hc hwf hm rfl (getAtIndex_opOK c.input i) PStep.elem hpos hres hsc hchild hcinv
      simp only [Spec.getAtIndex, hhdr, if_pos hi]; exact this
    · have hres := (getAtIndex_oob (i := i) hinv (eagerFuel c.input)).1 body hh (by omega)
      have := nodeOp_flat hc hwf hm rfl (getAtIndex_opOK c.input i) PStep.elem hres (by intro i h; cases h)
      simp only [Spec.getAtIndex, hhdr, if_neg hi]; exact this
  | map len body =>
    obtain ⟨ps, e, rfl⟩ := inv_map_form hinv hh
    have hdisp : c.getAtIndex (.node h) i =
        c.nodeOp h (fun n => n.getAtIndex c.input (eagerFuel c.input) i) PStep.val := by
      simp [Ctx.getAtIndex, Ctx.dispatch, hm, Ctx.kindOf, Ctx.idxStep, fuel_eq]
    rw [hdisp]
    by_cases hi : i < len
    · obtain ⟨m', cp, cn, kp, kc, hres, _, hinv', hsc, hchild, hcinv, _⟩ := getAtIndex_obj_ok hgood hinv hh hi
      have := nodeOp_child hc hwf hm rfl (getAtIndex_opOK c.input i) PStep.val hpos hres hsc hchild hcinv
      simp only [Spec.getAtIndex, hhdr, if_pos hi]; exact this
    · have hres := ((getAtIndex_oob (i := i) hinv (eagerFuel c.input)).2 body hh (by omega)).1
      have := nodeOp_flat hc hwf hm rfl (getAtIndex_opOK c.input i) PStep.val hres (by intro i h; cases h)
      simp only [Spec.getAtIndex, hhdr, if_neg hi]; exact this
  | scalar v e =>
    have hmv := inv_scalar_form hinv hh
    subst hmv
    have hdisp : c.getAtIndex (.node h) i = (c, .err ErrorCode_NotIndexable) := by
      cases v <;> simp [Ctx.getAtIndex, Ctx.dispatch, hm, Ctx.kindOf]
    rw [hdisp]
    exact ⟨by simp [Spec.getAtIndex, hhdr], ReadStepOK.same hc trivial⟩

theorem getKeyAtIndex_node_ok {c : Ctx} (hc : CInv c) (hwf : WF c.input) {h : Handle} {m : Node}
    (hm : c.nodeAt? h = some m) (i : Nat) :
    (c.getKeyAtIndex (.node h) i).2 = Spec.getKeyAtIndex c.input h i ∧
    ReadStepOK c (c.getKeyAtIndex (.node h) i).1 (c.getKeyAtIndex (.node h) i).2 := by
  obtain ⟨pos, hd, hpos, hh, hinv, hgood, hhdr, hshape⟩ := nodeAt_spec hc hwf hm
  cases hd with
  | arr len body =>
    obtain ⟨es, e, rfl⟩ := inv_arr_form hinv hh
    have hdisp : c.getKeyAtIndex (.node h) i = (c, .err ErrorCode_NotAnObject) := by
      simp [Ctx.getKeyAtIndex, Ctx.dispatch, hm, Ctx.kindOf]
    rw [hdisp]
    exact ⟨by simp [Spec.getKeyAtIndex, hhdr], ReadStepOK.same hc trivial⟩
  | map len body =>
    obtain ⟨ps, e, rfl⟩ := inv_map_form hinv hh
    have hdisp : c.getKeyAtIndex (.node h) i =
        c.nodeOp h (fun n => n.getKeyAtIndex c.input (eagerFuel c.input) i) PStep.key := by
      simp [Ctx.getKeyAtIndex, Ctx.dispatch, hm, Ctx.kindOf, fuel_eq]
    rw [hdisp]
    by_cases hi : i < len
    · obtain ⟨m', cp, cn, kp, kc, _, hres, hinv', _, _, _, hsc, hchild, hcinv⟩ := getAtIndex_obj_ok hgood hinv hh hi
      have := nodeOp_child hc hwf hm rfl (getKeyAtIndex_opOK c.input i) PStep.key hpos hres hsc hchild hcinv
      simp only [Spec.getKeyAtIndex, hhdr, if_pos hi]; exact this
    · have hres := ((getAtIndex_oob (i := i) hinv (eagerFuel c.input)).2 body hh (by omega)).2
      have := nodeOp_flat hc hwf hm rfl (getKeyAtIndex_opOK c.input i) PStep.key hres (by intro i h; cases h)
      simp only [Spec.getKeyAtIndex, hhdr, if_neg hi]; exact this
  | scalar v e =>
    have hmv := inv_scalar_form hinv hh
    subst hmv
    have hdisp : c.getKeyAtIndex (.node h) i = (c, .err ErrorCode_NotAnObject) := by
      cases v <;> simp [Ctx.getKeyAtIndex, Ctx.dispatch, hm, Ctx.kindOf]
    rw [hdisp]
    exact ⟨by simp [Spec.getKeyAtIndex, hhdr], ReadStepOK.same hc trivial⟩

theorem getObjProp_node_ok {c : Ctx} (hc : CInv c) (hwf : WF c.input) {h : Handle} {m : Node}
    (hm : c.nodeAt? h = some m) (q : Bytes) :
    (c.getObjProp (.node h) q).2 = Spec.getObjProp c.input h q ∧
    ReadStepOK c (c.getObjProp (.node h) q).1 (c.getObjProp (.node h) q).2 := by
  obtain ⟨pos, hd, hpos, hh, hinv, hgood, hhdr, hshape⟩ := nodeAt_spec hc hwf hm
  cases hd with
  | arr len body =>
    obtain ⟨es, e, rfl⟩ := inv_arr_form hinv hh
    have hdisp : c.getObjProp (.node h) q = (c, .err ErrorCode_NotAnObject) := by
      simp [Ctx.getObjProp, Ctx.dispatch, hm, Ctx.kindOf]
    rw [hdisp]
    exact ⟨by simp [Spec.getObjProp, hhdr], ReadStepOK.same hc trivial⟩
  | map len body =>
    obtain ⟨ps, e, rfl⟩ := inv_map_form hinv hh
    have hdisp : c.getObjProp (.node h) q =
        c.nodeOp h (fun n => n.getProp c.input (eagerFuel c.input) q) PStep.val := by
      simp [Ctx.getObjProp, Ctx.dispatch, hm, Ctx.kindOf, fuel_eq]
    rw [hdisp]
    obtain ⟨m', hinv', hcase⟩ := getProp_ok q hgood hinv hh
    rcases hcase with ⟨i, ke, cn, hsp, hi, hres, hsc, hchild, hcinv⟩ | ⟨hsp, hres⟩
    · have := nodeOp_child hc hwf hm rfl (getProp_opOK c.input q) PStep.val hpos hres hsc hchild hcinv
      simp only [Spec.getObjProp, hhdr, hsp]; exact this
    · have := nodeOp_flat hc hwf hm rfl (getProp_opOK c.input q) PStep.val hres (by intro i h; cases h)
      simp only [Spec.getObjProp, hhdr, hsp]; exact this
  | scalar v e =>
    have hmv := inv_scalar_form hinv hh
    subst hmv
    have hdisp : c.getObjProp (.node h) q = (c, .err ErrorCode_NotAnObject) := by
      cases v <;> simp [Ctx.getObjProp, Ctx.dispatch, hm, Ctx.kindOf]
    rw [hdisp]
    exact ⟨by simp [Spec.getObjProp, hhdr], ReadStepOK.same hc trivial⟩

theorem shape_valueLength {n n' : Node} (h : n.shape = n'.shape) : n.valueLength = n'.valueLength := by
  cases n with
  | scalar v => cases n' <;> simp [Node.shape] at h; subst h; rfl
  | arr l es e => cases n' <;> simp [Node.shape] at h; subst h; rfl
  | obj l ps e => cases n' <;> simp [Node.shape] at h; subst h; rfl

/-- length and string address are read off the node without touching anything -/
theorem getValLen_node_ok {c : Ctx} (hc : CInv c) (hwf : WF c.input) {h : Handle} {m : Node}
    (hm : c.nodeAt? h = some m) :
    c.getValLen (.node h) = Spec.getValLen c.input h ∧ c.strOffset h = Spec.strOffset c.input h := by
  obtain ⟨pos, hd, hpos, hh, hinv, hgood, hhdr, hshape⟩ := nodeAt_spec hc hwf hm
  constructor
  · simp only [Ctx.getValLen, hm, Spec.getValLen, hhdr]
    rw [shape_valueLength hshape]
  · simp only [Ctx.strOffset, hm, Spec.strOffset, hhdr]
    cases hd with
    | scalar v e => rw [inv_scalar_form hinv hh]; cases v <;> rfl
    | arr len body => obtain ⟨es, e, rfl⟩ := inv_arr_form hinv hh; rfl
    | map len body => obtain ⟨ps, e, rfl⟩ := inv_map_form hinv hh; rfl

/-- `input_get`: a new root allocation whose box is the header at offset 0 -/
theorem inputGet_ok {c : Ctx} (hc : CInv c) (hwf : WF c.input) :
    (c.inputGet).2 = Spec.valueAt c.input c.roots.size [] ∧
    CInv (c.inputGet).1 ∧ (c.inputGet).1.input = c.input ∧ (c.inputGet).1.interner = c.interner ∧
    (c.inputGet).1.roots.size = c.roots.size + 1 ∧
    HandlesKept c (c.inputGet).1 ∧ (c.inputGet).2.handleOK (c.inputGet).1 := by
  obtain ⟨e, he⟩ := hwf
  obtain ⟨hd, hh⟩ := skip_some_hdr he
  have hstep : c.inputGet = ({ c with roots := c.roots.push (mkNode hd) },
      Ctx.encodeNode { root := c.roots.size, path := [] } (mkNode hd)) := by
    simp [Ctx.inputGet, hh]
  rw [hstep]
  refine ⟨by simp [Spec.valueAt, specPath, hh], ?_, rfl, rfl, by simp, ?_, ?_⟩
  · intro k r hk
    simp only [Array.getElem?_push] at hk
    by_cases hks : k = c.roots.size
    · rw [if_pos hks] at hk; simp at hk; subst hk; exact fresh_inv hh
    · rw [if_neg hks] at hk; exact hc k r hk
  · intro h2 m2 hm2
    unfold Ctx.nodeAt? at hm2 ⊢
    cases hr : c.roots[h2.root]? with
    | none => rw [hr] at hm2; cases hm2
    | some r =>
      have hlt := roots_lt hr
      simp only [Array.getElem?_push, if_neg (show ¬ h2.root = c.roots.size by omega)]
      exact ⟨m2, hm2, rfl⟩
  · apply encodeNode_handleOK
    simp [Ctx.nodeAt?, Node.getPath?]

end SfVerif
