import SfVerif.Lemmas.Ctx3
/-! The entry points on a valid handle — for arbitrary input bytes. -/
namespace SfVerif
open SfVerif.Gen

theorem fuel_eq (c : Ctx) : c.fuel = eagerFuel c.input := rfl

theorem specPair_some {b : Bytes} {p i kp ko kl ke : Nat} {hd : Hdr} (h : specPair b p i = some (kp, ko, kl, ke, hd)) :
    specKeyPos b p i = some kp ∧ readHdr b kp = some (.scalar (.str ko kl) ke) ∧ readHdr b ke = some hd := by
  simp only [specPair] at h
  cases hs : specKeyPos b p i with
  | none => rw [hs] at h; cases h
  | some kp' =>
    rw [hs] at h; simp only [] at h
    split at h
    · rename_i ko' kl' ke' hk
      cases hv : readHdr b ke' with
      | none => rw [hv] at h; cases h
      | some hd' =>
        rw [hv] at h; simp only [Option.some.injEq, Prod.mk.injEq] at h
        obtain ⟨rfl, rfl, rfl, rfl, rfl⟩ := h
        exact ⟨rfl, hk, hv⟩
    · cases h

/-- no readable pair `i`: the value position is not there or its header does not read -/
theorem specPair_none_val {b : Bytes} {p i : Nat} (h : specPair b p i = none) :
    specChild b p (.val i) = none ∨ ∃ ke, specChild b p (.val i) = some ke ∧ readHdr b ke = none := by
  simp only [specPair] at h
  simp only [specChild]
  cases hs : specKeyPos b p i with
  | none => left; rfl
  | some kp =>
    rw [hs] at h; simp only [] at h ⊢
    split at h
    · rename_i ko kl ke hk
      cases hv : readHdr b ke with
      | none => right; exact ⟨ke, rfl, hv⟩
      | some hd => rw [hv] at h; cases h
    · left; rfl

theorem valueAt_err {b : Bytes} {root : Nat} {path : Path} {pos : Nat} {s : PStep}
    (hpos : specPath b 0 path = some pos)
    (h : specChild b pos s = none ∨ ∃ cp, specChild b pos s = some cp ∧ readHdr b cp = none) :
    Spec.valueAt b root (path ++ [s]) = .err ErrorCode_ReadError := by
  simp only [Spec.valueAt, specPath_append, hpos]
  rcases h with h | ⟨cp, h1, h2⟩
  · simp only [h]
  · simp only [h1, h2]

theorem getAtIndex_node_ok {c : Ctx} (hc : CInv c) {h : Handle} {m : Node}
    (hm : c.nodeAt? h = some m) (i : Nat) :
    (c.getAtIndex (.node h) i).2 = Spec.getAtIndex c.input h i ∧
    ReadStepOK c (c.getAtIndex (.node h) i).1 (c.getAtIndex (.node h) i).2 := by
  obtain ⟨pos, hd, hpos, hh, hinv, hhdr, hshape⟩ := nodeAt_spec hc hm
  cases hd with
  | arr len body =>
    obtain ⟨es, e, rfl⟩ := inv_arr_form hinv hh
    have hdisp : c.getAtIndex (.node h) i =
        c.nodeOp h (fun n => n.getAtIndex c.input (eagerFuel c.input) i) PStep.elem := by
      simp [Ctx.getAtIndex, Ctx.dispatch, hm, Ctx.kindOf, Ctx.idxStep, fuel_eq]
    rw [hdisp]
    by_cases hi : i < len
    · simp only [Spec.getAtIndex, hhdr, if_pos hi]
      rcases getAtIndex_arr_tot hinv hh hi with ⟨cp, hd', m', cn, hsc, hhd', hres, hinv', hchild, hcinv⟩ | ⟨hspec, m', hres, hinv'⟩
      · exact nodeOp_child hc hm rfl (getAtIndex_opOK c.input i) PStep.elem hpos hres hsc hchild hcinv
      · have := nodeOp_flat hc hm rfl (getAtIndex_opOK c.input i) PStep.elem hres (by intro i h; cases h)
        rw [valueAt_err hpos hspec]; exact this
    · have hres := (getAtIndex_oob (i := i) hinv (eagerFuel c.input)).1 body hh (by omega)
      have := nodeOp_flat hc hm rfl (getAtIndex_opOK c.input i) PStep.elem hres (by intro i h; cases h)
      simp only [Spec.getAtIndex, hhdr, if_neg hi]; exact this
  | map len body =>
    obtain ⟨ps, e, rfl⟩ := inv_map_form hinv hh
    have hdisp : c.getAtIndex (.node h) i =
        c.nodeOp h (fun n => n.getAtIndex c.input (eagerFuel c.input) i) PStep.val := by
      simp [Ctx.getAtIndex, Ctx.dispatch, hm, Ctx.kindOf, Ctx.idxStep, fuel_eq]
    rw [hdisp]
    by_cases hi : i < len
    · simp only [Spec.getAtIndex, hhdr, if_pos hi]
      rcases getAtIndex_obj_tot hinv hh hi with ⟨kp, ko, kl, ke, hd', m', cn, hsp, hres, _, hinv', hchild, hcinv, _⟩ | ⟨hsp, m', hres, _, hinv'⟩
      · obtain ⟨h1, h2, h3⟩ := specPair_some hsp
        have hsc : specChild c.input pos (.val i) = some ke := by simp only [specChild, h1, h2]
        exact nodeOp_child hc hm rfl (getAtIndex_opOK c.input i) PStep.val hpos hres hsc hchild hcinv
      · have := nodeOp_flat hc hm rfl (getAtIndex_opOK c.input i) PStep.val hres (by intro i h; cases h)
        rw [valueAt_err hpos (specPair_none_val hsp)]; exact this
    · have hres := ((getAtIndex_oob (i := i) hinv (eagerFuel c.input)).2 body hh (by omega)).1
      have := nodeOp_flat hc hm rfl (getAtIndex_opOK c.input i) PStep.val hres (by intro i h; cases h)
      simp only [Spec.getAtIndex, hhdr, if_neg hi]; exact this
  | scalar v e =>
    have hmv := inv_scalar_form hinv hh
    subst hmv
    have hdisp : c.getAtIndex (.node h) i = (c, .err ErrorCode_NotIndexable) := by
      cases v <;> simp [Ctx.getAtIndex, Ctx.dispatch, hm, Ctx.kindOf]
    rw [hdisp]
    exact ⟨by simp [Spec.getAtIndex, hhdr], ReadStepOK.same hc trivial⟩

theorem getKeyAtIndex_node_ok {c : Ctx} (hc : CInv c) {h : Handle} {m : Node}
    (hm : c.nodeAt? h = some m) (i : Nat) :
    (c.getKeyAtIndex (.node h) i).2 = Spec.getKeyAtIndex c.input h i ∧
    ReadStepOK c (c.getKeyAtIndex (.node h) i).1 (c.getKeyAtIndex (.node h) i).2 := by
  obtain ⟨pos, hd, hpos, hh, hinv, hhdr, hshape⟩ := nodeAt_spec hc hm
  cases hd with
  | arr len body =>
    obtain ⟨es, e, rfl⟩ := inv_arr_form hinv hh
    have hdisp : c.getKeyAtIndex (.node h) i = (c, .err ErrorCode_NotAnObject) := by
      simp [Ctx.getKeyAtIndex, Ctx.dispatch, hm, Ctx.kindOf]
    rw [hdisp]
    exact ⟨by simp [Spec.getKeyAtIndex, hpos, hh], ReadStepOK.same hc trivial⟩
  | map len body =>
    obtain ⟨ps, e, rfl⟩ := inv_map_form hinv hh
    have hdisp : c.getKeyAtIndex (.node h) i =
        c.nodeOp h (fun n => n.getKeyAtIndex c.input (eagerFuel c.input) i) PStep.key := by
      simp [Ctx.getKeyAtIndex, Ctx.dispatch, hm, Ctx.kindOf, fuel_eq]
    rw [hdisp]
    by_cases hi : i < len
    · simp only [Spec.getKeyAtIndex, hpos, hh, if_pos hi]
      rcases getAtIndex_obj_tot hinv hh hi with ⟨kp, ko, kl, ke, hd', m', cn, hsp, _, hres, hinv', _, _, hkchild⟩ | ⟨hsp, m', _, hres, hinv'⟩
      · obtain ⟨h1, h2, h3⟩ := specPair_some hsp
        have hsc : specChild c.input pos (.key i) = some kp := by simp only [specChild, h1]
        simp only [hsp]
        exact nodeOp_child hc hm rfl (getKeyAtIndex_opOK c.input i) PStep.key hpos hres hsc hkchild (Inv.scalar h2)
      · have := nodeOp_flat hc hm rfl (getKeyAtIndex_opOK c.input i) PStep.key hres (by intro i h; cases h)
        simp only [hsp]; exact this
    · have hres := ((getAtIndex_oob (i := i) hinv (eagerFuel c.input)).2 body hh (by omega)).2
      have := nodeOp_flat hc hm rfl (getKeyAtIndex_opOK c.input i) PStep.key hres (by intro i h; cases h)
      simp only [Spec.getKeyAtIndex, hpos, hh, if_neg hi]; exact this
  | scalar v e =>
    have hmv := inv_scalar_form hinv hh
    subst hmv
    have hdisp : c.getKeyAtIndex (.node h) i = (c, .err ErrorCode_NotAnObject) := by
      cases v <;> simp [Ctx.getKeyAtIndex, Ctx.dispatch, hm, Ctx.kindOf]
    rw [hdisp]
    exact ⟨by simp [Spec.getKeyAtIndex, hpos, hh], ReadStepOK.same hc trivial⟩

theorem getObjProp_node_ok {c : Ctx} (hc : CInv c) {h : Handle} {m : Node}
    (hm : c.nodeAt? h = some m) (q : Bytes) :
    (c.getObjProp (.node h) q).2 = Spec.getObjProp c.input h q ∧
    ReadStepOK c (c.getObjProp (.node h) q).1 (c.getObjProp (.node h) q).2 := by
  obtain ⟨pos, hd, hpos, hh, hinv, hhdr, hshape⟩ := nodeAt_spec hc hm
  cases hd with
  | arr len body =>
    obtain ⟨es, e, rfl⟩ := inv_arr_form hinv hh
    have hdisp : c.getObjProp (.node h) q = (c, .err ErrorCode_NotAnObject) := by
      simp [Ctx.getObjProp, Ctx.dispatch, hm, Ctx.kindOf]
    rw [hdisp]
    exact ⟨by simp [Spec.getObjProp, hhdr], ReadStepOK.same hc trivial⟩
  | map len body =>
    obtain ⟨ps, e, rfl⟩ := inv_map_form hinv hh
    have hdisp : c.getObjProp (.node h) q =
        c.nodeOp h (fun n => n.getProp c.input (eagerFuel c.input) q) PStep.val := by
      simp [Ctx.getObjProp, Ctx.dispatch, hm, Ctx.kindOf, fuel_eq]
    rw [hdisp]
    obtain ⟨m', hinv', hcase⟩ := getProp_tot q hinv hh
    rcases hcase with ⟨i, ke, cn, hsp, hi, hres, hsc, hchild, hcinv⟩ | ⟨hsp, hres⟩ | ⟨hsp, hres⟩
    · have := nodeOp_child hc hm rfl (getProp_opOK c.input q) PStep.val hpos hres hsc hchild hcinv
      simp only [Spec.getObjProp, hhdr, hsp]; exact this
    · have := nodeOp_flat hc hm rfl (getProp_opOK c.input q) PStep.val hres (by intro i h; cases h)
      simp only [Spec.getObjProp, hhdr, hsp]; exact this
    · have := nodeOp_flat hc hm rfl (getProp_opOK c.input q) PStep.val hres (by intro i h; cases h)
      simp only [Spec.getObjProp, hhdr, hsp]; exact this
  | scalar v e =>
    have hmv := inv_scalar_form hinv hh
    subst hmv
    have hdisp : c.getObjProp (.node h) q = (c, .err ErrorCode_NotAnObject) := by
      cases v <;> simp [Ctx.getObjProp, Ctx.dispatch, hm, Ctx.kindOf]
    rw [hdisp]
    exact ⟨by simp [Spec.getObjProp, hhdr], ReadStepOK.same hc trivial⟩

theorem shape_valueLength {n n' : Node} (h : n.shape = n'.shape) : n.valueLength = n'.valueLength := by
  cases n with
  | scalar v => cases n' <;> simp [Node.shape] at h; subst h; rfl
  | arr l es e => cases n' <;> simp [Node.shape] at h; subst h; rfl
  | obj l ps e => cases n' <;> simp [Node.shape] at h; subst h; rfl

/-- length and string address are read off the node without touching anything -/
theorem getValLen_node_ok {c : Ctx} (hc : CInv c) {h : Handle} {m : Node}
    (hm : c.nodeAt? h = some m) :
    c.getValLen (.node h) = Spec.getValLen c.input h ∧ c.strOffset h = Spec.strOffset c.input h := by
  obtain ⟨pos, hd, hpos, hh, hinv, hhdr, hshape⟩ := nodeAt_spec hc hm
  constructor
  · simp only [Ctx.getValLen, hm, Spec.getValLen, hhdr]
    rw [shape_valueLength hshape]
  · simp only [Ctx.strOffset, hm, Spec.strOffset, hhdr]
    cases hd with
    | scalar v e => rw [inv_scalar_form hinv hh]; cases v <;> rfl
    | arr len body => obtain ⟨es, e, rfl⟩ := inv_arr_form hinv hh; rfl
    | map len body => obtain ⟨ps, e, rfl⟩ := inv_map_form hinv hh; rfl

/-- `input_get`: when the header at offset 0 reads, a new root allocation whose box is that
    header; otherwise `ReadError` and nothing is allocated -/
theorem inputGet_ok {c : Ctx} (hc : CInv c) :
    (c.inputGet).2 = Spec.valueAt c.input c.roots.size [] ∧
    CInv (c.inputGet).1 ∧ (c.inputGet).1.input = c.input ∧ (c.inputGet).1.interner = c.interner ∧
    (c.inputGet).1.roots.size = (if (readHdr c.input 0).isSome then c.roots.size + 1 else c.roots.size) ∧
    HandlesKept c (c.inputGet).1 ∧ (c.inputGet).2.handleOK (c.inputGet).1 := by
  cases hh : readHdr c.input 0 with
  | none =>
    have hstep : c.inputGet = (c, .err ErrorCode_ReadError) := by simp [Ctx.inputGet, hh]
    rw [hstep]
    exact ⟨by simp [Spec.valueAt, specPath, hh], hc, rfl, rfl, by simp, HandlesKept.refl c, trivial⟩
  | some hd =>
    have hstep : c.inputGet = ({ c with roots := c.roots.push (mkNode hd) },
        Ctx.encodeNode { root := c.roots.size, path := [] } (mkNode hd)) := by
      simp [Ctx.inputGet, hh]
    rw [hstep]
    refine ⟨by simp [Spec.valueAt, specPath, hh], ?_, rfl, rfl, by simp, ?_, ?_⟩
    · intro k r hk
      simp only [Array.getElem?_push] at hk
      by_cases hks : k = c.roots.size
      · rw [if_pos hks] at hk; simp at hk; subst hk; exact fresh_inv hh
      · rw [if_neg hks] at hk; exact hc k r hk
    · intro h2 m2 hm2
      unfold Ctx.nodeAt? at hm2 ⊢
      cases hr : c.roots[h2.root]? with
      | none => rw [hr] at hm2; cases hm2
      | some r =>
        have hlt := roots_lt hr
        simp only [Array.getElem?_push, if_neg (show ¬ h2.root = c.roots.size by omega)]
        exact ⟨m2, hm2, rfl⟩
    · apply encodeNode_handleOK
      simp [Ctx.nodeAt?, Node.getPath?]

end SfVerif
