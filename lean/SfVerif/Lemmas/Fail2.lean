import SfVerif.Lemmas.Fail1
/-! Indexed access, error direction: when the eager walk cannot reach the header of element `i`,
    `get_at_index(i)` answers `ReadError` and leaves a correct partial view. -/
namespace SfVerif
open SfVerif.Gen

/-- finishing the last processed element of an array (what every scanning loop does first) -/
theorem arr_frontier {b : Bytes} {f body len : Nat} (hbody : body ≤ b.size) (hf : b.size - body < f)
    {elems : NodeList} {e : Nat} (hst : ArrSt b body len elems e) :
    (∃ cur elems'', skipN b f elems.length body = some cur ∧ elems''.length = elems.length ∧
        Pre b body elems'' cur ∧
        ((elems = .nil ∧ elems'' = .nil ∧ cur = e) ∨
         (∃ init last last' oe, elems = .snoc init last ∧ Node.finish b f last = (last', .ok oe) ∧
            elems'' = .snoc init last' ∧ oe.getD e = cur))) ∨
    (skipN b f elems.length body = none ∧ ∃ init last last', elems = .snoc init last ∧
        Node.finish b f last = (last', .err) ∧ ArrSt b body len (.snoc init last') e) := by
  rcases hst with ⟨hp, hle0⟩ | ⟨init, last, rfl, hp, hle0, hc, hl⟩
  · left
    have hpf := pre_facts hp
    have hcur := hpf.2.2 f hf
    cases hp with
    | nil => exact ⟨_, .nil, hcur, rfl, Pre.nil, Or.inl ⟨rfl, rfl, rfl⟩⟩
    | @snoc _ init s last _ hinit hdone =>
      have hsf := pre_facts hinit
      have hdf := done_facts hdone
      have hskip : skip b f s = some e := hdf.2.2 f (by omega)
      obtain ⟨last', hfin, hdone'⟩ := finish_done b f s last e (done_inv hdone) hskip
      refine ⟨e, .snoc init last', hcur, by simp [NodeList.length], Pre.snoc hinit hdone', Or.inr ⟨init, last, last', _, rfl, hfin, rfl, ?_⟩⟩
      split <;> rfl
  · have hsf := pre_facts hp
    have hsk : skipN b f (NodeList.snoc init last).length body = skipN b f 1 e := by
      simp only [NodeList.length]; exact pre_skipN hp hf 1
    cases hy : skip b f e with
    | none =>
      right
      obtain ⟨last', hfin, hinv', hc'⟩ := finish_fail b f e last hl (by omega) hy
      refine ⟨by rw [hsk, skipN_none hy], init, last, last', rfl, hfin, Or.inr ⟨init, last', rfl, hp, hle0, by rw [hc']; exact hc, hinv'⟩⟩
    | some z =>
      left
      obtain ⟨last', hfin, hdone'⟩ := finish_done b f e last z hl hy
      refine ⟨z, .snoc init last', by rw [hsk, skipN_some hy, skipN_zero], by simp [NodeList.length],
        Pre.snoc hp hdone', Or.inr ⟨init, last, last', _, rfl, hfin, rfl, ?_⟩⟩
      simp [hc]

/-- one iteration of `get_at_index`'s scanning loop, in full -/
theorem arrStep_total {b : Bytes} {f body len : Nat} (hbody : body ≤ b.size) (hf : b.size - body < f)
    {elems : NodeList} {e : Nat} (hst : ArrSt b body len elems e) (j : Nat) :
    (∃ cur elems'', skipN b f elems.length body = some cur ∧ elems''.length = elems.length ∧
        Pre b body elems'' cur ∧
        arrGetLoop b f len elems e (j+1) =
          (match readHdr b cur with
           | none => (.arr len elems'' cur, .err ErrorCode_ReadError)
           | some h' => arrGetLoop b f len (.snoc elems'' (mkNode h')) (h'.endOr cur) j)) ∨
    (skipN b f elems.length body = none ∧ ∃ elems', arrGetLoop b f len elems e (j+1) = (.arr len elems' e, .err ErrorCode_ReadError) ∧
        ArrSt b body len elems' e) := by
  rcases arr_frontier hbody hf hst with ⟨cur, elems'', h1, h2, h3, h4⟩ | ⟨h1, init, last, last', rfl, hfin, hst'⟩
  · left
    refine ⟨cur, elems'', h1, h2, h3, ?_⟩
    rcases h4 with ⟨rfl, rfl, rfl⟩ | ⟨init, last, last', oe, rfl, hfin, rfl, hoe⟩
    · rw [arrGetLoop]; show (match readHdr b cur with
          | none => ((Node.arr len .nil cur, Got.err ErrorCode_ReadError) : Node × Got)
          | some h => arrGetLoop b f len (.snoc .nil (mkNode h)) (h.endOr cur) j) = _
      cases readHdr b cur <;> rfl
    · rw [arrGetLoop]; simp only [hfin, hoe]; cases readHdr b cur <;> rfl
  · right
    exact ⟨h1, _, by rw [arrGetLoop]; simp only [hfin], hst'⟩

theorem arrGetLoop_fail {b : Bytes} {f body len : Nat} (hbody : body ≤ b.size) (hf : b.size - body < f) :
    ∀ (k : Nat) (elems : NodeList) (e : Nat), ArrSt b body len elems e → elems.length + k + 1 ≤ len →
      (skipN b f (elems.length + k) body = none ∨
        ∃ p, skipN b f (elems.length + k) body = some p ∧ readHdr b p = none) →
      ∃ elems' e', arrGetLoop b f len elems e (k+1) = (.arr len elems' e', .err ErrorCode_ReadError) ∧
        ArrSt b body len elems' e' := by
  intro k
  induction k with
  | zero =>
    intro elems e hst hm hfail
    rcases arrStep_total hbody hf hst 0 with ⟨cur, elems'', h1, h2, h3, h4⟩ | ⟨_, elems', h2, h3⟩
    · rw [Nat.add_zero, h1] at hfail
      rcases hfail with hfail | ⟨p, hp, hh⟩
      · cases hfail
      · simp at hp; subst hp
        rw [h4, hh]
        exact ⟨elems'', cur, rfl, Or.inl ⟨h3, by omega⟩⟩
    · exact ⟨elems', e, h2, h3⟩
  | succ k ih =>
    intro elems e hst hm hfail
    rcases arrStep_total hbody hf hst (k+1) with ⟨cur, elems'', h1, h2, h3, h4⟩ | ⟨_, elems', h2, h3⟩
    · rw [h4]
      cases hh : readHdr b cur with
      | none => exact ⟨elems'', cur, rfl, Or.inl ⟨h3, by omega⟩⟩
      | some h' =>
        simp only []
        have hst' := arrSt_push (len := len) h3 (by omega) hh
        have hlen' : (NodeList.snoc elems'' (mkNode h')).length = elems.length + 1 := by simp [NodeList.length, h2]
        exact ih (.snoc elems'' (mkNode h')) (h'.endOr cur) hst' (by rw [hlen']; omega)
          (by rw [hlen', show elems.length + 1 + k = elems.length + (k + 1) by omega]; exact hfail)
    · exact ⟨elems', e, h2, h3⟩

/-- **`get_at_index(i)` on an array, error direction** -/
theorem arrGet_fail {b : Bytes} {f pos len body : Nat} (hh : readHdr b pos = some (.arr len body))
    (hf : b.size - body < f) {elems : NodeList} {e : Nat} (hinv : Inv b pos (.arr len elems e))
    {i : Nat} (hi : i < len)
    (hfail : skipN b f i body = none ∨ ∃ p, skipN b f i body = some p ∧ readHdr b p = none) :
    ∃ elems' e', arrGet b f len elems e i = (.arr len elems' e', .err ErrorCode_ReadError) ∧
      Inv b pos (.arr len elems' e') := by
  have hbody := (readHdr_arr_gt hh).2.1
  have hst := inv_arrSt hh hinv
  unfold arrGet
  rw [if_neg (by omega)]
  by_cases hfast : i < elems.length
  · -- already parsed: the eager walk reaches it and its header reads, so `hfail` is impossible
    exfalso
    have hreach : ∃ p hd, skipN b f i body = some p ∧ readHdr b p = some hd := by
      rcases hst with ⟨hpre, _⟩ | ⟨init, last, rfl, hpre, _, _, hl⟩
      · obtain ⟨c, p', e', _, hd, _, hsk⟩ := pre_get hpre i hfast
        obtain ⟨hd', hhd'⟩ := inv_hdr (done_inv hd)
        exact ⟨p', hd', hsk f hf, hhd'⟩
      · by_cases hlt : i < init.length
        · obtain ⟨c, p', e', _, hd, _, hsk⟩ := pre_get hpre i hlt
          obtain ⟨hd', hhd'⟩ := inv_hdr (done_inv hd)
          exact ⟨p', hd', hsk f hf, hhd'⟩
        · have hieq : i = init.length := by simp [NodeList.length] at hfast; omega
          subst hieq
          obtain ⟨hd', hhd'⟩ := inv_hdr hl
          exact ⟨e, hd', (pre_facts hpre).2.2 f hf, hhd'⟩
    obtain ⟨p, hd, hp, hhd⟩ := hreach
    rcases hfail with hfail | ⟨p', hp', hh'⟩
    · rw [hp] at hfail; cases hfail
    · rw [hp] at hp'; simp at hp'; subst hp'; rw [hhd] at hh'; cases hh'
  · rw [if_neg hfast]
    have hk : i + 1 - elems.length = (i - elems.length) + 1 := by omega
    rw [hk]
    obtain ⟨elems', e', hres, hst'⟩ := arrGetLoop_fail hbody hf (i - elems.length) elems e hst (by omega)
      (by rw [show elems.length + (i - elems.length) = i by omega]; exact hfail)
    exact ⟨elems', e', hres, arrSt_inv hh hst'⟩

end SfVerif
