import SfVerif.Lemmas.DocLink7
import SfVerif.Lemmas.NotNaN
import SfVerif.Spec.TypedDoc
/-! Typed deserialisation through the provider calls (`deTy`, api/src/read.rs over the lazy
    reader) equals typed deserialisation of the decoded document (`deDoc`). Helpers. -/
namespace SfVerif
open SfVerif.Gen

/-- documents that are handed out as handles -/
def Doc.isRef : Doc → Bool
  | .str _ => true
  | .arr _ => true
  | .map _ => true
  | _ => false

/-- every integer in the document is far below the double exponent range (true of everything a
    MessagePack integer can hold) -/
def IntsOK (d : Doc) : Prop := ∀ path z, d.getPath? path = some (.int z) → z.natAbs < 2 ^ 1023

/-- `rv` is the box of the sub-document `dc` of `d`, through a handle valid in `c` -/
def Boxed (c : Ctx) (d : Doc) (rv : RVal) (dc : Doc) : Prop :=
  ∃ h : Handle, rv = dc.box h ∧ d.getPath? h.path = some dc ∧ (dc.isRef = true → (c.nodeAt? h).isSome = true)

theorem handleOK_ref {c : Ctx} {dc : Doc} {h : Handle} (hr : dc.isRef = true) (hok : (dc.box h).handleOK c) :
    (c.nodeAt? h).isSome = true := by
  cases dc <;> simp [Doc.isRef] at hr <;> simpa [Doc.box, RVal.handleOK] using hok

theorem Boxed.kept {c c' : Ctx} {d : Doc} {rv : RVal} {dc : Doc} (h : Boxed c d rv dc) (hk : HandlesKept c c') :
    Boxed c' d rv dc := by
  obtain ⟨hh, h1, h2, h3⟩ := h
  exact ⟨hh, h1, h2, fun hr => kept_isSome hk (h3 hr)⟩

/-- the bytes behind a string handle are the decoded string -/
theorem stringAt_doc {c : Ctx} {d : Doc} (hc : CInv c) (hd : Decodes c.input d) {h : Handle} {bs : Bytes}
    (hs : (c.nodeAt? h).isSome = true) (hp : d.getPath? h.path = some (.str bs)) : c.stringAt h = some bs := by
  obtain ⟨m, hm⟩ := Option.isSome_iff_exists.mp hs
  obtain ⟨pos, hdr, hpos, hh, hinv, _, _⟩ := nodeAt_spec hc hm
  obtain ⟨p, f, e, hdr', hp', _, _, _, hrd, hdoc⟩ := doc_at hd hp
  rw [hpos] at hp'; simp only [Option.some.injEq] at hp'; subst hp'
  rw [hh] at hrd; simp only [Option.some.injEq] at hrd; subst hrd
  cases hdr with
  | scalar v ee =>
    cases v with
    | str off len =>
      simp only [HdrDoc] at hdoc
      have := inv_scalar_form hinv hh
      subst this
      simp only [Ctx.stringAt, hm, hdoc.1]
    | null => simp [HdrDoc] at hdoc
    | bool x => simp [HdrDoc] at hdoc
    | num x => simp [HdrDoc, Doc.numBits?] at hdoc
  | arr l bd => simp [HdrDoc] at hdoc
  | map l bd => simp [HdrDoc] at hdoc

/-- one `get_at_index` on the handle of a decoded array -/
theorem getAtIndex_boxed_arr {c : Ctx} {d : Doc} (hc : CInv c) (hd : Decodes c.input d) {h : Handle}
    {xs : List Doc} (hs : (c.nodeAt? h).isSome = true) (hp : d.getPath? h.path = some (.arr xs))
    {i : Nat} {x : Doc} (hx : xs[i]? = some x) :
    ∃ c1 rv, c.getAtIndex (.node h) i = (c1, rv) ∧ CInv c1 ∧ c1.input = c.input ∧ HandlesKept c c1 ∧
      Boxed c1 d rv x := by
  obtain ⟨m, hm⟩ := Option.isSome_iff_exists.mp hs
  obtain ⟨h1, h2⟩ := getAtIndex_node_ok hc hm i
  refine ⟨(c.getAtIndex (.node h) i).1, (c.getAtIndex (.node h) i).2, rfl, h2.inv, h2.input, h2.kept,
    ⟨{ root := h.root, path := h.path ++ [.elem i] }, ?_, ?_, ?_⟩⟩
  · rw [h1, getAtIndex_doc hd hp i]; simp only [DocSpec.getAtIndex, hx]
  · rw [Doc.getPath?_append, hp]; simp [Doc.child?, hx]
  · intro hr
    have hok := h2.handle
    rw [h1, getAtIndex_doc hd hp i] at hok
    simp only [DocSpec.getAtIndex, hx] at hok
    exact handleOK_ref hr hok

/-- one `get_at_index` / `get_obj_key_at_index` on the handle of a decoded map -/
theorem getAtIndex_boxed_map {c : Ctx} {d : Doc} (hc : CInv c) (hd : Decodes c.input d) {h : Handle}
    {ps : List (Doc × Doc)} (hs : (c.nodeAt? h).isSome = true) (hp : d.getPath? h.path = some (.map ps))
    {i : Nat} {kd vd : Doc} (hx : ps[i]? = some (kd, vd)) :
    (∃ c1 rv, c.getAtIndex (.node h) i = (c1, rv) ∧ CInv c1 ∧ c1.input = c.input ∧ HandlesKept c c1 ∧
      Boxed c1 d rv vd) ∧
    (∃ c1 rv, c.getKeyAtIndex (.node h) i = (c1, rv) ∧ CInv c1 ∧ c1.input = c.input ∧ HandlesKept c c1 ∧
      Boxed c1 d rv kd) := by
  obtain ⟨m, hm⟩ := Option.isSome_iff_exists.mp hs
  constructor
  · obtain ⟨h1, h2⟩ := getAtIndex_node_ok hc hm i
    refine ⟨(c.getAtIndex (.node h) i).1, (c.getAtIndex (.node h) i).2, rfl, h2.inv, h2.input, h2.kept,
      ⟨{ root := h.root, path := h.path ++ [.val i] }, ?_, ?_, ?_⟩⟩
    · rw [h1, getAtIndex_doc hd hp i]; simp only [DocSpec.getAtIndex, hx]
    · rw [Doc.getPath?_append, hp]; simp [Doc.child?, hx]
    · intro hr
      have hok := h2.handle
      rw [h1, getAtIndex_doc hd hp i] at hok
      simp only [DocSpec.getAtIndex, hx] at hok
      exact handleOK_ref hr hok
  · obtain ⟨h1, h2⟩ := getKeyAtIndex_node_ok hc hm i
    refine ⟨(c.getKeyAtIndex (.node h) i).1, (c.getKeyAtIndex (.node h) i).2, rfl, h2.inv, h2.input, h2.kept,
      ⟨{ root := h.root, path := h.path ++ [.key i] }, ?_, ?_, ?_⟩⟩
    · rw [h1, getKeyAtIndex_doc hd hp i]; simp only [DocSpec.getKeyAtIndex, hx]
    · rw [Doc.getPath?_append, hp]; simp [Doc.child?, hx]
    · intro hr
      have hok := h2.handle
      rw [h1, getKeyAtIndex_doc hd hp i] at hok
      simp only [DocSpec.getKeyAtIndex, hx] at hok
      exact handleOK_ref hr hok

end SfVerif
