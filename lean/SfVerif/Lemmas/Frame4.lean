import SfVerif.Lemmas.Frame2
/-! The split form of a log call — the provider hands out a copy plan (`logreq n`), the guest (or the
    trampoline) then copies an `n`-byte message along it (`logcopy n seed`) — leaves a thread in
    exactly the state the one-call form `log n seed` leaves it in. With it the thread-level C05
    theorem covers histories in which log calls arrive in either form. -/
namespace SfVerif
open SfVerif.Gen

theorem msgBytes_size (len seed : Nat) : (msgBytes len seed).size = len := by
  simp [msgBytes]

/-- every plan accounts for the whole message: skipped bytes + two segments = its length -/
theorem Logs.append_plan_total (cap : Nat) (l : Logs) (n : Nat) :
    (Logs.append cap l n).2.src + (Logs.append cap l n).2.len1 + (Logs.append cap l n).2.len2 = n := by
  unfold Logs.append
  simp only []
  split <;> split <;> simp only [] <;> omega

namespace Thread

/-- **request then copy = one call**: the state after `logreq n; logcopy n seed` is the state after
    `log n seed`, from any thread state whatever. -/
theorem split_pair_state (w : Nat) (t : Thread) (n seed : Nat) :
    (((t.step w (.logreq n)).1).step w (.logcopy n seed)).1 = (t.step w (.log n seed)).1 := by
  have htot := Logs.append_plan_total LOG_CAPACITY t.ctx.logs n
  simp only [step]
  rw [if_neg (by omega)]

end Thread

/-- fuse every adjacent `logreq n; logcopy n seed` into `log n seed` -/
def fuseLogs : List Op → List Op
  | .logreq n :: .logcopy m seed :: rest =>
    if n = m then .log n seed :: fuseLogs rest else .logreq n :: fuseLogs (.logcopy m seed :: rest)
  | op :: rest => op :: fuseLogs rest
  | [] => []

/-- fusing does not change the state a history ends in -/
theorem Thread.run_fuse (w : Nat) : ∀ (ops : List Op) (t : Thread),
    (Thread.run w t (fuseLogs ops)).1 = (Thread.run w t ops).1 := by
  intro ops
  induction ops using fuseLogs.induct with
  | case1 n seed rest ih =>
    intro t
    simp only [fuseLogs, if_true, Thread.run]
    rw [ih, ← Thread.split_pair_state]
  | case2 n m seed rest hne ih =>
    intro t
    rw [fuseLogs, if_neg hne]
    show (Thread.run w (t.step w (.logreq n)).1 (fuseLogs (.logcopy m seed :: rest))).1 =
      (Thread.run w (t.step w (.logreq n)).1 (.logcopy m seed :: rest)).1
    exact ih _
  | case3 op rest hno ih =>
    intro t
    rw [fuseLogs]
    · simp only [Thread.run]; exact ih _
    · intro n m seed rest' h
      exact hno n m seed rest' (by cases h; rfl)
  | case4 => intro t; rfl

end SfVerif
