import SfVerif.Lemmas.Codec4
import SfVerif.Lemmas.Write2
/-! Every encoded value is at least one byte per nesting level, so the decoder's fuel
    (`size + 1`) always exceeds the depth of the tree that was written. -/
namespace SfVerif

theorem encNil_pos : 1 ≤ encNil.length := by simp [encNil]
theorem encBool_pos (b : Bool) : 1 ≤ (encBool b).length := by simp [encBool]
theorem encF64_pos (b : Nat) : 1 ≤ (encF64 b).length := by simp [encF64]
theorem encSint_pos (z : Int) : 1 ≤ (encSint z).length := by
  unfold encSint
  split
  · simp only []; repeat' split
    all_goals simp
  · simp only []; repeat' split
    all_goals simp
theorem encStrLen_pos (n : Nat) : 1 ≤ (encStrLen n).length := by
  unfold encStrLen; simp only []; repeat' split
  all_goals simp
theorem encArrLen_pos (n : Nat) : 1 ≤ (encArrLen n).length := by
  unfold encArrLen; simp only []; repeat' split
  all_goals simp
theorem encMapLen_pos (n : Nat) : 1 ≤ (encMapLen n).length := by
  unfold encMapLen; simp only []; repeat' split
  all_goals simp
theorem encStr_pos (bs : Bytes) : 1 ≤ (encStr bs).length := by
  have := encStrLen_pos bs.size
  simp [encStr]; omega

mutual
theorem depth_lt_enc : ∀ v : TVal, v.depth ≤ v.enc.length
  | .unit => by simp [TVal.depth]
  | .none => by simp [TVal.depth]
  | .bool b => by simp [TVal.depth]
  | .int z => by simp [TVal.depth]
  | .f64 x => by simp [TVal.depth]
  | .str bs => by simp [TVal.depth]
  | .chr bs => by simp [TVal.depth]
  | .some v => by simpa [TVal.depth, TVal.enc] using depth_lt_enc v
  | .seq vs => by
    have := depthList_le_enc vs; have := encArrLen_pos vs.length
    simp [TVal.depth, TVal.enc]; omega
  | .tup vs => by
    have := depthList_le_enc vs; have := encArrLen_pos vs.length
    simp [TVal.depth, TVal.enc]; omega
  | .map ps => by
    have := depthPairs_le_enc ps; have := encMapLen_pos ps.length
    simp [TVal.depth, TVal.enc]; omega
theorem depthList_le_enc : ∀ vs : List TVal, TVal.depthList vs ≤ (TVal.encList vs).length
  | [] => by simp [TVal.depthList, TVal.encList]
  | v :: vs => by
    have := depth_lt_enc v; have := depthList_le_enc vs
    simp [TVal.depthList, TVal.encList]; omega
theorem depthPairs_le_enc : ∀ ps : List (Bytes × TVal), TVal.depthPairs ps ≤ (TVal.encPairs ps).length
  | [] => by simp [TVal.depthPairs, TVal.encPairs]
  | (k, v) :: ps => by
    have := depth_lt_enc v; have := depthPairs_le_enc ps
    simp [TVal.depthPairs, TVal.encPairs]; omega
end

/-- the eager decoder reads a canonical encoding back to the tree it encodes, consuming all of it -/
theorem decodeAll_enc (v : TVal) (h : wfV v = true) : decodeAll v.enc.toArray = some v.doc := by
  unfold decodeAll
  have hd := depth_lt_enc v
  have := decOK v [] [] (v.enc.toArray.size + 1) h (by simp; omega)
  simp only [List.nil_append, List.append_nil, List.length_nil, Nat.zero_add] at this
  rw [this]
  simp

end SfVerif
