import SfVerif.Model.Proto
import SfVerif.Lemmas.DeShape
/-! Frame: the read entry points and typed deserialisation change nothing of a context but the
    lazily built view of the input (`roots`). -/
namespace SfVerif
open SfVerif.Gen

/-- `c'` differs from `c` at most in `roots` -/
def Ctx.Keeps (c c' : Ctx) : Prop :=
  c'.input = c.input ∧ c'.writer = c.writer ∧ c'.logs = c.logs ∧ c'.interner = c.interner

namespace Ctx

theorem Keeps.refl (c : Ctx) : c.Keeps c := ⟨rfl, rfl, rfl, rfl⟩

theorem Keeps.trans {a b c : Ctx} (h1 : a.Keeps b) (h2 : b.Keeps c) : a.Keeps c :=
  ⟨h2.1.trans h1.1, h2.2.1.trans h1.2.1, h2.2.2.1.trans h1.2.2.1, h2.2.2.2.trans h1.2.2.2⟩

theorem keeps_roots (c : Ctx) (r : Array Node) : c.Keeps { c with roots := r } := ⟨rfl, rfl, rfl, rfl⟩

theorem nodeOp_keeps (c : Ctx) (h : Handle) (g : Node → Node × Got) (cs : Nat → PStep) :
    c.Keeps (c.nodeOp h g cs).1 := by
  unfold nodeOp
  split
  · exact Keeps.refl c
  · split
    · exact Keeps.refl c
    · split
      · exact keeps_roots _ _
      · exact keeps_roots _ _
      · simp only []; split <;> exact keeps_roots _ _

theorem dispatch_keeps (c : Ctx) (s : Scope) (a : Bool) (e1 e2 : Nat) (op : Handle → Ctx × RVal)
    (hop : ∀ h, c.Keeps (op h).1) : c.Keeps (c.dispatch s a e1 e2 op).1 := by
  unfold dispatch
  split
  · split
    · exact Keeps.refl c
    · split
      · exact hop _
      · split
        · exact hop _
        · exact Keeps.refl c
      · exact Keeps.refl c
  · exact Keeps.refl c
  · split <;> exact Keeps.refl c
  · exact Keeps.refl c
  · exact Keeps.refl c

theorem getAtIndex_keeps (c : Ctx) (s : Scope) (i : Nat) : c.Keeps (c.getAtIndex s i).1 :=
  dispatch_keeps _ _ _ _ _ _ (fun _ => nodeOp_keeps _ _ _ _)

theorem getKeyAtIndex_keeps (c : Ctx) (s : Scope) (i : Nat) : c.Keeps (c.getKeyAtIndex s i).1 :=
  dispatch_keeps _ _ _ _ _ _ (fun _ => nodeOp_keeps _ _ _ _)

theorem getObjProp_keeps (c : Ctx) (s : Scope) (q : Bytes) : c.Keeps (c.getObjProp s q).1 :=
  dispatch_keeps _ _ _ _ _ _ (fun _ => nodeOp_keeps _ _ _ _)

theorem inputGet_keeps (c : Ctx) : c.Keeps c.inputGet.1 := by
  unfold inputGet
  split
  · exact Keeps.refl c
  · exact keeps_roots _ _

theorem getInternedObjProp_keeps (c : Ctx) (s : Scope) (id : Nat) (r : Ctx × RVal)
    (h : c.getInternedObjProp s id = some r) : c.Keeps r.1 := by
  unfold getInternedObjProp at h
  split at h
  · split at h
    · split at h
      · cases h
      · cases h; exact getObjProp_keeps _ _ _
    · cases h; exact getObjProp_keeps _ _ _
  · split at h
    · cases h
    · cases h; exact getObjProp_keeps _ _ _
  · cases h; exact getObjProp_keeps _ _ _

end Ctx

def DeKeeps (t : Ty) : Prop := ∀ (c : Ctx) (v : RVal), c.Keeps (deTy c t v).1

theorem deElems_keeps {t : Ty} (IH : DeKeeps t) (v : RVal) :
    ∀ (k i : Nat) (c : Ctx), c.Keeps (deElems c t v i k).1 := by
  intro k
  induction k with
  | zero => intro i c; rw [deElems]; exact Ctx.Keeps.refl c
  | succ k ih =>
    intro i c
    rw [deElems]
    have h1 := Ctx.getAtIndex_keeps c v.toScope i
    generalize c.getAtIndex v.toScope i = r1 at h1
    obtain ⟨c1, child⟩ := r1
    simp only [] at h1 ⊢
    have h2 := IH c1 child
    generalize deTy c1 t child = r2 at h2
    obtain ⟨c2, o⟩ := r2
    cases o with
    | none => exact h1.trans h2
    | some x =>
      simp only [] at h2 ⊢
      have h3 := ih (i + 1) c2
      generalize deElems c2 t v (i + 1) k = r3 at h3
      obtain ⟨c3, o3⟩ := r3
      cases o3 <;> exact (h1.trans h2).trans h3

theorem deTuple_keeps (v : RVal) :
    ∀ (ts : List Ty), (∀ t ∈ ts, DeKeeps t) → ∀ (i : Nat) (c : Ctx), c.Keeps (deTuple c ts v i).1 := by
  intro ts
  induction ts with
  | nil => intro _ i c; rw [deTuple]; exact Ctx.Keeps.refl c
  | cons t ts ih =>
    intro IH i c
    rw [deTuple]
    have h1 := Ctx.getAtIndex_keeps c v.toScope i
    generalize c.getAtIndex v.toScope i = r1 at h1
    obtain ⟨c1, child⟩ := r1
    simp only [] at h1 ⊢
    have h2 := IH t List.mem_cons_self c1 child
    generalize deTy c1 t child = r2 at h2
    obtain ⟨c2, o⟩ := r2
    cases o with
    | none => exact h1.trans h2
    | some x =>
      simp only [] at h2 ⊢
      have h3 := ih (fun t' ht' => IH t' (List.mem_cons_of_mem _ ht')) (i + 1) c2
      generalize deTuple c2 ts v (i + 1) = r3 at h3
      obtain ⟨c3, o3⟩ := r3
      cases o3 <;> exact (h1.trans h2).trans h3

theorem dePairs_keeps {t : Ty} (IH : DeKeeps t) (v : RVal) :
    ∀ (k i : Nat) (c : Ctx), c.Keeps (dePairs c t v i k).1 := by
  intro k
  induction k with
  | zero => intro i c; rw [dePairs]; exact Ctx.Keeps.refl c
  | succ k ih =>
    intro i c
    rw [dePairs]
    have h0 := Ctx.getKeyAtIndex_keeps c v.toScope i
    generalize c.getKeyAtIndex v.toScope i = r0 at h0
    obtain ⟨c1, kv⟩ := r0
    simp only [] at h0 ⊢
    split
    · exact h0
    · have h1 := Ctx.getAtIndex_keeps c1 v.toScope i
      generalize c1.getAtIndex v.toScope i = r1 at h1
      obtain ⟨c2, child⟩ := r1
      simp only [] at h1 ⊢
      have h2 := IH c2 child
      generalize deTy c2 t child = r2 at h2
      obtain ⟨c3, o⟩ := r2
      cases o with
      | none => exact (h0.trans h1).trans h2
      | some x =>
        simp only [] at h2 ⊢
        have h3 := ih (i + 1) c3
        generalize dePairs c3 t v (i + 1) k = r3 at h3
        obtain ⟨c4, o3⟩ := r3
        cases o3 <;> exact ((h0.trans h1).trans h2).trans h3

theorem deTy_keeps_aux : ∀ (n : Nat) (t : Ty), sizeOf t ≤ n → DeKeeps t := by
  intro n
  induction n with
  | zero => intro t h; cases t <;> simp at h
  | succ n ih =>
    intro t hsz c v
    cases t with
    | unit => rw [deTy_unit]; exact Ctx.Keeps.refl c
    | bool => rw [deTy_bool]; exact Ctx.Keeps.refl c
    | f64 => rw [deTy_f64]; exact Ctx.Keeps.refl c
    | str => rw [deTy_str]; exact Ctx.Keeps.refl c
    | char => rw [deTy_char]; exact Ctx.Keeps.refl c
    | int lo hi => rw [deTy_int]; exact Ctx.Keeps.refl c
    | opt t =>
      have IH : DeKeeps t := ih t (by simp at hsz; omega)
      by_cases hv : v = .null
      · subst hv; rw [deTy_opt_null]; exact Ctx.Keeps.refl c
      · rw [deTy_opt c t v hv]
        have hh := IH c v
        generalize deTy c t v = r at hh ⊢
        obtain ⟨c', o⟩ := r
        cases o <;> exact hh
    | vec t =>
      have IH : DeKeeps t := ih t (by simp at hsz; omega)
      cases v with
      | arr h len =>
        rw [deTy_vec_arr]
        have hh := deElems_keeps IH (.arr h len) len 0 c
        generalize deElems c t (.arr h len) 0 len = r at hh ⊢
        obtain ⟨c', o⟩ := r
        cases o <;> exact hh
      | _ => rw [deTy_vec_other _ _ _ (by intro hh l; simp)]; exact Ctx.Keeps.refl c
    | arrN m t =>
      have IH : DeKeeps t := ih t (by simp at hsz; omega)
      cases v with
      | arr h len =>
        rw [deTy_arrN_arr]
        split
        · exact Ctx.Keeps.refl c
        · have hh := deElems_keeps IH (.arr h len) len 0 c
          generalize deElems c t (.arr h len) 0 len = r at hh ⊢
          obtain ⟨c', o⟩ := r
          cases o <;> exact hh
      | _ => rw [deTy_arrN_other _ _ _ _ (by intro hh l; simp)]; exact Ctx.Keeps.refl c
    | tup ts =>
      have IH : ∀ t ∈ ts, DeKeeps t := fun t ht => ih t (by have := List.sizeOf_lt_of_mem ht; simp at hsz; omega)
      cases v with
      | arr h len =>
        rw [deTy_tup_arr]
        split
        · exact Ctx.Keeps.refl c
        · have hh := deTuple_keeps (.arr h len) ts IH 0 c
          generalize deTuple c ts (.arr h len) 0 = r at hh ⊢
          obtain ⟨c', o⟩ := r
          cases o <;> exact hh
      | _ => rw [deTy_tup_other _ _ _ (by intro hh l; simp)]; exact Ctx.Keeps.refl c
    | map t =>
      have IH : DeKeeps t := ih t (by simp at hsz; omega)
      cases v with
      | obj h len =>
        rw [deTy_map_obj]
        have hh := dePairs_keeps IH (.obj h len) len 0 c
        generalize dePairs c t (.obj h len) 0 len = r at hh ⊢
        obtain ⟨c', o⟩ := r
        cases o <;> exact hh
      | _ => rw [deTy_map_other _ _ _ (by intro hh l; simp)]; exact Ctx.Keeps.refl c

theorem deTy_keeps (t : Ty) : DeKeeps t := deTy_keeps_aux (sizeOf t) t (Nat.le_refl _)

theorem deRoot_keeps (c : Ctx) (ty : Ty) : c.Keeps (deRoot c ty).1 := by
  unfold deRoot
  have h1 := Ctx.inputGet_keeps c
  generalize c.inputGet = r1 at h1
  obtain ⟨c1, v⟩ := r1
  simp only [] at h1 ⊢
  have h2 := deTy_keeps ty c1 v
  generalize deTy c1 ty v = r2 at h2
  obtain ⟨c2, o⟩ := r2
  cases o <;> exact h1.trans h2

end SfVerif
