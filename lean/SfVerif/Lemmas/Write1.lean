import SfVerif.Spec.Enc
import SfVerif.Lemmas.Blit
import SfVerif.Lemmas.Codes
/-! Running the write calls of a value tree on a writer that expects a value appends exactly the
    tree's canonical encoding, succeeds throughout, and advances the position by one value. -/
namespace SfVerif
open SfVerif.Gen

/-- the writer expects a value here (root not yet written, a value slot of an object, or a free
    slot of an array) -/
def GoodPos : WState → Prop
  | .start => True
  | .obj l n => n % 2 = 1 ∧ n / 2 < l
  | .arr l n => n < l
  | .done => False

/-- the position after one value has been written -/
def adv : WState → WState
  | .start => .done
  | .obj l n => .obj l (n + 1)
  | .arr l n => .arr l (n + 1)
  | .done => .done

theorem nonString_ok {st : WState} (h : GoodPos st) : st.writeNonStringScalar = (adv st, WriteResult_Ok) := by
  cases st with
  | start => rfl
  | obj l n =>
    obtain ⟨h1, _⟩ := h
    simp [WState.writeNonStringScalar, WState.objWriteNonString, adv, h1]
  | arr l n =>
    have : ¬ (n ≥ l) := by simp [GoodPos] at h; omega
    simp [WState.writeNonStringScalar, WState.arrWriteValue, adv, this]
  | done => exact absurd h (by simp [GoodPos])

theorem string_ok {st : WState} (h : GoodPos st) : st.writeString = (adv st, WriteResult_Ok) := by
  cases st with
  | start => rfl
  | obj l n =>
    obtain ⟨_, h2⟩ := h
    have : ¬ (n / 2 ≥ l) := by omega
    simp [WState.writeString, WState.objWriteString, adv, this]
  | arr l n =>
    have : ¬ (n ≥ l) := by simp [GoodPos] at h; omega
    simp [WState.writeString, WState.arrWriteValue, adv, this]
  | done => exact absurd h (by simp [GoodPos])

/-- a key slot: an even count with room for another pair -/
theorem key_ok {l n : Nat} (h1 : n % 2 = 0) (h2 : n / 2 < l) :
    (WState.obj l n).writeString = (.obj l (n + 1), WriteResult_Ok) := by
  have : ¬ (n / 2 ≥ l) := by omega
  simp [WState.writeString, WState.objWriteString, this]

/-- the parent stack after opening a container from position `st` -/
def pushed (st : WState) (stack : List WState) : List WState :=
  match st with
  | .start => stack
  | st => adv st :: stack

theorem startContainer_ok {st : WState} (h : GoodPos st) (new : WState) (stack : List WState) :
    WState.startContainer new st stack = (new, pushed st stack, WriteResult_Ok) := by
  cases st with
  | start => rfl
  | obj l n =>
    obtain ⟨h1, _⟩ := h
    simp [WState.startContainer, WState.objWriteNonString, adv, h1, pushed]
  | arr l n =>
    have : ¬ (n ≥ l) := by simp [GoodPos] at h; omega
    simp [WState.startContainer, WState.arrWriteValue, adv, this, pushed]
  | done => exact absurd h (by simp [GoodPos])

/-- a whole string write (provider half + the caller's copy) appends the header and the bytes -/
theorem writeStr_out (w : Writer) (bs : Bytes) (st' : WState) (h : w.st.writeString = (st', WriteResult_Ok)) :
    w.writeStr bs = ({ out := w.out ++ (encStr bs).toArray, st := st', stack := w.stack }, WriteResult_Ok) := by
  unfold Writer.writeStr Writer.step
  simp only [h, wr_ok, ne_eq, not_true_eq_false, if_false, Writer.appendBytes, Writer.copyAt]
  congr 1
  have := blitAt_append_replicate (w.out ++ (encStrLen bs.size).toArray) bs
  simp only [Writer.mk.injEq, and_true]
  rw [this]
  simp only [encStr, Array.append_assoc]
  congr 1
  apply Array.ext'
  simp

end SfVerif
