import SfVerif.Lemmas.Lazy1
/-! `finish_processing` on any correct partial view yields the complete view, ending exactly
    where the eager walk ends; when the eager walk fails it reports an error and leaves a correct
    partial view behind. -/
namespace SfVerif

/-- the statement of `finish_done` at one fuel level -/
def FinishOK (b : Bytes) (f : Nat) : Prop :=
  ∀ pos n e, Inv b pos n → skip b f pos = some e →
    ∃ n', Node.finish b f n = (n', .ok (if n.isComposite then some e else none)) ∧ Done b pos n' e

theorem arrFinLoop_zero (b : Bytes) (f len : Nat) (elems : NodeList) (e : Nat) :
    arrFinLoop b f len elems e 0 = (.arr len elems e, .ok (some e)) := by rw [arrFinLoop]

theorem objFinLoop_zero (b : Bytes) (f len : Nat) (pairs : PairList) (e : Nat) :
    objFinLoop b f len pairs e 0 = (.obj len pairs e, .ok (some e)) := by rw [objFinLoop]

/-- finishing a freshly made node for a header whose value the eager walk can skip -/
theorem finish_fresh {b : Bytes} {f : Nat} (IH : FinishOK b f) {s y : Nat} {h : Hdr}
    (hh : readHdr b s = some h) (hy : skip b f s = some y) :
    ∃ n' oe, Node.finish b f (mkNode h) = (n', .ok oe) ∧ oe.getD (h.endOr s) = y ∧ Done b s n' y := by
  cases f with
  | zero => simp [skip] at hy
  | succ f =>
    cases h with
    | scalar v x =>
      have hyx : y = x := by rw [skip_scalar hh] at hy; simp at hy; exact hy.symm
      subst hyx
      obtain ⟨n', hfin, hdone⟩ := IH s (.scalar v) y (Inv.scalar hh) hy
      exact ⟨n', none, by simpa [mkNode, Node.isComposite] using hfin, by simp [Hdr.endOr], hdone⟩
    | arr l body =>
      obtain ⟨n', hfin, hdone⟩ := IH s (.arr l .nil body) y
        (Inv.arrClosed hh (by simp [NodeList.length]) Pre.nil) hy
      exact ⟨n', some y, by simpa [mkNode, Node.isComposite] using hfin, by simp, hdone⟩
    | map l body =>
      obtain ⟨n', hfin, hdone⟩ := IH s (.obj l .nil body) y
        (Inv.objClosed hh (by simp [PairList.length]) PreP.nil) hy
      exact ⟨n', some y, by simpa [mkNode, Node.isComposite] using hfin, by simp, hdone⟩

theorem arrLoop_done {b : Bytes} {f : Nat} (IH : FinishOK b f) :
    ∀ k len elems p0 s e, Pre b p0 elems s → skipN b f k s = some e →
      ∃ elems', arrFinLoop b f len elems s k = (.arr len elems' e, .ok (some e)) ∧ Pre b p0 elems' e
        ∧ elems'.length = elems.length + k := by
  intro k
  induction k with
  | zero =>
    intro len elems p0 s e hpre hs
    rw [skipN_zero] at hs; simp at hs; subst hs
    exact ⟨elems, arrFinLoop_zero .., hpre, rfl⟩
  | succ k ih =>
    intro len elems p0 s e hpre hs
    obtain ⟨y, hy, hrest⟩ := skipN_succ_inv hs
    cases hh : readHdr b s with
    | none =>
      cases f with
      | zero => simp [skip] at hy
      | succ f => rw [skip_none hh] at hy; simp at hy
    | some h =>
      obtain ⟨n', oe, hfin, hoe, hdone⟩ := finish_fresh IH hh hy
      obtain ⟨elems', hl, hp, hlen⟩ := ih len (.snoc elems n') p0 y e (Pre.snoc hpre hdone) hrest
      refine ⟨elems', ?_, hp, by simp [NodeList.length] at hlen; omega⟩
      rw [arrFinLoop, hh]
      simp only [hfin, hoe]
      exact hl

theorem objLoop_done {b : Bytes} {f : Nat} (IH : FinishOK b f) :
    ∀ k len pairs p0 s e, PreP b p0 pairs s → skipPairs b f k s = some e →
      ∃ pairs', objFinLoop b f len pairs s k = (.obj len pairs' e, .ok (some e)) ∧ PreP b p0 pairs' e
        ∧ pairs'.length = pairs.length + k := by
  intro k
  induction k with
  | zero =>
    intro len pairs p0 s e hpre hs
    rw [skipPairs_zero] at hs; simp at hs; subst hs
    exact ⟨pairs, objFinLoop_zero .., hpre, rfl⟩
  | succ k ih =>
    intro len pairs p0 s e hpre hs
    obtain ⟨ko, kl, ke, y, hk, hy, hrest⟩ := skipPairs_succ_inv hs
    cases hh : readHdr b ke with
    | none =>
      cases f with
      | zero => simp [skip] at hy
      | succ f => rw [skip_none hh] at hy; simp at hy
    | some h =>
      obtain ⟨n', oe, hfin, hoe, hdone⟩ := finish_fresh IH hh hy
      obtain ⟨pairs', hl, hp, hlen⟩ :=
        ih len (.snoc pairs ko kl n') p0 y e (PreP.snoc hpre hk hdone) hrest
      refine ⟨pairs', ?_, hp, by simp [PairList.length] at hlen; omega⟩
      rw [objFinLoop, hk]
      simp only [hh, hfin, hoe]
      exact hl

/-- **finish_done**: from any correct partial view, `finish_processing` produces the complete
    view and reports the end offset the eager walk computes -/
theorem finish_done (b : Bytes) : ∀ f, FinishOK b f := by
  intro f
  induction f with
  | zero => intro pos n e _ hs; simp [skip] at hs
  | succ f IH =>
    intro pos n e hinv hs
    cases hinv with
    | scalar hh =>
      rename_i v e0
      rw [skip_scalar hh] at hs; simp at hs; subst hs
      exact ⟨.scalar v, by simp [Node.finish, Node.isComposite], Done.scalar hh⟩
    | arrClosed hh hle hpre =>
      rename_i len body elems e0
      rw [skip_arr hh] at hs
      cases hpre with
      | nil =>
        obtain ⟨elems', hl, hp, hlen⟩ := arrLoop_done IH len len .nil body body e Pre.nil hs
        refine ⟨.arr len elems' e, ?_, Done.arr hh (by simpa [NodeList.length] using hlen) hp⟩
        simp [Node.finish, Node.isComposite, hl]
      | snoc hinit hdone =>
        rename_i init s last
        have hlen1 : init.length + 1 ≤ len := by simpa [NodeList.length] using hle
        have hs' : skipN b f (init.length + (len - init.length)) body = some e := by
          rw [show init.length + (len - init.length) = len by omega]; exact hs
        have hpeel := pre_peel hinit f (len - init.length) e hs'
        rw [show len - init.length = (len - (init.length + 1)) + 1 by omega] at hpeel
        obtain ⟨y, hy, hrest⟩ := skipN_succ_inv hpeel
        have hye := done_skip_agree hdone f y hy
        subst hye
        obtain ⟨last', hfin, hdone'⟩ := IH s last y (done_inv hdone) hy
        obtain ⟨elems', hl, hp, hlen⟩ :=
          arrLoop_done IH (len - (init.length + 1)) len (.snoc init last') body y e (Pre.snoc hinit hdone') hrest
        refine ⟨.arr len elems' e, ?_, Done.arr hh (by simp [NodeList.length] at hlen; omega) hp⟩
        have : (if last.isComposite = true then some y else none).getD y = y := by split <;> rfl
        simp only [Node.finish, hfin, this, hl]
        simp [Node.isComposite]
    | arrOpened hh hle hinit hcomp hlast =>
      rename_i len body init last e0
      rw [skip_arr hh] at hs
      have hs' : skipN b f (init.length + (len - init.length)) body = some e := by
        rw [show init.length + (len - init.length) = len by omega]; exact hs
      have hpeel := pre_peel hinit f (len - init.length) e hs'
      rw [show len - init.length = (len - (init.length + 1)) + 1 by omega] at hpeel
      obtain ⟨y, hy, hrest⟩ := skipN_succ_inv hpeel
      obtain ⟨last', hfin, hdone'⟩ := IH e0 last y hlast hy
      obtain ⟨elems', hl, hp, hlen⟩ :=
        arrLoop_done IH (len - (init.length + 1)) len (.snoc init last') body y e (Pre.snoc hinit hdone') hrest
      refine ⟨.arr len elems' e, ?_, Done.arr hh (by simp [NodeList.length] at hlen; omega) hp⟩
      simp only [Node.finish, hfin, hcomp, if_true, Option.getD_some, hl]
      simp [Node.isComposite]
    | objClosed hh hle hpre =>
      rename_i len body pairs e0
      rw [skip_map hh] at hs
      cases hpre with
      | nil =>
        obtain ⟨pairs', hl, hp, hlen⟩ := objLoop_done IH len len .nil body body e PreP.nil hs
        refine ⟨.obj len pairs' e, ?_, Done.obj hh (by simpa [PairList.length] using hlen) hp⟩
        simp [Node.finish, Node.isComposite, hl]
      | snoc hinit hk hdone =>
        rename_i init s ko kl ke last
        have hlen1 : init.length + 1 ≤ len := by simpa [PairList.length] using hle
        have hs' : skipPairs b f (init.length + (len - init.length)) body = some e := by
          rw [show init.length + (len - init.length) = len by omega]; exact hs
        have hpeel := preP_peel hinit f (len - init.length) e hs'
        rw [show len - init.length = (len - (init.length + 1)) + 1 by omega] at hpeel
        obtain ⟨ko', kl', ke', y, hk', hy, hrest⟩ := skipPairs_succ_inv hpeel
        rw [hk] at hk'; simp at hk'; obtain ⟨_, _, rfl⟩ := hk'
        have hye := done_skip_agree hdone f y hy
        subst hye
        obtain ⟨last', hfin, hdone'⟩ := IH ke last y (done_inv hdone) hy
        obtain ⟨pairs', hl, hp, hlen⟩ :=
          objLoop_done IH (len - (init.length + 1)) len (.snoc init ko kl last') body y e
            (PreP.snoc hinit hk hdone') hrest
        refine ⟨.obj len pairs' e, ?_, Done.obj hh (by simp [PairList.length] at hlen; omega) hp⟩
        have : (if last.isComposite = true then some y else none).getD y = y := by split <;> rfl
        simp only [Node.finish, hfin, this, hl]
        simp [Node.isComposite]
    | objOpened hh hle hinit hk hcomp hlast =>
      rename_i len body init s ko kl ke last
      rw [skip_map hh] at hs
      have hs' : skipPairs b f (init.length + (len - init.length)) body = some e := by
        rw [show init.length + (len - init.length) = len by omega]; exact hs
      have hpeel := preP_peel hinit f (len - init.length) e hs'
      rw [show len - init.length = (len - (init.length + 1)) + 1 by omega] at hpeel
      obtain ⟨ko', kl', ke', y, hk', hy, hrest⟩ := skipPairs_succ_inv hpeel
      rw [hk] at hk'; simp at hk'; obtain ⟨_, _, rfl⟩ := hk'
      obtain ⟨last', hfin, hdone'⟩ := IH ke last y hlast hy
      obtain ⟨pairs', hl, hp, hlen⟩ :=
        objLoop_done IH (len - (init.length + 1)) len (.snoc init ko kl last') body y e
          (PreP.snoc hinit hk hdone') hrest
      refine ⟨.obj len pairs' e, ?_, Done.obj hh (by simp [PairList.length] at hlen; omega) hp⟩
      simp only [Node.finish, hfin, hcomp, if_true, Option.getD_some, hl]
      simp [Node.isComposite]

end SfVerif
