import SfVerif.Lemmas.DocLink1
import SfVerif.Spec.DocSpec
import SfVerif.Spec.Eager
import SfVerif.Lemmas.Lazy1
/-! If the tree decoder decodes a value (with string keys only), the header reader reads a
    header of the same kind there, and the sequential walk ends where the tree decoder ends. -/
namespace SfVerif

/-- a header describes the top of a document node -/
def HdrDoc (b : Bytes) : Hdr → Doc → Prop
  | .scalar .null _, .nil => True
  | .scalar (.bool x) _, .bool y => x = y
  | .scalar (.num bits) _, d => d.numBits? = some bits
  | .scalar (.str off len) _, .str bs => bs = b.extract off (off + len) ∧ off + len ≤ b.size
  | .arr len _, .arr xs => xs.length = len
  | .map len _, .map ps => ps.length = len
  | _, _ => False

theorem markerOf_imm {m : Nat} {d : Doc} (h : markerOf m = .imm d) :
    d = .nil ∨ (∃ x, d = .bool x) ∨ (∃ z, d = .int z) := by
  unfold markerOf at h
  split at h
  · split at h
    · simp at h; exact Or.inr (Or.inr ⟨_, h.symm⟩)
    · split at h
      · cases h
      · split at h <;> cases h
  · split at h
    · simp at h; exact Or.inr (Or.inr ⟨_, h.symm⟩)
    · unfold markerTagged at h
      split at h <;> first | (cases h; simp) | cases h

/-- what decoding one value tells, at fuel `f` -/
def DecOK (b : Bytes) (f : Nat) : Prop :=
  ∀ pos d e, decodeAt b f pos = some (d, e) → d.keysStr = true →
    pos < e ∧ e ≤ b.size ∧ skip b f pos = some e ∧
    ∃ hd, readHdr b pos = some hd ∧ HdrDoc b hd d ∧
      (∀ len body, hd = .arr len body → ∃ xs, d = .arr xs ∧ decodeN b (f - 1) len body = some (xs, e)) ∧
      (∀ len body, hd = .map len body → ∃ ps, d = .map ps ∧ decodePairs b (f - 1) len body = some (ps, e))

def DecNOK (b : Bytes) (f : Nat) : Prop :=
  ∀ k pos xs e, decodeN b f k pos = some (xs, e) → Doc.keysStrList xs = true → pos ≤ b.size →
    xs.length = k ∧ pos + k ≤ e ∧ e ≤ b.size ∧ skipN b f k pos = some e

def DecPOK (b : Bytes) (f : Nat) : Prop :=
  ∀ k pos ps e, decodePairs b f k pos = some (ps, e) → Doc.keysStrPairs ps = true → pos ≤ b.size →
    ps.length = k ∧ pos + 2 * k ≤ e ∧ e ≤ b.size ∧ skipPairs b f k pos = some e

theorem decN_of_dec {b : Bytes} {f : Nat} (h : DecOK b f) : DecNOK b f := by
  intro k
  induction k with
  | zero =>
    intro pos xs e hd _ hp
    simp only [decodeN, Option.some.injEq, Prod.mk.injEq] at hd
    obtain ⟨rfl, rfl⟩ := hd
    exact ⟨rfl, by omega, hp, skipN_zero⟩
  | succ k ih =>
    intro pos xs e hd hks hp
    rw [decodeN] at hd
    cases h1 : decodeAt b f pos with
    | none => rw [h1] at hd; cases hd
    | some x =>
      obtain ⟨d, e1⟩ := x
      rw [h1] at hd; simp only [] at hd
      cases h2 : decodeN b f k e1 with
      | none => rw [h2] at hd; cases hd
      | some y =>
        obtain ⟨ds, e2⟩ := y
        rw [h2] at hd; simp only [Option.some.injEq, Prod.mk.injEq] at hd
        obtain ⟨rfl, rfl⟩ := hd
        simp only [Doc.keysStrList, Bool.and_eq_true] at hks
        obtain ⟨g1, g2, g3, _⟩ := h pos d e1 h1 hks.1
        obtain ⟨i1, i2, i3, i4⟩ := ih e1 ds e2 h2 hks.2 g2
        exact ⟨by simp [i1], by omega, i3, by rw [skipN_some g3]; exact i4⟩

theorem decP_of_dec {b : Bytes} {f : Nat} (h : DecOK b f) : DecPOK b f := by
  intro k
  induction k with
  | zero =>
    intro pos ps e hd _ hp
    simp only [decodePairs, Option.some.injEq, Prod.mk.injEq] at hd
    obtain ⟨rfl, rfl⟩ := hd
    exact ⟨rfl, by omega, hp, skipPairs_zero⟩
  | succ k ih =>
    intro pos ps e hd hks hp
    rw [decodePairs] at hd
    cases h1 : decodeAt b f pos with
    | none => rw [h1] at hd; cases hd
    | some x =>
      obtain ⟨kd, e1⟩ := x
      rw [h1] at hd; simp only [] at hd
      cases h2 : decodeAt b f e1 with
      | none => rw [h2] at hd; cases hd
      | some y =>
        obtain ⟨vd, e2⟩ := y
        rw [h2] at hd; simp only [] at hd
        cases h3 : decodePairs b f k e2 with
        | none => rw [h3] at hd; cases hd
        | some z =>
          obtain ⟨rest, e3⟩ := z
          rw [h3] at hd; simp only [Option.some.injEq, Prod.mk.injEq] at hd
          obtain ⟨rfl, rfl⟩ := hd
          simp only [Doc.keysStrPairs, Bool.and_eq_true] at hks
          obtain ⟨⟨hkstr, hv⟩, hrest⟩ := hks
          -- the key is a string document, so its header is a string header ending at e1
          cases kd with
          | str bs =>
            obtain ⟨g1, g2, g3, hd0, g4, g5, _⟩ := h pos (.str bs) e1 h1 rfl
            obtain ⟨v1, v2, v3, _⟩ := h e1 vd e2 h2 hv
            obtain ⟨i1, i2, i3, i4⟩ := ih e2 rest e3 h3 hrest v2
            -- the key header is `.scalar (.str ..) e1`
            have hkh : ∃ ko kl, readHdr b pos = some (.scalar (.str ko kl) e1) := by
              cases hd0 with
              | scalar v ee =>
                cases v with
                | str ko kl =>
                  have : skip b f pos = some ee := by
                    cases f with
                    | zero => simp [decodeAt] at h1
                    | succ f => exact skip_scalar g4
                  rw [g3] at this; simp at this; subst this
                  exact ⟨ko, kl, g4⟩
                | null => simp [HdrDoc] at g5
                | bool x => simp [HdrDoc] at g5
                | num x => simp [HdrDoc, Doc.numBits?] at g5
              | arr l bd => simp [HdrDoc] at g5
              | map l bd => simp [HdrDoc] at g5
            obtain ⟨ko, kl, hkh⟩ := hkh
            exact ⟨by simp [i1], by omega, i3, by rw [skipPairs_some hkh v3]; exact i4⟩
          | nil => simp at hkstr
          | bool x => simp at hkstr
          | int z => simp at hkstr
          | f32 v => simp at hkstr
          | f64 v => simp at hkstr
          | arr xs => simp at hkstr
          | map ps => simp at hkstr

end SfVerif

namespace SfVerif

theorem numHdr_some {b : Bytes} {p n v : Nat} {conv : Nat → Nat} (h : beRead b p n = some v) :
    numHdr b p n conv = some (.scalar (.num (conv v)) (p + n)) := by
  unfold numHdr; rw [h]

theorem strDoc_some {b : Bytes} {start len : Nat} {d : Doc} {e : Nat} (h : strDoc b start len = some (d, e)) :
    start + len ≤ b.size ∧ d = .str (b.extract start (start + len)) ∧ e = start + len := by
  unfold strDoc at h
  split at h
  · rename_i hle
    simp only [Option.some.injEq, Prod.mk.injEq] at h
    exact ⟨hle, h.1.symm, h.2.symm⟩
  · cases h

theorem strHdr_some {b : Bytes} {start len : Nat} (h : start + len ≤ b.size) :
    strHdr b start len = some (.scalar (.str start len) (start + len)) := by
  unfold strHdr; rw [if_pos (by omega)]

theorem arrHdr_some {b : Bytes} {body len : Nat} (h : body + len ≤ b.size) :
    arrHdr b body len = some (.arr len body) := by
  unfold arrHdr; rw [if_pos (by omega)]

theorem mapHdr_some {b : Bytes} {body len : Nat} (h : body + 2 * len ≤ b.size) :
    mapHdr b body len = some (.map len body) := by
  unfold mapHdr; rw [if_pos (by omega)]

/-- **the tree decoder and the header walk agree** (string keys) -/
theorem dec_ok (b : Bytes) : ∀ f, DecOK b f := by
  intro f
  induction f with
  | zero => intro pos d e h; simp [decodeAt] at h
  | succ f ih =>
    have ihN := decN_of_dec ih
    have ihP := decP_of_dec ih
    intro pos d e hdec hks
    rw [decodeAt] at hdec
    cases hb : b[pos]? with
    | none => rw [hb] at hdec; cases hdec
    | some mk =>
      rw [hb] at hdec
      simp only [] at hdec
      have hlt : pos < b.size := getElem?_lt hb
      have hrd : readHdr b pos = hdrByMarker b (pos + 1) (markerOf mk.toNat) := by rw [readHdr_eq, hb]
      -- a scalar header settles everything
      have scalar_case : ∀ v ee, readHdr b pos = some (.scalar v ee) → HdrDoc b (.scalar v ee) d → e = ee →
          pos < ee → ee ≤ b.size →
          pos < e ∧ e ≤ b.size ∧ skip b (f + 1) pos = some e ∧
          ∃ hd, readHdr b pos = some hd ∧ HdrDoc b hd d ∧
            (∀ len body, hd = .arr len body → ∃ xs, d = .arr xs ∧ decodeN b (f + 1 - 1) len body = some (xs, e)) ∧
            (∀ len body, hd = .map len body → ∃ ps, d = .map ps ∧ decodePairs b (f + 1 - 1) len body = some (ps, e)) := by
        intro v ee hh hd he h1 h2
        subst he
        exact ⟨h1, h2, skip_scalar hh, _, hh, hd, (fun _ _ hc => by cases hc), (fun _ _ hc => by cases hc)⟩
      cases hm : markerOf mk.toNat with
      | imm d0 =>
        rw [hm] at hdec hrd
        simp only [Option.some.injEq, Prod.mk.injEq] at hdec
        obtain ⟨rfl, rfl⟩ := hdec
        rcases markerOf_imm hm with rfl | ⟨x, rfl⟩ | ⟨z, rfl⟩
        · exact scalar_case .null _ hrd trivial rfl (by omega) (by omega)
        · exact scalar_case (.bool x) _ hrd rfl rfl (by omega) (by omega)
        · exact scalar_case (.num (F64.ofInt z)) _ hrd rfl rfl (by omega) (by omega)
      | f32 =>
        rw [hm] at hdec hrd
        simp only [] at hdec
        cases hv : beRead b (pos + 1) 4 with
        | none => rw [hv] at hdec; cases hdec
        | some v =>
          rw [hv] at hdec; simp only [Option.some.injEq, Prod.mk.injEq] at hdec
          obtain ⟨rfl, rfl⟩ := hdec
          have := beRead_some hv
          exact scalar_case (.num (F64.ofF32 v)) (pos + 1 + 4) (by rw [hrd]; exact numHdr_some hv) rfl rfl (by omega) (by omega)
      | f64 =>
        rw [hm] at hdec hrd
        simp only [] at hdec
        cases hv : beRead b (pos + 1) 8 with
        | none => rw [hv] at hdec; cases hdec
        | some v =>
          rw [hv] at hdec; simp only [Option.some.injEq, Prod.mk.injEq] at hdec
          obtain ⟨rfl, rfl⟩ := hdec
          have := beRead_some hv
          exact scalar_case (.num (id v)) (pos + 1 + 8) (by rw [hrd]; exact numHdr_some hv) rfl rfl (by omega) (by omega)
      | uint n =>
        rw [hm] at hdec hrd
        simp only [] at hdec
        cases hv : beRead b (pos + 1) n with
        | none => rw [hv] at hdec; cases hdec
        | some v =>
          rw [hv] at hdec; simp only [Option.some.injEq, Prod.mk.injEq] at hdec
          obtain ⟨rfl, rfl⟩ := hdec
          have := beRead_some hv
          exact scalar_case (.num (F64.ofNat v)) (pos + 1 + n) (by rw [hrd]; exact numHdr_some hv) (by simp [HdrDoc, Doc.numBits?, ofInt_natCast]) rfl (by omega) (by omega)
      | sint n =>
        rw [hm] at hdec hrd
        simp only [] at hdec
        cases hv : beRead b (pos + 1) n with
        | none => rw [hv] at hdec; cases hdec
        | some v =>
          rw [hv] at hdec; simp only [Option.some.injEq, Prod.mk.injEq] at hdec
          obtain ⟨rfl, rfl⟩ := hdec
          have := beRead_some hv
          exact scalar_case (.num (F64.ofInt (toSigned (8 * n) v))) (pos + 1 + n) (by rw [hrd]; exact numHdr_some hv) rfl rfl (by omega) (by omega)
      | strFix len =>
        rw [hm] at hdec hrd
        simp only [] at hdec
        obtain ⟨h1, rfl, rfl⟩ := strDoc_some hdec
        exact scalar_case (.str (pos + 1) len) (pos + 1 + len) (by rw [hrd]; exact strHdr_some h1) ⟨rfl, h1⟩ rfl (by omega) h1
      | strN n =>
        rw [hm] at hdec hrd
        simp only [] at hdec
        cases hv : beRead b (pos + 1) n with
        | none => rw [hv] at hdec; cases hdec
        | some l =>
          rw [hv] at hdec; simp only [] at hdec
          obtain ⟨h1, rfl, rfl⟩ := strDoc_some hdec
          exact scalar_case (.str (pos + 1 + n) l) (pos + 1 + n + l) (by rw [hrd]; simp only [hdrByMarker, hv]; exact strHdr_some h1) ⟨rfl, h1⟩ rfl (by omega) h1
      | arrFix len =>
        rw [hm] at hdec hrd
        simp only [] at hdec
        cases hn : decodeN b f len (pos + 1) with
        | none => rw [hn] at hdec; cases hdec
        | some x =>
          obtain ⟨xs, e'⟩ := x
          rw [hn] at hdec; simp only [Option.some.injEq, Prod.mk.injEq] at hdec
          obtain ⟨rfl, rfl⟩ := hdec
          obtain ⟨g1, g2, g3, g4⟩ := ihN len (pos + 1) xs e' hn (by simpa [Doc.keysStr] using hks) (by omega)
          have hh : readHdr b pos = some (.arr len (pos + 1)) := by rw [hrd]; exact arrHdr_some (by omega)
          refine ⟨by omega, g3, by rw [skip_arr hh]; exact g4, _, hh, g1, ?_, (fun _ _ hc => by cases hc)⟩
          intro len' body' hc
          simp only [Hdr.arr.injEq] at hc
          obtain ⟨rfl, rfl⟩ := hc
          exact ⟨xs, rfl, by simpa using hn⟩
      | arrN n =>
        rw [hm] at hdec hrd
        simp only [] at hdec
        cases hv : beRead b (pos + 1) n with
        | none => rw [hv] at hdec; cases hdec
        | some len =>
          rw [hv] at hdec; simp only [] at hdec
          have hbr := beRead_some hv
          cases hn : decodeN b f len (pos + 1 + n) with
          | none => rw [hn] at hdec; cases hdec
          | some x =>
            obtain ⟨xs, e'⟩ := x
            rw [hn] at hdec; simp only [Option.some.injEq, Prod.mk.injEq] at hdec
            obtain ⟨rfl, rfl⟩ := hdec
            obtain ⟨g1, g2, g3, g4⟩ := ihN len (pos + 1 + n) xs e' hn (by simpa [Doc.keysStr] using hks) (by omega)
            have hh : readHdr b pos = some (.arr len (pos + 1 + n)) := by
              rw [hrd]; simp only [hdrByMarker, hv]; exact arrHdr_some (by omega)
            refine ⟨by omega, g3, by rw [skip_arr hh]; exact g4, _, hh, g1, ?_, (fun _ _ hc => by cases hc)⟩
            intro len' body' hc
            simp only [Hdr.arr.injEq] at hc
            obtain ⟨rfl, rfl⟩ := hc
            exact ⟨xs, rfl, by simpa using hn⟩
      | mapFix len =>
        rw [hm] at hdec hrd
        simp only [] at hdec
        cases hn : decodePairs b f len (pos + 1) with
        | none => rw [hn] at hdec; cases hdec
        | some x =>
          obtain ⟨ps, e'⟩ := x
          rw [hn] at hdec; simp only [Option.some.injEq, Prod.mk.injEq] at hdec
          obtain ⟨rfl, rfl⟩ := hdec
          obtain ⟨g1, g2, g3, g4⟩ := ihP len (pos + 1) ps e' hn (by simpa [Doc.keysStr] using hks) (by omega)
          have hh : readHdr b pos = some (.map len (pos + 1)) := by rw [hrd]; exact mapHdr_some (by omega)
          refine ⟨by omega, g3, by rw [skip_map hh]; exact g4, _, hh, g1, (fun _ _ hc => by cases hc), ?_⟩
          intro len' body' hc
          simp only [Hdr.map.injEq] at hc
          obtain ⟨rfl, rfl⟩ := hc
          exact ⟨ps, rfl, by simpa using hn⟩
      | mapN n =>
        rw [hm] at hdec hrd
        simp only [] at hdec
        cases hv : beRead b (pos + 1) n with
        | none => rw [hv] at hdec; cases hdec
        | some len =>
          rw [hv] at hdec; simp only [] at hdec
          have hbr := beRead_some hv
          cases hn : decodePairs b f len (pos + 1 + n) with
          | none => rw [hn] at hdec; cases hdec
          | some x =>
            obtain ⟨ps, e'⟩ := x
            rw [hn] at hdec; simp only [Option.some.injEq, Prod.mk.injEq] at hdec
            obtain ⟨rfl, rfl⟩ := hdec
            obtain ⟨g1, g2, g3, g4⟩ := ihP len (pos + 1 + n) ps e' hn (by simpa [Doc.keysStr] using hks) (by omega)
            have hh : readHdr b pos = some (.map len (pos + 1 + n)) := by
              rw [hrd]; simp only [hdrByMarker, hv]; exact mapHdr_some (by omega)
            refine ⟨by omega, g3, by rw [skip_map hh]; exact g4, _, hh, g1, (fun _ _ hc => by cases hc), ?_⟩
            intro len' body' hc
            simp only [Hdr.map.injEq] at hc
            obtain ⟨rfl, rfl⟩ := hc
            exact ⟨ps, rfl, by simpa using hn⟩
      | bad => rw [hm] at hdec; cases hdec

end SfVerif
