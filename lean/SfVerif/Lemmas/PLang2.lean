import SfVerif.Lemmas.PLang1
import SfVerif.Lemmas.Zipper
import SfVerif.Lemmas.Frame3
/-! Every accepted and completed sequence of api-level write calls is the serialisation of a value
    tree (so `C02_completed_output_is_the_tree` speaks about every such sequence). -/
namespace SfVerif
open SfVerif.Gen

theorem abs_congr {w w' : Writer} (hs : w'.st = w.st) (hk : w'.stack = w.stack) : w'.abs = w.abs := by
  unfold Writer.abs; rw [hs, hk]

/-- a whole string write has the status of its allocation and moves the document like it -/
theorem writeStr_refines (w : Writer) (hI : WInv w) (bs : Bytes) :
    (w.writeStr bs).2 = (w.abs.step .string).2 ∧ (w.writeStr bs).1.abs = (w.abs.step .string).1 ∧
    WInv (w.writeStr bs).1 := by
  obtain ⟨h1, h2, h3⟩ := step_refines w hI (.strAlloc bs.size)
  unfold Writer.writeStr
  generalize w.step (.strAlloc bs.size) = r at h1 h2 h3
  obtain ⟨w', r', o⟩ := r
  cases o with
  | none => exact ⟨h1, h2, h3⟩
  | some off => exact ⟨h1, (abs_congr (w := w') (w' := w'.copyAt off bs) rfl rfl).trans h2, winv_copyAt _ _ _ h3⟩

/-- api-level calls that are all accepted: the grammar accepts their tokens one by one and ends where
    the writer ends -/
theorem runAOps_grammar : ∀ (ops : List AOp) (w : Writer), WInv w → (runAOps w ops).2 = WriteResult_Ok →
    allOk (w.abs.run (ops.map AOp.tok)).1 ∧ (runAOps w ops).1.abs = (w.abs.run (ops.map AOp.tok)).2 ∧
    WInv (runAOps w ops).1
  | [], w, hI, _ => ⟨fun _ h => (by cases h), rfl, hI⟩
  | .w op :: rest, w, hI, hok => by
    obtain ⟨h1, h2, h3⟩ := step_refines w hI op
    rw [runAOps] at hok ⊢
    generalize hr : w.step op = r at h1 h2 h3 hok
    obtain ⟨w', r', o⟩ := r
    simp only [] at h1 h2 h3 hok ⊢
    by_cases hne : r' ≠ WriteResult_Ok
    · rw [if_pos hne] at hok; exact absurd hok hne
    · rw [if_neg hne] at hok ⊢
      have hr' : r' = WriteResult_Ok := by simpa using hne
      obtain ⟨g1, g2, g3⟩ := runAOps_grammar rest w' h3 hok
      simp only [List.map_cons, AOp.tok, G.run]
      rw [h2] at g1 g2
      generalize hgs : w.abs.step op.tok = gs at h1 g1 g2
      obtain ⟨g', rr⟩ := gs
      simp only [] at h1 g1 g2 ⊢
      generalize hrun : g'.run (rest.map AOp.tok) = rn at g1 g2
      obtain ⟨rs, gf⟩ := rn
      refine ⟨?_, g2, g3⟩
      intro x hx
      rcases List.mem_cons.mp hx with rfl | hx
      · rw [← h1]; exact hr'
      · exact g1 x hx
  | .str bs :: rest, w, hI, hok => by
    obtain ⟨h1, h2, h3⟩ := writeStr_refines w hI bs
    rw [runAOps] at hok ⊢
    generalize hr : w.writeStr bs = r at h1 h2 h3 hok
    obtain ⟨w', r'⟩ := r
    simp only [] at h1 h2 h3 hok ⊢
    by_cases hne : r' ≠ WriteResult_Ok
    · rw [if_pos hne] at hok; exact absurd hok hne
    · rw [if_neg hne] at hok ⊢
      have hr' : r' = WriteResult_Ok := by simpa using hne
      obtain ⟨g1, g2, g3⟩ := runAOps_grammar rest w' h3 hok
      simp only [List.map_cons, AOp.tok, G.run]
      rw [h2] at g1 g2
      generalize hgs : w.abs.step .string = gs at h1 g1 g2
      obtain ⟨g', rr⟩ := gs
      simp only [] at h1 g1 g2 ⊢
      generalize hrun : g'.run (rest.map AOp.tok) = rn at g1 g2
      obtain ⟨rs, gf⟩ := rn
      refine ⟨?_, g2, g3⟩
      intro x hx
      rcases List.mem_cons.mp hx with rfl | hx
      · rw [← h1]; exact hr'
      · exact g1 x hx

/-- **every accepted and completed call sequence is the serialisation of a value tree** -/
theorem accepted_complete_is_ser (ops : List AOp) (hw : ∀ op ∈ ops, op.wf = true)
    (hok : (runAOps {} ops).2 = WriteResult_Ok) (hfin : ((runAOps {} ops).1.finalize).1 = WriteResult_Ok) :
    ∃ v : TVal, v.ser = ops ∧ wfV v = true := by
  obtain ⟨g1, g2, g3⟩ := runAOps_grammar ops {} winv_fresh hok
  have habs : ({} : Writer).abs = G.empty := rfl
  rw [habs] at g1 g2
  have hc : (G.empty.run (ops.map AOp.tok)).2 = .complete := by
    rw [← g2]
    obtain ⟨fs, hfs⟩ := framesOf_some g3.stackOk
    unfold Writer.finalize at hfin
    unfold Writer.abs
    cases hst : (runAOps {} ops).1.st <;> simp [hst, WState.frame, hfs] at hfin ⊢
  obtain ⟨t, ht⟩ := language_complete (ops.map AOp.tok) g1 hc
  exact ser_of_toks t ops hw ht

end SfVerif
