import SfVerif.Lemmas.Lazy5
import SfVerif.Spec.Prop
/-! `get_object_property` refines the specification `specProp`. -/
namespace SfVerif

/-- one-constructor unfolding lemmas for `specProp` -/
theorem specProp_zero (b : Bytes) (f : Nat) (q : Bytes) (pos idx : Nat) : specProp b f q 0 pos idx = .missing := by
  rw [specProp]

theorem specProp_found {b : Bytes} {f : Nat} {q : Bytes} {k pos idx ko kl ke : Nat} {h : Hdr}
    (hk : readHdr b pos = some (.scalar (.str ko kl) ke)) (hv : readHdr b ke = some h)
    (hm : keyEq b ko kl q = true) : specProp b f q (k+1) pos idx = .found idx ke := by
  rw [specProp, hk]; simp only [hv, hm, if_true]

theorem specProp_last {b : Bytes} {f : Nat} {q : Bytes} {pos idx ko kl ke : Nat} {h : Hdr}
    (hk : readHdr b pos = some (.scalar (.str ko kl) ke)) (hv : readHdr b ke = some h)
    (hm : keyEq b ko kl q = false) : specProp b f q 1 pos idx = .missing := by
  rw [specProp, hk]; simp [hv, hm]

theorem specProp_next {b : Bytes} {f : Nat} {q : Bytes} {k pos idx ko kl ke e : Nat} {h : Hdr}
    (hk : readHdr b pos = some (.scalar (.str ko kl) ke)) (hv : readHdr b ke = some h)
    (hm : keyEq b ko kl q = false) (hs : skip b f ke = some e) :
    specProp b f q (k+2) pos idx = specProp b f q (k+1) e (idx + 1) := by
  rw [specProp, hk]; simp [hv, hm, hs]

/-- what can be read off a `specProp` result that is not an error, at a pair position -/
theorem specProp_ne_err {b : Bytes} {f : Nat} {q : Bytes} {k pos idx : Nat}
    (h : specProp b f q (k+1) pos idx ≠ .err) :
    ∃ ko kl ke hd, readHdr b pos = some (.scalar (.str ko kl) ke) ∧ readHdr b ke = some hd ∧
      (keyEq b ko kl q = false → k ≠ 0 → ∃ e, skip b f ke = some e) := by
  rw [specProp] at h
  split at h
  · rename_i ko kl ke hk
    split at h
    · exact absurd rfl h
    · rename_i hd hv
      refine ⟨ko, kl, ke, hd, hk, hv, ?_⟩
      intro hm hk0
      rw [hm] at h
      simp only [Bool.false_eq_true, if_false, hk0] at h
      cases hs : skip b f ke with
      | none => rw [hs] at h; exact absurd rfl h
      | some e => exact ⟨e, rfl⟩
  · exact absurd rfl h

theorem inv_hdr {b : Bytes} {pos : Nat} {n : Node} (h : Inv b pos n) : ∃ hd, readHdr b pos = some hd := by
  cases h <;> exact ⟨_, by assumption⟩

theorem PairList.findKey_snoc_none {b q : Bytes} {init : PairList} {ko kl : Nat} {n : Node}
    (h : (PairList.snoc init ko kl n).findKey b q = none) : init.findKey b q = none ∧ keyEq b ko kl q = false := by
  simp only [PairList.findKey] at h
  split at h
  · simp at h
  · rename_i hi
    split at h
    · simp at h
    · rename_i hk; exact ⟨hi, by simpa using hk⟩

/-- one iteration of the search loop -/
theorem objPropStep_ok {b : Bytes} {f body len : Nat} {q : Bytes} (hbody : body ≤ b.size) (hf : b.size - body < f)
    {pairs : PairList} {e : Nat} (hst : ObjSt b body len pairs e)
    {cur ko kl ke : Nat} {h' : Hdr} (hcur : skipPairs b f pairs.length body = some cur)
    (hk : readHdr b cur = some (.scalar (.str ko kl) ke)) (hh' : readHdr b ke = some h') (j : Nat) :
    ∃ pairs'', pairs''.length = pairs.length ∧ PreP b body pairs'' cur ∧
      objPropLoop b f len q pairs e (j+1) =
        (if keyEq b ko kl q then
           (.obj len (.snoc pairs'' ko kl (mkNode h')) (h'.endOr ke), .at pairs.length)
         else objPropLoop b f len q (.snoc pairs'' ko kl (mkNode h')) (h'.endOr ke) j) := by
  rcases hst with ⟨hp, hle0⟩ | ⟨init, s, ko0, kl0, last, rfl, hp, hk0, hle0, hc, hl⟩
  · have hpf := preP_facts hp
    have hce : cur = e := by
      have := hpf.2.2 f hf; rw [hcur] at this; simpa using this
    subst hce
    cases hp with
    | nil =>
      refine ⟨.nil, rfl, PreP.nil, ?_⟩
      rw [objPropLoop]; simp only [hk, hh', PairList.length]; (try simp)
    | snoc hinit hk1 hdone =>
      rename_i init s ko1 kl1 ke1 last
      have hsf := preP_facts hinit
      have hke1 := readHdr_scalar_gt hk1
      have hdf := done_facts hdone
      have hskip : skip b f ke1 = some cur := hdf.2.2 f (by omega)
      obtain ⟨last', hfin, hdone'⟩ := finish_done b f ke1 last cur (done_inv hdone) hskip
      refine ⟨.snoc init ko1 kl1 last', by simp [PairList.length], PreP.snoc hinit hk1 hdone', ?_⟩
      have : (if last.isComposite = true then some cur else none).getD cur = cur := by split <;> rfl
      rw [objPropLoop]; simp only [hfin, this, hk, hh', PairList.length]; (try simp)
  · have hsf := preP_facts hp
    have hcur' : skipPairs b f (init.length + 1) body = some cur := by simpa [PairList.length] using hcur
    obtain ⟨y, hy, hrest⟩ := skipPairs_split init.length 1 body cur hcur'
    have hye : y = s := by have := hsf.2.2 f hf; rw [hy] at this; simpa using this
    subst hye
    obtain ⟨ko', kl', ke', z, hk', hz, hz2⟩ := skipPairs_succ_inv hrest
    rw [hk0] at hk'; simp at hk'; obtain ⟨_, rfl⟩ := hk'
    rw [skipPairs_zero] at hz2; simp at hz2; subst hz2
    obtain ⟨last', hfin, hdone'⟩ := finish_done b f e last z hl hz
    refine ⟨.snoc init ko0 kl0 last', by simp [PairList.length], PreP.snoc hp hk0 hdone', ?_⟩
    rw [objPropLoop]; simp only [hfin, hc, if_true, Option.getD_some, hk, hh', PairList.length]; (try simp)

/-- **the search loop refines `specProp`** (started where the eager walk stands after the
    processed pairs) -/
theorem objPropLoop_ok {b : Bytes} {f body len : Nat} {q : Bytes} (hbody : body ≤ b.size) (hf : b.size - body < f) :
    ∀ (k : Nat) (pairs : PairList) (e cur : Nat), ObjSt b body len pairs e → pairs.length + k + 1 ≤ len →
      skipPairs b f pairs.length body = some cur →
      specProp b f q (k+1) cur pairs.length ≠ .err →
      ∃ pairs' e', ObjSt b body len pairs' e' ∧
        ((∃ i ke, specProp b f q (k+1) cur pairs.length = .found i ke ∧
            objPropLoop b f len q pairs e (k+1) = (.obj len pairs' e', .at i) ∧
            ∃ ko kl c, pairs'.get? i = some (ko, kl, c) ∧ Inv b ke c) ∨
         (specProp b f q (k+1) cur pairs.length = .missing ∧
            objPropLoop b f len q pairs e (k+1) = (.obj len pairs' e', .missing))) := by
  intro k
  induction k with
  | zero =>
    intro pairs e cur hst hm hcur hne
    obtain ⟨ko, kl, ke, hd, hk, hv, _⟩ := specProp_ne_err hne
    obtain ⟨pairs'', hl, hpre, hstep⟩ := objPropStep_ok (q := q) hbody hf hst hcur hk hv 0
    refine ⟨.snoc pairs'' ko kl (mkNode hd), hd.endOr ke, objSt_push hpre (by omega) hk hv, ?_⟩
    by_cases hmq : keyEq b ko kl q = true
    · left
      refine ⟨pairs.length, ke, specProp_found hk hv hmq, by rw [hstep]; simp [hmq], ko, kl, mkNode hd, ?_, fresh_inv hv⟩
      have := PairList.get?_snoc_last pairs'' ko kl (mkNode hd)
      rw [hl] at this; exact this
    · right
      have hmq' : keyEq b ko kl q = false := by simpa using hmq
      refine ⟨specProp_last hk hv hmq', ?_⟩
      rw [hstep]; simp only [hmq', Bool.false_eq_true, if_false]
      rw [objPropLoop]
  | succ k ih =>
    intro pairs e cur hst hm hcur hne
    obtain ⟨ko, kl, ke, hd, hk, hv, hskip⟩ := specProp_ne_err hne
    obtain ⟨pairs'', hl, hpre, hstep⟩ := objPropStep_ok (q := q) hbody hf hst hcur hk hv (k+1)
    by_cases hmq : keyEq b ko kl q = true
    · refine ⟨.snoc pairs'' ko kl (mkNode hd), hd.endOr ke, objSt_push hpre (by omega) hk hv, Or.inl ?_⟩
      refine ⟨pairs.length, ke, specProp_found hk hv hmq, by rw [hstep]; simp [hmq], ko, kl, mkNode hd, ?_, fresh_inv hv⟩
      have := PairList.get?_snoc_last pairs'' ko kl (mkNode hd)
      rw [hl] at this; exact this
    · have hmq' : keyEq b ko kl q = false := by simpa using hmq
      obtain ⟨z, hz⟩ := hskip hmq' (by omega)
      have hst' := objSt_push (len := len) hpre (by omega) hk hv
      have hlen' : (PairList.snoc pairs'' ko kl (mkNode hd)).length = pairs.length + 1 := by
        simp [PairList.length, hl]
      have hcur' : skipPairs b f (pairs.length + 1) body = some z := skipPairs_snoc _ _ _ _ _ _ _ hcur hk hz
      have hnext : specProp b f q (k+2) cur pairs.length = specProp b f q (k+1) z (pairs.length + 1) :=
        specProp_next hk hv hmq' hz
      rw [hnext] at hne ⊢
      obtain ⟨pairs', e', hst'', hres⟩ :=
        ih (.snoc pairs'' ko kl (mkNode hd)) (hd.endOr ke) z hst' (by rw [hlen']; omega)
          (by rw [hlen']; exact hcur') (by rw [hlen']; exact hne)
      refine ⟨pairs', e', hst'', ?_⟩
      rw [hstep]; simp only [hmq', Bool.false_eq_true, if_false]
      rw [hlen'] at hres
      exact hres

end SfVerif
