import SfVerif.Spec.Read
import SfVerif.Lemmas.Path5
/-! Lifting the node-level refinement through handles to the provider context. -/
namespace SfVerif
open SfVerif.Gen

/-- every root allocation is a correct partial view of the value at offset 0 -/
def CInv (c : Ctx) : Prop := ∀ (k : Nat) (r : Node), c.roots[k]? = some r → Inv c.input 0 r

/-- the eager decoder accepts the document -/
def WF (b : Bytes) : Prop := GoodAt b 0

/-- handles valid in `c` stay valid in `c'` and denote nodes of the same shape -/
def HandlesKept (c c' : Ctx) : Prop :=
  ∀ h m, c.nodeAt? h = some m → ∃ m', c'.nodeAt? h = some m' ∧ m'.shape = m.shape

theorem HandlesKept.refl (c : Ctx) : HandlesKept c c := fun _ m h => ⟨m, h, rfl⟩
theorem HandlesKept.trans {a b c : Ctx} (h1 : HandlesKept a b) (h2 : HandlesKept b c) : HandlesKept a c := by
  intro h m hm
  obtain ⟨m', hm', hs'⟩ := h1 h m hm
  obtain ⟨m'', hm'', hs''⟩ := h2 h m' hm'
  exact ⟨m'', hm'', hs''.trans hs'⟩

theorem getPath?_append : ∀ (p : Path) (n : Node) (s : PStep),
    n.getPath? (p ++ [s]) = (match n.getPath? p with | some m => m.child? s | none => none)
  | [], n, s => by
    simp only [List.nil_append, Node.getPath?]
    cases n.child? s <;> rfl
  | t :: rest, n, s => by
    simp only [List.cons_append, Node.getPath?]
    cases n.child? t with
    | none => rfl
    | some c => exact getPath?_append rest c s

theorem specPath_append (b : Bytes) : ∀ (p : Path) (pos : Nat) (s : PStep),
    specPath b pos (p ++ [s]) = (match specPath b pos p with | some q => specChild b q s | none => none)
  | [], pos, s => by
    simp only [List.nil_append, specPath]
    cases specChild b pos s <;> rfl
  | t :: rest, pos, s => by
    simp only [List.cons_append, specPath]
    cases specChild b pos t with
    | none => rfl
    | some c => exact specPath_append b rest c s

/-- **what a valid handle is**: its path is one the eager decoder can follow, the node is a
    correct partial view of the value found there, and its shape is that value's header -/
theorem nodeAt_spec {c : Ctx} (hc : CInv c) {h : Handle} {m : Node}
    (hm : c.nodeAt? h = some m) :
    ∃ pos hd, specPath c.input 0 h.path = some pos ∧ readHdr c.input pos = some hd ∧ Inv c.input pos m ∧
      Spec.hdrAt c.input h = some hd ∧ m.shape = (mkNode hd).shape := by
  unfold Ctx.nodeAt? at hm
  cases hr : c.roots[h.root]? with
  | none => rw [hr] at hm; cases hm
  | some r =>
    rw [hr] at hm
    obtain ⟨pos, hp, hinv⟩ := inv_path h.path (hc _ r hr) hm
    obtain ⟨hd, hh⟩ := inv_hdr hinv
    exact ⟨pos, hd, hp, hh, hinv, by simp only [Spec.hdrAt, hp, hh], inv_shape hinv hh⟩

theorem encodeNode_shape (h : Handle) (n : Node) : Ctx.encodeNode h n.shape = Ctx.encodeNode h n := by
  cases n with
  | scalar v => rfl
  | arr l es e => rfl
  | obj l ps e => rfl

theorem encodeNode_of_shape {h : Handle} {n n' : Node} (hs : n.shape = n'.shape) :
    Ctx.encodeNode h n = Ctx.encodeNode h n' := by
  rw [← encodeNode_shape h n, ← encodeNode_shape h n', hs]

theorem NodeList.updateRev_some (g : Node → Node × Got) (p : Path) :
    ∀ (l : NodeList) (j : Nat) (c : Node), l.getRev? j = some c → (c.updateAt p g).isSome →
      (l.updateRev j p g).isSome
  | .nil, j, c, h, _ => by simp [NodeList.getRev?] at h
  | .snoc init last, 0, c, h, hs => by
    simp only [NodeList.getRev?, Option.some.injEq] at h; subst h
    simp only [NodeList.updateRev]
    cases hu : last.updateAt p g with
    | none => rw [hu] at hs; cases hs
    | some x => rfl
  | .snoc init last, j+1, c, h, hs => by
    simp only [NodeList.getRev?] at h
    have := NodeList.updateRev_some g p init j c h hs
    simp only [NodeList.updateRev]
    cases hu : init.updateRev j p g with
    | none => rw [hu] at this; cases this
    | some x => rfl

theorem PairList.updateRev_some (g : Node → Node × Got) (p : Path) :
    ∀ (l : PairList) (j ko kl : Nat) (c : Node), l.getRev? j = some (ko, kl, c) → (c.updateAt p g).isSome →
      (l.updateRev j p g).isSome
  | .nil, j, _, _, c, h, _ => by simp [PairList.getRev?] at h
  | .snoc init ko0 kl0 last, 0, ko, kl, c, h, hs => by
    simp only [PairList.getRev?, Option.some.injEq, Prod.mk.injEq] at h; obtain ⟨_, _, rfl⟩ := h
    simp only [PairList.updateRev]
    cases hu : last.updateAt p g with
    | none => rw [hu] at hs; cases hs
    | some x => rfl
  | .snoc init ko0 kl0 last, j+1, ko, kl, c, h, hs => by
    simp only [PairList.getRev?] at h
    have := PairList.updateRev_some g p init j ko kl c h hs
    simp only [PairList.updateRev]
    cases hu : init.updateRev j p g with
    | none => rw [hu] at this; cases this
    | some x => rfl

/-- `updateAt` succeeds on every path that denotes a container (it only refuses key steps,
    whose nodes are strings and never operated on) -/
theorem updateAt_some (g : Node → Node × Got) : ∀ (path : Path) (n m : Node), n.getPath? path = some m →
    m.isComposite = true → (n.updateAt path g).isSome
  | [], n, m, _, _ => by simp [Node.updateAt]
  | .key i :: rest, n, m, h, hcomp => by
    simp only [Node.getPath?] at h
    cases hc : n.child? (.key i) with
    | none => rw [hc] at h; cases h
    | some c =>
      rw [hc] at h
      cases n with
      | scalar v => simp [Node.child?] at hc
      | arr l es e => simp [Node.child?] at hc
      | obj l ps e =>
        simp only [Node.child?] at hc
        cases hg : ps.get? i with
        | none => rw [hg] at hc; cases hc
        | some x =>
          obtain ⟨ko, kl, v⟩ := x
          rw [hg] at hc; simp at hc; subst hc
          cases rest with
          | nil => simp [Node.getPath?] at h; subst h; simp [Node.isComposite] at hcomp
          | cons s rest => simp [Node.getPath?, Node.child?] at h
  | .elem i :: rest, n, m, h, hcomp => by
    simp only [Node.getPath?] at h
    cases hc : n.child? (.elem i) with
    | none => rw [hc] at h; cases h
    | some c =>
      rw [hc] at h
      cases n with
      | scalar v => simp [Node.child?] at hc
      | obj l ps e => simp [Node.child?] at hc
      | arr l es e =>
        simp only [Node.child?] at hc
        have hi := NodeList.get?_lt hc
        unfold NodeList.get? at hc; rw [if_pos hi] at hc
        have := NodeList.updateRev_some g rest es _ c hc (updateAt_some g rest c m h hcomp)
        simp only [Node.updateAt]; rw [if_pos hi]
        cases hu : es.updateRev (es.length - 1 - i) rest g with
        | none => rw [hu] at this; cases this
        | some x => rfl
  | .val i :: rest, n, m, h, hcomp => by
    simp only [Node.getPath?] at h
    cases hc : n.child? (.val i) with
    | none => rw [hc] at h; cases h
    | some c =>
      rw [hc] at h
      cases n with
      | scalar v => simp [Node.child?] at hc
      | arr l es e => simp [Node.child?] at hc
      | obj l ps e =>
        simp only [Node.child?] at hc
        cases hg : ps.get? i with
        | none => rw [hg] at hc; cases hc
        | some x =>
          obtain ⟨ko, kl, v⟩ := x
          rw [hg] at hc; simp at hc; subst hc
          have hi := PairList.get?_lt hg
          unfold PairList.get? at hg; rw [if_pos hi] at hg
          have := PairList.updateRev_some g rest ps _ ko kl v hg (updateAt_some g rest v m h hcomp)
          simp only [Node.updateAt]; rw [if_pos hi]
          cases hu : ps.updateRev (ps.length - 1 - i) rest g with
          | none => rw [hu] at this; cases this
          | some x => rfl

end SfVerif
