import SfVerif.Lemmas.Fail2
/-! Objects, error direction: value / key by index. -/
namespace SfVerif
open SfVerif.Gen

/-- both sides are the same case analysis on the header at the frontier -/
macro "hdr_cases " x:term : tactic =>
  `(tactic| (cases $x:term with
      | none => rfl
      | some hd => cases hd with
        | scalar v e => cases v <;> rfl
        | arr _ _ => rfl
        | map _ _ => rfl))

/-- finishing the value of the last processed pair (what every object scanning loop does first) -/
theorem obj_frontier {b : Bytes} {f body len : Nat} (hbody : body ≤ b.size) (hf : b.size - body < f)
    {pairs : PairList} {e : Nat} (hst : ObjSt b body len pairs e) :
    (∃ cur pairs'', skipPairs b f pairs.length body = some cur ∧ pairs''.length = pairs.length ∧
        PreP b body pairs'' cur ∧
        ((pairs = .nil ∧ pairs'' = .nil ∧ cur = e) ∨
         (∃ init ko kl last last' oe, pairs = .snoc init ko kl last ∧ Node.finish b f last = (last', .ok oe) ∧
            pairs'' = .snoc init ko kl last' ∧ oe.getD e = cur))) ∨
    (skipPairs b f pairs.length body = none ∧ ∃ init ko kl last last', pairs = .snoc init ko kl last ∧
        Node.finish b f last = (last', .err) ∧ ObjSt b body len (.snoc init ko kl last') e) := by
  rcases hst with ⟨hp, hle0⟩ | ⟨init, s, ko0, kl0, last, rfl, hp, hk0, hle0, hc, hl⟩
  · left
    have hpf := preP_facts hp
    have hcur := hpf.2.2 f hf
    cases hp with
    | nil => exact ⟨_, .nil, hcur, rfl, PreP.nil, Or.inl ⟨rfl, rfl, rfl⟩⟩
    | @snoc _ init s ko kl ke last _ hinit hk hdone =>
      have hsf := preP_facts hinit
      have hkf := readHdr_scalar_gt hk
      have hdf := done_facts hdone
      have hskip : skip b f ke = some e := hdf.2.2 f (by omega)
      obtain ⟨last', hfin, hdone'⟩ := finish_done b f ke last e (done_inv hdone) hskip
      refine ⟨e, .snoc init ko kl last', hcur, by simp [PairList.length], PreP.snoc hinit hk hdone',
        Or.inr ⟨init, ko, kl, last, last', _, rfl, hfin, rfl, ?_⟩⟩
      split <;> rfl
  · have hsf := preP_facts hp
    have hkf := readHdr_scalar_gt hk0
    have hsk : skipPairs b f (PairList.snoc init ko0 kl0 last).length body = skipPairs b f 1 s := by
      simp only [PairList.length]; exact preP_skipPairs hp hf 1
    cases hy : skip b f e with
    | none =>
      right
      obtain ⟨last', hfin, hinv', hc'⟩ := finish_fail b f e last hl (by omega) hy
      refine ⟨by rw [hsk, skipPairs_none hk0 hy], init, ko0, kl0, last, last', rfl, hfin,
        Or.inr ⟨init, s, ko0, kl0, last', rfl, hp, hk0, hle0, by rw [hc']; exact hc, hinv'⟩⟩
    | some z =>
      left
      obtain ⟨last', hfin, hdone'⟩ := finish_done b f e last z hl hy
      refine ⟨z, .snoc init ko0 kl0 last', by rw [hsk, skipPairs_some hk0 hy, skipPairs_zero], by simp [PairList.length],
        PreP.snoc hp hk0 hdone', Or.inr ⟨init, ko0, kl0, last, last', _, rfl, hfin, rfl, ?_⟩⟩
      simp [hc]

/-- one iteration of the object `get_at_index` scanning loop, in full -/
theorem objStep_total {b : Bytes} {f body len : Nat} (hbody : body ≤ b.size) (hf : b.size - body < f)
    {pairs : PairList} {e : Nat} (hst : ObjSt b body len pairs e) (j : Nat) :
    (∃ cur pairs'', skipPairs b f pairs.length body = some cur ∧ pairs''.length = pairs.length ∧
        PreP b body pairs'' cur ∧
        objGetLoop b f len pairs e (j+1) =
          (match readHdr b cur with
           | some (.scalar (.str ko kl) ke) =>
             (match readHdr b ke with
              | none => (.obj len pairs'' cur, .err ErrorCode_ReadError)
              | some h => objGetLoop b f len (.snoc pairs'' ko kl (mkNode h)) (h.endOr ke) j)
           | _ => (.obj len pairs'' cur, .err ErrorCode_ReadError))) ∨
    (skipPairs b f pairs.length body = none ∧ ∃ pairs', objGetLoop b f len pairs e (j+1) = (.obj len pairs' e, .err ErrorCode_ReadError) ∧
        ObjSt b body len pairs' e) := by
  rcases obj_frontier hbody hf hst with ⟨cur, pairs'', h1, h2, h3, h4⟩ | ⟨h1, init, ko, kl, last, last', rfl, hfin, hst'⟩
  · left
    refine ⟨cur, pairs'', h1, h2, h3, ?_⟩
    rcases h4 with ⟨rfl, rfl, rfl⟩ | ⟨init, ko, kl, last, last', oe, rfl, hfin, rfl, hoe⟩
    · rw [objGetLoop]
      show (match readHdr b cur with
          | some (.scalar (.str ko kl) ke) =>
            (match readHdr b ke with
             | none => ((Node.obj len .nil cur, Got.err ErrorCode_ReadError) : Node × Got)
             | some h => objGetLoop b f len (.snoc .nil ko kl (mkNode h)) (h.endOr ke) j)
          | _ => (.obj len .nil cur, .err ErrorCode_ReadError)) = _
      hdr_cases (readHdr b cur)
    · rw [objGetLoop]; simp only [hfin, hoe]; hdr_cases (readHdr b cur)
  · right
    exact ⟨h1, _, by rw [objGetLoop]; simp only [hfin], hst'⟩

theorem objGetLoop_fail {b : Bytes} {f body len : Nat} (hbody : body ≤ b.size) (hf : b.size - body < f) :
    ∀ (k : Nat) (pairs : PairList) (e : Nat), ObjSt b body len pairs e → pairs.length + k + 1 ≤ len →
      (∀ p ko kl ke h, skipPairs b f (pairs.length + k) body = some p →
        readHdr b p = some (.scalar (.str ko kl) ke) → readHdr b ke = some h → False) →
      ∃ pairs' e', objGetLoop b f len pairs e (k+1) = (.obj len pairs' e', .err ErrorCode_ReadError) ∧
        ObjSt b body len pairs' e' := by
  intro k
  induction k with
  | zero =>
    intro pairs e hst hm hfail
    rcases objStep_total hbody hf hst 0 with ⟨cur, pairs'', h1, h2, h3, h4⟩ | ⟨_, pairs', h2, h3⟩
    · rw [h4]
      split
      · rename_i ko kl ke hk
        cases hh : readHdr b ke with
        | none => exact ⟨pairs'', cur, rfl, Or.inl ⟨h3, by omega⟩⟩
        | some h => exact absurd (hfail cur ko kl ke h (by simpa using h1) hk hh) id
      · exact ⟨pairs'', cur, rfl, Or.inl ⟨h3, by omega⟩⟩
    · exact ⟨pairs', e, h2, h3⟩
  | succ k ih =>
    intro pairs e hst hm hfail
    rcases objStep_total hbody hf hst (k+1) with ⟨cur, pairs'', h1, h2, h3, h4⟩ | ⟨_, pairs', h2, h3⟩
    · rw [h4]
      split
      · rename_i ko kl ke hk
        cases hh : readHdr b ke with
        | none => exact ⟨pairs'', cur, rfl, Or.inl ⟨h3, by omega⟩⟩
        | some h' =>
          simp only []
          have hst' := objSt_push (len := len) h3 (by omega) hk hh
          have hlen' : (PairList.snoc pairs'' ko kl (mkNode h')).length = pairs.length + 1 := by simp [PairList.length, h2]
          exact ih (.snoc pairs'' ko kl (mkNode h')) (h'.endOr ke) hst' (by rw [hlen']; omega)
            (by rw [hlen', show pairs.length + 1 + k = pairs.length + (k + 1) by omega]; exact hfail)
      · exact ⟨pairs'', cur, rfl, Or.inl ⟨h3, by omega⟩⟩
    · exact ⟨pairs', e, h2, h3⟩

/-- **`get_at_index(i)` / `get_obj_key_at_index(i)` on an object, error direction** -/
theorem objGet_fail {b : Bytes} {f pos len body : Nat} (hh : readHdr b pos = some (.map len body))
    (hf : b.size - body < f) {pairs : PairList} {e : Nat} (hinv : Inv b pos (.obj len pairs e))
    {i : Nat} (hi : i < len)
    (hfail : ∀ p ko kl ke h, skipPairs b f i body = some p →
        readHdr b p = some (.scalar (.str ko kl) ke) → readHdr b ke = some h → False) :
    ∃ pairs' e', objGet b f len pairs e i = (.obj len pairs' e', .err ErrorCode_ReadError) ∧
      Inv b pos (.obj len pairs' e') := by
  have hbody := (readHdr_map_gt hh).2.1
  have hst := inv_objSt hh hinv
  unfold objGet
  rw [if_neg (by omega)]
  by_cases hfast : i < pairs.length
  · exfalso
    rcases hst with ⟨hpre, _⟩ | ⟨init, s, ko0, kl0, last, rfl, hpre, hk0, _, _, hl⟩
    · obtain ⟨ko, kl, c, p', ke, e', _, hk, hd, _, hsk⟩ := preP_get hpre i hfast
      obtain ⟨hd', hhd'⟩ := inv_hdr (done_inv hd)
      exact hfail p' ko kl ke hd' (hsk f hf) hk hhd'
    · by_cases hlt : i < init.length
      · obtain ⟨ko, kl, c, p', ke, e', _, hk, hd, _, hsk⟩ := preP_get hpre i hlt
        obtain ⟨hd', hhd'⟩ := inv_hdr (done_inv hd)
        exact hfail p' ko kl ke hd' (hsk f hf) hk hhd'
      · have hieq : i = init.length := by simp [PairList.length] at hfast; omega
        subst hieq
        obtain ⟨hd', hhd'⟩ := inv_hdr hl
        exact hfail s ko0 kl0 e hd' ((preP_facts hpre).2.2 f hf) hk0 hhd'
  · rw [if_neg hfast]
    have hk : i + 1 - pairs.length = (i - pairs.length) + 1 := by omega
    rw [hk]
    obtain ⟨pairs', e', hres, hst'⟩ := objGetLoop_fail hbody hf (i - pairs.length) pairs e hst (by omega)
      (by rw [show pairs.length + (i - pairs.length) = i by omega]; exact hfail)
    exact ⟨pairs', e', hres, objSt_inv hh hst'⟩

end SfVerif
