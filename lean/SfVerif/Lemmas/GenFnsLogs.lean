import SfVerif.Gen.FnsLogs
import SfVerif.Model.Logs
/-! The hand-written model functions are *equal* to the definitions regenerated from the source
    text by the translator (`extract/rs2lean.py`): a change to one of these function bodies in
    /repo changes the regenerated definition and breaks the equality here. -/
namespace SfVerif
open SfVerif.Gen

/-- `Logs::append`: new offset, new length and the copy plan -/
theorem gen_append_eq (l : Logs) (n : Nat) (hoff : l.offset ≤ LOG_CAPACITY) :
    let r := log_append l.offset l.len n
    let m := Logs.append LOG_CAPACITY l n
    m.1.offset = r.2.1 ∧ m.1.len = r.2.2 ∧ m.1.buf = l.buf ∧
    m.2.src = r.1.1 ∧ some m.2.dst1 = r.1.2.1 ∧ m.2.len1 = r.1.2.2.1 ∧ m.2.dst2 = r.1.2.2.2.1 ∧ m.2.len2 = r.1.2.2.2.2 := by
  -- shape-agnostic: every `if` on either side is split, the rest is linear arithmetic over the
  -- extracted capacity — a rewrite of `append` that computes the same plan re-proves itself
  have hc : LOG_CAPACITY = 1001 := rfl
  unfold log_append Logs.append ptrAdd
  simp only [hc] at hoff ⊢
  (repeat' split) <;> simp <;> omega

/-- `Logs::read_ptrs` -/
theorem gen_read_ptrs_eq (l : Logs) :
    let r := log_read_ptrs l.offset l.len
    let m := Logs.readPtrs LOG_CAPACITY l
    some m.1 = r.1 ∧ m.2.1 = r.2.1 ∧ m.2.2.1 = r.2.2.1 ∧ m.2.2.2 = r.2.2.2 := by
  have hc : LOG_CAPACITY = 1001 := rfl
  unfold log_read_ptrs Logs.readPtrs ptrAdd
  simp only [hc]
  (repeat' split) <;> simp <;> omega

end SfVerif
