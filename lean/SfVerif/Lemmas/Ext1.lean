import SfVerif.Lemmas.Lazy7
/-! Handles stay valid: every reader operation only *extends* a node — whatever path denoted a
    node before denotes a node of the same shape (kind, declared length, scalar value, string
    extent) afterwards. Purely structural; no bytes involved. -/
namespace SfVerif

/-- what a caller can see of a node without descending: kind, declared length / scalar -/
def Node.shape : Node → Node
  | .scalar v => .scalar v
  | .arr l _ _ => .arr l .nil 0
  | .obj l _ _ => .obj l .nil 0

/-- `n'` extends `n`: every path valid in `n` is valid in `n'` and denotes a node of the same shape -/
def Ext (n n' : Node) : Prop :=
  ∀ path m, n.getPath? path = some m → ∃ m', n'.getPath? path = some m' ∧ m'.shape = m.shape

def ExtL (es es' : NodeList) : Prop :=
  ∀ k c, es.get? k = some c → ∃ c', es'.get? k = some c' ∧ Ext c c'

def ExtP (ps ps' : PairList) : Prop :=
  ∀ k ko kl c, ps.get? k = some (ko, kl, c) → ∃ c', ps'.get? k = some (ko, kl, c') ∧ Ext c c'

theorem Ext.refl (n : Node) : Ext n n := fun _ m h => ⟨m, h, rfl⟩
theorem Ext.trans {a b c : Node} (h1 : Ext a b) (h2 : Ext b c) : Ext a c := by
  intro p m hm
  obtain ⟨m', hm', hs'⟩ := h1 p m hm
  obtain ⟨m'', hm'', hs''⟩ := h2 p m' hm'
  exact ⟨m'', hm'', hs''.trans hs'⟩
theorem ExtL.refl (l : NodeList) : ExtL l l := fun _ c h => ⟨c, h, Ext.refl c⟩
theorem ExtL.trans {a b c : NodeList} (h1 : ExtL a b) (h2 : ExtL b c) : ExtL a c := by
  intro k x hx
  obtain ⟨x', hx', he'⟩ := h1 k x hx
  obtain ⟨x'', hx'', he''⟩ := h2 k x' hx'
  exact ⟨x'', hx'', he'.trans he''⟩
theorem ExtP.refl (l : PairList) : ExtP l l := fun _ _ _ c h => ⟨c, h, Ext.refl c⟩
theorem ExtP.trans {a b c : PairList} (h1 : ExtP a b) (h2 : ExtP b c) : ExtP a c := by
  intro k ko kl x hx
  obtain ⟨x', hx', he'⟩ := h1 k ko kl x hx
  obtain ⟨x'', hx'', he''⟩ := h2 k ko kl x' hx'
  exact ⟨x'', hx'', he'.trans he''⟩

theorem Ext.shape {n n' : Node} (h : Ext n n') : n'.shape = n.shape := by
  obtain ⟨m', hm', hs⟩ := h [] n rfl
  simp [Node.getPath?] at hm'; subst hm'; exact hs

theorem NodeList.get?_lt {l : NodeList} {k : Nat} {c : Node} (h : l.get? k = some c) : k < l.length := by
  unfold NodeList.get? at h
  by_cases hk : k < l.length
  · exact hk
  · rw [if_neg hk] at h; cases h
theorem PairList.get?_lt {l : PairList} {k : Nat} {c : Nat × Nat × Node} (h : l.get? k = some c) : k < l.length := by
  unfold PairList.get? at h
  by_cases hk : k < l.length
  · exact hk
  · rw [if_neg hk] at h; cases h

theorem ExtL.grow (l : NodeList) (x : Node) : ExtL l (.snoc l x) := by
  intro k c hc
  exact ⟨c, by rw [NodeList.get?_snoc_lt _ _ _ (NodeList.get?_lt hc)]; exact hc, Ext.refl c⟩
theorem ExtP.grow (l : PairList) (ko kl : Nat) (x : Node) : ExtP l (.snoc l ko kl x) := by
  intro k ko' kl' c hc
  exact ⟨c, by rw [PairList.get?_snoc_lt _ _ _ _ _ (PairList.get?_lt hc)]; exact hc, Ext.refl c⟩

theorem ExtL.last (init : NodeList) {l l' : Node} (h : Ext l l') : ExtL (.snoc init l) (.snoc init l') := by
  intro k c hc
  have hk := NodeList.get?_lt hc
  by_cases hlt : k < init.length
  · rw [NodeList.get?_snoc_lt _ _ _ hlt] at hc ⊢
    exact ⟨c, hc, Ext.refl c⟩
  · have : k = init.length := by simp [NodeList.length] at hk; omega
    subst this
    rw [NodeList.get?_snoc_last] at hc ⊢
    simp at hc; subst hc
    exact ⟨l', rfl, h⟩
theorem ExtP.last (init : PairList) (ko kl : Nat) {l l' : Node} (h : Ext l l') :
    ExtP (.snoc init ko kl l) (.snoc init ko kl l') := by
  intro k ko' kl' c hc
  have hk := PairList.get?_lt hc
  by_cases hlt : k < init.length
  · rw [PairList.get?_snoc_lt _ _ _ _ _ hlt] at hc ⊢
    exact ⟨c, hc, Ext.refl c⟩
  · have : k = init.length := by simp [PairList.length] at hk; omega
    subst this
    rw [PairList.get?_snoc_last] at hc ⊢
    simp at hc; obtain ⟨rfl, rfl, rfl⟩ := hc
    exact ⟨l', rfl, h⟩

theorem Ext.arr {len : Nat} {es es' : NodeList} {e e' : Nat} (h : ExtL es es') :
    Ext (.arr len es e) (.arr len es' e') := by
  intro path m hm
  cases path with
  | nil => simp [Node.getPath?] at hm; subst hm; exact ⟨_, rfl, rfl⟩
  | cons s rest =>
    cases s with
    | elem i =>
      simp only [Node.getPath?, Node.child?] at hm ⊢
      cases hc : es.get? i with
      | none => rw [hc] at hm; cases hm
      | some c =>
        rw [hc] at hm
        obtain ⟨c', hc', he⟩ := h i c hc
        rw [hc']
        exact he rest m hm
    | key i => simp [Node.getPath?, Node.child?] at hm
    | val i => simp [Node.getPath?, Node.child?] at hm

theorem Ext.obj {len : Nat} {ps ps' : PairList} {e e' : Nat} (h : ExtP ps ps') :
    Ext (.obj len ps e) (.obj len ps' e') := by
  intro path m hm
  cases path with
  | nil => simp [Node.getPath?] at hm; subst hm; exact ⟨_, rfl, rfl⟩
  | cons s rest =>
    cases s with
    | elem i => simp [Node.getPath?, Node.child?] at hm
    | key i =>
      simp only [Node.getPath?, Node.child?] at hm ⊢
      cases hc : ps.get? i with
      | none => rw [hc] at hm; cases hm
      | some c =>
        obtain ⟨ko, kl, c⟩ := c
        rw [hc] at hm
        obtain ⟨c', hc', _⟩ := h i ko kl c hc
        rw [hc']
        exact ⟨m, hm, rfl⟩
    | val i =>
      simp only [Node.getPath?, Node.child?] at hm ⊢
      cases hc : ps.get? i with
      | none => rw [hc] at hm; cases hm
      | some c =>
        obtain ⟨ko, kl, c⟩ := c
        rw [hc] at hm
        obtain ⟨c', hc', he⟩ := h i ko kl c hc
        rw [hc']
        exact he rest m hm

end SfVerif
