import SfVerif.Model.F64
import SfVerif.Lemmas.F64Exact
/-! `n as f64` is never a NaN (for every integer a MessagePack document can hold, and far beyond). -/
namespace SfVerif

theorem isNaN_of_small_exp (S E X : Nat) (hE : E ≤ 2045) (hX : X ≤ 2 ^ 52) :
    F64.isNaN (S * 2 ^ 63 + (E * 2 ^ 52 + X)) = false := by
  have hform : S * 2 ^ 63 + (E * 2 ^ 52 + X) = X + (S * 2048 + E) * 2 ^ 52 := by
    have : (2 : Nat) ^ 63 = 2048 * 2 ^ 52 := by decide
    rw [this, Nat.add_mul, Nat.mul_assoc]; omega
  have hdiv : (S * 2 ^ 63 + (E * 2 ^ 52 + X)) / 2 ^ 52 = X / 2 ^ 52 + (S * 2048 + E) := by
    rw [hform, Nat.add_mul_div_right _ _ (by decide : 0 < 2 ^ 52)]
  have hx : X / 2 ^ 52 ≤ 1 := by
    apply Nat.div_le_of_le_mul
    omega
  have hexp : F64.expField (S * 2 ^ 63 + (E * 2 ^ 52 + X)) ≠ 2047 := by
    unfold F64.expField
    rw [hdiv]
    omega
  unfold F64.isNaN
  simp [hexp]

theorem ofNat_form (n : Nat) (h : n < 2 ^ 1023) : ∃ E X, E ≤ 2045 ∧ X ≤ 2 ^ 52 ∧ F64.ofNat n = E * 2 ^ 52 + X := by
  unfold F64.ofNat
  by_cases h0 : n = 0
  · rw [if_pos h0]; exact ⟨0, 0, by omega, by omega, by simp⟩
  · rw [if_neg h0]
    have hlo := Nat.log2_self_le h0
    have hhi : n < 2 ^ (Nat.log2 n + 1) := Nat.lt_log2_self
    have he : Nat.log2 n ≤ 1022 := by
      have := (Nat.log2_lt h0 (k := 1023)).mpr h
      omega
    generalize Nat.log2 n = e at *
    simp only []
    by_cases h52 : e ≤ 52
    · rw [if_pos h52]
      refine ⟨e + 1023, _, by omega, ?_, rfl⟩
      have : n * 2 ^ (52 - e) < 2 ^ 53 := by
        have h1 : 2 ^ (e + 1) * 2 ^ (52 - e) = 2 ^ 53 := by rw [← Nat.pow_add]; congr 1; omega
        calc n * 2 ^ (52 - e) < 2 ^ (e + 1) * 2 ^ (52 - e) := Nat.mul_lt_mul_of_pos_right hhi (Nat.pow_pos (by decide))
          _ = 2 ^ 53 := h1
      omega
    · rw [if_neg h52]
      refine ⟨e + 1023, _, by omega, ?_, rfl⟩
      have hq : n / 2 ^ (e - 52) < 2 ^ 53 := by
        apply Nat.div_lt_of_lt_mul
        have h1 : 2 ^ (e - 52) * 2 ^ 53 = 2 ^ (e + 1) := by rw [← Nat.pow_add]; congr 1; omega
        rw [h1]; exact hhi
      split <;> omega

theorem ofInt_not_nan (z : Int) (h : z.natAbs < 2 ^ 1023) : F64.isNaN (F64.ofInt z) = false := by
  unfold F64.ofInt
  by_cases hneg : z < 0
  · rw [if_pos hneg]
    obtain ⟨E, X, hE, hX, hf⟩ := ofNat_form z.natAbs h
    rw [hf]
    have := isNaN_of_small_exp 1 E X hE hX
    simpa using this
  · rw [if_neg hneg]
    obtain ⟨E, X, hE, hX, hf⟩ := ofNat_form z.toNat (by omega)
    rw [hf]
    have := isNaN_of_small_exp 0 E X hE hX
    simpa using this

end SfVerif
