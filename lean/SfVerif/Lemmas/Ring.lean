import SfVerif.Model.Logs
/-! the log ring: element-wise lemmas, the invariant, and the step theorem
    `read (log l msg) = lastN cap (read l ++ msg)` -/
namespace SfVerif.Ring
open SfVerif SfVerif.Logs

/-- close a goal whose sides contain the two-level `if` of `mod3` by case analysis and `omega` -/
macro "ifs_omega" : tactic =>
  `(tactic| first | omega | ((repeat' split) <;> omega))

def lastN (n : Nat) (xs : List UInt8) : List UInt8 := xs.drop (xs.length - n)

def Inv (cap : Nat) (l : Logs) : Prop :=
  0 < cap ∧ l.buf.length = cap ∧ l.offset < cap ∧ l.len ≤ cap ∧ (l.len < cap → l.offset = l.len)

theorem mod3 (x c : Nat) (hc : 0 < c) (h : x < 3 * c) :
    x % c = if x < c then x else if x < 2 * c then x - c else x - 2 * c := by
  split
  · exact Nat.mod_eq_of_lt (by assumption)
  · split
    · rw [Nat.mod_eq_sub_mod (by omega)]; exact Nat.mod_eq_of_lt (by omega)
    · rw [Nat.mod_eq_sub_mod (by omega), Nat.mod_eq_sub_mod (by omega)]
      rw [Nat.mod_eq_of_lt (by omega)]; omega

theorem blit_length (buf xs : List UInt8) (pos : Nat) (h : pos + xs.length ≤ buf.length) :
    (blit buf pos xs).length = buf.length := by
  simp [blit]; omega

theorem blit_getElem? (buf xs : List UInt8) (pos i : Nat) (h : pos + xs.length ≤ buf.length) :
    (blit buf pos xs)[i]? = if i < pos then buf[i]? else if i < pos + xs.length then xs[i - pos]? else buf[i]? := by
  unfold blit
  simp only [List.append_assoc, List.getElem?_append, List.length_take, List.getElem?_take, List.getElem?_drop]
  have : min pos buf.length = pos := by omega
  rw [this]
  split
  · simp
  · split
    · simp; intro; omega
    · rename_i h1 h2
      have : pos + xs.length + (i - pos - xs.length) = i := by omega
      simp [this]; intro; omega

theorem lastN_getElem? (n : Nat) (xs : List UInt8) (i : Nat) :
    (lastN n xs)[i]? = xs[xs.length - n + i]? := by
  simp [lastN, List.getElem?_drop]

theorem lastN_length (n : Nat) (xs : List UInt8) : (lastN n xs).length = min n xs.length := by
  simp [lastN]; omega

theorem read_length (cap : Nat) (l : Logs) (h : Inv cap l) : (Logs.read cap l).length = l.len := by
  obtain ⟨hc, hb, ho, hl, hlo⟩ := h
  unfold Logs.read Logs.readPtrs
  by_cases hfull : l.len < cap
  · have := hlo hfull; simp [hfull, hb]; omega
  · have hlen : l.len = cap := by omega
    simp only [hfull, if_false]
    by_cases ho0 : l.offset = 0
    · simp [ho0, hb]; omega
    · simp [ho0, hb]; omega

/-- what the host reads, element by element: logical index `i` lives at physical index
    `(offset + cap - len + i) % cap` -/
theorem read_getElem? (cap : Nat) (l : Logs) (h : Inv cap l) (i : Nat) (hi : i < l.len) :
    (Logs.read cap l)[i]? = l.buf[(l.offset + cap - l.len + i) % cap]? := by
  obtain ⟨hc, hb, ho, hl, hlo⟩ := h
  unfold Logs.read Logs.readPtrs
  by_cases hfull : l.len < cap
  · have hol := hlo hfull
    have hm : (l.offset + cap - l.len + i) % cap = i := by
      rw [mod3 _ cap hc (by omega)]; ifs_omega
    simp [hfull, List.getElem?_take, hi, hm]
  · have hlen : l.len = cap := by omega
    simp only [hfull, if_false]
    by_cases ho0 : l.offset = 0
    · have hm : (l.offset + cap - l.len + i) % cap = i := by
        rw [mod3 _ cap hc (by omega)]; ifs_omega
      rw [hm]
      simp [ho0, List.getElem?_take, hi]
    · simp only [ho0, if_false]
      simp only [List.getElem?_append, List.length_take, List.length_drop, List.getElem?_take,
        List.getElem?_drop, hb]
      by_cases hi2 : i < cap - l.offset
      · have hm : (l.offset + cap - l.len + i) % cap = l.offset + i := by
          rw [mod3 _ cap hc (by omega)]; ifs_omega
        have : i < min (cap - l.offset) (cap - l.offset) := by omega
        simp [hi2, hm]
      · have hm : (l.offset + cap - l.len + i) % cap = l.offset + i - cap := by
          rw [mod3 _ cap hc (by omega)]; ifs_omega
        have hmin : min (cap - l.offset) (cap - l.offset) = cap - l.offset := by omega
        simp [hm, hmin, hi2]
        have : i - (cap - l.offset) = l.offset + i - cap := by omega
        rw [this]
        rw [if_pos (by omega)]


/-- the state and the plan `append` produces, in closed form -/
theorem append_spec (cap : Nat) (l : Logs) (n : Nat) (h : Inv cap l) :
    (append cap l n).1.offset = (l.offset + min n cap) % cap ∧
    (append cap l n).1.len = min (l.len + min n cap) cap ∧
    (append cap l n).1.buf = l.buf ∧
    (append cap l n).2 =
      (if min n cap ≤ cap - l.offset
       then { src := n - min n cap, dst1 := l.offset, len1 := min n cap, dst2 := none, len2 := 0 }
       else { src := n - min n cap, dst1 := l.offset, len1 := cap - l.offset, dst2 := some 0,
              len2 := min n cap - (cap - l.offset) }) := by
  obtain ⟨hc, hb, ho, hl, hlo⟩ := h
  unfold append
  by_cases hn : n > cap
  · have hmin : min n cap = cap := by omega
    by_cases hfit : cap ≤ cap - l.offset
    · simp [hn, hmin, hfit]
    · simp [hn, hmin, hfit]
  · have hmin : min n cap = n := by omega
    by_cases hfit : n ≤ cap - l.offset
    · simp [hn, hmin, hfit]
    · simp [hn, hmin, hfit]
      by_cases hf : l.len < cap
      · have := hlo hf; omega
      · omega

theorem log_eq (cap : Nat) (l : Logs) (msg : List UInt8) :
    log cap l msg = applyPlan (append cap l msg.length).1 msg (append cap l msg.length).2 := by
  simp [log]

/-- the buffer after a log call, by the two shapes of plan -/
theorem log_buf (cap : Nat) (l : Logs) (msg : List UInt8) (h : Inv cap l) :
    (log cap l msg).buf =
      (if min msg.length cap ≤ cap - l.offset
       then blit l.buf l.offset ((msg.drop (msg.length - min msg.length cap)).take (min msg.length cap))
       else blit (blit l.buf l.offset ((msg.drop (msg.length - min msg.length cap)).take (cap - l.offset))) 0
              ((msg.drop (msg.length - min msg.length cap + (cap - l.offset))).take
                (min msg.length cap - (cap - l.offset)))) := by
  obtain ⟨_, _, h3, h4⟩ := append_spec cap l msg.length h
  rw [log_eq]
  by_cases hfit : min msg.length cap ≤ cap - l.offset
  · simp only [applyPlan, h3, h4, hfit, if_true]
  · simp only [applyPlan, h3, h4, hfit, if_false]

/-- the invariant is preserved by a log call -/
theorem log_inv (cap : Nat) (l : Logs) (msg : List UInt8) (h : Inv cap l) : Inv cap (log cap l msg) := by
  have hbuf := log_buf cap l msg h
  obtain ⟨h1, h2, _, _⟩ := append_spec cap l msg.length h
  obtain ⟨hc, hb, ho, hl, hlo⟩ := h
  have hmn : min msg.length cap ≤ cap := Nat.min_le_right _ _
  have hmm : min msg.length cap ≤ msg.length := Nat.min_le_left _ _
  have hoff : (log cap l msg).offset = (l.offset + min msg.length cap) % cap := by rw [log_eq]; exact h1
  have hlen : (log cap l msg).len = min (l.len + min msg.length cap) cap := by rw [log_eq]; exact h2
  refine ⟨hc, ?_, ?_, ?_, ?_⟩
  · rw [hbuf]
    split
    · rw [blit_length]; exact hb
      simp [hb]; omega
    · rw [blit_length, blit_length]; exact hb
      · simp [hb]; omega
      · rw [blit_length]
        · simp [hb]; omega
        · simp [hb]; omega
  · rw [hoff]; exact Nat.mod_lt _ hc
  · rw [hlen]; exact Nat.min_le_right _ _
  · rw [hoff, hlen]
    intro hlt
    have : l.len + min msg.length cap < cap := by omega
    have hf : l.len < cap := by omega
    have := hlo hf
    rw [Nat.mod_eq_of_lt (by omega)]
    omega


end SfVerif.Ring
