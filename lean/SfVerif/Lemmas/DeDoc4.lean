import SfVerif.Lemmas.DeDoc3
import SfVerif.Lemmas.Codec5
/-! facts about the document a typed value serialises to -/
namespace SfVerif
open SfVerif.Gen

mutual
theorem keysStr_doc : ∀ v : TVal, v.doc.keysStr = true
  | .unit => rfl
  | .bool _ => rfl
  | .int _ => rfl
  | .f64 _ => rfl
  | .str _ => rfl
  | .chr _ => rfl
  | .none => rfl
  | .some v => by simpa [TVal.doc] using keysStr_doc v
  | .seq vs => by simpa [TVal.doc, Doc.keysStr] using keysStrList_docs vs
  | .tup vs => by simpa [TVal.doc, Doc.keysStr] using keysStrList_docs vs
  | .map ps => by simpa [TVal.doc, Doc.keysStr] using keysStrPairs_docPairs ps
theorem keysStrList_docs : ∀ vs : List TVal, Doc.keysStrList (TVal.docs vs) = true
  | [] => rfl
  | v :: vs => by simp [TVal.docs, Doc.keysStrList, keysStr_doc v, keysStrList_docs vs]
theorem keysStrPairs_docPairs : ∀ ps : List (Bytes × TVal), Doc.keysStrPairs (TVal.docPairs ps) = true
  | [] => rfl
  | (k, v) :: ps => by simp [TVal.docPairs, Doc.keysStrPairs, keysStr_doc v, keysStrPairs_docPairs ps]
end

mutual
/-- every integer in the tree fits 65 bits -/
def Doc.intsB : Doc → Bool
  | .int z => decide (z.natAbs < 2 ^ 65)
  | .arr xs => Doc.intsBList xs
  | .map ps => Doc.intsBPairs ps
  | _ => true
def Doc.intsBList : List Doc → Bool
  | [] => true
  | d :: ds => d.intsB && Doc.intsBList ds
def Doc.intsBPairs : List (Doc × Doc) → Bool
  | [] => true
  | (k, v) :: ps => k.intsB && v.intsB && Doc.intsBPairs ps
end

theorem intsBList_get : ∀ (xs : List Doc) (i : Nat) (x : Doc), Doc.intsBList xs = true → xs[i]? = some x → x.intsB = true
  | [], i, x, _, h => by simp at h
  | d :: ds, 0, x, hb, h => by
    simp at h; subst h
    simp only [Doc.intsBList, Bool.and_eq_true] at hb; exact hb.1
  | d :: ds, i+1, x, hb, h => by
    simp only [Doc.intsBList, Bool.and_eq_true] at hb
    exact intsBList_get ds i x hb.2 (by simpa using h)

theorem intsBPairs_get : ∀ (ps : List (Doc × Doc)) (i : Nat) (k v : Doc), Doc.intsBPairs ps = true →
    ps[i]? = some (k, v) → k.intsB = true ∧ v.intsB = true
  | [], i, _, _, _, h => by simp at h
  | (k0, v0) :: rest, 0, k, v, hb, h => by
    simp at h; obtain ⟨rfl, rfl⟩ := h
    simp only [Doc.intsBPairs, Bool.and_eq_true] at hb; exact ⟨hb.1.1, hb.1.2⟩
  | (k0, v0) :: rest, i+1, k, v, hb, h => by
    simp only [Doc.intsBPairs, Bool.and_eq_true] at hb
    exact intsBPairs_get rest i k v hb.2 (by simpa using h)

theorem intsB_child {d c : Doc} {s : PStep} (hb : d.intsB = true) (hc : d.child? s = some c) : c.intsB = true := by
  cases d with
  | arr xs =>
    cases s with
    | elem i => exact intsBList_get xs i c (by simpa [Doc.intsB] using hb) (by simpa [Doc.child?] using hc)
    | key i => simp [Doc.child?] at hc
    | val i => simp [Doc.child?] at hc
  | map ps =>
    have hbp : Doc.intsBPairs ps = true := by simpa [Doc.intsB] using hb
    cases s with
    | elem i => simp [Doc.child?] at hc
    | key i =>
      simp only [Doc.child?] at hc
      cases hg : ps[i]? with
      | none => rw [hg] at hc; cases hc
      | some x => obtain ⟨k, v⟩ := x; rw [hg] at hc; simp at hc; subst hc; exact (intsBPairs_get ps i k v hbp hg).1
    | val i =>
      simp only [Doc.child?] at hc
      cases hg : ps[i]? with
      | none => rw [hg] at hc; cases hc
      | some x => obtain ⟨k, v⟩ := x; rw [hg] at hc; simp at hc; subst hc; exact (intsBPairs_get ps i k v hbp hg).2
  | nil => cases s <;> simp [Doc.child?] at hc
  | bool x => cases s <;> simp [Doc.child?] at hc
  | int z => cases s <;> simp [Doc.child?] at hc
  | f32 v => cases s <;> simp [Doc.child?] at hc
  | f64 v => cases s <;> simp [Doc.child?] at hc
  | str bs => cases s <;> simp [Doc.child?] at hc

theorem intsB_path : ∀ (path : Path) {d c : Doc}, d.intsB = true → d.getPath? path = some c → c.intsB = true
  | [], d, c, hb, h => by simp [Doc.getPath?] at h; subst h; exact hb
  | s :: rest, d, c, hb, h => by
    simp only [Doc.getPath?] at h
    cases hc : d.child? s with
    | none => rw [hc] at h; cases h
    | some c1 => rw [hc] at h; exact intsB_path rest (intsB_child hb hc) h

theorem intsOK_of_intsB {d : Doc} (hb : d.intsB = true) : IntsOK d := by
  intro path z hp
  have := intsB_path path hb hp
  simp only [Doc.intsB, decide_eq_true_eq] at this
  have : (2 : Nat) ^ 65 ≤ 2 ^ 1023 := Nat.pow_le_pow_right (by decide) (by decide)
  omega

mutual
theorem intsB_doc : ∀ v : TVal, wfV v = true → v.doc.intsB = true
  | .unit, _ => rfl
  | .bool _, _ => rfl
  | .int z, h => by
    simp only [wfV, Bool.and_eq_true, decide_eq_true_eq] at h
    simp only [TVal.doc, Doc.intsB, decide_eq_true_eq]
    omega
  | .f64 _, _ => rfl
  | .str _, _ => rfl
  | .chr _, _ => rfl
  | .none, _ => rfl
  | .some v, h => by simp only [wfV] at h; simpa [TVal.doc] using intsB_doc v h
  | .seq vs, h => by
    simp only [wfV, Bool.and_eq_true] at h; simpa [TVal.doc, Doc.intsB] using intsBList_docs vs h.2
  | .tup vs, h => by
    simp only [wfV, Bool.and_eq_true] at h; simpa [TVal.doc, Doc.intsB] using intsBList_docs vs h.2
  | .map ps, h => by
    simp only [wfV, Bool.and_eq_true] at h; simpa [TVal.doc, Doc.intsB] using intsBPairs_docPairs ps h.2
theorem intsBList_docs : ∀ vs : List TVal, wfList vs = true → Doc.intsBList (TVal.docs vs) = true
  | [], _ => rfl
  | v :: vs, h => by
    simp only [wfList, Bool.and_eq_true] at h
    simp [TVal.docs, Doc.intsBList, intsB_doc v h.1, intsBList_docs vs h.2]
theorem intsBPairs_docPairs : ∀ ps : List (Bytes × TVal), wfPairs ps = true → Doc.intsBPairs (TVal.docPairs ps) = true
  | [], _ => rfl
  | (k, v) :: ps, h => by
    simp only [wfPairs, Bool.and_eq_true] at h
    simp [TVal.docPairs, Doc.intsBPairs, Doc.intsB, intsB_doc v h.1.2, intsBPairs_docPairs ps h.2]
end

end SfVerif
