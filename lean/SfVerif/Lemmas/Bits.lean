import SfVerif.Model.NanBox
import SfVerif.Lemmas.Codes
/-! bit-field arithmetic for the NaN-box layout, by conversion of the bit operations to `/`, `%`, `*`
    and `+` on naturals (then `omega`); no `bv_decide`, so no native axioms -/
namespace SfVerif.Bits
open SfVerif.Gen

theorem and_shl_mask (x m k : Nat) : x &&& (m <<< k) = ((x >>> k) &&& m) <<< k := by
  apply Nat.eq_of_testBit_eq
  intro i
  simp only [Nat.testBit_and, Nat.testBit_shiftLeft, Nat.testBit_shiftRight]
  by_cases h : k ≤ i
  · simp [h]
  · simp [h]

/-- `a <<< i ||| b = a * 2^i + b` when `b` fits below bit `i` -/
theorem shl_or (a i b : Nat) (h : b < 2 ^ i) : a <<< i ||| b = a * 2 ^ i + b := by
  rw [← Nat.shiftLeft_add_eq_or_of_lt h, Nat.shiftLeft_eq]

theorem or_shl (a i b : Nat) (h : b < 2 ^ i) : b ||| a <<< i = a * 2 ^ i + b := by
  rw [Nat.or_comm, shl_or a i b h]

/-- the concrete constants of the 32-bit configuration -/
theorem consts32 :
    NAN_MASK 32 = 8191 <<< 50 ∧ VALUE_MASK 32 = 2 ^ 46 - 1 ∧ POINTER_MASK 32 = 2 ^ 32 - 1 ∧
    PAYLOAD_MASK 32 = 2 ^ 50 - 1 ∧ VALUE_SIZE 32 = 46 ∧ VALUE_ENCODING_SIZE 32 = 32 ∧
    MAX_VALUE_LENGTH 32 = 16383 ∧ F64_OFFSET 32 = 0 := by decide +kernel

/-- the concrete constants of the 64-bit configuration -/
theorem consts64 :
    NAN_MASK 64 = 8191 <<< 114 ∧ VALUE_MASK 64 = 2 ^ 110 - 1 ∧ POINTER_MASK 64 = 2 ^ 64 - 1 ∧
    PAYLOAD_MASK 64 = 2 ^ 114 - 1 ∧ VALUE_SIZE 64 = 110 ∧ VALUE_ENCODING_SIZE 64 = 64 ∧
    MAX_VALUE_LENGTH 64 = 16383 ∧ F64_OFFSET 64 = 64 := by decide +kernel

/-- the box as plain arithmetic: prefix, tag, saturated length, pointer (32-bit) -/
theorem encode32_eq (ptr len tag : Nat) (ht : tag < 16) :
    NanBox.encode 32 ptr len tag =
      8191 * 2 ^ 50 + tag * 2 ^ 46 + min len 16383 * 2 ^ 32 + ptr % 2 ^ 32 := by
  obtain ⟨h1, _, h3, _, h5, h6, h7, _⟩ := consts32
  unfold NanBox.encode
  simp only [h1, h3, h5, h6, h7, Nat.and_two_pow_sub_one_eq_mod]
  have hp : ptr % 2 ^ 32 < 2 ^ 32 := Nat.mod_lt _ (by decide)
  have hl : min len 16383 ≤ 16383 := Nat.min_le_right _ _
  rw [shl_or _ 32 _ hp, Nat.or_assoc]
  rw [shl_or tag 46 _ (by omega)]
  rw [shl_or 8191 50 _ (by omega)]
  omega

theorem encode64_eq (ptr len tag : Nat) (ht : tag < 16) :
    NanBox.encode 64 ptr len tag =
      8191 * 2 ^ 114 + tag * 2 ^ 110 + min len 16383 * 2 ^ 64 + ptr % 2 ^ 64 := by
  obtain ⟨h1, _, h3, _, h5, h6, h7, _⟩ := consts64
  unfold NanBox.encode
  simp only [h1, h3, h5, h6, h7, Nat.and_two_pow_sub_one_eq_mod]
  have hp : ptr % 2 ^ 64 < 2 ^ 64 := Nat.mod_lt _ (by decide)
  have hl : min len 16383 ≤ 16383 := Nat.min_le_right _ _
  rw [shl_or _ 64 _ hp, Nat.or_assoc]
  rw [shl_or tag 110 _ (by omega)]
  rw [shl_or 8191 114 _ (by omega)]
  omega

/-- the fields `try_decode` extracts from a value in box form (32-bit) -/
theorem fields32 (t l p : Nat) (ht : t < 16) (hl : l < 2 ^ 14) (hp : p < 2 ^ 32) :
    let v := 8191 * 2 ^ 50 + t * 2 ^ 46 + l * 2 ^ 32 + p
    v &&& NAN_MASK 32 = NAN_MASK 32 ∧
    (v &&& VALUE_MASK 32) &&& POINTER_MASK 32 = p ∧
    ((v &&& VALUE_MASK 32) >>> VALUE_ENCODING_SIZE 32) % 2 ^ 32 = l ∧
    (v &&& PAYLOAD_MASK 32) >>> VALUE_SIZE 32 = t ∧
    (v &&& VALUE_MASK 32) % 2 ^ 32 = p := by
  obtain ⟨h1, h2, h3, h4, h5, h6, _, _⟩ := consts32
  intro v
  have hv : v = 8191 * 2 ^ 50 + t * 2 ^ 46 + l * 2 ^ 32 + p := rfl
  have h8191 : (8191 : Nat) = 2 ^ 13 - 1 := by decide
  refine ⟨?_, ?_, ?_, ?_, ?_⟩
  · rw [h1, and_shl_mask, h8191, Nat.and_two_pow_sub_one_eq_mod, Nat.shiftRight_eq_div_pow]
    have : v / 2 ^ 50 % 2 ^ 13 = 2 ^ 13 - 1 := by omega
    rw [this]
  all_goals
    simp only [h2, h3, h4, h5, h6, Nat.and_two_pow_sub_one_eq_mod, Nat.shiftRight_eq_div_pow]
    omega

theorem fields64 (t l p : Nat) (ht : t < 16) (hl : l < 2 ^ 14) (hp : p < 2 ^ 64) :
    let v := 8191 * 2 ^ 114 + t * 2 ^ 110 + l * 2 ^ 64 + p
    v &&& NAN_MASK 64 = NAN_MASK 64 ∧
    (v &&& VALUE_MASK 64) &&& POINTER_MASK 64 = p ∧
    ((v &&& VALUE_MASK 64) >>> VALUE_ENCODING_SIZE 64) % 2 ^ 64 = l ∧
    (v &&& PAYLOAD_MASK 64) >>> VALUE_SIZE 64 = t ∧
    (v &&& VALUE_MASK 64) % 2 ^ 64 = p := by
  obtain ⟨h1, h2, h3, h4, h5, h6, _, _⟩ := consts64
  intro v
  have hv : v = 8191 * 2 ^ 114 + t * 2 ^ 110 + l * 2 ^ 64 + p := rfl
  have h8191 : (8191 : Nat) = 2 ^ 13 - 1 := by decide
  refine ⟨?_, ?_, ?_, ?_, ?_⟩
  · rw [h1, and_shl_mask, h8191, Nat.and_two_pow_sub_one_eq_mod, Nat.shiftRight_eq_div_pow]
    have : v / 2 ^ 114 % 2 ^ 13 = 2 ^ 13 - 1 := by omega
    rw [this]
  all_goals
    simp only [h2, h3, h4, h5, h6, Nat.and_two_pow_sub_one_eq_mod, Nat.shiftRight_eq_div_pow]
    omega

end SfVerif.Bits
