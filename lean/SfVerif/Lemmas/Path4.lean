import SfVerif.Lemmas.Tot1
/-! Applying an operation to the node a handle denotes keeps the *root* a correct partial view. -/
namespace SfVerif
open SfVerif.Gen

/-- what the three mutating node operations have in common -/
structure NodeOpOK (b : Bytes) (g : Node → Node × Got) : Prop where
  ext : ∀ m, Ext m (g m).1
  doneId : ∀ p m e, Done b p m e → (g m).1 = m
  inv : ∀ p m, Inv b p m → Inv b p (g m).1

theorem shape_comp {m m' : Node} (h : m'.shape = m.shape) : m'.isComposite = m.isComposite := by
  cases m <;> cases m' <;> simp [Node.shape] at h <;> rfl

theorem getAtIndex_opOK (b : Bytes) (i : Nat) : NodeOpOK b (fun n => n.getAtIndex b (eagerFuel b) i) where
  ext := fun m => getAtIndex_ext b _ m i
  doneId := fun p m e hd => (ops_done_id hd _).1 i
  inv := by
    intro p m hinv
    obtain ⟨hd, hh⟩ := inv_hdr hinv
    cases hd with
    | scalar v e => rw [inv_scalar_form hinv hh]; simpa [Node.getAtIndex] using (inv_scalar_form hinv hh ▸ hinv)
    | arr len body =>
      by_cases hi : i < len
      · rcases getAtIndex_arr_tot hinv hh hi with ⟨cp, hd, m', c, _, _, hres, hinv', _⟩ | ⟨_, m', hres, hinv'⟩ <;>
          (simp only [hres]; exact hinv')
      · rw [(getAtIndex_oob hinv _).1 body hh (by omega)]; exact hinv
    | map len body =>
      by_cases hi : i < len
      · rcases getAtIndex_obj_tot hinv hh hi with ⟨kp, ko, kl, ke, hd, m', c, _, hres, _, hinv', _⟩ | ⟨_, m', hres, _, hinv'⟩ <;>
          (simp only [hres]; exact hinv')
      · rw [((getAtIndex_oob hinv _).2 body hh (by omega)).1]; exact hinv

theorem getKeyAtIndex_opOK (b : Bytes) (i : Nat) : NodeOpOK b (fun n => n.getKeyAtIndex b (eagerFuel b) i) where
  ext := fun m => getKeyAtIndex_ext b _ m i
  doneId := fun p m e hd => (ops_done_id hd _).2.1 i
  inv := by
    intro p m hinv
    obtain ⟨hd, hh⟩ := inv_hdr hinv
    cases hd with
    | scalar v e => rw [inv_scalar_form hinv hh]; simpa [Node.getKeyAtIndex] using (inv_scalar_form hinv hh ▸ hinv)
    | arr len body =>
      obtain ⟨es, e, rfl⟩ := inv_arr_form hinv hh
      simpa [Node.getKeyAtIndex] using hinv
    | map len body =>
      by_cases hi : i < len
      · rcases getAtIndex_obj_tot hinv hh hi with ⟨kp, ko, kl, ke, hd, m', c, _, _, hres, hinv', _⟩ | ⟨_, m', _, hres, hinv'⟩ <;>
          (simp only [hres]; exact hinv')
      · rw [((getAtIndex_oob hinv _).2 body hh (by omega)).2]; exact hinv

theorem getProp_opOK (b : Bytes) (q : Bytes) : NodeOpOK b (fun n => n.getProp b (eagerFuel b) q) where
  ext := fun m => getProp_ext b _ m q
  doneId := fun p m e hd => (ops_done_id hd _).2.2 q
  inv := by
    intro p m hinv
    obtain ⟨hd, hh⟩ := inv_hdr hinv
    cases hd with
    | scalar v e => rw [inv_scalar_form hinv hh]; simpa [Node.getProp] using (inv_scalar_form hinv hh ▸ hinv)
    | arr len body =>
      obtain ⟨es, e, rfl⟩ := inv_arr_form hinv hh
      simpa [Node.getProp] using hinv
    | map len body =>
      obtain ⟨m', hinv', hcase⟩ := getProp_tot q hinv hh
      rcases hcase with ⟨i, ke, c, _, _, hres, _⟩ | ⟨_, hres⟩ | ⟨_, hres⟩ <;> (simp only [hres]; exact hinv')

/-! ### updating below a complete view changes nothing -/

theorem NodeList.updateRev_id (g : Node → Node × Got) (p : Path) :
    ∀ (l : NodeList) (j : Nat) (l' : NodeList) (r : Got), l.updateRev j p g = some (l', r) →
      (∀ c c', l.getRev? j = some c → c.updateAt p g = some (c', r) → c' = c) → l' = l
  | .nil, j, l', r, h, _ => by simp [NodeList.updateRev] at h
  | .snoc init last, 0, l', r, h, hid => by
    simp only [NodeList.updateRev] at h
    cases hu : last.updateAt p g with
    | none => rw [hu] at h; cases h
    | some x =>
      obtain ⟨last', r'⟩ := x
      rw [hu] at h; simp only [Option.some.injEq, Prod.mk.injEq] at h
      obtain ⟨rfl, rfl⟩ := h
      rw [hid last last' rfl hu]
  | .snoc init last, j+1, l', r, h, hid => by
    simp only [NodeList.updateRev] at h
    cases hu : init.updateRev j p g with
    | none => rw [hu] at h; cases h
    | some x =>
      obtain ⟨init', r'⟩ := x
      rw [hu] at h; simp only [Option.some.injEq, Prod.mk.injEq] at h
      obtain ⟨rfl, rfl⟩ := h
      rw [NodeList.updateRev_id g p init j init' r' hu (fun c c' hc hcu => hid c c' hc hcu)]

theorem PairList.updateRev_id (g : Node → Node × Got) (p : Path) :
    ∀ (l : PairList) (j : Nat) (l' : PairList) (r : Got), l.updateRev j p g = some (l', r) →
      (∀ ko kl c c', l.getRev? j = some (ko, kl, c) → c.updateAt p g = some (c', r) → c' = c) → l' = l
  | .nil, j, l', r, h, _ => by simp [PairList.updateRev] at h
  | .snoc init ko kl last, 0, l', r, h, hid => by
    simp only [PairList.updateRev] at h
    cases hu : last.updateAt p g with
    | none => rw [hu] at h; cases h
    | some x =>
      obtain ⟨last', r'⟩ := x
      rw [hu] at h; simp only [Option.some.injEq, Prod.mk.injEq] at h
      obtain ⟨rfl, rfl⟩ := h
      rw [hid ko kl last last' rfl hu]
  | .snoc init ko kl last, j+1, l', r, h, hid => by
    simp only [PairList.updateRev] at h
    cases hu : init.updateRev j p g with
    | none => rw [hu] at h; cases h
    | some x =>
      obtain ⟨init', r'⟩ := x
      rw [hu] at h; simp only [Option.some.injEq, Prod.mk.injEq] at h
      obtain ⟨rfl, rfl⟩ := h
      rw [PairList.updateRev_id g p init j init' r' hu (fun ko kl c c' hc hcu => hid ko kl c c' hc hcu)]

theorem pre_getRev_done {b : Bytes} {p0 : Nat} {elems : NodeList} {s : Nat} (h : Pre b p0 elems s)
    {j : Nat} {c : Node} (hc : elems.getRev? j = some c) : ∃ p e, Done b p c e := by
  have hj : j < elems.length := by
    clear h
    induction j generalizing elems with
    | zero => cases elems <;> simp [NodeList.getRev?, NodeList.length] at hc ⊢
    | succ j ih => cases elems with
      | nil => simp [NodeList.getRev?] at hc
      | snoc i l => simp only [NodeList.getRev?] at hc; simp only [NodeList.length]; have := ih hc; omega
  obtain ⟨c', p, e', hc', hd, _⟩ := pre_get h (elems.length - 1 - j) (by omega)
  unfold NodeList.get? at hc'
  rw [if_pos (by omega), show elems.length - 1 - (elems.length - 1 - j) = j by omega, hc] at hc'
  simp at hc'; subst hc'
  exact ⟨p, e', hd⟩

theorem preP_getRev_done {b : Bytes} {p0 : Nat} {pairs : PairList} {s : Nat} (h : PreP b p0 pairs s)
    {j ko kl : Nat} {c : Node} (hc : pairs.getRev? j = some (ko, kl, c)) : ∃ p e, Done b p c e := by
  have hj : j < pairs.length := by
    clear h
    induction j generalizing pairs with
    | zero => cases pairs <;> simp [PairList.getRev?, PairList.length] at hc ⊢
    | succ j ih => cases pairs with
      | nil => simp [PairList.getRev?] at hc
      | snoc i _ _ l => simp only [PairList.getRev?] at hc; simp only [PairList.length]; have := ih hc; omega
  obtain ⟨ko', kl', c', p, ke, e', hc', _, hd, _⟩ := preP_get h (pairs.length - 1 - j) (by omega)
  unfold PairList.get? at hc'
  rw [if_pos (by omega), show pairs.length - 1 - (pairs.length - 1 - j) = j by omega, hc] at hc'
  simp at hc'; obtain ⟨_, _, rfl⟩ := hc'
  exact ⟨ke, e', hd⟩

theorem updateAt_done_id {b : Bytes} {g : Node → Node × Got} (hg : NodeOpOK b g) :
    ∀ (path : Path) {pos e : Nat} {n n' : Node} {got : Got}, Done b pos n e →
      n.updateAt path g = some (n', got) → n' = n
  | [], pos, e, n, n', got, hd, h => by
    simp only [Node.updateAt, Option.some.injEq] at h
    have := hg.doneId pos n e hd
    rw [h] at this; exact this
  | .key i :: rest, pos, e, n, n', got, hd, h => by simp [Node.updateAt] at h
  | .elem i :: rest, pos, e, n, n', got, hd, h => by
    cases hd with
    | scalar hh => simp [Node.updateAt] at h
    | obj hh hlen hpre => simp [Node.updateAt] at h
    | @arr pos len body elems e hh hlen hpre =>
      simp only [Node.updateAt] at h
      by_cases hi : i < elems.length
      · rw [if_pos hi] at h
        cases hu : elems.updateRev (elems.length - 1 - i) rest g with
        | none => rw [hu] at h; cases h
        | some x =>
          obtain ⟨es', r⟩ := x
          rw [hu] at h; simp only [Option.some.injEq, Prod.mk.injEq] at h
          obtain ⟨rfl, rfl⟩ := h
          have : es' = elems := NodeList.updateRev_id g rest elems _ es' r hu (by
            intro c c' hc hcu
            obtain ⟨p, e', hdc⟩ := pre_getRev_done hpre hc
            exact updateAt_done_id hg rest hdc hcu)
          rw [this]
      · rw [if_neg hi] at h; cases h
  | .val i :: rest, pos, e, n, n', got, hd, h => by
    cases hd with
    | scalar hh => simp [Node.updateAt] at h
    | arr hh hlen hpre => simp [Node.updateAt] at h
    | @obj pos len body pairs e hh hlen hpre =>
      simp only [Node.updateAt] at h
      by_cases hi : i < pairs.length
      · rw [if_pos hi] at h
        cases hu : pairs.updateRev (pairs.length - 1 - i) rest g with
        | none => rw [hu] at h; cases h
        | some x =>
          obtain ⟨ps', r⟩ := x
          rw [hu] at h; simp only [Option.some.injEq, Prod.mk.injEq] at h
          obtain ⟨rfl, rfl⟩ := h
          have : ps' = pairs := PairList.updateRev_id g rest pairs _ ps' r hu (by
            intro ko kl c c' hc hcu
            obtain ⟨p, e', hdc⟩ := preP_getRev_done hpre hc
            exact updateAt_done_id hg rest hdc hcu)
          rw [this]
      · rw [if_neg hi] at h; cases h

end SfVerif
