import SfVerif.Gen.FnsState
import SfVerif.Model.Writer
/-! The hand-written model of the write state machine is *equal* to the definitions regenerated
    from the source text of provider/src/write/state.rs by the translator (`extract/rs2lean.py`):
    a change to one of these function bodies in /repo changes the regenerated definition and
    breaks the equality here. -/
namespace SfVerif
open SfVerif.Gen

/-- the per-container counters of the write state machine -/
theorem gen_obj_write_string_eq (l n : Nat) :
    WState.objWriteString l n = (.obj l (obj_write_string l n).2, (obj_write_string l n).1) := by
  unfold WState.objWriteString obj_write_string
  split <;> rfl

theorem gen_obj_write_non_string_eq (l n : Nat) :
    WState.objWriteNonString l n = (.obj l (obj_write_non_string_value l n).2, (obj_write_non_string_value l n).1) := by
  unfold WState.objWriteNonString obj_write_non_string_value
  split <;> rfl

theorem gen_arr_write_value_eq (l n : Nat) :
    WState.arrWriteValue l n = (.arr l (arr_write_value l n).2, (arr_write_value l n).1) := by
  unfold WState.arrWriteValue arr_write_value
  split <;> rfl

theorem popOrEnd_eq (stack : List WState) : popOrEnd stack = WState.popOrDone stack := by
  cases stack <;> rfl

/-- `State::write_string` / `State::write_non_string_scalar` -/
theorem gen_state_write_string_eq (st : WState) (stack : List WState) :
    state_write_string st stack = ((WState.writeString st).1, stack, (WState.writeString st).2) := by
  cases st <;> simp [state_write_string, WState.writeString, gen_obj_write_string_eq, gen_arr_write_value_eq]

theorem gen_state_write_non_string_scalar_eq (st : WState) (stack : List WState) :
    state_write_non_string_scalar st stack =
      ((WState.writeNonStringScalar st).1, stack, (WState.writeNonStringScalar st).2) := by
  cases st <;> simp [state_write_non_string_scalar, WState.writeNonStringScalar, gen_obj_write_non_string_eq,
    gen_arr_write_value_eq]

/-- `State::start_object` / `State::start_array` -/
theorem gen_state_start_object_eq (len : Nat) (st : WState) (stack : List WState) :
    state_start_object len st stack = WState.startContainer (.obj len 0) st stack := by
  cases st <;> simp only [state_start_object, WState.startContainer, gen_obj_write_non_string_eq, gen_arr_write_value_eq]
  all_goals (split <;> simp_all)

theorem gen_state_start_array_eq (len : Nat) (st : WState) (stack : List WState) :
    state_start_array len st stack = WState.startContainer (.arr len 0) st stack := by
  cases st <;> simp only [state_start_array, WState.startContainer, gen_obj_write_non_string_eq, gen_arr_write_value_eq]
  all_goals (split <;> simp_all)

/-- `State::finish_object` / `State::finish_array` -/
theorem gen_state_finish_object_eq (st : WState) (stack : List WState) :
    state_finish_object st stack = WState.finishObject st stack := by
  cases st <;> simp only [state_finish_object, WState.finishObject, popOrEnd_eq]
  all_goals (try (split <;> simp_all))
  all_goals (try (cases WState.popOrDone stack; rfl))
  all_goals (try (intro h; first | exact absurd h.symm (by assumption) | exact absurd h (by assumption)))

theorem gen_state_finish_array_eq (st : WState) (stack : List WState) :
    state_finish_array st stack = WState.finishArray st stack := by
  cases st <;> simp only [state_finish_array, WState.finishArray, popOrEnd_eq]
  all_goals (try (split <;> simp_all))
  all_goals (try (cases WState.popOrDone stack; rfl))
  all_goals (try (intro h; first | exact absurd h.symm (by assumption) | exact absurd h (by assumption)))

end SfVerif
