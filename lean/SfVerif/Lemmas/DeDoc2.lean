import SfVerif.Lemmas.DeDoc1
/-! the element / tuple / pair loops of the typed deserialiser -/
namespace SfVerif
open SfVerif.Gen

/-- deserialising type `ty` through the reader = deserialising the decoded sub-document -/
def DeOK (b : Bytes) (d : Doc) (ty : Ty) : Prop :=
  ∀ c rv dc, CInv c → c.input = b → Boxed c d rv dc →
    ∃ c', deTy c ty rv = (c', deDoc ty dc) ∧ CInv c' ∧ c'.input = b ∧ HandlesKept c c'

theorem drop_cons_get {α : Type} (xs : List α) (i : Nat) (x : α) (h : xs[i]? = some x) :
    xs.drop i = x :: xs.drop (i + 1) := by
  have hi : i < xs.length := by
    cases hlt : decide (i < xs.length) with
    | true => simpa using hlt
    | false => have : xs.length ≤ i := by simpa using hlt
               rw [List.getElem?_eq_none this] at h; cases h
  rw [List.getElem?_eq_getElem hi] at h
  simp only [Option.some.injEq] at h
  rw [← h]
  exact List.drop_eq_getElem_cons hi

theorem get_of_lt {α : Type} (xs : List α) (i : Nat) (h : i < xs.length) : ∃ x, xs[i]? = some x :=
  ⟨xs[i], List.getElem?_eq_getElem h⟩

theorem deElems_doc {b : Bytes} {d : Doc} (hd : Decodes b d) {t : Ty} (IH : DeOK b d t) :
    ∀ (k : Nat) (c : Ctx) (i n : Nat) (h : Handle) (xs : List Doc), CInv c → c.input = b →
      (c.nodeAt? h).isSome = true → d.getPath? h.path = some (.arr xs) → i + k = xs.length →
      ∃ c', deElems c t (.arr h n) i k = (c', deDocs t (xs.drop i)) ∧ CInv c' ∧ c'.input = b ∧ HandlesKept c c' := by
  intro k
  induction k with
  | zero =>
    intro c i n h xs hc hb _ _ hik
    rw [deElems, List.drop_eq_nil_of_le (by omega)]
    exact ⟨c, by simp [deDocs], hc, hb, HandlesKept.refl c⟩
  | succ k ih =>
    intro c i n h xs hc hb hs hp hik
    obtain ⟨x, hx⟩ := get_of_lt xs i (by omega)
    obtain ⟨c1, rv, hg, hc1, hb1, hk1, hbox⟩ := getAtIndex_boxed_arr hc (hb ▸ hd) hs hp hx
    obtain ⟨c2, hde, hc2, hb2, hk2⟩ := IH c1 rv x hc1 (hb1.trans hb) hbox
    rw [deElems]
    simp only [RVal.toScope, hg, hde]
    rw [drop_cons_get xs i x hx]
    cases hdx : deDoc t x with
    | none => exact ⟨c2, by simp [deDocs, hdx], hc2, hb2, hk1.trans hk2⟩
    | some v =>
      obtain ⟨c3, hrest, hc3, hb3, hk3⟩ := ih c2 (i + 1) n h xs hc2 hb2
        (kept_isSome (hk1.trans hk2) hs) hp (by omega)
      simp only [hrest]
      cases hds : deDocs t (xs.drop (i + 1)) with
      | none => exact ⟨c3, by simp [deDocs, hdx, hds], hc3, hb3, (hk1.trans hk2).trans hk3⟩
      | some vs => exact ⟨c3, by simp [deDocs, hdx, hds], hc3, hb3, (hk1.trans hk2).trans hk3⟩

theorem deTuple_doc {b : Bytes} {d : Doc} (hd : Decodes b d) :
    ∀ (ts : List Ty), (∀ t ∈ ts, DeOK b d t) → ∀ (c : Ctx) (i n : Nat) (h : Handle) (xs : List Doc), CInv c → c.input = b →
      (c.nodeAt? h).isSome = true → d.getPath? h.path = some (.arr xs) → i + ts.length = xs.length →
      ∃ c', deTuple c ts (.arr h n) i = (c', deDocTuple ts (xs.drop i)) ∧ CInv c' ∧ c'.input = b ∧ HandlesKept c c' := by
  intro ts
  induction ts with
  | nil =>
    intro _ c i n h xs hc hb _ _ _
    rw [deTuple]
    exact ⟨c, by simp [deDocTuple], hc, hb, HandlesKept.refl c⟩
  | cons t ts ih =>
    intro IH c i n h xs hc hb hs hp hik
    simp only [List.length_cons] at hik
    obtain ⟨x, hx⟩ := get_of_lt xs i (by omega)
    obtain ⟨c1, rv, hg, hc1, hb1, hk1, hbox⟩ := getAtIndex_boxed_arr hc (hb ▸ hd) hs hp hx
    obtain ⟨c2, hde, hc2, hb2, hk2⟩ := IH t List.mem_cons_self c1 rv x hc1 (hb1.trans hb) hbox
    rw [deTuple]
    simp only [RVal.toScope, hg, hde]
    rw [drop_cons_get xs i x hx]
    cases hdx : deDoc t x with
    | none => exact ⟨c2, by simp [deDocTuple, hdx], hc2, hb2, hk1.trans hk2⟩
    | some v =>
      obtain ⟨c3, hrest, hc3, hb3, hk3⟩ := ih (fun t' ht' => IH t' (List.mem_cons_of_mem _ ht')) c2 (i + 1) n h xs hc2 hb2
        (kept_isSome (hk1.trans hk2) hs) hp (by omega)
      simp only [hrest]
      cases hds : deDocTuple ts (xs.drop (i + 1)) with
      | none => exact ⟨c3, by simp [deDocTuple, hdx, hds], hc3, hb3, (hk1.trans hk2).trans hk3⟩
      | some vs => exact ⟨c3, by simp [deDocTuple, hdx, hds], hc3, hb3, (hk1.trans hk2).trans hk3⟩

theorem keysStrPairs_get : ∀ (ps : List (Doc × Doc)) (i : Nat) (kd vd : Doc), Doc.keysStrPairs ps = true →
    ps[i]? = some (kd, vd) → ∃ kb, kd = .str kb
  | [], i, _, _, _, h => by simp at h
  | (k, v) :: rest, 0, kd, vd, hks, h => by
    simp at h; obtain ⟨rfl, rfl⟩ := h
    simp only [Doc.keysStrPairs, Bool.and_eq_true] at hks
    cases k <;> simp at hks
    exact ⟨_, rfl⟩
  | (k, v) :: rest, i+1, kd, vd, hks, h => by
    simp only [Doc.keysStrPairs, Bool.and_eq_true] at hks
    exact keysStrPairs_get rest i kd vd hks.2 (by simpa using h)

theorem dePairs_doc {b : Bytes} {d : Doc} (hd : Decodes b d) {t : Ty} (IH : DeOK b d t) :
    ∀ (k : Nat) (c : Ctx) (i n : Nat) (h : Handle) (ps : List (Doc × Doc)), CInv c → c.input = b →
      (c.nodeAt? h).isSome = true → d.getPath? h.path = some (.map ps) → i + k = ps.length →
      ∃ c', dePairs c t (.obj h n) i k = (c', deDocPairs t (ps.drop i)) ∧ CInv c' ∧ c'.input = b ∧ HandlesKept c c' := by
  intro k
  induction k with
  | zero =>
    intro c i n h ps hc hb _ _ hik
    rw [dePairs, List.drop_eq_nil_of_le (by omega)]
    exact ⟨c, by simp [deDocPairs], hc, hb, HandlesKept.refl c⟩
  | succ k ih =>
    intro c i n h ps hc hb hs hp hik
    obtain ⟨x, hx⟩ := get_of_lt ps i (by omega)
    obtain ⟨kd, vd⟩ := x
    -- keys of a decoded map are strings
    obtain ⟨_, _, _, _, _, _, _, hkmap, _, _⟩ := doc_at hd hp
    obtain ⟨kb, rfl⟩ := keysStrPairs_get ps i kd vd (by simpa [Doc.keysStr] using hkmap) hx
    obtain ⟨_, ⟨c1, kv, hgk, hc1, hb1, hk1, hboxk⟩⟩ := getAtIndex_boxed_map hc (hb ▸ hd) hs hp hx
    obtain ⟨hk, hkv, hkp, hkvalid⟩ := hboxk
    have hstr : c1.stringAt hk = some kb :=
      stringAt_doc hc1 ((hb1.trans hb) ▸ hd) (hkvalid rfl) hkp
    have hs1 := kept_isSome hk1 hs
    obtain ⟨⟨c2, rv, hgv, hc2, hb2, hk2, hboxv⟩, _⟩ := getAtIndex_boxed_map hc1 ((hb1.trans hb) ▸ hd) hs1 hp hx
    obtain ⟨c3, hde, hc3, hb3, hk3⟩ := IH c2 rv vd hc2 (hb2.trans (hb1.trans hb)) hboxv
    rw [dePairs]
    simp only [RVal.toScope, hgk, hkv, Doc.box, hstr, hgv, hde]
    rw [drop_cons_get ps i (.str kb, vd) hx]
    cases hdx : deDoc t vd with
    | none => exact ⟨c3, by simp [deDocPairs, hdx], hc3, hb3, (hk1.trans hk2).trans hk3⟩
    | some v =>
      obtain ⟨c4, hrest, hc4, hb4, hk4⟩ := ih c3 (i + 1) n h ps hc3 hb3
        (kept_isSome ((hk1.trans hk2).trans hk3) hs) hp (by omega)
      simp only [hrest]
      cases hds : deDocPairs t (ps.drop (i + 1)) with
      | none => exact ⟨c4, by simp [deDocPairs, hdx, hds], hc4, hb4, ((hk1.trans hk2).trans hk3).trans hk4⟩
      | some vs => exact ⟨c4, by simp [deDocPairs, hdx, hds], hc4, hb4, ((hk1.trans hk2).trans hk3).trans hk4⟩

end SfVerif
