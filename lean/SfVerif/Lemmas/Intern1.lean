import SfVerif.Model.Proto
import SfVerif.Lemmas.Blit
/-! The interning operations at the level of a whole thread: every other protocol operation
    (reads, writes, logs, a new invocation) leaves the interner, the pending intern destination and
    the api crate's id cache untouched. -/
namespace SfVerif
open SfVerif.Gen

/-- the part of a thread the interning operations touch -/
structure IState where
  s : Interner
  pend : Option (Nat × Nat)
  cache : List (Bytes × Nat)

def Thread.istate (t : Thread) : IState := ⟨t.ctx.interner, t.lastIntern, t.cache⟩

/-- what one protocol operation does to that part -/
def IState.step (st : IState) : Op → IState
  | .intern bs => { st with s := (st.s.intern bs).1 }
  | .internreq n => { st with s := (st.s.preallocate n).1, pend := some ((st.s.preallocate n).2.2, n) }
  | .interncopy bs =>
    match st.pend with
    | none => st
    | some (off, n) => if bs.size > n then st else { st with s := st.s.copyAt off bs, pend := none }
  | .cached bs =>
    match st.cache.find? (fun p => p.1 == bs) with
    | some _ => st
    | none => { st with s := (st.s.intern bs).1, cache := (bs, (st.s.intern bs).2) :: st.cache }
  | _ => st

/-- the typed (de)serialisation conveniences of the protocol (they call the same entry points) -/
def Op.typed : Op → Bool
  | .deint _ _ | .de _ _ | .serrt _ _ => true
  | _ => false

namespace Ctx

theorem nodeOp_interner (c : Ctx) (h : Handle) (g : Node → Node × Got) (cs : Nat → PStep) :
    (c.nodeOp h g cs).1.interner = c.interner := by
  unfold nodeOp
  split
  · rfl
  · split
    · rfl
    · split
      · rfl
      · rfl
      · simp only []; split <;> rfl

theorem dispatch_interner (c : Ctx) (s : Scope) (a : Bool) (e1 e2 : Nat) (op : Handle → Ctx × RVal)
    (hop : ∀ h, (op h).1.interner = c.interner) : (c.dispatch s a e1 e2 op).1.interner = c.interner := by
  unfold dispatch
  split
  · split
    · rfl
    · split
      · exact hop _
      · split
        · exact hop _
        · rfl
      · rfl
  · rfl
  · split <;> rfl
  · rfl
  · rfl

theorem getAtIndex_interner (c : Ctx) (s : Scope) (i : Nat) : (c.getAtIndex s i).1.interner = c.interner :=
  dispatch_interner _ _ _ _ _ _ (fun _ => nodeOp_interner _ _ _ _)

theorem getKeyAtIndex_interner (c : Ctx) (s : Scope) (i : Nat) : (c.getKeyAtIndex s i).1.interner = c.interner :=
  dispatch_interner _ _ _ _ _ _ (fun _ => nodeOp_interner _ _ _ _)

theorem getObjProp_interner (c : Ctx) (s : Scope) (q : Bytes) : (c.getObjProp s q).1.interner = c.interner :=
  dispatch_interner _ _ _ _ _ _ (fun _ => nodeOp_interner _ _ _ _)

theorem inputGet_interner (c : Ctx) : c.inputGet.1.interner = c.interner := by
  unfold inputGet
  split <;> rfl

theorem getInternedObjProp_interner (c : Ctx) (s : Scope) (id : Nat) (r : Ctx × RVal)
    (h : c.getInternedObjProp s id = some r) : r.1.interner = c.interner := by
  unfold getInternedObjProp at h
  split at h
  · split at h
    · split at h
      · cases h
      · cases h; exact getObjProp_interner _ _ _
    · cases h; exact getObjProp_interner _ _ _
  · split at h
    · cases h
    · cases h; exact getObjProp_interner _ _ _
  · cases h; exact getObjProp_interner _ _ _

end Ctx

namespace Thread

theorem register_istate (t : Thread) (h : Handle) : (t.register h).1.istate = t.istate := by
  unfold register
  split <;> rfl

theorem fmtVal_istate (w : Nat) (t : Thread) (v : RVal) : (fmtVal w t v).1.istate = t.istate := by
  cases v <;> simp only [fmtVal] <;> first | rfl | exact register_istate _ _

end Thread
end SfVerif
