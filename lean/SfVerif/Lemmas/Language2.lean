import SfVerif.Lemmas.Language1
/-! The language of the grammar: completeness over whole call sequences, and soundness
    (the token string of every tree is accepted call by call and completes the document). -/
namespace SfVerif
open SfVerif.Gen

/-- every call of the sequence is accepted -/
def allOk (rs : List Nat) : Prop := ∀ r ∈ rs, r = WriteResult_Ok

theorem run_cons (g : G) (t : Tok) (ts : List Tok) :
    g.run (t :: ts) = ((g.step t).2 :: ((g.step t).1.run ts).1, ((g.step t).1.run ts).2) := by
  simp only [G.run]

theorem run_append (g : G) (ts us : List Tok) :
    g.run (ts ++ us) = ((g.run ts).1 ++ ((g.run ts).2.run us).1, ((g.run ts).2.run us).2) := by
  induction ts generalizing g with
  | nil => simp [G.run]
  | cons t ts ih => simp only [List.cons_append, run_cons, ih, List.cons_append]

/-- all calls accepted from a content state: it follows, and has recorded exactly those calls -/
theorem crun_sim : ∀ (ts : List Tok) (cg : CG), cg.wf → allOk (cg.erase.run ts).1 →
    ∃ cg' : CG, cg'.erase = (cg.erase.run ts).2 ∧ cg'.emitted = cg.emitted ++ ts ∧ cg'.wf
  | [], cg, hwf, _ => ⟨cg, rfl, by simp, hwf⟩
  | t :: ts, cg, hwf, hok => by
    rw [run_cons] at hok
    have h1 : (cg.erase.step t).2 = WriteResult_Ok := hok _ List.mem_cons_self
    obtain ⟨cg1, _, he, hem, hwf1⟩ := cstep_sim cg t hwf h1
    obtain ⟨cg', he', hem', hwf'⟩ := crun_sim ts cg1 hwf1 (by
      rw [he]; intro r hr; exact hok r (List.mem_cons_of_mem _ hr))
    refine ⟨cg', by rw [run_cons, he', he], by rw [hem', hem]; simp, hwf'⟩

/-- **completeness**: a call sequence that is accepted call by call from the empty document and
    leaves the document complete is the token string of a tree -/
theorem language_complete (ts : List Tok) (hok : allOk (G.empty.run ts).1) (hc : (G.empty.run ts).2 = .complete) :
    ∃ t : Tree, ts = t.toks := by
  obtain ⟨cg', he, hem, _⟩ := crun_sim ts .empty trivial hok
  rw [show CG.empty.erase = G.empty from rfl, hc] at he
  cases cg' with
  | empty => simp [CG.erase] at he
  | inside f fs => simp [CG.erase] at he
  | complete t => exact ⟨t, by simpa [CG.emitted] using hem.symm⟩

/-! ### soundness -/

/-- `g'` is `g` after one more value has been written at the current position -/
def valueSlot : G → G → Prop
  | .empty, g' => g' = .complete
  | .inside (.obj len p true) fs, g' => g' = .inside (.obj len (p + 1) false) fs
  | .inside (.arr len k) fs, g' => k < len ∧ g' = .inside (.arr len (k + 1)) fs
  | _, _ => False

theorem allOk_replicate (n : Nat) : allOk (List.replicate n WriteResult_Ok) := by
  intro r hr; exact (List.mem_replicate.mp hr).2

theorem allOk_append {a b : List Nat} (ha : allOk a) (hb : allOk b) : allOk (a ++ b) := by
  intro r hr
  rcases List.mem_append.mp hr with h | h
  · exact ha r h
  · exact hb r h

/-- opening a container at a value slot: the slot is claimed and the new frame is innermost;
    closing the full container lands on `g'` -/
theorem begin_at_slot {g g' : G} (h : valueSlot g g') :
    (∀ n, ∃ outer, g.step (.beginObj n) = (.inside (.obj n 0 false) outer, WriteResult_Ok) ∧ G.close outer = g') ∧
    (∀ n, ∃ outer, g.step (.beginArr n) = (.inside (.arr n 0) outer, WriteResult_Ok) ∧ G.close outer = g') := by
  cases g with
  | empty =>
    simp only [valueSlot] at h; subst h
    exact ⟨fun n => ⟨[], rfl, rfl⟩, fun n => ⟨[], rfl, rfl⟩⟩
  | complete => simp [valueSlot] at h
  | inside f fs =>
    cases f with
    | obj len p hk =>
      cases hk with
      | false => simp [valueSlot] at h
      | true =>
        simp only [valueSlot] at h; subst h
        exact ⟨fun n => ⟨.obj len (p + 1) false :: fs, by simp [G.step, Frame.put], rfl⟩,
               fun n => ⟨.obj len (p + 1) false :: fs, by simp [G.step, Frame.put], rfl⟩⟩
    | arr len k =>
      simp only [valueSlot] at h
      obtain ⟨hk, rfl⟩ := h
      exact ⟨fun n => ⟨.arr len (k + 1) :: fs, by simp [G.step, Frame.put, Nat.not_le.mpr hk], rfl⟩,
             fun n => ⟨.arr len (k + 1) :: fs, by simp [G.step, Frame.put, Nat.not_le.mpr hk], rfl⟩⟩

theorem scalar_at_slot {g g' : G} (h : valueSlot g g') :
    g.step .scalar = (g', WriteResult_Ok) ∧ g.step .string = (g', WriteResult_Ok) := by
  cases g with
  | empty => simp only [valueSlot] at h; subst h; exact ⟨rfl, rfl⟩
  | complete => simp [valueSlot] at h
  | inside f fs =>
    cases f with
    | obj len p hk =>
      cases hk with
      | false => simp [valueSlot] at h
      | true => simp only [valueSlot] at h; subst h; simp [G.step, G.value, Frame.put]
    | arr len k =>
      simp only [valueSlot] at h
      obtain ⟨hk, rfl⟩ := h
      simp [G.step, G.value, Frame.put, Nat.not_le.mpr hk]

mutual
/-- **soundness**: at any position where a value may be written, the calls that describe a tree
    are all accepted and leave exactly one more value written -/
theorem run_toks : ∀ (t : Tree) (g g' : G), valueSlot g g' →
    allOk (g.run t.toks).1 ∧ (g.run t.toks).2 = g'
  | .scalar, g, g', h => by
    have := (scalar_at_slot h).1
    simp [Tree.toks, G.run, this, allOk]
  | .string, g, g', h => by
    have := (scalar_at_slot h).2
    simp [Tree.toks, G.run, this, allOk]
  | .obj vs, g, g', h => by
    obtain ⟨outer, hstep, hclose⟩ := (begin_at_slot h).1 vs.length
    obtain ⟨h1, h2⟩ := run_pairs vs vs.length 0 outer (by omega)
    rw [Tree.toks, run_cons, hstep, run_append, h2]
    simp only [Nat.zero_add, G.run, G.step, and_self, if_true, hclose]
    exact ⟨by
      intro r hr
      rcases List.mem_cons.mp hr with rfl | hr
      · rfl
      · rcases List.mem_append.mp hr with hr | hr
        · exact h1 r hr
        · simpa using hr, trivial⟩
  | .arr xs, g, g', h => by
    obtain ⟨outer, hstep, hclose⟩ := (begin_at_slot h).2 xs.length
    obtain ⟨h1, h2⟩ := run_elems xs xs.length 0 outer (by omega)
    rw [Tree.toks, run_cons, hstep, run_append, h2]
    simp only [Nat.zero_add, G.run, G.step, if_true, hclose]
    exact ⟨by
      intro r hr
      rcases List.mem_cons.mp hr with rfl | hr
      · rfl
      · rcases List.mem_append.mp hr with hr | hr
        · exact h1 r hr
        · simpa using hr, trivial⟩
theorem run_pairs : ∀ (vs : List Tree) (n p : Nat) (outer : List Frame), p + vs.length = n →
    allOk ((G.inside (.obj n p false) outer).run (Tree.pairToks vs)).1 ∧
    ((G.inside (.obj n p false) outer).run (Tree.pairToks vs)).2 = .inside (.obj n (p + vs.length) false) outer
  | [], n, p, outer, _ => by simp [Tree.pairToks, G.run, allOk]
  | v :: vs, n, p, outer, hn => by
    simp only [List.length_cons] at hn
    have hkey : (G.inside (.obj n p false) outer).step .string = (.inside (.obj n p true) outer, WriteResult_Ok) := by
      simp [G.step, G.value, Frame.put, show ¬ (n ≤ p) by omega]
    obtain ⟨h1, h2⟩ := run_toks v (.inside (.obj n p true) outer) (.inside (.obj n (p + 1) false) outer) rfl
    obtain ⟨h3, h4⟩ := run_pairs vs n (p + 1) outer (by omega)
    rw [Tree.pairToks, run_cons, hkey, run_append, h2, h4]
    refine ⟨?_, by simp only [List.length_cons]; congr 2; omega⟩
    intro r hr
    rcases List.mem_cons.mp hr with rfl | hr
    · rfl
    · exact allOk_append h1 h3 r hr
theorem run_elems : ∀ (xs : List Tree) (n k : Nat) (outer : List Frame), k + xs.length = n →
    allOk ((G.inside (.arr n k) outer).run (Tree.elemToks xs)).1 ∧
    ((G.inside (.arr n k) outer).run (Tree.elemToks xs)).2 = .inside (.arr n (k + xs.length)) outer
  | [], n, k, outer, _ => by simp [Tree.elemToks, G.run, allOk]
  | x :: xs, n, k, outer, hn => by
    simp only [List.length_cons] at hn
    obtain ⟨h1, h2⟩ := run_toks x (.inside (.arr n k) outer) (.inside (.arr n (k + 1)) outer) ⟨by omega, rfl⟩
    obtain ⟨h3, h4⟩ := run_elems xs n (k + 1) outer (by omega)
    rw [Tree.elemToks, run_append, h2, h4]
    exact ⟨allOk_append h1 h3, by simp only [List.length_cons]; congr 2; omega⟩
end

/-- from the empty document: accepted call by call, and complete at the end -/
theorem language_sound (t : Tree) : allOk (G.empty.run t.toks).1 ∧ (G.empty.run t.toks).2 = .complete :=
  run_toks t .empty .complete rfl

end SfVerif
