import SfVerif.Spec.Language
import SfVerif.Lemmas.Codes
/-! Completeness: every call sequence the grammar accepts call by call and that ends in a
    complete document is the token string of a tree. -/
namespace SfVerif
open SfVerif.Gen

theorem pairToks_snoc (done : List Tree) (t : Tree) :
    Tree.pairToks (done ++ [t]) = Tree.pairToks done ++ (.string :: t.toks) := by
  induction done with
  | nil => simp [Tree.pairToks]
  | cons d ds ih => simp [Tree.pairToks, ih]

theorem elemToks_snoc (done : List Tree) (t : Tree) :
    Tree.elemToks (done ++ [t]) = Tree.elemToks done ++ t.toks := by
  induction done with
  | nil => simp [Tree.elemToks]
  | cons d ds ih => simp [Tree.elemToks, ih]

theorem receive_erase (p : CFrame) (t : Tree) : (p.receive t).erase = p.eraseOuter := by
  cases p <;> simp [CFrame.receive, CFrame.erase, CFrame.eraseOuter]

theorem receive_emitted (p : CFrame) (t : Tree) (hp : p.outerOK) : (p.receive t).emitted = p.emitted ++ t.toks := by
  cases p with
  | obj len d hk =>
    simp only [CFrame.outerOK] at hp; subst hp
    simp [CFrame.receive, CFrame.emitted, pairToks_snoc]
  | arr len d => simp [CFrame.receive, CFrame.emitted, elemToks_snoc]

theorem close_erase (t : Tree) (fs : List CFrame) : (CG.close t fs).erase = G.close (fs.map CFrame.eraseOuter) := by
  cases fs with
  | nil => rfl
  | cons p rest => simp [CG.close, CG.erase, G.close, receive_erase]

theorem close_wf (t : Tree) (fs : List CFrame) (h : ∀ f ∈ fs, f.outerOK) : (CG.close t fs).wf := by
  cases fs with
  | nil => trivial
  | cons p rest => exact fun f hf => h f (List.mem_cons_of_mem _ hf)

/-- closing the innermost frame `f` (whose finished tree is `t`, `t.toks = f.emitted ++ [endTok]`) -/
theorem close_emitted (t : Tree) (f : CFrame) (fs : List CFrame) (endTok : Tok)
    (ht : t.toks = f.emitted ++ [endTok]) (h : ∀ p ∈ fs, p.outerOK) :
    (CG.close t fs).emitted = (CG.inside f fs).emitted ++ [endTok] := by
  cases fs with
  | nil => simp [CG.close, CG.emitted, ht]
  | cons p rest =>
    simp only [CG.close, CG.emitted, List.reverse_cons, List.flatMap_append, List.flatMap_cons, List.flatMap_nil,
      List.append_nil, List.append_assoc]
    rw [receive_emitted p t (h p List.mem_cons_self), ht]

/-- **one accepted call**: the content zipper follows the grammar, and records the call -/
theorem cstep_sim (cg : CG) (tok : Tok) (hwf : cg.wf) (hok : (cg.erase.step tok).2 = WriteResult_Ok) :
    ∃ cg', CG.step cg tok = some cg' ∧ cg'.erase = (cg.erase.step tok).1 ∧
      cg'.emitted = cg.emitted ++ [tok] ∧ cg'.wf := by
  cases cg with
  | empty =>
    cases tok <;> simp [CG.erase, G.step, G.value] at hok ⊢ <;>
      simp [CG.step, CG.erase, CG.emitted, CG.wf, Tree.toks, CFrame.erase, CFrame.emitted, Tree.pairToks, Tree.elemToks, CFrame.outerOK]
  | complete t => cases tok <;> simp [CG.erase, G.step, G.value] at hok
  | inside f fs =>
    simp only [CG.wf] at hwf
    cases f with
    | obj len done hk =>
      cases hk with
      | true =>
        cases tok with
        | scalar =>
          refine ⟨_, rfl, ?_, ?_, hwf⟩
          · simp [CG.erase, CFrame.erase, G.step, G.value, Frame.put]
          · simp [CG.emitted, CFrame.emitted, pairToks_snoc, Tree.toks]
        | string =>
          refine ⟨_, rfl, ?_, ?_, hwf⟩
          · simp [CG.erase, CFrame.erase, G.step, G.value, Frame.put]
          · simp [CG.emitted, CFrame.emitted, pairToks_snoc, Tree.toks]
        | beginObj n =>
          refine ⟨_, rfl, ?_, ?_, ?_⟩
          · simp [CG.erase, CFrame.erase, CFrame.eraseOuter, G.step, Frame.put]
          · simp [CG.emitted, CFrame.emitted, Tree.pairToks]
          · intro f hf
            rcases List.mem_cons.mp hf with rfl | hf
            · rfl
            · exact hwf f hf
        | beginArr n =>
          refine ⟨_, rfl, ?_, ?_, ?_⟩
          · simp [CG.erase, CFrame.erase, CFrame.eraseOuter, G.step, Frame.put]
          · simp [CG.emitted, CFrame.emitted, Tree.elemToks]
          · intro f hf
            rcases List.mem_cons.mp hf with rfl | hf
            · rfl
            · exact hwf f hf
        | endObj => simp [CG.erase, CFrame.erase, G.step] at hok
        | endArr => simp [CG.erase, CFrame.erase, G.step] at hok
      | false =>
        cases tok with
        | scalar => simp [CG.erase, CFrame.erase, G.step, G.value, Frame.put] at hok
        | string =>
          by_cases hlt : done.length < len
          · refine ⟨.inside (.obj len done true) fs, by simp [CG.step, hlt], ?_, ?_, hwf⟩
            · simp [CG.erase, CFrame.erase, G.step, G.value, Frame.put, Nat.not_le.mpr hlt]
            · simp [CG.emitted, CFrame.emitted]
          · simp [CG.erase, CFrame.erase, G.step, G.value, Frame.put, Nat.le_of_not_lt hlt] at hok
        | beginObj n => simp [CG.erase, CFrame.erase, G.step, Frame.put] at hok
        | beginArr n => simp [CG.erase, CFrame.erase, G.step, Frame.put] at hok
        | endObj =>
          by_cases heq : done.length = len
          · refine ⟨CG.close (.obj done) fs, by simp [CG.step, heq], ?_, ?_, close_wf _ _ hwf⟩
            · rw [close_erase]; simp [CG.erase, CFrame.erase, G.step, heq]
            · exact close_emitted (.obj done) (.obj len done false) fs .endObj
                (by simp [Tree.toks, CFrame.emitted, heq]) hwf
          · simp [CG.erase, CFrame.erase, G.step, heq] at hok
        | endArr => simp [CG.erase, CFrame.erase, G.step] at hok
    | arr len done =>
      cases tok with
      | scalar =>
        by_cases hlt : done.length < len
        · refine ⟨.inside (.arr len (done ++ [.scalar])) fs, by simp [CG.step, hlt], ?_, ?_, hwf⟩
          · simp [CG.erase, CFrame.erase, G.step, G.value, Frame.put, Nat.not_le.mpr hlt]
          · simp [CG.emitted, CFrame.emitted, elemToks_snoc, Tree.toks]
        · simp [CG.erase, CFrame.erase, G.step, G.value, Frame.put, Nat.le_of_not_lt hlt] at hok
      | string =>
        by_cases hlt : done.length < len
        · refine ⟨.inside (.arr len (done ++ [.string])) fs, by simp [CG.step, hlt], ?_, ?_, hwf⟩
          · simp [CG.erase, CFrame.erase, G.step, G.value, Frame.put, Nat.not_le.mpr hlt]
          · simp [CG.emitted, CFrame.emitted, elemToks_snoc, Tree.toks]
        · simp [CG.erase, CFrame.erase, G.step, G.value, Frame.put, Nat.le_of_not_lt hlt] at hok
      | beginObj n =>
        by_cases hlt : done.length < len
        · refine ⟨.inside (.obj n [] false) (.arr len done :: fs), by simp [CG.step, hlt], ?_, ?_, ?_⟩
          · simp [CG.erase, CFrame.erase, CFrame.eraseOuter, G.step, Frame.put, Nat.not_le.mpr hlt]
          · simp [CG.emitted, CFrame.emitted, Tree.pairToks]
          · intro f hf
            rcases List.mem_cons.mp hf with rfl | hf
            · trivial
            · exact hwf f hf
        · simp [CG.erase, CFrame.erase, G.step, Frame.put, Nat.le_of_not_lt hlt] at hok
      | beginArr n =>
        by_cases hlt : done.length < len
        · refine ⟨.inside (.arr n []) (.arr len done :: fs), by simp [CG.step, hlt], ?_, ?_, ?_⟩
          · simp [CG.erase, CFrame.erase, CFrame.eraseOuter, G.step, Frame.put, Nat.not_le.mpr hlt]
          · simp [CG.emitted, CFrame.emitted, Tree.elemToks]
          · intro f hf
            rcases List.mem_cons.mp hf with rfl | hf
            · trivial
            · exact hwf f hf
        · simp [CG.erase, CFrame.erase, G.step, Frame.put, Nat.le_of_not_lt hlt] at hok
      | endObj => simp [CG.erase, CFrame.erase, G.step] at hok
      | endArr =>
        by_cases heq : done.length = len
        · refine ⟨CG.close (.arr done) fs, by simp [CG.step, heq], ?_, ?_, close_wf _ _ hwf⟩
          · rw [close_erase]; simp [CG.erase, CFrame.erase, G.step, heq]
          · exact close_emitted (.arr done) (.arr len done) fs .endArr
              (by simp [Tree.toks, CFrame.emitted, heq]) hwf
        · simp [CG.erase, CFrame.erase, G.step, heq] at hok

end SfVerif
