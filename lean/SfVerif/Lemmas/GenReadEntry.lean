import SfVerif.Gen.ReadEntry
/-! The scope dispatch of the three mutating read entry points, regenerated from
    provider/src/read.rs, is the model's. -/
namespace SfVerif
open SfVerif.Gen

theorem gen_read_entries_eq (c : Ctx) (s : Scope) (i : Nat) (q : Bytes) :
    getAtIndexGen c s i = c.getAtIndex s i ∧ getKeyAtIndexGen c s i = c.getKeyAtIndex s i ∧
    getObjPropGen c s q = c.getObjProp s q := ⟨rfl, rfl, rfl⟩

/-- the interned-name lookup dispatches like the lookup by name (the model's `getInternedObjProp` hands the
    interned bytes to `getObjProp` once the scope is accepted) -/
theorem gen_interned_entry_eq (c : Ctx) (s : Scope) (q : Bytes) :
    getInternedObjPropGen c s q = c.getObjProp s q := rfl

end SfVerif
