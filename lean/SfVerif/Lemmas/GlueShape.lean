import SfVerif.Lemmas.Glue
/-! Decidable shape checks for a rewritten module (run by the kernel against the regenerated
    Gen/Glue.lean) and their soundness: a passed check yields exactly the hypotheses of the
    execution theorems in `Lemmas/Glue.lean`. -/
namespace SfVerif.Wasm

def isImport (fs : List Func) (i : Nat) (mod name ps rs : List Nat) : Bool :=
  match fs[i]? with
  | some { params := p, results := r, locals := [], body := none, imp := some (m, n) } =>
    m == mod && n == name && p == ps && r == rs
  | _ => false

theorem isImport_sound {fs : List Func} {i : Nat} {mod name ps rs : List Nat}
    (h : isImport fs i mod name ps rs = true) : fs[i]? = some (importFn mod name ps rs) := by
  unfold isImport at h
  split at h
  · rename_i p r m n heq
    simp at h
    obtain ⟨⟨⟨h1, h2⟩, h3⟩, h4⟩ := h
    subst h1 h2 h3 h4
    exact heq
  · simp at h

def isToProv (fs : List Func) (i : Nat) : Bool :=
  match fs[i]? with
  | some { params := [0, 0, 0], results := [], locals := [],
           body := some [.localGet 0, .localGet 1, .localGet 2, .memCopy 0 1], imp := none } => true
  | _ => false

theorem isToProv_sound {fs : List Func} {i : Nat} (h : isToProv fs i = true) : fs[i]? = some toProvFn := by
  unfold isToProv at h
  split at h
  · rename_i heq; exact heq
  · simp at h

def isToGuest (fs : List Func) (i : Nat) : Bool :=
  match fs[i]? with
  | some { params := [0, 0, 0], results := [], locals := [],
           body := some [.localGet 0, .localGet 1, .localGet 2, .memCopy 1 0], imp := none } => true
  | _ => false

theorem isToGuest_sound {fs : List Func} {i : Nat} (h : isToGuest fs i = true) : fs[i]? = some toGuestFn := by
  unfold isToGuest at h
  split at h
  · rename_i heq; exact heq
  · simp at h

/-- output string / intern glue at `f`, provider function `name : i32 → i64` -/
def checkStrIn (fs : List Func) (f : Nat) (mod name : List Nat) : Option (Nat × Nat) :=
  match fs[f]? with
  | some { params := [0, 0], results := [0], locals := [1],
           body := some [.localGet 1, .call pf, .localTee 2, .i64Const 32, .i64ShrU, .i32WrapI64,
                         .localGet 2, .i32WrapI64, .localGet 0, .localGet 1, .call cp],
           imp := none } =>
    if isImport fs pf mod name [0] [1] && isToProv fs cp then some (pf, cp) else none
  | _ => none

theorem checkStrIn_sound {fs : List Func} {f pf cp : Nat} {mod name : List Nat}
    (h : checkStrIn fs f mod name = some (pf, cp)) :
    fs[f]? = some (strInFn pf cp) ∧ fs[pf]? = some (importFn mod name [0] [1]) ∧ fs[cp]? = some toProvFn := by
  unfold checkStrIn at h
  split at h
  · rename_i pf' cp' heq
    split at h
    · rename_i hc
      simp at h hc
      obtain ⟨rfl, rfl⟩ := h
      exact ⟨heq, isImport_sound hc.1, isToProv_sound hc.2⟩
    · simp at h
  · simp at h

def checkReadStr (fs : List Func) (f : Nat) (mod name : List Nat) : Option (Nat × Nat) :=
  match fs[f]? with
  | some { params := [0, 0, 0], results := [], locals := [],
           body := some [.localGet 1, .localGet 0, .call a, .localGet 2, .call c], imp := none } =>
    if isImport fs a mod name [0] [0] && isToGuest fs c then some (a, c) else none
  | _ => none

theorem checkReadStr_sound {fs : List Func} {f a c : Nat} {mod name : List Nat}
    (h : checkReadStr fs f mod name = some (a, c)) :
    fs[f]? = some (readStrFn a c) ∧ fs[a]? = some (importFn mod name [0] [0]) ∧ fs[c]? = some toGuestFn := by
  unfold checkReadStr at h
  split at h
  · rename_i a' c' heq
    split at h
    · rename_i hc
      simp at h hc
      obtain ⟨rfl, rfl⟩ := h
      exact ⟨heq, isImport_sound hc.1, isToGuest_sound hc.2⟩
    · simp at h
  · simp at h

def isAlloc (fs : List Func) (al : Nat) (mod allocName : List Nat) : Option Nat :=
  match fs[al]? with
  | some { params := [0], results := [0], locals := [], body := some [.localGet 0, .call ai], imp := none } =>
    if isImport fs ai mod allocName [0] [0] then some ai else none
  | _ => none

theorem isAlloc_sound {fs : List Func} {al ai : Nat} {mod allocName : List Nat}
    (h : isAlloc fs al mod allocName = some ai) :
    fs[al]? = some (allocFn ai) ∧ fs[ai]? = some (importFn mod allocName [0] [0]) := by
  unfold isAlloc at h
  split at h
  · rename_i ai' heq
    split at h
    · rename_i hc
      simp at h
      subst h
      exact ⟨heq, isImport_sound hc⟩
    · simp at h
  · simp at h

def checkGetProp (fs : List Func) (f : Nat) (mod allocName propName : List Nat) : Option (Nat × Nat × Nat × Nat) :=
  match fs[f]? with
  | some { params := [1, 0, 0], results := [1], locals := [0],
           body := some [.localGet 2, .call al, .localTee 3, .localGet 1, .localGet 2, .call cp,
                         .localGet 0, .localGet 3, .localGet 2, .call pf],
           imp := none } =>
    match isAlloc fs al mod allocName with
    | some ai =>
      if isToProv fs cp && isImport fs pf mod propName [1, 0, 0] [1] then some (al, ai, cp, pf) else none
    | none => none
  | _ => none

theorem checkGetProp_sound {fs : List Func} {f al ai cp pf : Nat} {mod allocName propName : List Nat}
    (h : checkGetProp fs f mod allocName propName = some (al, ai, cp, pf)) :
    fs[f]? = some (getPropFn al cp pf) ∧ fs[al]? = some (allocFn ai) ∧
    fs[ai]? = some (importFn mod allocName [0] [0]) ∧ fs[cp]? = some toProvFn ∧
    fs[pf]? = some (importFn mod propName [1, 0, 0] [1]) := by
  unfold checkGetProp at h
  split at h
  · rename_i al' cp' pf' heq
    split at h
    · rename_i ai' hal
      split at h
      · rename_i hc
        simp at h hc
        obtain ⟨rfl, rfl, rfl, rfl⟩ := h
        have := isAlloc_sound hal
        exact ⟨heq, this.1, this.2, isToProv_sound hc.1, isImport_sound hc.2⟩
      · simp at h
    · simp at h
  · simp at h

def checkLog (fs : List Func) (f : Nat) (mod name : List Nat) : Option (Nat × Nat) :=
  match fs[f]? with
  | some { params := [0, 0], results := [], locals := [0, 0, 0, 0, 0, 0],
           body := some [.localGet 1, .call pf, .localTee 2, .i32Load 0 0, .localSet 3,
                         .localGet 2, .i32Load 0 4, .localSet 4,
                         .localGet 2, .i32Load 0 8, .localSet 5,
                         .localGet 4, .localGet 0, .localGet 3, .i32Add, .localTee 0, .localGet 5, .call cp,
                         .localGet 5, .localGet 1, .i32Ne,
                         .ifElse [.localGet 2, .i32Load 0 12, .localSet 6,
                                  .localGet 2, .i32Load 0 16, .localSet 7,
                                  .localGet 6, .localGet 0, .localGet 5, .i32Add, .localGet 7, .call cp2] []],
           imp := none } =>
    if cp2 == cp && isImport fs pf mod name [0] [0] && isToProv fs cp then some (pf, cp) else none
  | _ => none

theorem checkLog_sound {fs : List Func} {f pf cp : Nat} {mod name : List Nat}
    (h : checkLog fs f mod name = some (pf, cp)) :
    fs[f]? = some (logFn pf cp) ∧ fs[pf]? = some (importFn mod name [0] [0]) ∧ fs[cp]? = some toProvFn := by
  unfold checkLog at h
  split at h
  · rename_i pf' cp' cp2 heq
    split at h
    · rename_i hc
      simp at h hc
      obtain ⟨rfl, rfl⟩ := h
      obtain ⟨⟨hcc, h1⟩, h2⟩ := hc
      subst hcc
      exact ⟨heq, isImport_sound h1, isToProv_sound h2⟩
    · simp at h
  · simp at h

end SfVerif.Wasm
