import SfVerif.Lemmas.DeShape
/-! **typed deserialisation through the lazy reader = typed deserialisation of the decoded tree** -/
namespace SfVerif
open SfVerif.Gen

theorem box_null_iff (dc : Doc) (h : Handle) : dc.box h = .null ↔ dc = .nil := by
  cases dc <;> simp [Doc.box] <;> (split <;> simp)

theorem box_int {d : Doc} (hints : IntsOK d) (h : Handle) (z : Int) (hp : d.getPath? h.path = some (.int z)) :
    (Doc.int z).box h = .num (F64.ofInt z) ∧ (Doc.int z).num? = some (F64.ofInt z) := by
  have hn := ofInt_not_nan z (hints h.path z hp)
  refine ⟨?_, rfl⟩
  simp only [Doc.box, hn]
  rfl

theorem box_f32 (h : Handle) (v : Nat) :
    ((Doc.f32 v).box h = .err ErrorCode_ReadError ∧ (Doc.f32 v).num? = none) ∨
    ((Doc.f32 v).box h = .num (F64.ofF32 v) ∧ (Doc.f32 v).num? = some (F64.ofF32 v)) := by
  cases hn : F64.isNaN (F64.ofF32 v) with
  | true => left; refine ⟨?_, ?_⟩ <;> simp only [Doc.box, Doc.num?, hn] <;> rfl
  | false => right; refine ⟨?_, ?_⟩ <;> simp only [Doc.box, Doc.num?, hn] <;> rfl

theorem box_f64 (h : Handle) (v : Nat) :
    ((Doc.f64 v).box h = .err ErrorCode_ReadError ∧ (Doc.f64 v).num? = none) ∨
    ((Doc.f64 v).box h = .num v ∧ (Doc.f64 v).num? = some v) := by
  cases hn : F64.isNaN v with
  | true => left; refine ⟨?_, ?_⟩ <;> simp only [Doc.box, Doc.num?, hn] <;> rfl
  | false => right; refine ⟨?_, ?_⟩ <;> simp only [Doc.box, Doc.num?, hn] <;> rfl


theorem de_unit {b : Bytes} {d : Doc} (hd : Decodes b d) (hints : IntsOK d) : DeOK b d (.unit) := by
  intro c rv dc hc hb ⟨h, hrv, hp, _⟩
  refine ⟨c, ?_, hc, hb, HandlesKept.refl c⟩
  rw [deTy_unit, hrv]
  cases dc with
  | int z => obtain ⟨hbx, hnm⟩ := box_int hints h z hp; simp [hbx, hnm, deDoc]
  | f32 v => rcases box_f32 h v with ⟨hbx, hnm⟩ | ⟨hbx, hnm⟩ <;> simp [hbx, hnm, deDoc]
  | f64 v => rcases box_f64 h v with ⟨hbx, hnm⟩ | ⟨hbx, hnm⟩ <;> simp [hbx, hnm, deDoc]
  | nil => simp [Doc.box, deDoc]
  | bool x => simp [Doc.box, deDoc]
  | str bs => simp [Doc.box, deDoc]
  | arr xs => simp [Doc.box, deDoc]
  | map ps => simp [Doc.box, deDoc]

theorem de_bool {b : Bytes} {d : Doc} (hd : Decodes b d) (hints : IntsOK d) : DeOK b d (.bool) := by
  intro c rv dc hc hb ⟨h, hrv, hp, _⟩
  refine ⟨c, ?_, hc, hb, HandlesKept.refl c⟩
  rw [deTy_bool, hrv]
  cases dc with
  | int z => obtain ⟨hbx, hnm⟩ := box_int hints h z hp; simp [hbx, hnm, deDoc]
  | f32 v => rcases box_f32 h v with ⟨hbx, hnm⟩ | ⟨hbx, hnm⟩ <;> simp [hbx, hnm, deDoc]
  | f64 v => rcases box_f64 h v with ⟨hbx, hnm⟩ | ⟨hbx, hnm⟩ <;> simp [hbx, hnm, deDoc]
  | nil => simp [Doc.box, deDoc]
  | bool x => simp [Doc.box, deDoc]
  | str bs => simp [Doc.box, deDoc]
  | arr xs => simp [Doc.box, deDoc]
  | map ps => simp [Doc.box, deDoc]

theorem de_f64 {b : Bytes} {d : Doc} (hd : Decodes b d) (hints : IntsOK d) : DeOK b d (.f64) := by
  intro c rv dc hc hb ⟨h, hrv, hp, _⟩
  refine ⟨c, ?_, hc, hb, HandlesKept.refl c⟩
  rw [deTy_f64, hrv]
  cases dc with
  | int z => obtain ⟨hbx, hnm⟩ := box_int hints h z hp; simp [hbx, hnm, deDoc]
  | f32 v => rcases box_f32 h v with ⟨hbx, hnm⟩ | ⟨hbx, hnm⟩ <;> simp [hbx, hnm, deDoc]
  | f64 v => rcases box_f64 h v with ⟨hbx, hnm⟩ | ⟨hbx, hnm⟩ <;> simp [hbx, hnm, deDoc]
  | nil => simp [Doc.box, deDoc, Doc.num?]
  | bool x => simp [Doc.box, deDoc, Doc.num?]
  | str bs => simp [Doc.box, deDoc, Doc.num?]
  | arr xs => simp [Doc.box, deDoc, Doc.num?]
  | map ps => simp [Doc.box, deDoc, Doc.num?]

theorem de_int {b : Bytes} {d : Doc} (hd : Decodes b d) (hints : IntsOK d) (lo hi : Int) : DeOK b d (.int lo hi) := by
  intro c rv dc hc hb ⟨h, hrv, hp, _⟩
  refine ⟨c, ?_, hc, hb, HandlesKept.refl c⟩
  rw [deTy_int', hrv, deDoc_int]
  cases dc with
  | int z => obtain ⟨hbx, hnm⟩ := box_int hints h z hp; simp only [hbx, hnm]
  | f32 v => rcases box_f32 h v with ⟨hbx, hnm⟩ | ⟨hbx, hnm⟩ <;> simp only [hbx, hnm]
  | f64 v => rcases box_f64 h v with ⟨hbx, hnm⟩ | ⟨hbx, hnm⟩ <;> simp only [hbx, hnm]
  | nil => rfl
  | bool x => rfl
  | str bs => rfl
  | arr xs => rfl
  | map ps => rfl

theorem de_str {b : Bytes} {d : Doc} (hd : Decodes b d) (hints : IntsOK d) : DeOK b d (.str) := by
  intro c rv dc hc hb ⟨h, hrv, hp, hv⟩
  refine ⟨c, ?_, hc, hb, HandlesKept.refl c⟩
  rw [deTy_str, hrv]
  cases dc with
  | str bs =>
    have := stringAt_doc hc (hb ▸ hd) (hv rfl) hp
    simp [Doc.box, deDoc, this]
  | int z => obtain ⟨hbx, hnm⟩ := box_int hints h z hp; simp [hbx, hnm, deDoc]
  | f32 v => rcases box_f32 h v with ⟨hbx, hnm⟩ | ⟨hbx, hnm⟩ <;> simp [hbx, hnm, deDoc]
  | f64 v => rcases box_f64 h v with ⟨hbx, hnm⟩ | ⟨hbx, hnm⟩ <;> simp [hbx, hnm, deDoc]
  | nil => simp [Doc.box, deDoc]
  | bool x => simp [Doc.box, deDoc]
  | arr xs => simp [Doc.box, deDoc]
  | map ps => simp [Doc.box, deDoc]

theorem de_char {b : Bytes} {d : Doc} (hd : Decodes b d) (hints : IntsOK d) : DeOK b d (.char) := by
  intro c rv dc hc hb ⟨h, hrv, hp, hv⟩
  refine ⟨c, ?_, hc, hb, HandlesKept.refl c⟩
  rw [deTy_char, hrv]
  cases dc with
  | str bs =>
    have := stringAt_doc hc (hb ▸ hd) (hv rfl) hp
    simp [Doc.box, deDoc, this]
  | int z => obtain ⟨hbx, hnm⟩ := box_int hints h z hp; simp [hbx, hnm, deDoc]
  | f32 v => rcases box_f32 h v with ⟨hbx, hnm⟩ | ⟨hbx, hnm⟩ <;> simp [hbx, hnm, deDoc]
  | f64 v => rcases box_f64 h v with ⟨hbx, hnm⟩ | ⟨hbx, hnm⟩ <;> simp [hbx, hnm, deDoc]
  | nil => simp [Doc.box, deDoc]
  | bool x => simp [Doc.box, deDoc]
  | arr xs => simp [Doc.box, deDoc]
  | map ps => simp [Doc.box, deDoc]

theorem de_opt {b : Bytes} {d : Doc} (hd : Decodes b d) (hints : IntsOK d) (t : Ty) (iht : DeOK b d t) : DeOK b d (.opt t) := by
  intro c rv dc hc hb hbox
  obtain ⟨h, hrv, hp, hv⟩ := hbox
  by_cases hnil : dc = .nil
  · subst hnil
    refine ⟨c, ?_, hc, hb, HandlesKept.refl c⟩
    rw [hrv]; simp [Doc.box, deTy_opt_null, deDoc]
  · have hne : rv ≠ .null := by rw [hrv]; exact fun hh => hnil ((box_null_iff dc h).mp hh)
    obtain ⟨c', hde, hc', hb', hk'⟩ := iht c rv dc hc hb ⟨h, hrv, hp, hv⟩
    refine ⟨c', ?_, hc', hb', hk'⟩
    rw [deTy_opt c t rv hne, hde]
    cases dc with
    | nil => exact absurd rfl hnil
    | bool x => simp only [deDoc]; cases deDoc t (.bool x) <;> rfl
    | int z => simp only [deDoc]; cases deDoc t (.int z) <;> rfl
    | f32 v => simp only [deDoc]; cases deDoc t (.f32 v) <;> rfl
    | f64 v => simp only [deDoc]; cases deDoc t (.f64 v) <;> rfl
    | str bs => simp only [deDoc]; cases deDoc t (.str bs) <;> rfl
    | arr xs => simp only [deDoc]; cases deDoc t (.arr xs) <;> rfl
    | map ps => simp only [deDoc]; cases deDoc t (.map ps) <;> rfl

theorem de_vec {b : Bytes} {d : Doc} (hd : Decodes b d) (hints : IntsOK d) (t : Ty) (iht : DeOK b d t) : DeOK b d (.vec t) := by
  intro c rv dc hc hb ⟨h, hrv, hp, hv⟩
  cases dc with
  | arr xs =>
    obtain ⟨c', hde, hc', hb', hk'⟩ := deElems_doc hd iht xs.length c 0 xs.length h xs hc hb (hv rfl) hp (by omega)
    refine ⟨c', ?_, hc', hb', hk'⟩
    rw [hrv]; simp only [Doc.box, deTy_vec_arr, hde, List.drop_zero, deDoc]
    cases deDocs t xs <;> rfl
  | int z =>
    obtain ⟨hbx, _⟩ := box_int hints h z hp
    exact ⟨c, by rw [hrv, hbx, deTy_vec_other _ _ _ (by simp)]; simp [deDoc], hc, hb, HandlesKept.refl c⟩
  | f32 v =>
    rcases box_f32 h v with ⟨hbx, _⟩ | ⟨hbx, _⟩ <;>
      exact ⟨c, by rw [hrv, hbx, deTy_vec_other _ _ _ (by simp)]; simp [deDoc], hc, hb, HandlesKept.refl c⟩
  | f64 v =>
    rcases box_f64 h v with ⟨hbx, _⟩ | ⟨hbx, _⟩ <;>
      exact ⟨c, by rw [hrv, hbx, deTy_vec_other _ _ _ (by simp)]; simp [deDoc], hc, hb, HandlesKept.refl c⟩
  | nil => exact ⟨c, by rw [hrv, deTy_vec_other _ _ _ (by simp [Doc.box])]; simp [deDoc], hc, hb, HandlesKept.refl c⟩
  | bool x => exact ⟨c, by rw [hrv, deTy_vec_other _ _ _ (by simp [Doc.box])]; simp [deDoc], hc, hb, HandlesKept.refl c⟩
  | str bs => exact ⟨c, by rw [hrv, deTy_vec_other _ _ _ (by simp [Doc.box])]; simp [deDoc], hc, hb, HandlesKept.refl c⟩
  | map ps => exact ⟨c, by rw [hrv, deTy_vec_other _ _ _ (by simp [Doc.box])]; simp [deDoc], hc, hb, HandlesKept.refl c⟩

theorem de_arrN {b : Bytes} {d : Doc} (hd : Decodes b d) (hints : IntsOK d) (n' : Nat) (t : Ty) (iht : DeOK b d t) : DeOK b d (.arrN n' t) := by
  intro c rv dc hc hb ⟨h, hrv, hp, hv⟩
  cases dc with
  | arr xs =>
    by_cases hlen : xs.length ≠ n'
    · exact ⟨c, by rw [hrv]; simp only [Doc.box, deTy_arrN_arr, deDoc, if_pos hlen], hc, hb, HandlesKept.refl c⟩
    · obtain ⟨c', hde, hc', hb', hk'⟩ := deElems_doc hd iht xs.length c 0 xs.length h xs hc hb (hv rfl) hp (by omega)
      refine ⟨c', ?_, hc', hb', hk'⟩
      rw [hrv]; simp only [Doc.box, deTy_arrN_arr, if_neg hlen, hde, List.drop_zero, deDoc]
      cases deDocs t xs <;> rfl
  | int z =>
    obtain ⟨hbx, _⟩ := box_int hints h z hp
    exact ⟨c, by rw [hrv, hbx, deTy_arrN_other _ _ _ _ (by simp)]; simp [deDoc], hc, hb, HandlesKept.refl c⟩
  | f32 v =>
    rcases box_f32 h v with ⟨hbx, _⟩ | ⟨hbx, _⟩ <;>
      exact ⟨c, by rw [hrv, hbx, deTy_arrN_other _ _ _ _ (by simp)]; simp [deDoc], hc, hb, HandlesKept.refl c⟩
  | f64 v =>
    rcases box_f64 h v with ⟨hbx, _⟩ | ⟨hbx, _⟩ <;>
      exact ⟨c, by rw [hrv, hbx, deTy_arrN_other _ _ _ _ (by simp)]; simp [deDoc], hc, hb, HandlesKept.refl c⟩
  | nil => exact ⟨c, by rw [hrv, deTy_arrN_other _ _ _ _ (by simp [Doc.box])]; simp [deDoc], hc, hb, HandlesKept.refl c⟩
  | bool x => exact ⟨c, by rw [hrv, deTy_arrN_other _ _ _ _ (by simp [Doc.box])]; simp [deDoc], hc, hb, HandlesKept.refl c⟩
  | str bs => exact ⟨c, by rw [hrv, deTy_arrN_other _ _ _ _ (by simp [Doc.box])]; simp [deDoc], hc, hb, HandlesKept.refl c⟩
  | map ps => exact ⟨c, by rw [hrv, deTy_arrN_other _ _ _ _ (by simp [Doc.box])]; simp [deDoc], hc, hb, HandlesKept.refl c⟩

theorem de_tup {b : Bytes} {d : Doc} (hd : Decodes b d) (hints : IntsOK d) (ts : List Ty) (ihts : ∀ t ∈ ts, DeOK b d t) : DeOK b d (.tup ts) := by
  intro c rv dc hc hb ⟨h, hrv, hp, hv⟩
  cases dc with
  | arr xs =>
    by_cases hlen : xs.length ≠ ts.length
    · exact ⟨c, by rw [hrv]; simp only [Doc.box, deTy_tup_arr, deDoc, if_pos hlen], hc, hb, HandlesKept.refl c⟩
    · obtain ⟨c', hde, hc', hb', hk'⟩ := deTuple_doc hd ts ihts c 0 xs.length h xs hc hb (hv rfl) hp (by omega)
      refine ⟨c', ?_, hc', hb', hk'⟩
      rw [hrv]; simp only [Doc.box, deTy_tup_arr, if_neg hlen, hde, List.drop_zero, deDoc]
      cases deDocTuple ts xs <;> rfl
  | int z =>
    obtain ⟨hbx, _⟩ := box_int hints h z hp
    exact ⟨c, by rw [hrv, hbx, deTy_tup_other _ _ _ (by simp)]; simp [deDoc], hc, hb, HandlesKept.refl c⟩
  | f32 v =>
    rcases box_f32 h v with ⟨hbx, _⟩ | ⟨hbx, _⟩ <;>
      exact ⟨c, by rw [hrv, hbx, deTy_tup_other _ _ _ (by simp)]; simp [deDoc], hc, hb, HandlesKept.refl c⟩
  | f64 v =>
    rcases box_f64 h v with ⟨hbx, _⟩ | ⟨hbx, _⟩ <;>
      exact ⟨c, by rw [hrv, hbx, deTy_tup_other _ _ _ (by simp)]; simp [deDoc], hc, hb, HandlesKept.refl c⟩
  | nil => exact ⟨c, by rw [hrv, deTy_tup_other _ _ _ (by simp [Doc.box])]; simp [deDoc], hc, hb, HandlesKept.refl c⟩
  | bool x => exact ⟨c, by rw [hrv, deTy_tup_other _ _ _ (by simp [Doc.box])]; simp [deDoc], hc, hb, HandlesKept.refl c⟩
  | str bs => exact ⟨c, by rw [hrv, deTy_tup_other _ _ _ (by simp [Doc.box])]; simp [deDoc], hc, hb, HandlesKept.refl c⟩
  | map ps => exact ⟨c, by rw [hrv, deTy_tup_other _ _ _ (by simp [Doc.box])]; simp [deDoc], hc, hb, HandlesKept.refl c⟩

theorem de_map {b : Bytes} {d : Doc} (hd : Decodes b d) (hints : IntsOK d) (t : Ty) (iht : DeOK b d t) : DeOK b d (.map t) := by
  intro c rv dc hc hb ⟨h, hrv, hp, hv⟩
  cases dc with
  | map ps =>
    obtain ⟨c', hde, hc', hb', hk'⟩ := dePairs_doc hd iht ps.length c 0 ps.length h ps hc hb (hv rfl) hp (by omega)
    refine ⟨c', ?_, hc', hb', hk'⟩
    rw [hrv]; simp only [Doc.box, deTy_map_obj, hde, List.drop_zero, deDoc]
    cases deDocPairs t ps <;> rfl
  | int z =>
    obtain ⟨hbx, _⟩ := box_int hints h z hp
    exact ⟨c, by rw [hrv, hbx, deTy_map_other _ _ _ (by simp)]; simp [deDoc], hc, hb, HandlesKept.refl c⟩
  | f32 v =>
    rcases box_f32 h v with ⟨hbx, _⟩ | ⟨hbx, _⟩ <;>
      exact ⟨c, by rw [hrv, hbx, deTy_map_other _ _ _ (by simp)]; simp [deDoc], hc, hb, HandlesKept.refl c⟩
  | f64 v =>
    rcases box_f64 h v with ⟨hbx, _⟩ | ⟨hbx, _⟩ <;>
      exact ⟨c, by rw [hrv, hbx, deTy_map_other _ _ _ (by simp)]; simp [deDoc], hc, hb, HandlesKept.refl c⟩
  | nil => exact ⟨c, by rw [hrv, deTy_map_other _ _ _ (by simp [Doc.box])]; simp [deDoc], hc, hb, HandlesKept.refl c⟩
  | bool x => exact ⟨c, by rw [hrv, deTy_map_other _ _ _ (by simp [Doc.box])]; simp [deDoc], hc, hb, HandlesKept.refl c⟩
  | str bs => exact ⟨c, by rw [hrv, deTy_map_other _ _ _ (by simp [Doc.box])]; simp [deDoc], hc, hb, HandlesKept.refl c⟩
  | arr xs => exact ⟨c, by rw [hrv, deTy_map_other _ _ _ (by simp [Doc.box])]; simp [deDoc], hc, hb, HandlesKept.refl c⟩

theorem deTy_doc_aux {b : Bytes} {d : Doc} (hd : Decodes b d) (hints : IntsOK d) :
    ∀ (n : Nat) (ty : Ty), sizeOf ty ≤ n → DeOK b d ty := by
  intro n
  induction n with
  | zero => intro ty h; cases ty <;> simp at h
  | succ n ih =>
    intro ty hsz
    cases ty with
    | unit => exact de_unit hd hints
    | bool => exact de_bool hd hints
    | f64 => exact de_f64 hd hints
    | str => exact de_str hd hints
    | char => exact de_char hd hints
    | int lo hi => exact de_int hd hints lo hi
    | opt t => exact de_opt hd hints t (ih t (by simp at hsz; omega))
    | vec t => exact de_vec hd hints t (ih t (by simp at hsz; omega))
    | map t => exact de_map hd hints t (ih t (by simp at hsz; omega))
    | arrN n' t => exact de_arrN hd hints n' t (ih t (by simp at hsz; omega))
    | tup ts => exact de_tup hd hints ts (fun t ht => ih t (by have := List.sizeOf_lt_of_mem ht; simp at hsz; omega))

/-- **typed deserialisation through the lazy reader = typed deserialisation of the decoded tree**,
    for every type of the family -/
theorem deTy_doc {b : Bytes} {d : Doc} (hd : Decodes b d) (hints : IntsOK d) (ty : Ty) : DeOK b d ty :=
  deTy_doc_aux hd hints (sizeOf ty) ty (Nat.le_refl _)

end SfVerif
