import SfVerif.Lemmas.DocLink4
/-! keys by index, properties by name and lengths, in terms of the decoded tree -/
namespace SfVerif
open SfVerif.Gen

/-- pair `i` of a decoded map, as the sequential walk finds it -/
theorem doc_pair {b : Bytes} {f pos e : Nat} {ps : List (Doc × Doc)} (hf : f ≤ eagerFuel b)
    (hdec : decodeAt b f pos = some (.map ps, e)) (hks : (Doc.map ps).keysStr = true)
    {i : Nat} {kd vd : Doc} (hg : ps[i]? = some (kd, vd)) :
    ∃ len body kp ko kl ke hdv e2, readHdr b pos = some (.map len body) ∧ ps.length = len ∧ i < len ∧
      specPair b pos i = some (kp, ko, kl, ke, hdv) ∧
      kd = .str (b.extract ko (ko + kl)) ∧ ko + kl ≤ b.size ∧
      decodeAt b (f - 1) ke = some (vd, e2) ∧ vd.keysStr = true := by
  obtain ⟨_, _, _, hd, hh, hdoc, _, hmap⟩ := dec_ok b f pos (.map ps) e hdec hks
  cases hd with
  | map len body =>
    obtain ⟨ps', hx, hn⟩ := hmap len body rfl
    simp only [Doc.map.injEq] at hx; subst hx
    simp only [HdrDoc] at hdoc
    have hi : i < len := by
      rw [← hdoc]
      cases hlt : decide (i < ps.length) with
      | true => simpa using hlt
      | false => have : ps.length ≤ i := by simpa using hlt
                 rw [List.getElem?_eq_none this] at hg; cases hg
    obtain ⟨p, ke, e1, e2, hp, h1, ⟨ko, kl, hk⟩, h3, h4, h5⟩ :=
      decodePairs_get len body ps e hn (by simpa [Doc.keysStr] using hks) i kd vd hg
    have hlift := skip_mono_le b (show f - 1 ≤ eagerFuel b by omega)
    have hkp : specKeyPos b pos i = some p := by
      simp only [specKeyPos, hh]; rw [if_pos hi]; exact hlift.2.2 _ _ _ hp
    obtain ⟨_, _, _, hdv, hhv, _, _, _⟩ := dec_ok b (f - 1) ke vd e2 h3 h5
    -- the key document is the string its header announces
    obtain ⟨_, _, _, hdk, hhk, hdock, _, _⟩ := dec_ok b (f - 1) p kd e1 h1 h4
    rw [hk] at hhk; simp only [Option.some.injEq] at hhk; subst hhk
    have hkd : kd = .str (b.extract ko (ko + kl)) ∧ ko + kl ≤ b.size := by
      cases kd <;> simp [HdrDoc, Doc.numBits?] at hdock
      exact ⟨by rw [hdock.1], hdock.2⟩
    exact ⟨len, body, p, ko, kl, ke, hdv, e2, hh, hdoc, hi, by simp only [specPair, hkp, hk, hhv], hkd.1, hkd.2, h3, h5⟩
  | scalar v ee => cases v <;> simp [HdrDoc, Doc.numBits?] at hdoc
  | arr l bd => simp [HdrDoc] at hdoc

theorem getKeyAtIndex_doc {b : Bytes} {d c : Doc} (h : Decodes b d) {hh : Handle} (hc : d.getPath? hh.path = some c) (i : Nat) :
    Spec.getKeyAtIndex b hh i = DocSpec.getKeyAtIndex c hh i := by
  obtain ⟨p, f, e, hd, hp, hdc, hf, hk, hrd, hdoc⟩ := doc_at h hc
  cases c with
  | map ps =>
    cases hx : ps[i]? with
    | none =>
      cases hd with
      | map len body =>
        simp only [HdrDoc] at hdoc
        have : ¬ i < len := by rw [← hdoc]; intro hlt; rw [List.getElem?_eq_getElem hlt] at hx; cases hx
        simp only [Spec.getKeyAtIndex, hp, hrd, if_neg this, DocSpec.getKeyAtIndex, hx]
      | scalar v ee => cases v <;> simp [HdrDoc, Doc.numBits?] at hdoc
      | arr l bd => simp [HdrDoc] at hdoc
    | some x =>
      obtain ⟨kd, vd⟩ := x
      obtain ⟨len, body, kp, ko, kl, ke, hdv, e2, hm, _, hi, hsp, _, _, _, _⟩ := doc_pair hf hdc hk hx
      simp only [Spec.getKeyAtIndex, hp, hm, if_pos hi, hsp, DocSpec.getKeyAtIndex, hx]
      exact valueAt_doc h (by rw [Doc.getPath?_append, hc]; simp [Doc.child?, hx]) _
  | arr xs =>
    cases hd with
    | arr len body => simp [Spec.getKeyAtIndex, hp, hrd, DocSpec.getKeyAtIndex]
    | scalar v ee => cases v <;> simp [HdrDoc, Doc.numBits?] at hdoc
    | map l bd => simp [HdrDoc] at hdoc
  | nil => cases hd with
    | scalar v ee => simp [Spec.getKeyAtIndex, hp, hrd, DocSpec.getKeyAtIndex]
    | arr l bd => simp [HdrDoc] at hdoc
    | map l bd => simp [HdrDoc] at hdoc
  | bool x => cases hd with
    | scalar v ee => simp [Spec.getKeyAtIndex, hp, hrd, DocSpec.getKeyAtIndex]
    | arr l bd => simp [HdrDoc] at hdoc
    | map l bd => simp [HdrDoc] at hdoc
  | int z => cases hd with
    | scalar v ee => simp [Spec.getKeyAtIndex, hp, hrd, DocSpec.getKeyAtIndex]
    | arr l bd => simp [HdrDoc] at hdoc
    | map l bd => simp [HdrDoc] at hdoc
  | f32 v => cases hd with
    | scalar v ee => simp [Spec.getKeyAtIndex, hp, hrd, DocSpec.getKeyAtIndex]
    | arr l bd => simp [HdrDoc] at hdoc
    | map l bd => simp [HdrDoc] at hdoc
  | f64 v => cases hd with
    | scalar v ee => simp [Spec.getKeyAtIndex, hp, hrd, DocSpec.getKeyAtIndex]
    | arr l bd => simp [HdrDoc] at hdoc
    | map l bd => simp [HdrDoc] at hdoc
  | str bs => cases hd with
    | scalar v ee => simp [Spec.getKeyAtIndex, hp, hrd, DocSpec.getKeyAtIndex]
    | arr l bd => simp [HdrDoc] at hdoc
    | map l bd => simp [HdrDoc] at hdoc

theorem getValLen_doc {b : Bytes} {d c : Doc} (h : Decodes b d) {hh : Handle} (hc : d.getPath? hh.path = some c) :
    Spec.getValLen b hh = some (DocSpec.getValLen c) := by
  obtain ⟨p, f, e, hd, hp, hdc, hf, hk, hrd, hdoc⟩ := doc_at h hc
  have hhdr : Spec.hdrAt b hh = some hd := by simp only [Spec.hdrAt, hp, hrd]
  simp only [Spec.getValLen, hhdr]
  cases hd with
  | scalar v ee =>
    cases v with
    | null => cases c <;> simp [HdrDoc, Doc.numBits?] at hdoc <;> rfl
    | bool x => cases c <;> simp [HdrDoc, Doc.numBits?] at hdoc <;> rfl
    | num bits => cases c <;> simp [HdrDoc, Doc.numBits?] at hdoc <;> rfl
    | str off len =>
      cases c <;> simp [HdrDoc, Doc.numBits?] at hdoc
      obtain ⟨rfl, hle⟩ := hdoc
      simp [mkNode, Node.valueLength, DocSpec.getValLen, Array.size_extract]; omega
  | arr len body => cases c <;> simp [HdrDoc] at hdoc; subst hdoc; rfl
  | map len body => cases c <;> simp [HdrDoc] at hdoc; subst hdoc; rfl

end SfVerif
