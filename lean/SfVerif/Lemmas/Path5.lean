import SfVerif.Lemmas.Path4
/-! **`updateAt` keeps the root a correct partial view** -/
namespace SfVerif
open SfVerif.Gen

theorem updateAt_inv {b : Bytes} {g : Node → Node × Got} (hg : NodeOpOK b g) :
    ∀ (path : Path) {pos : Nat} {n n' : Node} {got : Got}, Inv b pos n →
      n.updateAt path g = some (n', got) → Inv b pos n'
  | [], pos, n, n', got, hinv, h => by
    simp only [Node.updateAt, Option.some.injEq] at h
    have := hg.inv pos n hinv
    rw [h] at this; exact this
  | .key i :: rest, pos, n, n', got, hinv, h => by simp [Node.updateAt] at h
  | .elem i :: rest, pos, n, n', got, hinv, h => by
    cases hinv with
    | scalar hh => simp [Node.updateAt] at h
    | objClosed hh hlen hpre => simp [Node.updateAt] at h
    | objOpened hh hlen hpre hk hcomp hl => simp [Node.updateAt] at h
    | @arrClosed pos len body elems e hh hlen hpre =>
      simp only [Node.updateAt] at h
      by_cases hi : i < elems.length
      · rw [if_pos hi] at h
        cases hu : elems.updateRev (elems.length - 1 - i) rest g with
        | none => rw [hu] at h; cases h
        | some x =>
          obtain ⟨es', r⟩ := x
          rw [hu] at h; simp only [Option.some.injEq, Prod.mk.injEq] at h
          obtain ⟨rfl, rfl⟩ := h
          have : es' = elems := NodeList.updateRev_id g rest elems _ es' r hu (by
            intro c c' hc hcu
            obtain ⟨p, e', hdc⟩ := pre_getRev_done hpre hc
            exact updateAt_done_id hg rest hdc hcu)
          rw [this]; exact Inv.arrClosed hh hlen hpre
      · rw [if_neg hi] at h; cases h
    | @arrOpened pos len body init last e hh hlen hpre hcomp hl =>
      simp only [Node.updateAt] at h
      by_cases hi : i < (NodeList.snoc init last).length
      · rw [if_pos hi] at h
        simp only [NodeList.length] at hi h
        by_cases hlast : i = init.length
        · rw [show init.length + 1 - 1 - i = 0 by omega] at h
          simp only [NodeList.updateRev] at h
          cases hu : last.updateAt rest g with
          | none => rw [hu] at h; cases h
          | some x =>
            obtain ⟨last', r⟩ := x
            rw [hu] at h; simp only [Option.some.injEq, Prod.mk.injEq] at h
            obtain ⟨rfl, rfl⟩ := h
            have hl' := updateAt_inv hg rest hl hu
            have hext := (updateAt_spec g hg.ext rest last last' r hu).1
            exact Inv.arrOpened hh hlen hpre (by rw [shape_comp hext.shape]; exact hcomp) hl'
        · rw [show init.length + 1 - 1 - i = (init.length - 1 - i) + 1 by omega] at h
          simp only [NodeList.updateRev] at h
          cases hu : init.updateRev (init.length - 1 - i) rest g with
          | none => rw [hu] at h; cases h
          | some x =>
            obtain ⟨init', r⟩ := x
            rw [hu] at h; simp only [Option.some.injEq, Prod.mk.injEq] at h
            obtain ⟨rfl, rfl⟩ := h
            have : init' = init := NodeList.updateRev_id g rest init _ init' r hu (by
              intro c c' hc hcu
              obtain ⟨p, e', hdc⟩ := pre_getRev_done hpre hc
              exact updateAt_done_id hg rest hdc hcu)
            rw [this]; exact Inv.arrOpened hh hlen hpre hcomp hl
      · rw [if_neg hi] at h; cases h
  | .val i :: rest, pos, n, n', got, hinv, h => by
    cases hinv with
    | scalar hh => simp [Node.updateAt] at h
    | arrClosed hh hlen hpre => simp [Node.updateAt] at h
    | arrOpened hh hlen hpre hcomp hl => simp [Node.updateAt] at h
    | @objClosed pos len body pairs e hh hlen hpre =>
      simp only [Node.updateAt] at h
      by_cases hi : i < pairs.length
      · rw [if_pos hi] at h
        cases hu : pairs.updateRev (pairs.length - 1 - i) rest g with
        | none => rw [hu] at h; cases h
        | some x =>
          obtain ⟨ps', r⟩ := x
          rw [hu] at h; simp only [Option.some.injEq, Prod.mk.injEq] at h
          obtain ⟨rfl, rfl⟩ := h
          have : ps' = pairs := PairList.updateRev_id g rest pairs _ ps' r hu (by
            intro ko kl c c' hc hcu
            obtain ⟨p, e', hdc⟩ := preP_getRev_done hpre hc
            exact updateAt_done_id hg rest hdc hcu)
          rw [this]; exact Inv.objClosed hh hlen hpre
      · rw [if_neg hi] at h; cases h
    | @objOpened pos len body init s0 ko0 kl0 ke0 last hh hlen hpre hk0 hcomp hl =>
      simp only [Node.updateAt] at h
      by_cases hi : i < (PairList.snoc init ko0 kl0 last).length
      · rw [if_pos hi] at h
        simp only [PairList.length] at hi h
        by_cases hlast : i = init.length
        · rw [show init.length + 1 - 1 - i = 0 by omega] at h
          simp only [PairList.updateRev] at h
          cases hu : last.updateAt rest g with
          | none => rw [hu] at h; cases h
          | some x =>
            obtain ⟨last', r⟩ := x
            rw [hu] at h; simp only [Option.some.injEq, Prod.mk.injEq] at h
            obtain ⟨rfl, rfl⟩ := h
            have hl' := updateAt_inv hg rest hl hu
            have hext := (updateAt_spec g hg.ext rest last last' r hu).1
            exact Inv.objOpened hh hlen hpre hk0 (by rw [shape_comp hext.shape]; exact hcomp) hl'
        · rw [show init.length + 1 - 1 - i = (init.length - 1 - i) + 1 by omega] at h
          simp only [PairList.updateRev] at h
          cases hu : init.updateRev (init.length - 1 - i) rest g with
          | none => rw [hu] at h; cases h
          | some x =>
            obtain ⟨init', r⟩ := x
            rw [hu] at h; simp only [Option.some.injEq, Prod.mk.injEq] at h
            obtain ⟨rfl, rfl⟩ := h
            have : init' = init := PairList.updateRev_id g rest init _ init' r hu (by
              intro ko kl c c' hc hcu
              obtain ⟨p, e', hdc⟩ := preP_getRev_done hpre hc
              exact updateAt_done_id hg rest hdc hcu)
            rw [this]; exact Inv.objOpened hh hlen hpre hk0 hcomp hl
      · rw [if_neg hi] at h; cases h

end SfVerif
