import SfVerif.Lemmas.Write1
/-! `runAOps w v.ser` from a value position: all calls accepted, the canonical encoding appended,
    the position advanced by one value, the parent stack as before. -/
namespace SfVerif
open SfVerif.Gen

theorem runAOps_nil (w : Writer) : runAOps w [] = (w, WriteResult_Ok) := by rw [runAOps]

theorem runAOps_w_ok {w w' : Writer} {op : WOp} {x : Option Nat} {rest : List AOp}
    (h : w.step op = (w', WriteResult_Ok, x)) : runAOps w (.w op :: rest) = runAOps w' rest := by
  rw [runAOps, h]; simp

theorem runAOps_str_ok {w w' : Writer} {bs : Bytes} {rest : List AOp}
    (h : w.writeStr bs = (w', WriteResult_Ok)) : runAOps w (.str bs :: rest) = runAOps w' rest := by
  rw [runAOps, h]; simp

theorem runAOps_append : ∀ (a b : List AOp) (w w1 : Writer), runAOps w a = (w1, WriteResult_Ok) →
    runAOps w (a ++ b) = runAOps w1 b := by
  intro a
  induction a with
  | nil => intro b w w1 h; rw [runAOps_nil] at h; simp at h; subst h; rfl
  | cons op rest ih =>
    intro b w w1 h
    cases op with
    | w o =>
      rw [List.cons_append, runAOps]
      rw [runAOps] at h
      rcases hs : w.step o with ⟨w', r, x⟩
      rw [hs] at h
      simp only [] at h ⊢
      split at h
      · rename_i hr; injection h with _ h2; exact absurd h2 hr
      · rename_i hr; rw [if_neg hr]; exact ih b w' w1 h
    | str bs =>
      rw [List.cons_append, runAOps]
      rw [runAOps] at h
      rcases hs : w.writeStr bs with ⟨w', r⟩
      rw [hs] at h
      simp only [] at h ⊢
      split at h
      · rename_i hr; injection h with _ h2; exact absurd h2 hr
      · rename_i hr; rw [if_neg hr]; exact ih b w' w1 h

theorem out_append (a : Array UInt8) (x y : List UInt8) : a ++ x.toArray ++ y.toArray = a ++ (x ++ y).toArray := by
  apply Array.ext'; simp

/-- well-placed writer: expects a value, and a writer that has not started has an empty stack -/
def GoodW (w : Writer) : Prop := GoodPos w.st ∧ (w.st = .start → w.stack = [])

theorem scalar_step {w : Writer} (h : GoodPos w.st) (op : WOp) (bytes : List UInt8)
    (hop : w.step op = (match w.st.writeNonStringScalar with
      | (st, r) => if r ≠ WriteResult_Ok then ({ w with st := st }, r, none)
                   else (({ w with st := st }).appendBytes bytes, r, none))) :
    w.step op = ({ out := w.out ++ bytes.toArray, st := adv w.st, stack := w.stack }, WriteResult_Ok, none) := by
  rw [hop, nonString_ok h]
  simp [Writer.appendBytes]

mutual
theorem serOK : ∀ (v : TVal) (w : Writer), GoodW w →
    runAOps w v.ser = ({ out := w.out ++ v.enc.toArray, st := adv w.st, stack := w.stack }, WriteResult_Ok)
  | .unit, w, h => by
    rw [TVal.ser, runAOps_w_ok (scalar_step h.1 .null encNil rfl), runAOps_nil]; rfl
  | .none, w, h => by
    rw [TVal.ser, runAOps_w_ok (scalar_step h.1 .null encNil rfl), runAOps_nil]; rfl
  | .bool b, w, h => by
    rw [TVal.ser, runAOps_w_ok (scalar_step h.1 (.bool b) (encBool b) rfl), runAOps_nil]; rfl
  | .int z, w, h => by
    rw [TVal.ser, runAOps_w_ok (scalar_step h.1 (.i32 z) (encSint z) rfl), runAOps_nil]; rfl
  | .f64 x, w, h => by
    rw [TVal.ser, runAOps_w_ok (scalar_step h.1 (.f64 x) (encF64 x) rfl), runAOps_nil]; rfl
  | .str bs, w, h => by
    rw [TVal.ser, runAOps_str_ok (writeStr_out w bs _ (string_ok h.1)), runAOps_nil]; rfl
  | .chr bs, w, h => by
    rw [TVal.ser, runAOps_str_ok (writeStr_out w bs _ (string_ok h.1)), runAOps_nil]; rfl
  | .some v, w, h => by
    rw [TVal.ser, TVal.enc]; exact serOK v w h
  | .seq vs, w, h => by
    rw [TVal.ser, TVal.enc]
    exact containerArr vs w h
  | .tup vs, w, h => by
    rw [TVal.ser, TVal.enc]
    exact containerArr vs w h
  | .map ps, w, h => by
    rw [TVal.ser, TVal.enc]
    -- open the object
    have hstart := startContainer_ok h.1 (.obj ps.length 0) w.stack
    have hstep : w.step (.obj ps.length) =
        ({ out := w.out ++ (encMapLen ps.length).toArray, st := .obj ps.length 0,
           stack := pushed w.st w.stack }, WriteResult_Ok, none) := by
      simp [Writer.step, hstart, Writer.appendBytes]
    rw [runAOps_w_ok hstep]
    have hps := serPairsOK ps
      { out := w.out ++ (encMapLen ps.length).toArray, st := .obj ps.length 0,
        stack := pushed w.st w.stack } ps.length 0 rfl (by simp) (by simp)
    rw [runAOps_append _ _ _ _ hps]
    -- close it
    have hfin : Writer.step
        { out := w.out ++ (encMapLen ps.length).toArray ++ (TVal.encPairs ps).toArray,
          st := .obj ps.length (0 + 2 * ps.length),
          stack := pushed w.st w.stack } .endObj =
        ({ out := w.out ++ (encMapLen ps.length ++ TVal.encPairs ps).toArray, st := adv w.st, stack := w.stack },
          WriteResult_Ok, none) := by
      have h1 : (0 + 2 * ps.length) % 2 = 0 := by omega
      have h2 : (0 + 2 * ps.length) / 2 = ps.length := by omega
      rcases hst : w.st with _ | ⟨l, n⟩ | ⟨l, n⟩ | _
      · have := h.2 hst
        simp [Writer.step, WState.finishObject, h1, h2, WState.popOrDone, this, adv, out_append, pushed]
      · simp [Writer.step, WState.finishObject, h1, h2, WState.popOrDone, adv, out_append, pushed]
      · simp [Writer.step, WState.finishObject, h1, h2, WState.popOrDone, adv, out_append, pushed]
      · have := h.1; rw [hst] at this; exact absurd this (by simp [GoodPos])
    rw [runAOps_w_ok hfin, runAOps_nil]
theorem containerArr : ∀ (vs : List TVal) (w : Writer), GoodW w →
    runAOps w (.w (.arr vs.length) :: (TVal.serList vs ++ [.w .endArr])) =
      ({ out := w.out ++ (encArrLen vs.length ++ TVal.encList vs).toArray, st := adv w.st, stack := w.stack },
        WriteResult_Ok)
  | vs, w, h => by
    have hstart := startContainer_ok h.1 (.arr vs.length 0) w.stack
    have hstep : w.step (.arr vs.length) =
        ({ out := w.out ++ (encArrLen vs.length).toArray, st := .arr vs.length 0,
           stack := pushed w.st w.stack }, WriteResult_Ok, none) := by
      simp [Writer.step, hstart, Writer.appendBytes]
    rw [runAOps_w_ok hstep]
    have hvs := serListOK vs
      { out := w.out ++ (encArrLen vs.length).toArray, st := .arr vs.length 0,
        stack := pushed w.st w.stack } vs.length 0 rfl (by simp)
    rw [runAOps_append _ _ _ _ hvs]
    have hfin : Writer.step
        { out := w.out ++ (encArrLen vs.length).toArray ++ (TVal.encList vs).toArray,
          st := .arr vs.length (0 + vs.length),
          stack := pushed w.st w.stack } .endArr =
        ({ out := w.out ++ (encArrLen vs.length ++ TVal.encList vs).toArray, st := adv w.st, stack := w.stack },
          WriteResult_Ok, none) := by
      rcases hst : w.st with _ | ⟨l, n⟩ | ⟨l, n⟩ | _
      · have := h.2 hst
        simp [Writer.step, WState.finishArray, WState.popOrDone, this, adv, out_append, pushed]
      · simp [Writer.step, WState.finishArray, WState.popOrDone, adv, out_append, pushed]
      · simp [Writer.step, WState.finishArray, WState.popOrDone, adv, out_append, pushed]
      · have := h.1; rw [hst] at this; exact absurd this (by simp [GoodPos])
    rw [runAOps_w_ok hfin, runAOps_nil]
theorem serListOK : ∀ (vs : List TVal) (w : Writer) (l n : Nat), w.st = .arr l n → n + vs.length ≤ l →
    runAOps w (TVal.serList vs) =
      ({ out := w.out ++ (TVal.encList vs).toArray, st := .arr l (n + vs.length), stack := w.stack }, WriteResult_Ok)
  | [], w, l, n, hst, _ => by
    rw [TVal.serList, runAOps_nil, TVal.encList]; cases w; simp_all
  | v :: vs, w, l, n, hst, hle => by
    rw [TVal.serList, TVal.encList]
    have hg : GoodW w := ⟨by rw [hst]; simp [GoodPos]; simp at hle; omega, by rw [hst]; intro h; cases h⟩
    rw [runAOps_append _ _ _ _ (serOK v w hg)]
    have := serListOK vs { out := w.out ++ v.enc.toArray, st := adv w.st, stack := w.stack } l (n + 1)
      (by rw [hst]; rfl) (by simp at hle; omega)
    rw [this]
    simp only [Prod.mk.injEq, Writer.mk.injEq, and_true, out_append, List.length_cons]
    refine ⟨trivial, ?_⟩
    congr 1
    omega
theorem serPairsOK : ∀ (ps : List (Bytes × TVal)) (w : Writer) (l n : Nat), w.st = .obj l n → n % 2 = 0 →
    n / 2 + ps.length ≤ l →
    runAOps w (TVal.serPairs ps) =
      ({ out := w.out ++ (TVal.encPairs ps).toArray, st := .obj l (n + 2 * ps.length), stack := w.stack },
        WriteResult_Ok)
  | [], w, l, n, hst, _, _ => by
    rw [TVal.serPairs, runAOps_nil, TVal.encPairs]; cases w; simp_all
  | (k, v) :: ps, w, l, n, hst, hev, hle => by
    rw [TVal.serPairs, TVal.encPairs]
    -- the key
    have hk : w.st.writeString = (.obj l (n + 1), WriteResult_Ok) := by
      rw [hst]; exact key_ok hev (by simp at hle; omega)
    have hkey := writeStr_out w k _ hk
    rw [List.cons_append, runAOps_str_ok hkey]
    -- the value
    have hg : GoodW { out := w.out ++ (encStr k).toArray, st := WState.obj l (n + 1), stack := w.stack } :=
      ⟨by simp [GoodPos]; simp at hle; omega, by intro h; cases h⟩
    rw [runAOps_append _ _ _ _ (serOK v _ hg)]
    have := serPairsOK ps
      { out := w.out ++ (encStr k).toArray ++ v.enc.toArray, st := adv (WState.obj l (n + 1)), stack := w.stack }
      l (n + 2) rfl (by omega) (by simp at hle; omega)
    rw [this]
    simp only [Prod.mk.injEq, Writer.mk.injEq, and_true, out_append, List.length_cons, List.append_assoc, adv]
    refine ⟨trivial, ?_⟩
    congr 1
    omega
end

end SfVerif
