import SfVerif.Lemmas.Path2
/-! The three mutating node operations at a position the eager decoder can decode, from any
    correct partial view: answer, new view, and where the child lives — in terms of `specChild`. -/
namespace SfVerif
open SfVerif.Gen

theorem inv_arr_form {b : Bytes} {p len body : Nat} {m : Node} (hinv : Inv b p m)
    (hh : readHdr b p = some (.arr len body)) : ∃ elems e, m = .arr len elems e := by
  cases hinv <;> simp_all
theorem inv_map_form {b : Bytes} {p len body : Nat} {m : Node} (hinv : Inv b p m)
    (hh : readHdr b p = some (.map len body)) : ∃ pairs e, m = .obj len pairs e := by
  cases hinv <;> simp_all
theorem inv_scalar_form {b : Bytes} {p e : Nat} {v : Scalar} {m : Node} (hinv : Inv b p m)
    (hh : readHdr b p = some (.scalar v e)) : m = .scalar v := by
  cases hinv <;> simp_all

/-- a correct view of the value at `p` has the shape of the header at `p` -/
theorem inv_shape {b : Bytes} {p : Nat} {m : Node} {hd : Hdr} (hinv : Inv b p m) (hh : readHdr b p = some hd) :
    m.shape = (mkNode hd).shape := by
  cases hd with
  | scalar v e => rw [inv_scalar_form hinv hh]; rfl
  | arr len body => obtain ⟨es, e, rfl⟩ := inv_arr_form hinv hh; rfl
  | map len body => obtain ⟨ps, e, rfl⟩ := inv_map_form hinv hh; rfl

theorem getAtIndex_arr_ok {b : Bytes} {p len body i : Nat} {m : Node} (hg : GoodAt b p) (hinv : Inv b p m)
    (hh : readHdr b p = some (.arr len body)) (hi : i < len) :
    ∃ m' cp c, m.getAtIndex b (eagerFuel b) i = (m', .at i) ∧ Inv b p m' ∧
      specChild b p (.elem i) = some cp ∧ m'.child? (.elem i) = some c ∧ Inv b cp c := by
  obtain ⟨elems, e, rfl⟩ := inv_arr_form hinv hh
  obtain ⟨cp, hd, hcp, hhd, _⟩ := good_arr_elem hg hh hi
  obtain ⟨elems', e', hres, hinv', c, hc, hci⟩ := arrGet_ok hh (fuel_ok b body) hinv hi hcp hhd
  refine ⟨_, cp, c, by simp only [Node.getAtIndex]; exact hres, hinv', ?_, by simp only [Node.child?]; exact hc, hci⟩
  simp only [specChild, hh]; rw [if_pos hi]; exact hcp

theorem getAtIndex_obj_ok {b : Bytes} {p len body i : Nat} {m : Node} (hg : GoodAt b p) (hinv : Inv b p m)
    (hh : readHdr b p = some (.map len body)) (hi : i < len) :
    ∃ m' cp c kp kc, m.getAtIndex b (eagerFuel b) i = (m', .at i) ∧ m.getKeyAtIndex b (eagerFuel b) i = (m', .at i) ∧
      Inv b p m' ∧
      specChild b p (.val i) = some cp ∧ m'.child? (.val i) = some c ∧ Inv b cp c ∧
      specChild b p (.key i) = some kp ∧ m'.child? (.key i) = some kc ∧ Inv b kp kc := by
  obtain ⟨pairs, e, rfl⟩ := inv_map_form hinv hh
  obtain ⟨kp, ko, kl, ke, hd, hkp, hk, hhd, _⟩ := good_map_pair hg hh hi
  obtain ⟨pairs', e', hres, hinv', c, hc, hci⟩ := objGet_ok hh (fuel_ok b body) hinv hi hkp hk hhd
  have hkpos : specKeyPos b p i = some kp := by simp only [specKeyPos, hh]; rw [if_pos hi]; exact hkp
  refine ⟨_, ke, c, kp, .scalar (.str ko kl), by simp only [Node.getAtIndex]; exact hres,
    by simp only [Node.getKeyAtIndex]; exact hres, hinv', ?_, ?_, hci, ?_, ?_, Inv.scalar hk⟩
  · simp only [specChild, hkpos, hk]
  · simp only [Node.child?, hc]
  · simp only [specChild, hkpos]
  · simp only [Node.child?, hc]

theorem getAtIndex_oob {b : Bytes} {p len i : Nat} {m : Node} (hinv : Inv b p m) (f : Nat) :
    (∀ body, readHdr b p = some (.arr len body) → len ≤ i →
      m.getAtIndex b f i = (m, .err ErrorCode_IndexOutOfBounds)) ∧
    (∀ body, readHdr b p = some (.map len body) → len ≤ i →
      m.getAtIndex b f i = (m, .err ErrorCode_IndexOutOfBounds) ∧
      m.getKeyAtIndex b f i = (m, .err ErrorCode_IndexOutOfBounds)) := by
  constructor
  · intro body hh hi
    obtain ⟨elems, e, rfl⟩ := inv_arr_form hinv hh
    simp [Node.getAtIndex, arrGet, hi]
  · intro body hh hi
    obtain ⟨pairs, e, rfl⟩ := inv_map_form hinv hh
    simp [Node.getAtIndex, Node.getKeyAtIndex, objGet, hi]

/-- `specProp`'s answer is the position the eager path gives for that pair's value -/
theorem specProp_found_pos {b : Bytes} {f : Nat} {q : Bytes} : ∀ (k s idx i ke : Nat),
    specProp b f q k s idx = .found i ke →
    ∃ s' ko kl, idx ≤ i ∧ i - idx < k ∧ skipPairs b f (i - idx) s = some s' ∧
      readHdr b s' = some (.scalar (.str ko kl) ke) ∧ keyEq b ko kl q = true := by
  intro k
  induction k with
  | zero => intro s idx i ke h; rw [specProp_zero] at h; cases h
  | succ k ih =>
    intro s idx i ke h
    rw [specProp] at h
    split at h
    · rename_i ko kl ke0 hk
      split at h
      · cases h
      · by_cases hkey : keyEq b ko kl q = true
        · simp only [hkey, if_true, PropRes.found.injEq] at h
          obtain ⟨rfl, rfl⟩ := h
          exact ⟨s, ko, kl, Nat.le_refl _, by omega, by rw [Nat.sub_self, skipPairs_zero], hk, hkey⟩
        · simp only [hkey, Bool.false_eq_true, if_false] at h
          by_cases hk0 : k = 0
          · simp [hk0] at h
          · simp only [hk0, if_false] at h
            cases hs : skip b f ke0 with
            | none => rw [hs] at h; cases h
            | some e =>
              rw [hs] at h
              obtain ⟨s', ko', kl', h1, h2, h3, h4, h5⟩ := ih e (idx + 1) i ke h
              refine ⟨s', ko', kl', by omega, by omega, ?_, h4, h5⟩
              rw [show i - idx = (i - (idx + 1)) + 1 by omega, skipPairs_some hk hs]; exact h3
    · cases h

theorem getProp_ok {b : Bytes} {p len body : Nat} {m : Node} (q : Bytes) (hg : GoodAt b p) (hinv : Inv b p m)
    (hh : readHdr b p = some (.map len body)) :
    ∃ m', Inv b p m' ∧
      ((∃ i ke c, specProp b (eagerFuel b) q len body 0 = .found i ke ∧ i < len ∧
          m.getProp b (eagerFuel b) q = (m', .at i) ∧ specChild b p (.val i) = some ke ∧
          m'.child? (.val i) = some c ∧ Inv b ke c) ∨
       (specProp b (eagerFuel b) q len body 0 = .missing ∧ m.getProp b (eagerFuel b) q = (m', .missing))) := by
  obtain ⟨pairs, e, rfl⟩ := inv_map_form hinv hh
  obtain ⟨e0, he0⟩ := good_map hg hh
  have hne := good_specProp (q := q) len body 0 e0 he0
  obtain ⟨pairs', e', hinv', hcase⟩ := objProp_ok hh (fuel_ok b body) hinv hne
  refine ⟨_, hinv', ?_⟩
  rcases hcase with ⟨i, ke, hsp, hres, ko, kl, c, hc, hci⟩ | ⟨hsp, hres⟩
  · left
    obtain ⟨s', ko', kl', _, hlt, hsk, hks, _⟩ := specProp_found_pos len body 0 i ke hsp
    simp only [Nat.sub_zero] at hlt hsk
    have hkpos : specKeyPos b p i = some s' := by simp only [specKeyPos, hh]; rw [if_pos hlt]; exact hsk
    exact ⟨i, ke, c, hsp, hlt, by simp only [Node.getProp]; exact hres, by simp only [specChild, hkpos, hks],
      by simp only [Node.child?, hc], hci⟩
  · right
    exact ⟨hsp, by simp only [Node.getProp]; exact hres⟩

end SfVerif
