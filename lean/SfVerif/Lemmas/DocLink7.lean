import SfVerif.Lemmas.DocLink6
import SfVerif.Lemmas.Ctx5
/-! a handle valid in the lazily parsed tree is a path of the decoded document -/
namespace SfVerif
open SfVerif.Gen

theorem hdrDoc_arr {b : Bytes} {len body : Nat} {d : Doc} (h : HdrDoc b (.arr len body) d) :
    ∃ xs, d = .arr xs ∧ xs.length = len := by
  cases d <;> simp [HdrDoc] at h
  exact ⟨_, rfl, h⟩

theorem hdrDoc_map {b : Bytes} {len body : Nat} {d : Doc} (h : HdrDoc b (.map len body) d) :
    ∃ ps, d = .map ps ∧ ps.length = len := by
  cases d <;> simp [HdrDoc] at h
  exact ⟨_, rfl, h⟩

theorem node_child_in_doc {b : Bytes} {f pos e : Nat} {n c : Node} {d : Doc} {s : PStep}
    (hinv : Inv b pos n) (hdec : decodeAt b f pos = some (d, e)) (hks : d.keysStr = true)
    (hc : n.child? s = some c) : ∃ dc, d.child? s = some dc := by
  obtain ⟨_, _, _, hd, hh, hdoc, _, _⟩ := dec_ok b f pos d e hdec hks
  have getElem_some : ∀ {α : Type} (l : List α) (i : Nat), i < l.length → ∃ x, l[i]? = some x :=
    fun l i hi => ⟨l[i], List.getElem?_eq_getElem hi⟩
  cases n with
  | scalar v => cases s <;> simp [Node.child?] at hc
  | arr len elems ee =>
    cases s with
    | key i => simp [Node.child?] at hc
    | val i => simp [Node.child?] at hc
    | elem i =>
      simp only [Node.child?] at hc
      have hi := NodeList.get?_lt hc
      have hle : elems.length ≤ len ∧ ∃ body, readHdr b pos = some (.arr len body) := by
        cases hinv with
        | arrClosed hh' hlen _ => exact ⟨hlen, _, hh'⟩
        | arrOpened hh' hlen _ _ _ => exact ⟨by simpa [NodeList.length] using hlen, _, hh'⟩
      obtain ⟨hlen, body, hh'⟩ := hle
      rw [hh] at hh'; simp only [Option.some.injEq] at hh'; subst hh'
      obtain ⟨xs, rfl, hxl⟩ := hdrDoc_arr hdoc
      obtain ⟨x, hx⟩ := getElem_some xs i (by omega)
      exact ⟨x, by simp [Doc.child?, hx]⟩
  | obj len pairs ee =>
    have hle : pairs.length ≤ len ∧ ∃ body, readHdr b pos = some (.map len body) := by
      cases hinv with
      | objClosed hh' hlen _ => exact ⟨hlen, _, hh'⟩
      | objOpened hh' hlen _ _ _ _ => exact ⟨by simpa [PairList.length] using hlen, _, hh'⟩
    obtain ⟨hlen, body, hh'⟩ := hle
    rw [hh] at hh'; simp only [Option.some.injEq] at hh'; subst hh'
    obtain ⟨ps, rfl, hpl⟩ := hdrDoc_map hdoc
    have idx_ok : ∀ i, (pairs.get? i).isSome → ∃ kd vd, ps[i]? = some (kd, vd) := by
      intro i hsome
      obtain ⟨x, hx⟩ := Option.isSome_iff_exists.mp hsome
      have hi := PairList.get?_lt hx
      obtain ⟨y, hy⟩ := getElem_some ps i (by omega)
      exact ⟨y.1, y.2, hy⟩
    cases s with
    | elem i => simp [Node.child?] at hc
    | key i =>
      simp only [Node.child?] at hc
      cases hg : pairs.get? i with
      | none => rw [hg] at hc; cases hc
      | some x =>
        obtain ⟨kd, vd, hy⟩ := idx_ok i (by rw [hg]; rfl)
        exact ⟨kd, by simp [Doc.child?, hy]⟩
    | val i =>
      simp only [Node.child?] at hc
      cases hg : pairs.get? i with
      | none => rw [hg] at hc; cases hc
      | some x =>
        obtain ⟨kd, vd, hy⟩ := idx_ok i (by rw [hg]; rfl)
        exact ⟨vd, by simp [Doc.child?, hy]⟩

theorem node_path_in_doc {b : Bytes} : ∀ (path : Path) {f pos e : Nat} {n m : Node} {d : Doc},
    f ≤ eagerFuel b → Inv b pos n → decodeAt b f pos = some (d, e) → d.keysStr = true →
    n.getPath? path = some m → ∃ dc, d.getPath? path = some dc
  | [], _, _, _, _, _, d, _, _, _, _, _ => ⟨d, rfl⟩
  | s :: rest, f, pos, e, n, m, d, hf, hinv, hdec, hks, hp => by
    simp only [Node.getPath?] at hp
    cases hc : n.child? s with
    | none => rw [hc] at hp; cases hp
    | some c =>
      rw [hc] at hp
      obtain ⟨dc, hdc⟩ := node_child_in_doc hinv hdec hks hc
      obtain ⟨p1, hp1, hci⟩ := inv_child hinv hc
      obtain ⟨p2, f2, e2, hp2, hd2, hf2, hk2⟩ := doc_child hf hdec hks hdc
      rw [hp1] at hp2; simp only [Option.some.injEq] at hp2; subst hp2
      obtain ⟨dm, hdm⟩ := node_path_in_doc rest hf2 hci hd2 hk2 hp
      exact ⟨dm, by simp only [Doc.getPath?, hdc, hdm]⟩

/-- **a valid handle is a path of the decoded document** -/
theorem handle_in_doc {c : Ctx} {d : Doc} (hc : CInv c) (hdoc : Decodes c.input d) {h : Handle} {m : Node}
    (hm : c.nodeAt? h = some m) : ∃ dc, d.getPath? h.path = some dc := by
  unfold Ctx.nodeAt? at hm
  cases hr : c.roots[h.root]? with
  | none => rw [hr] at hm; cases hm
  | some r =>
    rw [hr] at hm
    obtain ⟨e0, h0⟩ := hdoc.at0
    exact node_path_in_doc h.path (Nat.le_refl _) (hc _ r hr) h0 hdoc.keys hm

end SfVerif
