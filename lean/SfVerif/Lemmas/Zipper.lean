import SfVerif.Spec.Grammar
import SfVerif.Lemmas.Codes
/-! Refinement of the write state machine (`state.rs`, interleaved counters, parent slot claimed
    before a child is pushed) to the grammar zipper. -/
namespace SfVerif
open SfVerif.Gen

/-- an open container's state as a grammar frame -/
def WState.frame : WState → Option Frame
  | .obj l n => some (.obj l (n / 2) (n % 2 = 1))
  | .arr l n => some (.arr l n)
  | _ => none

def framesOf : List WState → Option (List Frame)
  | [] => some []
  | s :: ss => (match s.frame, framesOf ss with
    | some f, some fs => some (f :: fs)
    | _, _ => none)

/-- a waiting key was accepted, so its pair fits -/
def WState.ok : WState → Prop
  | .obj l n => n % 2 = 1 → n / 2 < l
  | _ => True

/-- what every reachable writer satisfies -/
structure WInv (w : Writer) : Prop where
  stOk : w.st.ok
  stackOk : ∀ s ∈ w.stack, s.ok ∧ s.frame.isSome
  startEmpty : w.st = .start → w.stack = []
  doneEmpty : w.st = .done → w.stack = []

/-- the document a writer state stands for -/
def Writer.abs (w : Writer) : G :=
  match w.st with
  | .start => .empty
  | .done => .complete
  | st => (match st.frame, framesOf w.stack with
    | some f, some fs => .inside f fs
    | _, _ => .empty)

end SfVerif

namespace SfVerif
open SfVerif.Gen

theorem framesOf_some {ss : List WState} (h : ∀ s ∈ ss, s.ok ∧ s.frame.isSome) : ∃ fs, framesOf ss = some fs := by
  induction ss with
  | nil => exact ⟨[], rfl⟩
  | cons s ss ih =>
    obtain ⟨fs, hfs⟩ := ih (fun x hx => h x (List.mem_cons_of_mem _ hx))
    have := (h s (List.mem_cons_self)).2
    cases hf : s.frame with
    | none => simp [hf] at this
    | some f => exact ⟨f :: fs, by simp [framesOf, hf, hfs]⟩

/-- putting a value into the innermost open container: the state machine's answer is the
    grammar's, and the new state stands for the new frame -/
theorem put_refines (st : WState) (f : Frame) (hf : st.frame = some f) (hok : st.ok) (isStr : Bool) :
    let r := if isStr then st.writeString else st.writeNonStringScalar
    match f.put isStr with
    | .ok f' => r.2 = WriteResult_Ok ∧ r.1.frame = some f' ∧ r.1.ok
    | .error e => r = (st, e) ∧ e ≠ WriteResult_Ok := by
  cases st with
  | start => simp [WState.frame] at hf
  | done => simp [WState.frame] at hf
  | arr l n =>
    simp only [WState.frame, Option.some.injEq] at hf
    subst hf
    cases isStr <;> simp only [Frame.put, WState.writeString, WState.writeNonStringScalar, WState.arrWriteValue] <;>
      by_cases h : n ≥ l <;> simp [h, WState.frame, WState.ok]
  | obj l n =>
    simp only [WState.frame, Option.some.injEq] at hf
    subst hf
    simp only [WState.ok] at hok
    rcases Nat.mod_two_eq_zero_or_one n with h0 | h1
    · have e1 : (n + 1) % 2 = 1 := by omega
      have e2 : (n + 1) / 2 = n / 2 := by omega
      cases isStr <;> simp only [h0, Frame.put, WState.writeString, WState.writeNonStringScalar,
        WState.objWriteString, WState.objWriteNonString] <;> simp
      by_cases h : n / 2 ≥ l <;> simp [h, WState.frame, WState.ok, e1, e2]
      omega
    · have e1 : (n + 1) % 2 = 0 := by omega
      have e2 : (n + 1) / 2 = n / 2 + 1 := by omega
      have := hok h1
      have hn : ¬ (l ≤ n / 2) := by omega
      cases isStr <;> simp only [h1, Frame.put, WState.writeString, WState.writeNonStringScalar,
        WState.objWriteString, WState.objWriteNonString] <;> simp [WState.frame, WState.ok, e1, e2, hn]
end SfVerif

namespace SfVerif
open SfVerif.Gen

theorem abs_inside {w : Writer} {f : Frame} {fs : List Frame} (hf : w.st.frame = some f)
    (hfs : framesOf w.stack = some fs) : w.abs = .inside f fs := by
  unfold Writer.abs
  cases hst : w.st <;> simp [hst, WState.frame] at hf ⊢ <;> simp [hf, hfs, WState.frame]

theorem startContainer_eq (new st : WState) (stack : List WState) (f : Frame) (hf : st.frame = some f) :
    WState.startContainer new st stack =
      (if st.writeNonStringScalar.2 ≠ WriteResult_Ok then (st.writeNonStringScalar.1, stack, st.writeNonStringScalar.2)
       else (new, st.writeNonStringScalar.1 :: stack, WriteResult_Ok)) := by
  cases st <;> simp [WState.frame] at hf <;> simp only [WState.startContainer, WState.writeNonStringScalar] <;> rfl

/-- a value call (scalar or string) from inside an open container -/
theorem value_inside {w w' : Writer} (hI : WInv w) {f : Frame} {fs : List Frame} (hf : w.st.frame = some f)
    (hfs : framesOf w.stack = some fs) (isStr : Bool) (r : Nat)
    (hst : (w'.st, r) = (if isStr then w.st.writeString else w.st.writeNonStringScalar))
    (hstack : w'.stack = w.stack) :
    r = ((G.inside f fs).step (if isStr then .string else .scalar)).2 ∧
    w'.abs = ((G.inside f fs).step (if isStr then .string else .scalar)).1 ∧ WInv w' := by
  have hp := put_refines w.st f hf hI.stOk isStr
  simp only [← hst] at hp
  have hstep : (G.inside f fs).step (if isStr then .string else .scalar) =
      (match f.put isStr with
       | .ok f' => (.inside f' fs, WriteResult_Ok)
       | .error e => (.inside f fs, e)) := by
    cases isStr <;> rfl
  rw [hstep]
  cases hput : f.put isStr with
  | ok f' =>
    simp only [hput] at hp ⊢
    obtain ⟨h1, h2, h3⟩ := hp
    refine ⟨h1, abs_inside h2 (by rw [hstack]; exact hfs), ⟨h3, by rw [hstack]; exact hI.stackOk, ?_, ?_⟩⟩
    · intro h; rw [h] at h2; simp [WState.frame] at h2
    · intro h; rw [h] at h2; simp [WState.frame] at h2
  | error e =>
    simp only [hput] at hp ⊢
    obtain ⟨h1, _⟩ := hp
    simp only [Prod.mk.injEq] at h1
    refine ⟨h1.2, abs_inside (by rw [h1.1]; exact hf) (by rw [hstack]; exact hfs), ⟨by rw [h1.1]; exact hI.stOk, by rw [hstack]; exact hI.stackOk, ?_, ?_⟩⟩
    · intro h; rw [h1.1] at h; rw [h] at hf; simp [WState.frame] at hf
    · intro h; rw [h1.1] at h; rw [h] at hf; simp [WState.frame] at hf

end SfVerif

namespace SfVerif
open SfVerif.Gen

theorem step_scalar_shape (w : Writer) (op : WOp) (h : op.tok = .scalar) :
    ((w.step op).1.st, (w.step op).2.1) = w.st.writeNonStringScalar ∧ (w.step op).1.stack = w.stack := by
  cases op <;> simp [WOp.tok] at h <;> simp only [Writer.step] <;>
    (cases hp : w.st.writeNonStringScalar with | mk st r => by_cases hr : r = 0 <;> simp [hr, Writer.appendBytes])

theorem step_string_shape (w : Writer) (len : Nat) :
    ((w.step (.strAlloc len)).1.st, (w.step (.strAlloc len)).2.1) = w.st.writeString ∧
    (w.step (.strAlloc len)).1.stack = w.stack := by
  simp only [Writer.step]
  cases hp : w.st.writeString with | mk st r => by_cases hr : r = 0 <;> simp [hr, Writer.appendBytes]

theorem step_obj_shape (w : Writer) (len : Nat) :
    ((w.step (.obj len)).1.st, (w.step (.obj len)).1.stack, (w.step (.obj len)).2.1) =
      WState.startContainer (.obj len 0) w.st w.stack := by
  simp only [Writer.step]
  cases hp : WState.startContainer (.obj len 0) w.st w.stack with
  | mk st rest => obtain ⟨stack, r⟩ := rest; by_cases hr : r = 0 <;> simp [hr, Writer.appendBytes]

theorem step_arr_shape (w : Writer) (len : Nat) :
    ((w.step (.arr len)).1.st, (w.step (.arr len)).1.stack, (w.step (.arr len)).2.1) =
      WState.startContainer (.arr len 0) w.st w.stack := by
  simp only [Writer.step]
  cases hp : WState.startContainer (.arr len 0) w.st w.stack with
  | mk st rest => obtain ⟨stack, r⟩ := rest; by_cases hr : r = 0 <;> simp [hr, Writer.appendBytes]

/-- opening a container from inside an open container: the parent's slot is claimed first -/
theorem begin_inside {w w' : Writer} (hI : WInv w) {f : Frame} {fs : List Frame} (hf : w.st.frame = some f)
    (hfs : framesOf w.stack = some fs) (new : WState) (nf : Frame) (hnew : new.frame = some nf) (hnok : new.ok)
    (r : Nat) (hst : (w'.st, w'.stack, r) = WState.startContainer new w.st w.stack) :
    (match f.put false with
     | .ok f' => r = WriteResult_Ok ∧ w'.abs = .inside nf (f' :: fs)
     | .error e => r = e ∧ w'.abs = .inside f fs) ∧ WInv w' := by
  rw [startContainer_eq new w.st w.stack f hf] at hst
  have hp := put_refines w.st f hf hI.stOk false
  simp only [Bool.false_eq_true, if_false] at hp
  cases hput : f.put false with
  | ok f' =>
    simp only [hput] at hp ⊢
    obtain ⟨h1, h2, h3⟩ := hp
    simp only [h1, ne_eq, not_true_eq_false, if_false, Prod.mk.injEq] at hst
    obtain ⟨e1, e2, e3⟩ := hst
    refine ⟨⟨e3, abs_inside (by rw [e1]; exact hnew) (by rw [e2]; simp [framesOf, h2, hfs])⟩,
      ⟨by rw [e1]; exact hnok, ?_, ?_, ?_⟩⟩
    · intro s hs
      rw [e2] at hs
      rcases List.mem_cons.mp hs with rfl | hs
      · exact ⟨h3, by simp [h2]⟩
      · exact hI.stackOk s hs
    · intro h; rw [e1] at h; rw [h] at hnew; simp [WState.frame] at hnew
    · intro h; rw [e1] at h; rw [h] at hnew; simp [WState.frame] at hnew
  | error e =>
    simp only [hput] at hp ⊢
    obtain ⟨h1, h2⟩ := hp
    have h11 : w.st.writeNonStringScalar.1 = w.st := by rw [h1]
    have h12 : w.st.writeNonStringScalar.2 = e := by rw [h1]
    simp only [h11, h12, ne_eq, h2, not_false_eq_true, if_true, Prod.mk.injEq] at hst
    obtain ⟨e1, e2, e3⟩ := hst
    refine ⟨⟨e3, abs_inside (by rw [e1]; exact hf) (by rw [e2]; exact hfs)⟩,
      ⟨by rw [e1]; exact hI.stOk, by rw [e2]; exact hI.stackOk, ?_, ?_⟩⟩
    · intro h; rw [e1] at h; rw [h] at hf; simp [WState.frame] at hf
    · intro h; rw [e1] at h; rw [h] at hf; simp [WState.frame] at hf

end SfVerif

namespace SfVerif
open SfVerif.Gen

theorem pop_abs {stack : List WState} {fs : List Frame} (hs : ∀ s ∈ stack, s.ok ∧ s.frame.isSome)
    (hfs : framesOf stack = some fs) {w' : Writer} (hw : (w'.st, w'.stack) = WState.popOrDone stack) :
    w'.abs = G.close fs ∧ WInv w' := by
  cases stack with
  | nil =>
    simp only [WState.popOrDone, Prod.mk.injEq] at hw
    simp only [framesOf, Option.some.injEq] at hfs
    subst hfs
    refine ⟨by simp [Writer.abs, hw.1, G.close], ⟨by simp [hw.1, WState.ok], by simp [hw.2], fun _ => hw.2, fun _ => hw.2⟩⟩
  | cons s rest =>
    simp only [WState.popOrDone, Prod.mk.injEq] at hw
    have hsf := (hs s List.mem_cons_self)
    cases hf0 : s.frame with
    | none => rw [hf0] at hsf; simp at hsf
    | some f0 =>
      obtain ⟨fs0, hfs0⟩ := framesOf_some (fun x hx => hs x (List.mem_cons_of_mem _ hx))
      simp only [framesOf, hf0, hfs0, Option.some.injEq] at hfs
      subst hfs
      refine ⟨abs_inside (by rw [hw.1]; exact hf0) (by rw [hw.2]; exact hfs0),
        ⟨by rw [hw.1]; exact hsf.1, by rw [hw.2]; exact fun x hx => hs x (List.mem_cons_of_mem _ hx), ?_, ?_⟩⟩
      · intro h; rw [hw.1] at h; rw [h] at hf0; simp [WState.frame] at hf0
      · intro h; rw [hw.1] at h; rw [h] at hf0; simp [WState.frame] at hf0

theorem keep_inv {w w' : Writer} (hI : WInv w) (h1 : w'.st = w.st) (h2 : w'.stack = w.stack) :
    w'.abs = w.abs ∧ WInv w' := by
  refine ⟨by simp [Writer.abs, h1, h2], ⟨by rw [h1]; exact hI.stOk, by rw [h2]; exact hI.stackOk, ?_, ?_⟩⟩
  · intro h; rw [h2]; exact hI.startEmpty (by rw [← h1]; exact h)
  · intro h; rw [h2]; exact hI.doneEmpty (by rw [← h1]; exact h)

theorem endObj_inside {w w' : Writer} (hI : WInv w) {f : Frame} {fs : List Frame} (hf : w.st.frame = some f)
    (hfs : framesOf w.stack = some fs) (r : Nat)
    (hst : (w'.st, w'.stack, r) = WState.finishObject w.st w.stack) :
    r = ((G.inside f fs).step .endObj).2 ∧ w'.abs = ((G.inside f fs).step .endObj).1 ∧ WInv w' := by
  cases hws : w.st with
  | start => rw [hws] at hf; simp [WState.frame] at hf
  | done => rw [hws] at hf; simp [WState.frame] at hf
  | arr l n =>
    rw [hws] at hf hst
    simp only [WState.frame, Option.some.injEq] at hf; subst hf
    simp only [WState.finishObject, Prod.mk.injEq] at hst
    have hk := keep_inv hI (hst.1.trans hws.symm) hst.2.1
    refine ⟨by simp [G.step, hst.2.2], ?_, hk.2⟩
    rw [hk.1, abs_inside (by rw [hws]; rfl) hfs]; simp [G.step]
  | obj l n =>
    rw [hws] at hf hst
    simp only [WState.frame, Option.some.injEq] at hf; subst hf
    simp only [WState.finishObject] at hst
    by_cases hc : n % 2 ≠ 0 ∨ n / 2 ≠ l
    · simp only [hc, if_true, Prod.mk.injEq] at hst
      have hk := keep_inv hI (hst.1.trans hws.symm) hst.2.1
      have hc' : ¬ (n % 2 = 0 ∧ n / 2 = l) := by omega
      refine ⟨by simp [G.step, hc', hst.2.2], ?_, hk.2⟩
      rw [hk.1, abs_inside (by rw [hws]; rfl) hfs]; simp [G.step, hc']
    · rw [if_neg hc] at hst
      have hc' : (n % 2 = 0 ∧ n / 2 = l) := by omega
      cases hp : WState.popOrDone w.stack with
      | mk s rest =>
        rw [hp] at hst
        simp only [Prod.mk.injEq] at hst
        have := pop_abs hI.stackOk hfs (w' := w') (by rw [hp, hst.1, hst.2.1])
        exact ⟨by simp [G.step, hc', hst.2.2], by simp [G.step, hc', this.1], this.2⟩

theorem endArr_inside {w w' : Writer} (hI : WInv w) {f : Frame} {fs : List Frame} (hf : w.st.frame = some f)
    (hfs : framesOf w.stack = some fs) (r : Nat)
    (hst : (w'.st, w'.stack, r) = WState.finishArray w.st w.stack) :
    r = ((G.inside f fs).step .endArr).2 ∧ w'.abs = ((G.inside f fs).step .endArr).1 ∧ WInv w' := by
  cases hws : w.st with
  | start => rw [hws] at hf; simp [WState.frame] at hf
  | done => rw [hws] at hf; simp [WState.frame] at hf
  | obj l n =>
    rw [hws] at hf hst
    simp only [WState.frame, Option.some.injEq] at hf; subst hf
    simp only [WState.finishArray, Prod.mk.injEq] at hst
    have hk := keep_inv hI (hst.1.trans hws.symm) hst.2.1
    refine ⟨by simp [G.step, hst.2.2], ?_, hk.2⟩
    rw [hk.1, abs_inside (by rw [hws]; rfl) hfs]; simp [G.step]
  | arr l n =>
    rw [hws] at hf hst
    simp only [WState.frame, Option.some.injEq] at hf; subst hf
    simp only [WState.finishArray] at hst
    by_cases hc : n ≠ l
    · rw [if_pos hc] at hst
      simp only [Prod.mk.injEq] at hst
      have hk := keep_inv hI (hst.1.trans hws.symm) hst.2.1
      have hc' : ¬ (n = l) := hc
      refine ⟨by simp [G.step, hc', hst.2.2], ?_, hk.2⟩
      rw [hk.1, abs_inside (by rw [hws]; rfl) hfs]; simp [G.step, hc']
    · rw [if_neg hc] at hst
      have hc' : n = l := by omega
      cases hp : WState.popOrDone w.stack with
      | mk s rest =>
        rw [hp] at hst
        simp only [Prod.mk.injEq] at hst
        have := pop_abs hI.stackOk hfs (w' := w') (by rw [hp, hst.1, hst.2.1])
        exact ⟨by simp [G.step, hc', hst.2.2], by simp [G.step, hc', this.1], this.2⟩

end SfVerif

namespace SfVerif
open SfVerif.Gen

theorem winv_fresh : WInv ({} : Writer) :=
  ⟨trivial, (by intro s hs; cases hs), fun _ => rfl, fun _ => rfl⟩

/-- the state-level effect of a call on the grammar-relevant part of the writer (not the bytes) -/
theorem step_outside (w : Writer) (hI : WInv w) (op : WOp) (h : w.st = .start ∨ w.st = .done) :
    (w.step op).2.1 = (w.abs.step op.tok).2 ∧ (w.step op).1.abs = (w.abs.step op.tok).1 ∧ WInv (w.step op).1 := by
  obtain ⟨out, st, stack⟩ := w
  rcases h with h | h <;> simp only at h <;> subst h
  · have hs : stack = [] := hI.startEmpty rfl
    subst hs
    cases op <;>
      simp [Writer.step, WState.writeNonStringScalar, WState.writeString, WState.startContainer,
        WState.finishObject, WState.finishArray, Writer.appendBytes, Writer.abs, G.step, G.value, WOp.tok,
        WState.frame, framesOf] <;>
      exact ⟨by simp [WState.ok], by simp, by simp, by simp⟩
  · have hs : stack = [] := hI.doneEmpty rfl
    subst hs
    cases op <;>
      simp [Writer.step, WState.writeNonStringScalar, WState.writeString, WState.startContainer,
        WState.finishObject, WState.finishArray, Writer.appendBytes, Writer.abs, G.step, G.value, WOp.tok] <;>
      exact ⟨by simp [WState.ok], by simp, by simp, by simp⟩

/-- **refinement, one call**: from every reachable writer state and for every operation, the
    status is the grammar's, the new state stands for the grammar's new document, and the
    reachability invariant is kept -/
theorem step_refines (w : Writer) (hI : WInv w) (op : WOp) :
    (w.step op).2.1 = (w.abs.step op.tok).2 ∧ (w.step op).1.abs = (w.abs.step op.tok).1 ∧ WInv (w.step op).1 := by
  cases hf : w.st.frame with
  | none =>
    apply step_outside w hI op
    cases hws : w.st <;> simp [hws, WState.frame] at hf ⊢
  | some f =>
    obtain ⟨fs, hfs⟩ := framesOf_some hI.stackOk
    rw [abs_inside hf hfs]
    cases op with
    | bool v => exact value_inside hI hf hfs false _ (step_scalar_shape w (.bool v) rfl).1 (step_scalar_shape w (.bool v) rfl).2
    | null => exact value_inside hI hf hfs false _ (step_scalar_shape w .null rfl).1 (step_scalar_shape w .null rfl).2
    | i32 z => exact value_inside hI hf hfs false _ (step_scalar_shape w (.i32 z) rfl).1 (step_scalar_shape w (.i32 z) rfl).2
    | f64 b => exact value_inside hI hf hfs false _ (step_scalar_shape w (.f64 b) rfl).1 (step_scalar_shape w (.f64 b) rfl).2
    | strAlloc len => exact value_inside hI hf hfs true _ (step_string_shape w len).1 (step_string_shape w len).2
    | obj len =>
      have := begin_inside hI hf hfs (.obj len 0) (.obj len 0 false) (by simp [WState.frame]) (by simp [WState.ok]) _ (step_obj_shape w len)
      simp only [WOp.tok, G.step]
      cases hput : f.put false with
      | ok f' => simp only [hput] at this ⊢; exact ⟨this.1.1, this.1.2, this.2⟩
      | error e => simp only [hput] at this ⊢; exact ⟨this.1.1, this.1.2, this.2⟩
    | arr len =>
      have := begin_inside hI hf hfs (.arr len 0) (.arr len 0) (by simp [WState.frame]) (by simp [WState.ok]) _ (step_arr_shape w len)
      simp only [WOp.tok, G.step]
      cases hput : f.put false with
      | ok f' => simp only [hput] at this ⊢; exact ⟨this.1.1, this.1.2, this.2⟩
      | error e => simp only [hput] at this ⊢; exact ⟨this.1.1, this.1.2, this.2⟩
    | endObj => exact endObj_inside hI hf hfs _ (by simp only [Writer.step])
    | endArr => exact endArr_inside hI hf hfs _ (by simp only [Writer.step])

/-- statuses of a whole call sequence and the writer afterwards -/
def Writer.run (w : Writer) : List WOp → List Nat × Writer
  | [] => ([], w)
  | op :: ops => let r := w.step op; let (rs, wf) := r.1.run ops; (r.2.1 :: rs, wf)

/-- **refinement, every history**: any finite call sequence from any reachable state -/
theorem run_refines : ∀ (ops : List WOp) (w : Writer), WInv w →
    (w.run ops).1 = (w.abs.run (ops.map WOp.tok)).1 ∧ (w.run ops).2.abs = (w.abs.run (ops.map WOp.tok)).2 ∧
    WInv (w.run ops).2
  | [], w, hI => ⟨rfl, rfl, hI⟩
  | op :: ops, w, hI => by
    obtain ⟨h1, h2, h3⟩ := step_refines w hI op
    obtain ⟨g1, g2, g3⟩ := run_refines ops (w.step op).1 h3
    simp only [Writer.run, List.map_cons, G.run]
    rw [h2] at g1 g2
    cases hg : w.abs.step op.tok with
    | mk g' r' =>
      rw [hg] at h1 g1 g2
      simp only at h1 g1 g2 ⊢
      exact ⟨by rw [h1, g1], g2, g3⟩

end SfVerif
